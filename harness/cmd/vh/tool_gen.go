package main

import (
	"flag"
	"fmt"
	"os"
	"path/filepath"
	"sort"
	"strings"

	"github.com/martian-lang/martian/martian/syntax"
	"verif/harness/internal/pgen"
)

// compileProgram writes the program's files under dir and compiles main.mro
// with the real compiler.
func compileProgram(p *pgen.Program, dir string) (ast *syntax.Ast, src string, err error) {
	// martian's compiler has no recover(): a panic in it must not end the
	// campaign of a property that is not about the compiler (C08 reports
	// compiler crashes from child processes).
	defer func() {
		if r := recover(); r != nil {
			err = fmt.Errorf("COMPILER PANIC: %v", r)
		}
	}()
	files := p.Print()
	for name, text := range files {
		fp := filepath.Join(dir, name)
		os.MkdirAll(filepath.Dir(fp), 0755)
		if err := os.WriteFile(fp, []byte(text), 0644); err != nil {
			return nil, "", err
		}
	}
	mainPath := filepath.Join(dir, "main.mro")
	src, _, ast, err = syntax.ParseSourceBytes([]byte(files["main.mro"]), mainPath, []string{dir}, false)
	if err == nil && ast != nil && ast.Call != nil {
		// mrp / mro check also resolve the static call graph.
		if _, gerr := ast.MakeCallGraph("ID.psid.", ast.Call); gerr != nil {
			return ast, src, fmt.Errorf("call graph: %v", gerr)
		}
	}
	return ast, src, err
}

func init() {
	tools["gen"] = func(args []string) {
		fs := flag.NewFlagSet("gen", flag.ExitOnError)
		seed := fs.Int64("seed", 1, "")
		n := fs.Int("n", 1, "")
		show := fs.Bool("show", false, "")
		nested := fs.Bool("nested", false, "")
		multi := fs.Bool("multi", false, "")
		fs.Parse(args)
		cfg := pgen.DefaultConfig()
		cfg.AllowNestedDynamic = *nested
		cfg.MultiFile = *multi
		ok := 0
		errs := map[string]int{}
		classes := map[string]int{}
		for i := 0; i < *n; i++ {
			p := pgen.Generate(*seed+int64(i), cfg)
			dir, _ := os.MkdirTemp("", "vgen")
			_, _, err := compileProgram(p, dir)
			if *show {
				files := p.Print()
				for _, k := range pgen.SortedKeys(files) {
					fmt.Printf("==== %s\n%s", k, files[k])
				}
			}
			os.RemoveAll(dir)
			if err != nil {
				msg := err.Error()
				if *show || *n <= 3 {
					fmt.Println("ERR:", msg)
				}
				// normalise
				msg = strings.Split(msg, "\n")[0]
				if len(msg) > 90 {
					msg = msg[:90]
				}
				errs[fmt.Sprintf("seed %d: %s", *seed+int64(i), msg)]++
			} else {
				ok++
				for _, c := range p.ShapeClasses() {
					classes[c]++
				}
			}
		}
		fmt.Printf("accepted %d/%d\n", ok, *n)
		var ks []string
		for k := range errs {
			ks = append(ks, k)
		}
		sort.Strings(ks)
		for i, k := range ks {
			if i > 40 {
				break
			}
			fmt.Println("  ", k)
		}
		fmt.Println(classes)
	}
}
