package main

// C18 helpers: recorder tools, real-shell runner, character classes,
// delta-debugging minimiser and hostile string generators.

import (
	"bytes"
	"encoding/json"
	"fmt"
	"io"
	"math/rand"
	"os"
	"os/exec"
	"path/filepath"
	"sort"
	"strings"
	"syscall"
	"time"
	"unicode/utf8"
)

const (
	c18OutMark = "C18-RECORDER-STDOUT\n"
	c18ErrMark = "C18-RECORDER-STDERR\n"
)

// c18Record is what the recorder process observed.  All strings are []byte
// so that encoding/json (base64) keeps arbitrary bytes intact.
type c18Record struct {
	Argv0 []byte   `json:"argv0"`
	Args  [][]byte `json:"args"`
	Env   [][]byte `json:"env"`
	Cwd   []byte   `json:"cwd"`
}

func c18MakeRecord(args []string) *c18Record {
	rec := &c18Record{Argv0: []byte(os.Args[0]), Args: [][]byte{}, Env: [][]byte{}}
	for _, a := range args {
		rec.Args = append(rec.Args, []byte(a))
	}
	for _, e := range os.Environ() {
		rec.Env = append(rec.Env, []byte(e))
	}
	// physical working directory, independent of $PWD
	if wd, err := syscall.Getwd(); err == nil {
		rec.Cwd = []byte(wd)
	}
	return rec
}

func c18WriteRecord(out string, rec *c18Record) {
	b, _ := json.Marshal(rec)
	tmp := out + ".tmp"
	if err := os.WriteFile(tmp, b, 0644); err == nil {
		os.Rename(tmp, out)
	}
}

func init() {
	// vh __c18rec <outfile> [args...]: dump argv, environment and cwd.
	tools["__c18rec"] = func(args []string) {
		if len(args) < 1 {
			os.Exit(3)
		}
		os.Stdout.WriteString(c18OutMark)
		os.Stderr.WriteString(c18ErrMark)
		c18WriteRecord(args[0], c18MakeRecord(args[1:]))
		os.Exit(0)
	}
	// vh __c18stage <sidedir> <split|main|join> <metadata> <files> <journal>:
	// a martian `src comp` stage with no inputs and outputs, which records
	// what it was given.
	tools["__c18stage"] = func(args []string) {
		if len(args) < 1 {
			os.Exit(3)
		}
		rec := c18MakeRecord(args[1:])
		c18WriteRecord(filepath.Join(args[0], fmt.Sprintf("stage-%d-%d.json", os.Getpid(), time.Now().UnixNano())), rec)
		if len(args) >= 3 {
			os.WriteFile(filepath.Join(args[2], "_outs"), []byte("{}"), 0644)
		}
		os.Exit(0)
	}
}

// ---------------------------------------------------------------- shells

type c18Shell struct {
	Name   string
	Path   string
	Locale string
}

func c18Shells(thorough bool) []c18Shell {
	var out []c18Shell
	if p, err := exec.LookPath("dash"); err == nil {
		out = append(out, c18Shell{"dash", p, "C"})
	} else if p, err := exec.LookPath("sh"); err == nil {
		out = append(out, c18Shell{"sh", p, "C"})
	}
	if p, err := exec.LookPath("bash"); err == nil {
		out = append(out, c18Shell{"bash", p, "C"})
		if thorough {
			out = append(out, c18Shell{"bash-utf8", p, "C.UTF-8"})
		}
	}
	return out
}

// Variables which would be expanded if a `$` survived unescaped.
var c18BaseEnv = []string{
	"PATH=/usr/local/bin:/usr/bin:/bin",
	"HOME=/c18-home-was-expanded",
	"a=C18-EXPANDED-a", "b=C18-EXPANDED-b", "ab=C18-EXPANDED-ab", "x=C18-EXPANDED-x",
	"X=C18-EXPANDED-X", "CANARY=C18-EXPANDED-CANARY",
}

type c18Run struct {
	Stdout, Stderr []byte
	Exit           int
	TimedOut       bool
	StartErr       string
}

// c18RunShell evaluates script with a real shell, either as `shell file` or
// on the shell's standard input (the way mrp hands it to the submit
// command).  It returns once every process started by the script has
// exited (all of them inherit the write end of a pipe on fd 3).
func c18RunShell(sh c18Shell, script []byte, viaStdin bool, dir string, extraEnv []string,
	scratch string, timeout time.Duration) c18Run {
	var res c18Run
	so, err1 := os.CreateTemp(scratch, "so")
	se, err2 := os.CreateTemp(scratch, "se")
	if err1 != nil || err2 != nil {
		res.StartErr = fmt.Sprint("tempfile: ", err1, err2)
		return res
	}
	defer func() {
		so.Close()
		se.Close()
		os.Remove(so.Name())
		os.Remove(se.Name())
	}()
	var cmd *exec.Cmd
	scriptPath := ""
	if viaStdin {
		cmd = exec.Command(sh.Path)
		cmd.Stdin = bytes.NewReader(script)
	} else {
		sf, err := os.CreateTemp(scratch, "script")
		if err != nil {
			res.StartErr = err.Error()
			return res
		}
		sf.Write(script)
		sf.Close()
		scriptPath = sf.Name()
		defer os.Remove(scriptPath)
		cmd = exec.Command(sh.Path, scriptPath)
	}
	r, w, err := os.Pipe()
	if err != nil {
		res.StartErr = err.Error()
		return res
	}
	cmd.Dir = dir
	cmd.Env = append(append([]string{}, c18BaseEnv...), "LC_ALL="+sh.Locale)
	cmd.Env = append(cmd.Env, extraEnv...)
	cmd.Stdout = so
	cmd.Stderr = se
	cmd.ExtraFiles = []*os.File{w}
	cmd.SysProcAttr = &syscall.SysProcAttr{Setpgid: true}
	if err := cmd.Start(); err != nil {
		r.Close()
		w.Close()
		res.StartErr = err.Error()
		return res
	}
	w.Close()
	done := make(chan struct{})
	go func() {
		cmd.Wait()
		io.Copy(io.Discard, r)
		close(done)
	}()
	select {
	case <-done:
	case <-time.After(timeout):
		res.TimedOut = true
		syscall.Kill(-cmd.Process.Pid, syscall.SIGKILL)
		select {
		case <-done:
		case <-time.After(10 * time.Second):
		}
	}
	r.Close()
	if cmd.ProcessState != nil {
		res.Exit = cmd.ProcessState.ExitCode()
	} else {
		res.Exit = -1
	}
	res.Stdout, _ = os.ReadFile(so.Name())
	res.Stderr, _ = os.ReadFile(se.Name())
	return res
}

// ------------------------------------------------- canary working directory

var c18CwdFiles = []string{"KEEP", "a", "ab", "b"}

func c18PrepareCwd(dir string) {
	os.RemoveAll(dir)
	os.MkdirAll(dir, 0755)
	for _, f := range c18CwdFiles {
		os.WriteFile(filepath.Join(dir, f), []byte("keep\n"), 0644)
	}
}

// c18CwdDelta returns "" when dir still holds exactly the prepared files.
func c18CwdDelta(dir string) string {
	ents, err := os.ReadDir(dir)
	if err != nil {
		return "working directory unreadable: " + err.Error()
	}
	have := map[string]bool{}
	for _, e := range ents {
		have[e.Name()] = true
	}
	var d []string
	for _, f := range c18CwdFiles {
		if !have[f] {
			d = append(d, "removed:"+f)
		}
		delete(have, f)
	}
	for f := range have {
		d = append(d, "created:"+f)
	}
	sort.Strings(d)
	return strings.Join(d, ",")
}

// c18Tree lists everything below root (relative names, directories with a
// trailing slash), sorted.
func c18Tree(root string) []string {
	var out []string
	filepath.Walk(root, func(p string, info os.FileInfo, err error) error {
		if err != nil || p == root {
			return nil
		}
		rel := p[len(root)+1:]
		if info.IsDir() {
			rel += "/"
		}
		out = append(out, rel)
		return nil
	})
	sort.Strings(out)
	return out
}

func c18DiffSets(want, have []string) string {
	w := map[string]bool{}
	for _, x := range want {
		w[x] = true
	}
	var d []string
	for _, x := range have {
		if !w[x] {
			d = append(d, fmt.Sprintf("unexpected %q", x))
		}
		delete(w, x)
	}
	for x := range w {
		d = append(d, fmt.Sprintf("missing %q", x))
	}
	sort.Strings(d)
	return strings.Join(d, "; ")
}

// --------------------------------------------------------- units and classes

var c18Specials = []string{" ", "\t", "\n", "'", "\"", "\\", "$", "`", "!", "*", "?", "[", "]", "{", "}",
	"(", ")", "<", ">", "|", "&", ";", "#", "~", "=", "%", "^", ",", ".", ":", "@", "+", "-"}

var c18ClassNames = map[byte]string{
	' ': "space", '\t': "tab", '\n': "newline", '\r': "cr", '\'': "squote", '"': "dquote", '\\': "backslash",
	'$': "dollar", '`': "backtick", '!': "bang", '*': "star", '?': "qmark", '[': "lbracket", ']': "rbracket",
	'{': "lbrace", '}': "rbrace", '(': "lparen", ')': "rparen", '<': "lt", '>': "gt", '|': "pipe", '&': "amp",
	';': "semicolon", '#': "hash", '~': "tilde", '=': "equals", '%': "percent", '^': "caret", ',': "comma",
	'.': "dot", ':': "colon", '@': "at", '+': "plus", '-': "minus", '/': "slash", '_': "underscore", 0x7f: "del",
}

// A unit is one valid rune or one byte which is not part of a valid rune.
type c18Unit struct {
	Field int
	S     string
}

func c18Units(field int, s string) []c18Unit {
	var out []c18Unit
	for len(s) > 0 {
		_, w := utf8.DecodeRuneInString(s)
		out = append(out, c18Unit{field, s[:w]})
		s = s[w:]
	}
	return out
}

func c18Class(u string) string {
	if len(u) == 1 {
		b := u[0]
		if b >= 0x80 {
			return "invalid-utf8"
		}
		if n, ok := c18ClassNames[b]; ok {
			return n
		}
		if b < 0x20 {
			return fmt.Sprintf("ctrl-%02x", b)
		}
		return "alnum"
	}
	return fmt.Sprintf("utf8-%dbyte", len(u))
}

func c18Trivial(s string) bool {
	for _, u := range c18Units(0, s) {
		if c18Class(u.S) != "alnum" {
			return false
		}
	}
	return true
}

func c18JoinFields(n int, units []c18Unit) []string {
	bufs := make([]strings.Builder, n)
	for _, u := range units {
		bufs[u.Field].WriteString(u.S)
	}
	out := make([]string, n)
	for i := range bufs {
		out[i] = bufs[i].String()
	}
	return out
}

// c18Minimize is complement-removing delta debugging: it returns a subset of
// units which still fails and from which no single unit can be removed.
func c18Minimize(units []c18Unit, fails func([]c18Unit) bool) []c18Unit {
	if fails(nil) {
		return nil
	}
	n := 2
	for len(units) >= 2 {
		chunk := (len(units) + n - 1) / n
		reduced := false
		for start := 0; start < len(units); start += chunk {
			end := start + chunk
			if end > len(units) {
				end = len(units)
			}
			cand := append(append([]c18Unit{}, units[:start]...), units[end:]...)
			if fails(cand) {
				units = cand
				if n > 2 {
					n--
				}
				reduced = true
				break
			}
		}
		if !reduced {
			if chunk == 1 {
				break
			}
			n *= 2
			if n > len(units) {
				n = len(units)
			}
		}
	}
	return units
}

// --------------------------------------------------------------- generators

var c18Payloads = []string{
	"$(touch CANARY)", "`touch CANARY`", "; touch CANARY ;", "\ntouch CANARY\n", "\" ; touch CANARY ; \"",
	"' ; touch CANARY ; '", "$(rm KEEP)", "`rm KEEP`", "| touch CANARY", "& touch CANARY &", "> CANARY", "< KEEP",
	">> CANARY", "$a", "${a}", "$ab", "${HOME}", "$HOME", "$CANARY", "~", "~root", "~/x", "*", "?", "[ab]", "a*", "{a,b}",
	"$((1+1))", "$$", "$?", "$0", "$1", "$@", "$*", "$#", "$-", "$!", "$_", "\\", "\\\\", "\\n", "\\\n", "\\$a", "\\`",
	"\\\"", "\\'", "!!", "!$", "!-1", "#", " # x", "", " ", "  ", "\t", "-n", "-e", "--", "a=b", "=", "%s", "%d", "%%",
	"\\c", "\\0", "\\377", "\\x41", "'", "''", "\"", "\"\"", "'\"'", "\"'\"", "$'\\n'", "$\"x\"", "a\tb", "a\nb", "a\r\nb",
	"\r", "\n", "\n\n", "line1\nline2\n", "\n#", "\n\"", "if", "then", "done", "{", "}", "(", ")", "((", "[[", "]]",
	"<<EOF", "<<<x", ">&2", "2>&1", "&&", "||", ";;", "|&", "\x01", "\x7f", "\x1b[31m", "\a", "\b", "\f", "\v",
	"a b", " a", "a ", "a  b", "$(", "${", "`", "``", "$(echo x)", "`echo x`", "$(echo `echo x`)", "\\$(touch CANARY)",
	"\\`touch CANARY\\`", "\"$(touch CANARY)\"", "'$(touch CANARY)'", "\\\\`touch CANARY`", "\u00e9", "e\u0301", "\u4e2d\u6587",
	"\U0001F600", "\U0001F468\u200d\U0001F469\u200d\U0001F467", "\u202eabc", "\u05d0\u05d1", "\u0627\u0644", "\ufeff",
	"\ufffd", "\u00a0", "\u2028", "\u0085", "\u3000", "\U0010FFFF", "__MRO_CMD__", "__MRO_STDOUT__", "__MRO_JOB_WORKDIR__",
}

var c18UniRanges = [][2]rune{
	{0x80, 0xFF}, {0x100, 0x24F}, {0x300, 0x36F}, {0x370, 0x3FF}, {0x400, 0x4FF}, {0x590, 0x5FF}, {0x600, 0x6FF},
	{0x200B, 0x200F}, {0x202A, 0x202E}, {0x2028, 0x2029}, {0x2060, 0x206F}, {0x3000, 0x303F}, {0x4E00, 0x9FFF},
	{0xAC00, 0xD7A3}, {0xE000, 0xF8FF}, {0xFE00, 0xFE0F}, {0xFEFF, 0xFEFF}, {0xFFF0, 0xFFFD}, {0x1F300, 0x1FAFF},
	{0x1F1E6, 0x1F1FF}, {0xE0001, 0xE007F}, {0x10FFFE, 0x10FFFF}, {0x85, 0x85}, {0xA0, 0xA0}, {0x80, 0x10FFFF},
}

var c18InvalidFragments = []string{"\x80", "\xbf", "\xc0\xaf", "\xc3", "\xe2\x82", "\xf0\x9f\x98", "\xed\xa0\x80",
	"\xf4\x90\x80\x80", "\xff", "\xfe", "\xc3\x28", "\xa0\xa1", "\xf8\x88\x80\x80\x80"}

func c18RandRune(r *rand.Rand) rune {
	for {
		rg := c18UniRanges[r.Intn(len(c18UniRanges))]
		x := rg[0] + rune(r.Int63n(int64(rg[1]-rg[0])+1))
		if x >= 0xD800 && x <= 0xDFFF {
			continue
		}
		if utf8.ValidRune(x) {
			return x
		}
	}
}

// c18RandString returns a string of up to maxUnits units without NUL.
// pSpecial is the per-unit probability (in percent) of a shell-special
// character.
func c18RandString(r *rand.Rand, maxUnits int, pSpecial int, invalid bool) string {
	n := r.Intn(maxUnits + 1)
	var sb strings.Builder
	for i := 0; i < n; i++ {
		k := r.Intn(100)
		switch {
		case invalid && r.Intn(4) == 0:
			if r.Intn(2) == 0 {
				sb.WriteString(c18InvalidFragments[r.Intn(len(c18InvalidFragments))])
			} else {
				sb.WriteByte(byte(0x80 + r.Intn(0x80)))
			}
		case k < pSpecial:
			sb.WriteString(c18Specials[r.Intn(len(c18Specials))])
		case k < pSpecial+20:
			sb.WriteByte("abcXYZ019_"[r.Intn(10)])
		case k < pSpecial+28:
			sb.WriteByte(byte(1 + r.Intn(127)))
		default:
			sb.WriteRune(c18RandRune(r))
		}
	}
	return sb.String()
}

// c18PathComp turns a hostile string into one usable as a single path
// component (no '/', not "." or "..", not empty, at most 200 bytes).
func c18PathComp(prefix, s string) string {
	s = strings.Replace(s, "/", "", -1)
	for len(s) > 200 {
		_, w := utf8.DecodeLastRuneInString(s)
		s = s[:len(s)-w]
	}
	return prefix + s
}

func c18B64List(ss []string) [][]byte {
	out := make([][]byte, len(ss))
	for i, s := range ss {
		out[i] = []byte(s)
	}
	return out
}

func c18Q(s string) string {
	if len(s) > 120 {
		return fmt.Sprintf("%q...(%d bytes)", s[:120], len(s))
	}
	return fmt.Sprintf("%q", s)
}

func c18SigClasses(classes map[string]bool) string {
	var l []string
	for k := range classes {
		l = append(l, k)
	}
	sort.Strings(l)
	return strings.Join(l, "+")
}
