package main

import (
	"encoding/json"
	"fmt"
	"math"
	"math/rand"
	"os"
	"path/filepath"
	"regexp"
	"runtime"
	"sort"
	"strings"
	"time"

	"github.com/martian-lang/martian/martian/syntax"
	"verif/harness/internal/pgen"
	"verif/harness/internal/vf"
)

// C08: parser/compiler totality.

type c08Result struct {
	Err     string `json:"err,omitempty"`
	HasTree bool   `json:"tree"`
	FmtErr  string `json:"fmt_err,omitempty"`
	FmtOK   bool   `json:"fmt_ok"`
	Alloc   uint64 `json:"alloc"`
	Ns      int64  `json:"ns"`
}

// labelFamily: the input family of a label ("mutant:swap@12" -> "mutant").
func labelFamily(l string) string {
	if rest, ok := strings.CutPrefix(l, "scaling:"); ok {
		return "scaling:" + rest // the scaling family by name
	}
	if i := strings.IndexAny(l, ":@ ("); i > 0 {
		return l[:i]
	}
	return l
}

func init() {
	// input: 1 byte kind ('s' source, 'e' expression) + text
	vf.RegisterWorker("c08", func(in []byte) interface{} {
		kind, text := in[0], in[1:]
		var r c08Result
		var ms0, ms1 runtime.MemStats
		runtime.ReadMemStats(&ms0)
		t0 := time.Now()
		if kind == 'm' {
			// several files: JSON {"main": name, "files": {name: text}} written to a
			// scratch directory which is also the MROPATH, so @include resolves
			var mf struct {
				Main  string            `json:"main"`
				Files map[string]string `json:"files"`
			}
			json.Unmarshal(text, &mf)
			dir, _ := os.MkdirTemp("", "c08m")
			defer os.RemoveAll(dir)
			for name, t := range mf.Files {
				fp := filepath.Join(dir, name)
				os.MkdirAll(filepath.Dir(fp), 0755)
				os.WriteFile(fp, []byte(t), 0644)
			}
			mainPath := filepath.Join(dir, mf.Main)
			_, _, ast, err := syntax.ParseSourceBytes([]byte(mf.Files[mf.Main]), mainPath, []string{dir}, false)
			if err != nil {
				r.Err = strings.ReplaceAll(err.Error(), dir, "$D")
			}
			r.HasTree = ast != nil
			if err == nil && ast != nil && ast.Call != nil {
				ast.MakeCallGraph("", ast.Call)
			}
			var p syntax.Parser
			if _, ferr := p.FormatSrcBytes([]byte(mf.Files[mf.Main]), mainPath, false, nil); ferr != nil {
				r.FmtErr = ferr.Error()
			} else {
				r.FmtOK = true
			}
			// include fixing (mro format --includes): only a crash is a verdict
			// here, its messages concern files, not source positions
			p.FormatSrcBytes([]byte(mf.Files[mf.Main]), mainPath, true, []string{dir})
		} else if kind == 'e' {
			var p syntax.Parser
			v, err := p.ParseValExp(text)
			if err != nil {
				r.Err = err.Error()
			}
			r.HasTree = v != nil
		} else {
			_, _, ast, err := syntax.ParseSourceBytes(text, "in.mro", []string{"/nonexistent-mropath"}, false)
			if err != nil {
				r.Err = err.Error()
			}
			r.HasTree = ast != nil
			if err == nil && ast != nil && ast.Call != nil {
				// mro check and mrp go on to resolve the static call graph;
				// only a crash there is a verdict (its errors concern the
				// whole graph and are not required to carry a position)
				ast.MakeCallGraph("", ast.Call)
			}
			var p syntax.Parser
			uast, uerr := p.UncheckedParse(text, "in.mro")
			if uerr == nil && uast == nil {
				r.Err = "UncheckedParse returned neither tree nor error"
				r.HasTree = false
			}
			out, ferr := syntax.FormatSrcBytes(text, "in.mro", false, nil)
			if ferr != nil {
				r.FmtErr = ferr.Error()
			} else {
				r.FmtOK = out != "" || len(text) == 0
			}
		}
		r.Ns = time.Since(t0).Nanoseconds()
		runtime.ReadMemStats(&ms1)
		r.Alloc = ms1.TotalAlloc - ms0.TotalAlloc
		return &r
	})
}

var c08CallGraphShapes = []string{
	// a map-typed struct member projected through a pipeline input that is
	// split over a typed map literal (its merged type would be map<map<int>>)
	`struct S1(
    map<int> f2,
)

stage ST3(
    in  map<int> xi,
    out bool special,
    src comp "/bin/true",
)

pipeline PL13(
    in  S1 eta,
    out bool nu,
)
{
    call ST3(
        xi = self.eta.f2,
    )

    return (
        nu = ST3.special,
    )
}

pipeline PL14(
    out map<bool> o,
)
{
    map call PL13(
        eta = split {"a": null},
    )

    return (
        o = PL13.nu,
    )
}

call PL14()
`,
}

func init() {
	c08CallGraphShapes = append(c08CallGraphShapes,
		// nested map calls where one element of the outer literal is null
		`stage S(
    in  int x,
    out int o,
    src comp "/bin/true",
)

pipeline INNER(
    in  int[] sigma,
    out int[] o,
)
{
    map call S(
        x = split self.sigma,
    )

    return (
        o = S.o,
    )
}

pipeline TOP(
    out int[][] o,
)
{
    map call INNER(
        sigma = split [[1], [2], null],
    )

    return (
        o = INNER.o,
    )
}

call TOP()
`)
}

var posRe = regexp.MustCompile(`[^\s:]+:\d+|line \d+`)

var hostileTokens = []string{
	"9223372036854775807", "9223372036854775808", "9999999999999999999", "-9223372036854775808",
	"-9223372036854775809", "99999999999999999999999999", "1e999", "-1e999", "1e-999", "1e39", "3.5e38",
	"1.5e300", "00", "-0", "0.0", "1.", ".5", "1e", "1:e5", "1:5", "1:", "-", "--1", "1e+5", "1E5", "1e5", "0.3",
	"1e308", "1.7976931348623159e308", "4.9e-324", "1_000", "0x10", "1e0000000000000000001",
	`"\0"`, `"\11"`, `"a\1"`, `"\7x"`, `"\777"`, `"\400"`, `"\08"`, `"\x4"`, `"\u123"`,
	`""`, `"\""`, `"\\"`, `"\u0000"`, `"\uD800"`, `"\q"`, `"\x41"`, `"abc`, "\"a\nb\"", `"\u12"`, `"\`, `"\u"`,
	`" "`, `"  x  "`, `"a b c"`, `"\t"`, `"é"`, "\"\xff\"", `"` + strings.Repeat("A", 300) + `"`,
	"as", "in", "out", "src", "map", "self", "call", "return", "stage", "pipeline", "struct", "filetype",
	"split", "using", "retain", "true", "false", "null", "default", "local", "preflight", "volatile",
	"disabled", "threads", "mem_gb", "memgb", "vmem_gb", "special", "strict", "py", "exec", "comp", "int", "float",
	"string", "bool", "path", "file", "@include", "@", "#", "# comment\n", "*", "=", ",", ".", ":", ";", "<", ">",
	"(", ")", "[", "]", "{", "}", "[]", "{}", "()", "\x00", "\xff\xfe", " ", " ", "\v", "\r", "\r\n",
	"_", "__x", "x.y.z", "x..y", "X", "9x", "x-y",
}

// stringEscapes: every escape form of the string grammar, complete, cut short and out of range.
var stringEscapes = []string{`\0`, `\1`, `\7`, `\00`, `\11`, `\77`, `\000`, `\101`, `\377`, `\400`, `\777`, `\08`, `\8`, `\9`,
	`\x`, `\x4`, `\x41`, `\xzz`, `\u`, `\u1`, `\u12`, `\u123`, `\u0041`, `\uD800`, `\uDFFF`, `\U`, `\U0001F600`, `\U00110000`,
	`\a`, `\b`, `\f`, `\n`, `\r`, `\t`, `\v`, `\\`, `\"`, `\'`, `\/`, `\q`, `\ `, `\`}

var tokRe = regexp.MustCompile(`"(?:[^"\\\n]|\\.)*"|[A-Za-z_][A-Za-z0-9_]*|-?[0-9][0-9a-zA-Z.+-]*|\s+|#[^\n]*|.`)

func tokenize(s string) []string { return tokRe.FindAllString(s, -1) }

func mutateSource(r *rand.Rand, base string) string {
	toks := tokenize(base)
	if len(toks) == 0 {
		return hostileTokens[r.Intn(len(hostileTokens))]
	}
	n := 1 + r.Intn(3)
	for k := 0; k < n; k++ {
		i := r.Intn(len(toks))
		// prefer non-space tokens
		for tries := 0; tries < 4 && strings.TrimSpace(toks[i]) == ""; tries++ {
			i = r.Intn(len(toks))
		}
		h := hostileTokens[r.Intn(len(hostileTokens))]
		switch r.Intn(9) {
		case 0, 1, 2:
			// same-class replacement
			t := toks[i]
			switch {
			case strings.HasPrefix(t, `"`):
				if len(t) >= 2 && strings.HasSuffix(t, `"`) && r.Intn(2) == 0 {
					// an escape sequence (complete, truncated or illegal) spliced
					// into the existing string, often right before the closing quote
					esc := stringEscapes[r.Intn(len(stringEscapes))]
					at := len(t) - 1
					if r.Intn(3) == 0 {
						at = 1 + r.Intn(len(t)-1)
					}
					toks[i] = t[:at] + esc + t[at:]
					break
				}
				strs := []string{`""`, `" "`, `"\""`, `"\\"`, `"a b"`, `"\u0000"`, "\"\xff\"", `"\q"`, `"abc`, `"é\n"`}
				toks[i] = strs[r.Intn(len(strs))]
			case len(t) > 0 && (t[0] >= '0' && t[0] <= '9' || t[0] == '-'):
				toks[i] = hostileTokens[r.Intn(33)]
			default:
				toks[i] = h
			}
		case 3:
			toks[i] = h
		case 4:
			toks = append(toks[:i], toks[i+1:]...)
			if len(toks) == 0 {
				return h
			}
		case 5:
			toks = append(toks[:i+1], append([]string{toks[i]}, toks[i+1:]...)...)
		case 6:
			toks = toks[:i+1] // truncate
		case 7:
			j := r.Intn(len(toks))
			toks[i], toks[j] = toks[j], toks[i]
		case 8:
			toks = append(toks[:i+1], append([]string{" ", h, " "}, toks[i+1:]...)...)
		}
	}
	return strings.Join(toks, "")
}

func loadRepoCorpus(repo string) []string {
	var out []string
	for _, pat := range []string{"martian/syntax/testdata/*.mro", "martian/syntax/testdata/*/*.mro", "test/*/*.mro", "test/*/*/*.mro", "martian/core/testdata/*.mro", "martian/test/*/*.mro"} {
		m, _ := filepath.Glob(filepath.Join(repo, pat))
		for _, f := range m {
			if b, err := os.ReadFile(f); err == nil && len(b) < 200000 {
				out = append(out, string(b))
			}
		}
	}
	return out
}

var c08FixedPrograms = []string{
	// a wildcard return in a pipeline without output parameters, the call to it disabled at run time
	"stage DISABLER(\n    out bool disable,\n    src comp \"nope\",\n)\n\npipeline P1(\n    out bool disable,\n)\n{\n    call DISABLER()\n\n    return (\n        * = DISABLER,\n    )\n}\n\n" +
		"pipeline P2(\n    in  bool disable,\n)\n{\n    call DISABLER() using (\n        disabled = self.disable,\n    )\n\n    return (\n        * = DISABLER,\n    )\n}\n\n" +
		"pipeline P(\n    out bool disable,\n)\n{\n    call DISABLER()\n\n    call P1() using (\n        disabled = DISABLER.disable,\n    )\n\n    call P2(\n        * = P1,\n    ) using (\n        disabled = DISABLER.disable,\n    )\n\n    return (\n        * = P1,\n    )\n}\n\ncall P()\n",
}

type scalingFamily struct {
	name string
	gen  func(n int) string
	kind byte
	div  int // base size divisor (families whose cost per element is high)
}

var scalingFamilies = []scalingFamily{
	{"nested-array-literal", func(n int) string {
		return "call X(\n x = " + strings.Repeat("[", n) + strings.Repeat("]", n) + ",\n)\n"
	}, 's', 1},
	{"nested-array-exp", func(n int) string { return strings.Repeat("[", n) + "1" + strings.Repeat("]", n) }, 'e', 1},
	{"nested-map-exp", func(n int) string { return strings.Repeat(`{"a":`, n) + "1" + strings.Repeat("}", n) }, 'e', 1},
	{"unclosed-brackets", func(n int) string { return strings.Repeat("[", n) }, 'e', 1},
	{"long-string", func(n int) string { return `"` + strings.Repeat("a\\n", n) + `"` }, 'e', 1},
	{"long-array", func(n int) string { return "[" + strings.Repeat("1,", n) + "1]" }, 'e', 1},
	{"many-comments", func(n int) string {
		return strings.Repeat("# c\n", n) + "stage A(\n in int x,\n src comp \"a\",\n)\n"
	}, 's', 1},
	{"many-params", func(n int) string {
		var sb strings.Builder
		sb.WriteString("stage A(\n")
		for i := 0; i < n; i++ {
			fmt.Fprintf(&sb, " in int p%d,\n", i)
		}
		sb.WriteString(" src comp \"a\",\n)\n")
		return sb.String()
	}, 's', 1},
	{"many-stages-and-calls", func(n int) string {
		var sb strings.Builder
		for i := 0; i < n; i++ {
			fmt.Fprintf(&sb, "stage S%d(\n in int x,\n out int y,\n src comp \"a\",\n)\n", i)
		}
		sb.WriteString("pipeline P(\n in int x,\n out int y,\n)\n{\n")
		for i := 0; i < n; i++ {
			if i == 0 {
				fmt.Fprintf(&sb, " call S0(\n  x = self.x,\n )\n")
			} else {
				fmt.Fprintf(&sb, " call S%d(\n  x = S%d.y,\n )\n", i, i-1)
			}
		}
		fmt.Fprintf(&sb, " return (\n  y = S%d.y,\n )\n}\n", n-1)
		return sb.String()
	}, 's', 8},
	{"many-struct-fields", func(n int) string {
		var sb strings.Builder
		sb.WriteString("struct T(\n")
		for i := 0; i < n; i++ {
			fmt.Fprintf(&sb, " int f%d,\n", i)
		}
		sb.WriteString(")\n")
		return sb.String()
	}, 's', 1},
	{"wide-map-literal", func(n int) string {
		var sb strings.Builder
		sb.WriteString("{")
		for i := 0; i < n; i++ {
			fmt.Fprintf(&sb, "\"k%d\": %d,", i, i)
		}
		sb.WriteString("}")
		return sb.String()
	}, 'e', 1},
	{"garbage-repeat", func(n int) string { return strings.Repeat("stage (", n) }, 's', 1},
	{"long-identifier", func(n int) string { return "call " + strings.Repeat("A", n) + "()\n" }, 's', 1},
	{"many-type-dims", func(n int) string {
		return "stage A(\n in int" + strings.Repeat("[]", n) + " x,\n src comp \"a\",\n)\n"
	}, 's', 1},
}

func init() {
	register("C08", "exploration", func(c *vf.Ctx) {
		c.SetRule("inputs = token-level mutations (hostile-token dictionary: numbers at/over int64 and float32/64 range, every escape form, empty strings, keywords as identifiers, truncation at every token boundary, invalid UTF-8, NUL) of generated programs and of the repository's own .mro files, value-expression mutants, random bytes, plus scaling families at sizes n,2n,4n,8n; each input is handed to ParseSourceBytes + UncheckedParse + FormatSrcBytes (or ParseValExp) in child processes with the input on disk before the call. Verdict: a child crash (panic, fatal error, stack overflow) identifies its input = violation; an error without a source position = violation; neither tree nor error = violation; a scaling family whose fitted allocation exponent exceeds 1.6 with more than 64x allocation growth over an 8x size growth = violation. distinct = distinct input bytes; non-trivial = input differs from its base program.")
		c.Assume("allocation volume (runtime.MemStats.TotalAlloc delta) is the deciding measure of cost; wall time is reported only")
		rng := rand.New(rand.NewSource(c.Seed))
		var inputs [][]byte
		var labels []string
		add := func(kind byte, s string, label string) {
			inputs = append(inputs, append([]byte{kind}, s...))
			labels = append(labels, label)
		}
		// corpus
		var corpus []string
		cfg := pgen.DefaultConfig()
		cfg.HostileStrings = true
		cfg.BigInts = true
		for i := 0; i < c.Pick(60, 600); i++ {
			p := pgen.Generate(c.Seed*31+int64(i), cfg)
			corpus = append(corpus, p.SingleFile())
		}
		// generated programs as they are (the flow checks' generator profiles):
		// exercises type checking and call graph resolution of accepted programs
		for i := 0; i < c.Pick(400, 12000); i++ {
			gc := pgen.DefaultConfig()
			switch i % 4 {
			case 1:
				gc.PDisabled, gc.PMapCall, gc.PTwin, gc.PPreflight = 45, 45, 45, 20
			case 2:
				gc.PMapCall, gc.PSplitStage, gc.PDisabled = 55, 50, 40
			case 3:
				gc.MaxTypeDepth, gc.MaxStructs, gc.PNarrow, gc.PProject, gc.PMapCall = 3, 4, 60, 70, 45
				gc.AllowDynamicDisabledInMap = true
			}
			gc.AllowNestedDynamic = i%8 >= 4
			gc.AllowNestedMap = i%8 >= 2
			add('s', pgen.Generate(c.Seed*7919+int64(i), gc).SingleFile(), "generated")
		}
		// include graphs: self include, cycles of length 2..4, diamonds, missing
		// files, a directory as include, the same file twice, deep chains, and
		// generated multi-file programs with one file mutated
		addMulti := func(main string, files map[string]string, label string) {
			b, _ := json.Marshal(map[string]interface{}{"main": main, "files": files})
			add('m', string(b), label)
		}
		stageIn := func(n string) string {
			return "stage " + n + "(\n    in  int x,\n    out int y,\n    src comp \"/bin/true\",\n)\n"
		}
		for n := 1; n <= 4; n++ {
			files := map[string]string{}
			for k := 0; k < n; k++ {
				files[fmt.Sprintf("f%d.mro", k)] = fmt.Sprintf("@include \"f%d.mro\"\n\n", (k+1)%n) + stageIn(fmt.Sprintf("S%d", k))
			}
			for k := 0; k < n; k++ {
				addMulti(fmt.Sprintf("f%d.mro", k), files, "include-graph")
			}
		}
		addMulti("top.mro", map[string]string{
			"top.mro": "@include \"l.mro\"\n@include \"r.mro\"\n\ncall S(\n    x = 1,\n)\n",
			"l.mro":   "@include \"s.mro\"\n", "r.mro": "@include \"s.mro\"\n", "s.mro": stageIn("S")}, "include-graph")
		addMulti("top.mro", map[string]string{"top.mro": "@include \"nope.mro\"\n" + stageIn("S")}, "include-graph")
		addMulti("top.mro", map[string]string{"top.mro": "@include \"sub\"\n" + stageIn("S"), "sub/x.mro": stageIn("X")}, "include-graph")
		addMulti("top.mro", map[string]string{"top.mro": "@include \"s.mro\"\n@include \"s.mro\"\n" + stageIn("T"), "s.mro": stageIn("S")}, "include-graph")
		addMulti("sub/top.mro", map[string]string{"sub/top.mro": "@include \"../sub/top.mro\"\n" + stageIn("S")}, "include-graph")
		addMulti("top.mro", map[string]string{"top.mro": "@include \"a/../top.mro\"\n" + stageIn("S"), "a/x.mro": ""}, "include-graph")
		{
			files := map[string]string{}
			for k := 0; k < 60; k++ {
				inc := ""
				if k < 59 {
					inc = fmt.Sprintf("@include \"c%d.mro\"\n\n", k+1)
				}
				files[fmt.Sprintf("c%d.mro", k)] = inc + stageIn(fmt.Sprintf("C%d", k))
			}
			addMulti("c0.mro", files, "include-graph")
			files2 := map[string]string{}
			for k, v := range files {
				files2[k] = v
			}
			files2["c59.mro"] = "@include \"c30.mro\"\n\n" + stageIn("C59")
			addMulti("c0.mro", files2, "include-graph")
		}
		for i := 0; i < c.Pick(150, 4000); i++ {
			mc := pgen.DefaultConfig()
			mc.MultiFile = true
			files := pgen.Generate(c.Seed*613+int64(i), mc).Print()
			names := pgen.SortedKeys(files)
			victim := names[rng.Intn(len(names))]
			files[victim] = mutateSource(rng, files[victim])
			if rng.Intn(4) == 0 {
				// an include pointing back at the including file
				files[victim] = "@include \"main.mro\"\n" + files[victim]
			}
			addMulti("main.mro", files, "multi-file-mutant")
		}
		// wildcard bindings in every position
		for _, prog := range []string{
			stageIn("FOO") + "\ncall FOO(\n    * = self,\n)\n",
			stageIn("FOO") + "\npipeline P(\n    in  int x,\n    out int y,\n)\n{\n    call FOO(\n        * = self,\n    )\n\n    return (\n        * = FOO,\n    )\n}\n\ncall P(\n    * = self,\n)\n",
			stageIn("FOO") + "\npipeline P(\n    out int y,\n)\n{\n    call FOO(\n        * = self,\n    )\n\n    return (\n        y = FOO.y,\n    )\n}\n",
			stageIn("FOO") + "\npipeline P(\n    in  int x,\n    out int y,\n)\n{\n    call FOO(\n        * = NOPE,\n    )\n\n    return (\n        * = self,\n    )\n}\n",
			stageIn("FOO") + "\npipeline P(\n    in  int x,\n    out int y,\n)\n{\n    map call FOO(\n        * = self,\n    )\n\n    return (\n        y = FOO,\n    )\n}\n",
		} {
			add('s', prog, "wildcard")
			toks := tokenize(prog)
			for k := 0; k < 40; k++ {
				cp := append([]string{}, toks...)
				j := rng.Intn(len(cp))
				cp[j] = hostileTokens[rng.Intn(len(hostileTokens))]
				add('s', strings.Join(cp, ""), "wildcard")
			}
		}
		// shapes that crashed call graph resolution before (kept as fixed inputs)
		for _, prog := range c08CallGraphShapes {
			add('s', prog, "generated")
		}
		repoCorpus := loadRepoCorpus(c.RepoDir)
		corpus = append(corpus, repoCorpus...)
		c.Set("corpus_generated_programs", c.Pick(60, 600))
		c.Set("corpus_repo_mro_files", len(repoCorpus))
		nMut := c.Pick(40000, 2500000)
		for i := 0; i < nMut; i++ {
			base := corpus[rng.Intn(len(corpus))]
			add('s', mutateSource(rng, base), "mutant")
		}
		// targeted: hostile token in every numeric / string position of small programs
		small := []string{
			"stage A(\n in int x,\n out int y,\n src comp \"a b\",\n) using (\n threads = 1,\n mem_gb = 2,\n vmem_gb = 3,\n special = \"s\",\n)\ncall A(\n x = 1,\n)\n",
			"@include \"inc.mro\"\nfiletype txt;\nstruct S(\n int a \"help\" \"name\",\n)\npipeline P(\n in S s,\n out int o,\n)\n{\n return (\n  o = self.s.a,\n )\n}\n",
			"stage B(\n in float f,\n in string s,\n in map m,\n in int[] a,\n src py \"mod\",\n) split (\n in int c,\n) retain (\n)\ncall B(\n f = 1.5,\n s = \"str\",\n m = {\"k\": [1, 2.0, null, true]},\n a = [1, 2],\n)\n",
		}
		for _, b := range small {
			toks := tokenize(b)
			for i := range toks {
				if strings.TrimSpace(toks[i]) == "" {
					continue
				}
				for _, h := range hostileTokens {
					cp := append([]string{}, toks...)
					cp[i] = h
					add('s', strings.Join(cp, ""), "targeted")
				}
				add('s', strings.Join(toks[:i], ""), "truncated")
			}
		}
		// expressions
		nExp := c.Pick(8000, 400000)
		g := pgen.Generate(c.Seed, cfg)
		_ = g
		expBases := []string{`[1, 2.5, "s", null, true, {"a": [1]}, {x: 1, y: "z"}]`, `{"k": {"n": [[], {}]}}`, `-12`, `1.5e10`, `"a\"b\\c\né"`, `[[[[1]]]]`, `{a: {b: {c: [1, 2, 3]}}}`}
		for i := 0; i < nExp; i++ {
			add('e', mutateSource(rng, expBases[rng.Intn(len(expBases))]), "exp-mutant")
		}
		for _, h := range hostileTokens {
			add('e', h, "exp-token")
			add('e', "["+h+"]", "exp-token")
			add('e', `{"k": `+h+`}`, "exp-token")
			add('s', "call X(\n x = "+h+",\n)\n", "bind-token")
		}
		// random bytes
		for i := 0; i < c.Pick(2000, 100000); i++ {
			b := make([]byte, rng.Intn(200))
			rng.Read(b)
			add("se"[rng.Intn(2)], string(b), "random-bytes")
		}
		// scaling families
		type famIdx struct {
			fam, size, idx int
		}
		// fixed size-boundary inputs: array dimension counts around 2^15 and 2^16
		// (the width of a 16-bit counter), and two parallel families of n nested
		// two-member struct types with an output of the one bound to an input of
		// the other (a few KB of source; the assignability check must not redo
		// the same pair of types 2^n times)
		for _, n := range []int{32767, 32768, 65535, 65536, 70000} {
			add('s', "stage A(\n in int"+strings.Repeat("[]", n)+" x,\n src comp \"a\",\n)\n", fmt.Sprintf("type-dims:%d", n))
			add('s', "stage A(\n in map<int"+strings.Repeat("[]", n)+"> x,\n src comp \"a\",\n)\n", fmt.Sprintf("type-dims-in-map:%d", n))
		}
		for _, n := range []int{12, 20, 40} {
			var sb strings.Builder
			sb.WriteString("struct A0(\n int x,\n)\nstruct B0(\n int x,\n int y,\n)\n")
			for i := 1; i <= n; i++ {
				fmt.Fprintf(&sb, "struct A%d(\n A%d l,\n A%d r,\n)\nstruct B%d(\n B%d l,\n B%d r,\n)\n", i, i-1, i-1, i, i-1, i-1)
			}
			fmt.Fprintf(&sb, "stage P(\n out B%d o,\n src comp \"a\",\n)\nstage C(\n in A%d i,\n src comp \"a\",\n)\n", n, n)
			sb.WriteString("pipeline X(\n)\n{\n call P(\n )\n call C(\n  i = P.o,\n )\n return (\n )\n}\n")
			add('s', sb.String(), fmt.Sprintf("struct-doubling:%d", n))
		}
		// fixed programs that once crashed the compiler or the call graph resolver
		for i, text := range c08FixedPrograms {
			add('s', text, fmt.Sprintf("fixed-program:%d", i))
		}
		var fams []famIdx
		base := c.Pick(400, 4000)
		for fi, f := range scalingFamilies {
			for si, mult := range []int{1, 2, 4, 8} {
				fams = append(fams, famIdx{fi, si, len(inputs)})
				add(f.kind, f.gen(base/f.div*mult), "scaling:"+f.name)
			}
		}
		results := vf.RunBatches(c, "c08", inputs, 400, 60*time.Second, 4096)
		distinct := map[string]bool{}
		errClasses := map[string]int{}
		okCount := 0
		confirmed := 0
		for i, r := range results {
			c.Eval(1)
			key := vf.Hash(string(inputs[i]))
			if !distinct[key] {
				distinct[key] = true
				c.Distinct(key)
			}
			in := string(inputs[i][1:])
			kind := string(inputs[i][:1])
			if r.TimedOut {
				// decide on CPU time consumed by this input alone, not on the
				// wall clock: 20 CPU-seconds for an input of a few KB
				if confirmed >= 8 {
					c.Inconclusive("watchdog, not re-run alone (8 inputs already were)")
					continue
				}
				confirmed++
				r2, cpuExceeded := vf.ConfirmAlone(c, "c08", inputs[i], 20, 5*time.Minute)
				if cpuExceeded {
					c.Count("inputs_rerun_alone_under_cpu_budget", 1)
					c.Violate("C08:no-termination-within-cpu-budget:"+kind+":"+labelFamily(labels[i]),
						fmt.Sprintf("processing input %q (%s, %d bytes) alone did not finish within 20 s of CPU time", truncate(in, 300), labels[i], len(in)),
						map[string]interface{}{"kind": kind, "input": in, "label": labels[i]})
					continue
				}
				if r2.TimedOut {
					c.Inconclusive("watchdog (" + labels[i] + ")")
					continue
				}
				c.Count("inputs_rerun_alone_under_cpu_budget", 1)
				r = r2
				r.Index = i
			}
			if r.Crashed {
				msg, site := vf.CrashSite(r.Stderr)
				sig := "C08:crash:" + site + ":" + normalizeCrash(msg)
				c.Violate(sig, fmt.Sprintf("process died on input %q (%s): %s", truncate(in, 300), labels[i], msg),
					map[string]interface{}{"kind": kind, "input": in, "stderr": truncate(r.Stderr, 3000), "label": labels[i]})
				continue
			}
			if r.Result == nil {
				c.Inconclusive("no result")
				continue
			}
			var res c08Result
			json.Unmarshal(r.Result, &res)
			if res.Err == "" {
				okCount++
				if !res.HasTree {
					c.Violate("C08:neither-tree-nor-error", "input yields neither a tree nor an error: "+truncate(in, 200),
						map[string]interface{}{"kind": kind, "input": in})
				}
			} else {
				cls := strings.SplitN(strings.TrimPrefix(res.Err, "MRO "), ":", 2)[0]
				errClasses[truncate(cls, 40)]++
				if !posRe.MatchString(res.Err) {
					c.Violate("C08:error-without-position:"+truncate(cls, 40), fmt.Sprintf("error carries no source position: %q for input %q", truncate(res.Err, 300), truncate(in, 200)),
						map[string]interface{}{"kind": kind, "input": in, "error": res.Err})
				}
			}
			if res.FmtErr != "" && !posRe.MatchString(res.FmtErr) {
				c.Violate("C08:format-error-without-position", fmt.Sprintf("FormatSrcBytes error carries no position: %q", truncate(res.FmtErr, 300)),
					map[string]interface{}{"kind": kind, "input": in, "error": res.FmtErr})
			}
		}
		// scaling verdicts
		famStats := map[string]interface{}{}
		for fi, f := range scalingFamilies {
			var allocs [4]float64
			ok := true
			for _, fx := range fams {
				if fx.fam != fi {
					continue
				}
				r := results[fx.idx]
				if r.Crashed || r.TimedOut || r.Result == nil {
					ok = false
					continue
				}
				var res c08Result
				json.Unmarshal(r.Result, &res)
				allocs[fx.size] = float64(res.Alloc)
			}
			if !ok || allocs[0] == 0 {
				famStats[f.name] = "not measurable (crash/timeout reported separately)"
				continue
			}
			exp := math.Log(allocs[3]/allocs[0]) / math.Log(8)
			famStats[f.name] = map[string]interface{}{"alloc_bytes": allocs, "exponent": math.Round(exp*100) / 100}
			if exp > 1.6 && allocs[3] > 64*allocs[0] {
				c.Violate("C08:superlinear:"+f.name, fmt.Sprintf("family %s: allocation grows with exponent %.2f (%.0f -> %.0f bytes for 8x input)", f.name, exp, allocs[0], allocs[3]),
					map[string]interface{}{"family": f.name, "allocs": allocs, "base_size": base})
			}
		}
		c.Set("scaling_families", famStats)
		c.Set("inputs_accepted", okCount)
		// top error classes
		type kv struct {
			k string
			v int
		}
		var kvs []kv
		for k, v := range errClasses {
			kvs = append(kvs, kv{k, v})
		}
		sort.Slice(kvs, func(i, j int) bool { return kvs[i].v > kvs[j].v })
		top := map[string]int{}
		for i, x := range kvs {
			if i < 25 {
				top[x.k] = x.v
			}
		}
		c.Set("error_classes_seen", top)
		c.Set("distinct_error_classes", len(errClasses))
		for i := 0; i < 5 && i < len(inputs); i++ {
			k := rng.Intn(len(inputs))
			c.Sample(map[string]string{"label": labels[k], "input": truncate(string(inputs[k][1:]), 300)})
		}
	})
}

var numRe = regexp.MustCompile(`[0-9]+`)

func normalizeCrash(msg string) string {
	// keep the class of the message, drop concrete values
	msg = strings.TrimPrefix(msg, "panic: ")
	if i := strings.Index(msg, "\""); i > 0 {
		msg = msg[:i]
	}
	msg = numRe.ReplaceAllString(msg, "N")
	return truncate(strings.TrimSpace(msg), 80)
}
