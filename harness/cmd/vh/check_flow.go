package main

import (
	"encoding/json"
	"fmt"
	"os"
	"path/filepath"
	"runtime"
	"sort"
	"strings"
	"sync"
	"time"

	"verif/harness/internal/pgen"
	"verif/harness/internal/vf"
	"verif/harness/internal/vmon"
	"verif/harness/internal/vrun"
)

// flowCase is one (program, run configuration).
type flowCase struct {
	Index     int
	Seed      int64
	Cfg       *pgen.Config
	Vdr       string
	Race      bool
	DelayMs   int
	Delays    string
	Cores     int
	ExtraArg  []string
	Tweak     func(*pgen.Spec)
	SlowOne   int         // >0: one stage call (chosen by seed) finishes this many ms late
	PyPct     int         // percentage of stages written in Python (run through the real Python adapter)
	Crash     string      // VERIF_CRASH spec for a first run; mrp is then restarted on the same pipestance
	Rules     []pgen.Rule // probe behaviour rules (faults, delays) for this case
	AutoRetry int         // --autoretry value
	Timeout   time.Duration
	Reattach  bool // run mrp a second time on the completed pipestance and re-check outs/
	ForceVol  bool // mrp --overrides: force_volatile on the top-level pipeline, resource-only entries on half of the stage calls
	Relocate  bool // after the interruption the top-level pipeline directory is moved elsewhere and replaced by a symlink
	Template  int  // 0 = random program, k>0 = pgen.Template(k-1)
}

type flowResult struct {
	fc             *flowCase
	prog           *pgen.Program
	rejected       string
	run            *vrun.RunResult
	report         *vmon.Report
	model          *pgen.Model
	obs            *vmon.Obs
	dir            string
	races          []vrun.RaceReport
	sched          string
	partial        bool
	crashed        bool // the first run was interrupted at the requested point
	unzipped       int  // metadata files restored from the --zip archive for the monitors
	route          vmon.RouteStats
	relocatedFiles int // files lying outside the pipestance after the relocation scenario
	vdr            vmon.VdrStats
}

func runFlowCase(c *vf.Ctx, fc *flowCase) *flowResult {
	res := &flowResult{fc: fc}
	cfg := fc.Cfg
	cfg.SrcFor = vrun.ProbeSrc(c.BuildDir)
	if v := os.Getenv("VERIF_PYPCT"); v != "" {
		fmt.Sscan(v, &fc.PyPct) // triage override
	}
	if fc.PyPct > 0 {
		pct, seed := fc.PyPct, fc.Seed
		cfg.SrcFor = vrun.PyProbeSrc(c.BuildDir, func(stage string) bool {
			return pgen.NewHashRng("py", fmt.Sprint(seed), stage).Intn(100) < pct
		})
	}
	var p *pgen.Program
	if fc.Template > 0 {
		p = pgen.Template(fc.Template-1, fc.Seed, cfg)
	} else {
		p = pgen.Generate(fc.Seed, cfg)
	}
	if fc.Index%4 == 3 {
		// pipeline bodies list their calls out of dependency order
		p.ShuffleCallOrder(fc.Seed)
	}
	res.prog = p
	dir := filepath.Join(c.WorkDir, fmt.Sprintf("case-%d", fc.Index))
	res.dir = dir
	if _, _, err := compileProgram(p, filepath.Join(dir, "compile")); err != nil {
		res.rejected = strings.Split(strings.TrimSpace(err.Error()), "\n")[0]
		if res.rejected == "" {
			res.rejected = "rejected"
		}
		os.RemoveAll(dir)
		return res
	}
	os.RemoveAll(filepath.Join(dir, "compile"))
	cs, err := vrun.NewCase(c.BuildDir, dir, p, func(s *pgen.Spec) {
		s.KeyPool = cfg.KeyPool
		s.ExtraFiles = true
		s.DelayMaxMs = fc.DelayMs
		s.Seed = fc.Seed
		if fc.Tweak != nil {
			fc.Tweak(s)
		}
		if fc.Template == pgen.NTemplates+7 && fc.Vdr == "disable" {
			s.PassThroughPct = 100 // skeleton 6: LINK's outputs are links to its input
			s.PMissingFile, s.PNull = 0, 0
		}
		if fc.Template == 14 {
			// skeleton 13: the flag calls are named after the values they must give
			for _, combo := range []string{"FT", "TF", "FF", "TT"} {
				for k, c := range combo {
					s.Rules = append(s.Rules, pgen.Rule{JobPrefix: fmt.Sprintf("TOP/C%d%s/", k+1, combo), Bools: map[rune]string{'T': "true", 'F': "false"}[c]})
				}
			}
		}
		if fc.Template == 15 {
			// skeleton 14: two or three outer and middle elements, inner lengths 0..4
			s.LenChoices, s.Len1Choices, s.MaxLen = []int{2, 3}, []int{2, 3}, 4
		}
		if fc.Template == 17 {
			// skeleton 16: jagged inner lengths per outer fork, among them the
			// one-element and the empty collection in first and in later position
			pats := [][]int{{1, 3}, {3, 1}, {1, 0}, {0, 2}, {1, 1}, {2, 1}, {1, 2}, {0, 1}}
			half := int(uint64(fc.Seed) % 2)
			for k := 0; k < 4; k++ {
				for f, n := range pats[4*half+k] {
					s.Rules = append(s.Rules, pgen.Rule{JobPrefix: fmt.Sprintf("TOP/MIDL%d/GENI/fork%d/", k, f), Len: 1 + n})
				}
			}
			pat3 := append(append([]int{}, pats[int(uint64(fc.Seed/2)%8)]...), pats[int(uint64(fc.Seed/16)%8)][0])
			s.Rules = append(s.Rules, pgen.Rule{JobPrefix: "TOP/SRC/", Len: 1 + 2 + int(uint64(fc.Seed/128)%2)})
			for k, n := range pat3 {
				s.Rules = append(s.Rules, pgen.Rule{JobPrefix: fmt.Sprintf("TOP/MID/GENI/fork%d/", k), Len: 1 + n})
			}
		}
		if fc.Template == 18 {
			// skeleton 17: level flags false; of the two sibling flags one is
			// true and one false (which one: by seed)
			for _, pre := range []string{"K", "M"} {
				for f := 1; f <= 5; f++ {
					s.Rules = append(s.Rules, pgen.Rule{JobPrefix: fmt.Sprintf("TOP/%sF%d/", pre, f), Bools: "false"})
				}
				ab := []string{"true", "false"}
				if (uint64(fc.Seed)%2 == 1) != (pre == "M") {
					ab = []string{"false", "true"}
				}
				s.Rules = append(s.Rules, pgen.Rule{JobPrefix: "TOP/" + pre + "FA/", Bools: ab[0]}, pgen.Rule{JobPrefix: "TOP/" + pre + "FB/", Bools: ab[1]})
			}
		}
		if fc.Template == 22 {
			// skeleton 21: three rows, the last one empty (MKW_E) resp. null (MKW_N)
			s.LenChoices, s.Len1Choices, s.PNull = []int{3}, []int{1, 2}, 0
			s.Rules = append(s.Rules, pgen.Rule{JobPrefix: "TOP/MKW_E/", LastRow: "empty"}, pgen.Rule{JobPrefix: "TOP/MKW_N/", LastRow: "null"})
		}
		if fc.Template == 20 && len(s.LenChoices) == 0 {
			s.LenChoices, s.Len1Choices = []int{2, 3}, []int{1, 2} // skeleton 19: non-empty grids
		}
		if fc.Template == 13 && len(s.LenChoices) == 0 {
			s.LenChoices = []int{3} // skeleton 12: three run-time elements
		}
		if fc.Template == 11 && len(s.LenChoices) == 0 {
			s.LenChoices = []int{2, 3} // skeleton 10: the flag collection must have elements
		}
		if fc.Template == pgen.NTemplates+5 || fc.Template == pgen.NTemplates+10 {
			// file skeletons 4 and 9: collections without files in some forks only
			s.Rules = append(s.Rules, pgen.Rule{Stage: "MK2", EmptyPct: 40})
		}
		if fc.Template > pgen.NTemplates && len(s.LenChoices) == 0 {
			s.LenChoices = []int{2, 3} // file skeletons: several forks each
		}
		s.Rules = append(s.Rules, fc.Rules...)
		if fc.Template == 4 && fc.SlowOne > 0 {
			// skeleton 3: the later-declared outer preflight and the inner
			// pipeline's own preflight outlast everything else
			s.Rules = append(s.Rules, pgen.Rule{JobPrefix: "TOP/PRE_B/", DelayAfterMs: fc.SlowOne + 400},
				pgen.Rule{JobPrefix: "TOP/INNER/PRE_IN/", DelayAfterMs: fc.SlowOne + 400})
		}
		if fc.SlowOne > 0 {
			if paths := vmon.StageCallPaths(p); len(paths) > 0 {
				ks := paths
				k := ks[0] // templates: the first call is the producer of interest
				if fc.Template == 0 {
					k = ks[pgen.NewHashRng("slow", fmt.Sprint(fc.Seed)).Intn(len(ks))]
				}
				s.Rules = append(s.Rules, pgen.Rule{JobPrefix: k + "/", DelayAfterMs: fc.SlowOne})
			}
		}
	})
	if err != nil {
		res.rejected = "harness: " + err.Error()
		return res
	}
	os.MkdirAll(filepath.Join(dir, "canary"), 0755)
	os.WriteFile(filepath.Join(dir, "canary", "file"), []byte("canary"), 0644)
	cores := fc.Cores
	if cores == 0 {
		cores = 4
	}
	args := []string{"--vdrmode=" + fc.Vdr, fmt.Sprintf("--localcores=%d", cores), "--localmem=16", fmt.Sprintf("--autoretry=%d", fc.AutoRetry)}
	if fc.ForceVol {
		// every stage below the top-level pipeline inherits force_volatile from
		// it, also those that have an entry of their own for resources only
		ov := map[string]map[string]interface{}{p.Top.Callee: {"force_volatile": true}}
		for k, cp := range vmon.StageCallPaths(p) {
			if k%2 == 0 {
				ov[strings.ReplaceAll(cp, "/", ".")] = map[string]interface{}{"chunk.mem_gb": 1, "chunk.threads": 1}
			}
		}
		b, _ := json.MarshalIndent(ov, "", " ")
		ovPath := filepath.Join(dir, "overrides.json")
		os.WriteFile(ovPath, b, 0644)
		args = append(args, "--overrides="+ovPath)
	}
	var relocated map[string]int64
	relocatedTok := map[string]string{}
	args = append(args, fc.ExtraArg...)
	if v := os.Getenv("VERIF_EXTRA_ARGS"); v != "" {
		args = append(args, strings.Fields(v)...) // triage override
	}
	if fc.Crash != "" {
		// interrupted first run, then a restart on the same directory
		r1 := cs.Run(vrun.RunOpts{Race: fc.Race, Args: args, Seed: fc.Seed, Delays: fc.Delays, Inventory: true,
			Timeout: pickTimeout(fc.Timeout), Crash: fc.Crash})
		if r1.TimedOut {
			cs.KillAll()
		}
		res.crashed = crashFired(cs.Trace(), fc.Crash)
		if !cs.WaitOrphans(20 * time.Second) {
			cs.KillAll()
		}
		if os.Getenv("VERIF_KEEP") != "" {
			// for triage: the kill reports as the interrupted process left them
			filepath.Walk(cs.PsDir, func(p string, info os.FileInfo, err error) error {
				if err == nil && !info.IsDir() && strings.HasPrefix(info.Name(), "_vdrkill") {
					rel, _ := filepath.Rel(cs.PsDir, p)
					dst := filepath.Join(dir, "after-crash", rel)
					os.MkdirAll(filepath.Dir(dst), 0755)
					if b, err := os.ReadFile(p); err == nil {
						os.WriteFile(dst, b, 0644)
					}
				}
				return nil
			})
		}
		if res.crashed && strings.HasSuffix(fc.Crash, ":KILL") {
			os.Remove(filepath.Join(cs.PsDir, "_lock")) // as the operator is told to
		}
		if fc.Relocate && res.crashed {
			// the operator moves the bulky top-level pipeline directory to
			// another volume and leaves a symlink: what is there now lies
			// outside the pipestance directory and must not be removed by VDR
			src := filepath.Join(cs.PsDir, p.Top.Callee)
			dst := filepath.Join(dir, "elsewhere", p.Top.Callee)
			os.MkdirAll(filepath.Dir(dst), 0755)
			if err := os.Rename(src, dst); err == nil && os.Symlink(dst, src) == nil {
				relocated = map[string]int64{}
				filepath.Walk(dst, func(fp string, info os.FileInfo, err error) error {
					// stage-written files (files/ directories, not metadata) of jobs whose
					// completion is on record: an unfinished job is reset by the restart,
					// which rightly removes what its first attempt wrote
					if err == nil && info.Mode().IsRegular() {
						if k := strings.Index(fp, "/files/"); k > 0 {
							if _, e := os.Stat(filepath.Join(fp[:k], "_complete")); e == nil {
								relocated[fp] = info.Size()
								if b, err := os.ReadFile(fp); err == nil {
									// same key as outsTree: content token, or the first bytes
									c := string(b)
									if strings.HasPrefix(c, "tok:") {
										if i := strings.IndexByte(c, '\n'); i > 0 {
											c = c[:i]
										}
									} else if len(c) > 20 {
										c = c[:20]
									}
									relocatedTok[fp] = c
								}
							}
						}
					}
					return nil
				})
			}
		}
	}
	res.run = cs.Run(vrun.RunOpts{Race: fc.Race, Args: args, Seed: fc.Seed, Delays: fc.Delays, Inventory: true,
		Timeout: pickTimeout(fc.Timeout), StallLoops: 25})
	if res.run.TimedOut {
		cs.KillAll()
		// the ordering monitor is still meaningful on the partial event log
		res.obs = vmon.Collect(cs, vmon.StageCallPaths(p))
		res.partial = true
		res.model, res.report = vmon.Analyze(res.obs, p)
		res.route = vmon.CheckJournalRouting(cs.Trace(), res.report, fc.Crash == "" && len(fc.Rules) == 0)
		return res
	}
	nz, zerr := cs.UnzipMetadata() // --zip runs: the monitors read the archived metadata
	res.unzipped = nz
	res.obs = vmon.Collect(cs, vmon.StageCallPaths(p))
	if res.run.Exit == 0 {
		res.model, res.report = vmon.Analyze(res.obs, p)
		res.route = vmon.CheckJournalRouting(cs.Trace(), res.report, fc.Crash == "" && len(fc.Rules) == 0)
		if zerr != nil {
			res.report.Findings = append(res.report.Findings, vmon.Finding{Prop: "C13", Sig: "metadata-archive-unreadable",
				What: "the metadata archive written on completion (--zip) cannot be read back: " + zerr.Error()})
		}
		vmon.CheckTopOuts(res.obs, p, res.model, res.report)
		vmon.CheckOutsDir(res.obs, p, res.model, res.report)
		if relocated != nil {
			// only the clause "nothing outside the pipestance directory is touched"
			// is judged in this scenario (VDR is expected to refuse the rest)
			res.relocatedFiles = len(relocated)
			// (post-processing moves the files named by top-level outputs into
			// outs/: those have not been removed but materialised)
			outsToks := map[string]bool{}
			for _, tok := range outsTree(cs) {
				outsToks[tok] = true
			}
			var gone []string
			for fp, sz := range relocated {
				if st, err := os.Lstat(fp); err != nil || st.Size() != sz {
					if tok := relocatedTok[fp]; tok != "" && outsToks[tok] {
						continue
					}
					gone = append(gone, strings.TrimPrefix(fp, dir+"/"))
				}
			}

			sort.Strings(gone)
			if len(gone) > 0 {
				res.report.Findings = append(res.report.Findings, vmon.Finding{Prop: "C14", Sig: "removed-outside-pipestance:through-symlinked-ancestor",
					What: fmt.Sprintf("after the interrupted run the top-level pipeline directory was moved outside the pipestance directory and replaced by a symlink; the restarted mrp removed %d of the %d files lying there, e.g. %s", len(gone), len(relocated), gone[0])})
			}
		} else if fc.Vdr != "disable" {
			if fc.ForceVol {
				// for the storage oracle every stage call is volatile now
				for _, pl := range p.Pipelines {
					for _, cl := range pl.Calls {
						if p.Stage(cl.Callee) != nil {
							cl.Volatile = true
						}
					}
				}
			}
			res.vdr = vmon.CheckVDR(res.obs, p, res.model, res.report, fc.Vdr, cs.Trace())
		}
		// canary beside the pipestance
		if b, err := os.ReadFile(filepath.Join(dir, "canary", "file")); err != nil || string(b) != "canary" {
			res.report.Findings = append(res.report.Findings, vmon.Finding{Prop: "C14", Sig: "canary-touched",
				What: "a file beside the pipestance directory was removed or changed"})
		}
	}
	if fc.Reattach && res.run.Exit == 0 && res.report != nil {
		// run mrp again on the completed pipestance: a second post-processing pass
		r2 := cs.Run(vrun.RunOpts{Race: fc.Race, Args: args, Seed: fc.Seed, Timeout: 120 * time.Second})
		rep2 := &vmon.Report{DepKinds: map[string]int{}}
		if r2.TimedOut || r2.Exit != 0 {
			rep2.Findings = append(rep2.Findings, vmon.Finding{Prop: "C13", Sig: "reattach-to-completed-failed",
				What: fmt.Sprintf("mrp run again on the completed pipestance exited %d: %s", r2.Exit, tail(r2.Output, 500))})
		} else {
			if _, err := cs.UnzipMetadata(); err != nil {
				rep2.Findings = append(rep2.Findings, vmon.Finding{Prop: "C13", Sig: "metadata-archive-unreadable",
					What: "the metadata archive written on completion (--zip) cannot be read back: " + err.Error()})
			}
			vmon.CheckOutsDir(res.obs, p, res.model, rep2)
		}
		for _, f := range rep2.Findings {
			f.Sig += ":after-reattach"
			f.What = "after running mrp again on the completed pipestance: " + f.What
			res.report.Findings = append(res.report.Findings, f)
		}
	}
	res.races = vrun.ParseRaceLogs(res.run.RaceLogs)
	// schedule signature: order of job start/end events
	var sb strings.Builder
	for _, e := range res.obs.Events {
		if e.Ev == "start" || e.Ev == "end" {
			sb.WriteString(e.Ev[:1] + e.Job + ";")
		}
	}
	res.sched = vf.Hash(sb.String())
	return res
}

func parallelCases(cases []*flowCase, par int, fn func(*flowCase)) {
	ch := make(chan *flowCase)
	var wg sync.WaitGroup
	for i := 0; i < par; i++ {
		wg.Add(1)
		go func() {
			defer wg.Done()
			for fc := range ch {
				fn(fc)
			}
		}()
	}
	for _, fc := range cases {
		ch <- fc
	}
	close(ch)
	wg.Wait()
}

func replayOf(res *flowResult, f vmon.Finding) map[string]interface{} {
	files := res.prog.Print()
	return map[string]interface{}{
		"program_seed": res.fc.Seed,
		"mro":          files,
		"vdrmode":      res.fc.Vdr,
		"race_build":   res.fc.Race,
		"delay_ms":     res.fc.DelayMs,
		"hook_delays":  res.fc.Delays,
		"finding":      f.What,
		"shape":        res.prog.ShapeClasses(),
		"mrp_output":   tail(res.run.Output, 3000),
	}
}

func tail(s string, n int) string {
	if len(s) > n {
		return s[len(s)-n:]
	}
	return s
}

// flowCampaign runs cases and reports findings of property prop.
func flowCampaign(c *vf.Ctx, prop string, cases []*flowCase, nontrivial func(*flowResult) bool) {
	var mu sync.Mutex
	other := map[string]int{}
	rejected := map[string]int{}
	raceKeys := map[string]string{}
	scheds := map[string]bool{}
	var failedIdx []int
	var timeouts []interface{}
	par := runtime.NumCPU() * 3 / 4
	if par < 2 {
		par = 2
	}
	parallelCases(cases, par, func(fc *flowCase) {
		res := runFlowCase(c, fc)
		mu.Lock()
		defer mu.Unlock()
		if os.Getenv("VERIF_KEEP") == "" {
			defer os.RemoveAll(res.dir)
		}
		if res.rejected != "" {
			c.Count("programs_rejected_by_compiler", 1)
			rejected[truncate(res.rejected, 100)]++
			if strings.HasPrefix(res.rejected, "COMPILER PANIC") && res.prog != nil {
				// not this property's verdict (C08's), but keep the program
				dir := filepath.Join(vf.VerifDir, "replays", prop)
				os.MkdirAll(dir, 0755)
				b, _ := json.MarshalIndent(map[string]interface{}{"note": res.rejected, "case_index": fc.Index, "program_seed": fc.Seed, "mro": res.prog.Print()}, "", " ")
				os.WriteFile(filepath.Join(dir, fmt.Sprintf("compiler-panic-%d.json", fc.Seed)), b, 0644)
				fmt.Printf("NOTE compiler panic on generated program (case %d, seed %d): %s\n", fc.Index, fc.Seed, res.rejected)
			}
			return
		}
		c.Eval(1)
		if fc.Crash != "" {
			if res.crashed {
				c.Count("interrupted_and_restarted_runs", 1)
			} else {
				c.Count("interruption_point_not_reached", 1)
			}
		}
		if res.run.TimedOut {
			if res.run.Stalled {
				c.Inconclusive("pipestance stalled (no state change for 25 run-loop iterations)")
			} else {
				c.Inconclusive("watchdog")
			}
			if prop == "C02" && res.report != nil {
				// start-before-end observations do not depend on the run finishing
				for _, f := range res.report.For("C02") {
					c.Violate(prop+":"+f.Sig, f.What+" (observed before the pipestance stalled)", replayOf(res, f))
				}
			}
			if prop == "C11" && res.report != nil {
				// nor do misrouted or dropped journal notifications (they are
				// the usual reason for such a stall)
				for _, f := range res.report.For("C11") {
					if strings.HasPrefix(f.Sig, "journal-") {
						c.Violate(prop+":"+f.Sig, f.What+" (observed before the pipestance stalled)", replayOf(res, f))
					}
				}
			}
			out := res.run.Output
			if i := strings.Index(out, "SIGQUIT"); i > 0 {
				out = out[:i]
			}
			timeouts = append(timeouts, map[string]interface{}{"index": fc.Index, "seed": fc.Seed,
				"hook_delays": fc.Delays, "log_tail": tail(out, 1500)})
			return
		}
		for _, rr := range res.races {
			raceKeys[rr.Key] = strings.Join(rr.Files, ",")
		}
		if res.run.Exit != 0 {
			// A failure in a fault-free workload: pipestance failed.
			c.Count("runs_failed", 1)
			failedIdx = append(failedIdx, fc.Index)
			sig := failureSignature(res)
			if prop == "C07" || prop == "C01" {
				// routed: C07 owns run-time type/binding errors; C01 reports them as inconclusive
			}
			other["run-failed:"+sig]++
			if fn := flowFailureHandler[prop]; fn != nil {
				fn(c, res, sig)
			} else {
				c.Inconclusive("pipestance failed: " + sig)
			}
			return
		}
		c.Count("jobs_observed", int64(res.report.Jobs))
		c.Count("forks_observed", int64(res.report.Forks))
		c.Count("stage_invocations_modelled", int64(res.report.Invocations))
		c.Count("dependency_edges_checked", int64(res.report.DepEdges))
		c.Count("intra_fork_edges_checked", int64(res.report.IntraForkEdges))
		c.Count("consumer_file_checks", int64(res.report.FileChecks))
		c.Count("disabled_calls_modelled", int64(res.report.Disabled))
		c.Count("chunk_and_join_arg_checks", int64(res.report.ChunkChecks))
		c.Count("top_level_leaves_checked", int64(res.report.TopLeaves))
		c.Count("journal_files_routing_checked", int64(res.route.Routed))
		c.Count("journal_files_of_superseded_attempts", int64(res.route.StaleAttempt))
		c.Count("journal_files_dropped_by_mrp", int64(res.route.Unrouted))
		c.Count("files_relocated_outside_the_pipestance_checked", int64(res.relocatedFiles))
		c.Count("vdr_removals_observed", int64(res.vdr.Removals))
		c.Count("vdr_reports_checked", int64(res.vdr.Reports))
		c.Count("vdr_listed_paths_checked", int64(res.vdr.ListedPaths))
		c.Count("written_files_checked", int64(res.vdr.WrittenChecked))
		for k, v := range res.report.DepKinds {
			c.Count("dep_edges_"+k, int64(v))
		}
		scheds[res.sched] = true
		if nontrivial == nil || nontrivial(res) {
			c.Distinct(res.prog.ShapeHash() + "|" + res.sched)
		}
		if len(res.prog.ShapeClasses()) > 0 {
			for _, cl := range res.prog.ShapeClasses() {
				c.Count("class_"+cl, 1)
			}
		}
		c.Sample(map[string]interface{}{
			"seed": fc.Seed, "classes": res.prog.ShapeClasses(), "jobs": res.report.Jobs,
			"forks": res.report.Forks, "dep_edges": res.report.DepEdges, "vdrmode": fc.Vdr,
			"race": fc.Race, "schedule_signature": res.sched,
		})
		for _, f := range res.report.Findings {
			if f.Prop == prop {
				c.Violate(prop+":"+f.Sig, f.What, replayOf(res, f))
			} else {
				other[f.Prop+":"+f.Sig]++
			}
		}
		if fn := flowExtra[prop]; fn != nil {
			fn(c, res)
		}
	})
	c.Set("failed_case_indices", failedIdx)
	c.Set("watchdog_timeouts", timeouts)
	c.Set("findings_of_other_properties_seen", other)
	c.Set("compiler_rejections", rejected)
	c.Set("distinct_schedule_signatures", len(scheds))
	c.Set("race_reports", raceKeys)
}

var flowFailureHandler = map[string]func(c *vf.Ctx, res *flowResult, sig string){}
var flowExtra = map[string]func(c *vf.Ctx, res *flowResult){}

func truncate(s string, n int) string {
	if len(s) > n {
		return s[:n]
	}
	return s
}

// failureSignature extracts the kind of failure from mrp's output.
func failureSignature(res *flowResult) string {
	out := res.run.Output
	for _, l := range strings.Split(out, "\n") {
		l = strings.TrimSpace(l)
		if strings.Contains(l, "invalid type") || strings.Contains(l, "Error resolving") ||
			strings.Contains(l, "panic:") || strings.Contains(l, "fatal error") {
			return normalizeMsg(l)
		}
	}
	// find _errors content
	idx := strings.Index(out, "Log message:")
	if idx >= 0 {
		rest := strings.TrimSpace(out[idx+len("Log message:"):])
		return normalizeMsg(strings.Split(rest, "\n")[0])
	}
	if idx := strings.Index(out, "[error]"); idx >= 0 {
		return normalizeMsg(strings.Split(out[idx:], "\n")[0])
	}
	return fmt.Sprintf("exit %d", res.run.Exit)
}

func normalizeMsg(s string) string {
	// strip timestamps, ids and numbers
	var sb strings.Builder
	for _, w := range strings.Fields(s) {
		if strings.ContainsAny(w, "0123456789") && !strings.Contains(w, "core.") {
			sb.WriteString("# ")
		} else {
			sb.WriteString(w + " ")
		}
	}
	return truncate(strings.TrimSpace(sb.String()), 140)
}

func baseFlowConfig(seed int64) *pgen.Config {
	cfg := pgen.DefaultConfig()
	return cfg
}

type flowDef struct {
	rule       string
	assume     []string
	cases      func(c *vf.Ctx) []*flowCase
	nontrivial func(*flowResult) bool
}

var flowDefs = map[string]*flowDef{}

func registerFlow(prop string, d *flowDef) {
	flowDefs[prop] = d
	register(prop, "exploration", func(c *vf.Ctx) {
		c.SetRule(d.rule)
		for _, a := range d.assume {
			c.Assume(a)
		}
		flowCampaign(c, prop, d.cases(c), d.nontrivial)
	})
}

func init() {
	tools["flowdebug"] = func(args []string) {
		// flowdebug Cxx index [tier]
		prop := args[0]
		var idx int
		fmt.Sscan(args[1], &idx)
		tier := "quick"
		if len(args) > 2 {
			tier = args[2]
		}
		os.Setenv("VERIF_KEEP", "1")
		vf.Main(prop, "exploration", []string{"--tier", tier, "--replay", "debug"}, func(c *vf.Ctx) {
			cases := flowDefs[prop].cases(c)
			fc := cases[idx]
			fc.Cfg.SrcFor = vrun.ProbeSrc(c.BuildDir)
			pre := pgen.Generate(fc.Seed, fc.Cfg)
			if fc.Template > 0 {
				pre = pgen.Template(fc.Template-1, fc.Seed, fc.Cfg)
			}
			for _, k := range pgen.SortedKeys(pre.Print()) {
				fmt.Printf("==== %s\n%s", k, pre.Print()[k])
			}
			fmt.Printf("vdr=%s delay=%d hooks=%s race=%v\n", fc.Vdr, fc.DelayMs, fc.Delays, fc.Race)
			if os.Getenv("VERIF_DEBUG_TIMEOUT") != "" {
				fc.Timeout = 20 * time.Second
			}
			res := runFlowCase(c, fc)
			fmt.Println("dir:", res.dir, "rejected:", res.rejected)
			if res.run != nil {
				fmt.Printf("exit=%d timedout=%v\n%s\n", res.run.Exit, res.run.TimedOut, tail(res.run.Output, 3000))
			}
			if res.report != nil {
				for _, f := range res.report.Findings {
					fmt.Printf("FINDING %s %s\n   %s\n", f.Prop, f.Sig, f.What)
				}
				for _, inv := range res.model.Invs {
					fmt.Printf("INV %s %s matched=%v args=%s\n", inv.Path, inv.Context, inv.Matched, pgen.Render(map[string]interface{}(inv.Args)))
				}
				fmt.Println("DISABLED", res.model.Disabled)
			}
			c.Eval(1)
		})
	}
	registerFlow("C01", &flowDef{
		rule:   "pgen programs run under the real mrp with the probe stage; a case = (program, schedule); non-trivial = program has a map call, disabled binding, projection or split stage; distinct = (program shape hash, job start/end order signature). Oracle: every recorded stage execution's args (and join's chunk_defs/chunk_outs, top-level _outs) must equal the reference evaluation of the bindings over the outputs the producers actually recorded.",
		assume: []string{"reference evaluator internal/pgen/model.go is the trusted base for what bindings denote", "probe stage outputs conform to the declared output types"},
		cases: func(c *vf.Ctx) []*flowCase {
			n := c.Pick(99, 1500)
			var cases []*flowCase
			for i := 0; i < n; i++ {
				cfg := pgen.DefaultConfig()
				cfg.PFileTypes = 10
				cfg.PDisabled = 30
				cfg.PProject = 60
				seed := c.Seed*1000003 + int64(i)
				cases = append(cases, &flowCase{Index: i, Seed: seed, Cfg: cfg, Vdr: "disable",
					DelayMs: []int{0, 30, 120}[i%3], Race: !c.Quick() && i%5 == 0, Template: tmplFor(i),
					PyPct: map[bool]int{true: 60}[i%6 == 5]}) // every sixth program: most stages in Python
			}
			return cases
		},
		nontrivial: func(r *flowResult) bool { return len(r.prog.ShapeClasses()) > 0 },
	})
}

func init() {
	registerFlow("C02", &flowDef{
		rule:   "pgen programs biased to dependency shapes (consumption through sub-pipeline inputs/returns, disabled conditions, map sources from run-time sized outputs), producers slowed by probe delays, scheduler perturbed by hook delays at refresh/step/expandForks/jobDone; a case = (program, schedule); distinct = (shape hash, job start/end order signature); non-trivial = at least one cross-call dependency edge checked. Oracle: interval order between the probes' own monotonic start/end events for every model-derived dependency (data, disabled, map source, preflight) and split<chunks<join within a fork.",
		assume: []string{"dependency sets come from the reference evaluator's dataflow analysis (only dependencies implied by the bindings are required; the runtime may be stricter)", "CLOCK_MONOTONIC is comparable across processes on this host"},
		cases: func(c *vf.Ctx) []*flowCase {
			n := c.Pick(72, 1200)
			var cases []*flowCase
			hook := []string{"", "refresh:*=40@0.5;node:step=15@0.3;expand:fork=60@0.8;local:notify=80@0.5",
				"loop:*=50@0.5;step:begin=60@0.5;fork:*=20@0.3", "meta:write:*=8@0.3;runjob:*=30@0.5"}
			for i := 0; i < n; i++ {
				cfg := pgen.DefaultConfig()
				cfg.PFileTypes = 5
				cfg.PDisabled = 45
				cfg.PMapCall = 45
				cfg.PLiteral = 8
				cfg.PPreflight = 20
				cfg.MaxCalls = 6
				cfg.MaxStages = 6
				cfg.PTwin = 45
				seed := c.Seed*1000003 + 500000 + int64(i)
				cases = append(cases, &flowCase{Index: i, Seed: seed, Cfg: cfg, Vdr: "disable",
					DelayMs: []int{60, 200, 400}[i%3], Delays: hook[i%len(hook)],
					Cores: []int{2, 4, 8}[i%3], Race: !c.Quick() && i%4 == 0, Template: tmplFor(i),
					SlowOne: map[bool]int{true: 500}[tmplFor(i) > 0 || (i/2)%2 == 1]})
				if i%12 == 10 || i%12 == 3 {
					// an interrupted and restarted run: skeleton 4 (a stage mapped over a
					// run-time sized collection, consumed by a second mapped stage); mrp
					// is stopped when the first fork's job has been seen to finish while
					// the other forks are still running, then restarted - the ordering
					// must also hold for what the restarted mrp starts
					fc := cases[len(cases)-1]
					fc.Template = 5
					fc.SlowOne = 0
					fc.Delays = ""
					fc.DelayMs = 0
					fc.Tweak = func(s *pgen.Spec) { s.LenChoices = []int{3} }
					for _, f := range []string{"fork1", "fork2", "fork_b", "fork_c", "fork_d"} {
						fc.Rules = append(fc.Rules, pgen.Rule{JobPrefix: "TOP/M1/" + f + "/", DelayBeforeMs: 2000})
					}
					fc.Crash = []string{"local:notify#2:KILL", "local:notify#2:TERM", "refresh:route#4:KILL", "local:exited#2:INT"}[(i/12)%4]
				}
			}
			return cases
		},
		nontrivial: func(r *flowResult) bool { return r.report != nil && r.report.DepEdges > 0 },
	})
	registerFlow("C03", &flowDef{
		rule:   "pgen programs with emphasis on collection sizes (0,1,2,3 and 10/11 crossing the decimal width), typed-map key sets, nested map calls, zero-chunk splits, calls disabled by own condition / enclosing pipeline / empty or null map source; hook delays between journal processing and StepNodes and inside expandForks. Oracle: the multiset of executed (call, fork, phase, chunk) equals the reference model's expected set: each expected invocation is matched by exactly one recorded fork, each job started exactly once, chunk jobs == chunks the split defined, no job of a disabled call. distinct = (shape hash, schedule signature); non-trivial = program has a map call, disabled call or split stage.",
		assume: []string{"failure-free runs only (a failed run is inconclusive)", "stages fork only along the map dimensions their bindings (transitively) depend on, as the fork-root design states"},
		cases: func(c *vf.Ctx) []*flowCase {
			n := c.Pick(99, 1200)
			var cases []*flowCase
			hook := []string{"", "refresh:file=20@0.5;step:begin=40@0.5;expand:fork=50@0.9", "node:step=10@0.5;local:notify=50@0.5"}
			for i := 0; i < n; i++ {
				cfg := pgen.DefaultConfig()
				cfg.PFileTypes = 5
				cfg.PDisabled = 40
				cfg.PMapCall = 55
				cfg.PSplitStage = 50
				seed := c.Seed*1000003 + 700000 + int64(i)
				big := i%4 == 3
				cases = append(cases, &flowCase{Index: i, Seed: seed, Cfg: cfg, Vdr: "disable",
					DelayMs: []int{0, 40}[i%2], Delays: hook[i%len(hook)], Race: !c.Quick() && i%4 == 0,
					Template: tmplFor(i), SlowOne: map[bool]int{true: 400}[tmplFor(i) > 0 || (i/2)%2 == 1],
					Tweak: func(s *pgen.Spec) {
						if big {
							s.LenChoices = []int{0, 1, 2, 9, 10, 11}
							s.ChunkChoices = []int{0, 1, 2, 9, 10, 11}
						}
					}})
			}
			return cases
		},
		nontrivial: func(r *flowResult) bool { return len(r.prog.ShapeClasses()) > 0 },
	})
	registerFlow("C04", &flowDef{
		rule:   "file-passing pgen programs (files directly, in structs/arrays/typed maps, through sub-pipelines, several consumers, across mapped calls with run-time fork counts) under --vdrmode=rolling|post|strict with volatile / volatile=strict|false / retain annotations; consumers delayed so they start long after producers completed; hook delays at the VDR goroutines and removals. Oracle: every consumer probe lstat+reads every path in its own arguments at start (missing or wrong content token of a file its producer wrote = violation); at completion every top-level file output resolves to the producer's content token and every retained file still exists. distinct = (shape hash, vdr mode, schedule signature); non-trivial = at least one consumer file check or top-level file leaf.",
		assume: []string{"the probe honours the contract: file outputs name files it wrote itself under its own files directory"},
		cases: func(c *vf.Ctx) []*flowCase {
			n := c.Pick(120, 1500)
			var cases []*flowCase
			modes := []string{"rolling", "post", "strict"}
			hook := []string{"", "vdr:*=60@0.7;fork:doComplete*=30@0.5", "vdr:remove*=40@0.9;node:step=10@0.3", "vdr:partial:begin=120@0.8"}
			for i := 0; i < n; i++ {
				cfg := pgen.DefaultConfig()
				cfg.PFileTypes = 70
				cfg.PVolatile = 60
				cfg.PRetain = 35
				cfg.PResources = 50
				cfg.PNullLit = 3
				cfg.PLiteral = 8
				seed := c.Seed*1000003 + 900000 + int64(i)
				cases = append(cases, &flowCase{Index: i, Seed: seed, Cfg: cfg, Vdr: modes[i%3],
					DelayMs: []int{0, 80, 250}[(i/3)%3], Delays: hook[i%len(hook)], Race: !c.Quick() && i%4 == 0,
					Template: fileTmplFor(i)})
				if i%2 == 0 {
					// output files in sub-directories of the files directory
					cases[len(cases)-1].Tweak = func(s *pgen.Spec) { s.NestFilesPct = 40 }
				}
				if i%6 == 5 || i%6 == 1 {
					// half of the string-typed outputs carry the path of a file the stage
					// wrote; more string parameters than usual
					prev := cases[len(cases)-1].Tweak
					cases[len(cases)-1].Tweak = func(s *pgen.Spec) {
						if prev != nil {
							prev(s)
						}
						s.PathInStringPct = 50
					}
					cfg.PFileTypes = 35
				}
				if i%12 == 5 {
					// file skeleton 12: every output of the volatile producer is a string,
					// string collection or struct of strings naming a file it wrote; two
					// successive slow readers
					fc := cases[len(cases)-1]
					fc.Template = pgen.NTemplates + 12 + 1
					fc.Tweak = func(s *pgen.Spec) { s.PathInStringPct = 100 }
					fc.Vdr = []string{"rolling", "strict", "rolling", "post"}[(i/12)%4]
					fc.DelayMs = 250
				}
				if i%6 == 3 {
					// the pipestance directory is reached through a symlinked parent
					// directory, and half of the output files are named by the stage
					// with their physical path (as realpath / pwd -P would give it)
					cases[len(cases)-1].Tweak = func(s *pgen.Spec) { s.SymlinkedParent = true; s.PhysicalPathsPct = 50 }
					cases[len(cases)-1].Vdr = []string{"strict", "rolling", "strict", "post"}[(i/6)%4]
					cases[len(cases)-1].DelayMs = 250
				}
				if fc := cases[len(cases)-1]; fc.Template == pgen.NTemplates+8 {
					// skeleton 7: a consumer that fails transiently and is retried
					// must still find the producer's files
					if fc.Vdr == "post" {
						fc.Vdr = "rolling"
					}
					fc.AutoRetry = 2
					fc.DelayMs = 0
					fc.Rules = []pgen.Rule{
						{JobPrefix: "TOP/CKILL/", Phase: "main", Attempt: 1, Fail: "kill_mrjob"},
						{JobPrefix: "TOP/COK/", Phase: "main", DelayBeforeMs: 300},
					}
				}
			}
			return cases
		},
		nontrivial: func(r *flowResult) bool {
			return r.report != nil && (r.report.FileChecks > 0 || r.report.TopLeaves > 0)
		},
	})
}

func pickTimeout(t time.Duration) time.Duration {
	if t == 0 {
		return 180 * time.Second
	}
	return t
}

// crashFired: the trace shows the hook hit named in a VERIF_CRASH spec
// ("name#k:SIG") as the last record of some mrp process.
func crashFired(trace []vrun.TraceRec, spec string) bool {
	name := spec
	if i := strings.IndexByte(spec, '#'); i >= 0 {
		name = spec[:i]
	}
	for _, t := range trace {
		if t.Name == name && t.Crash != "" {
			return true
		}
	}
	return false
}

// fileTmplFor: two of every seven cases are file-passing skeletons; the
// skeleton for a slot is the one used least so far with that slot's i%3 (the
// VDR mode / option cycle of the checks), so every (skeleton, i%3) pair
// comes round.
var (
	fileTmplOnce  sync.Once
	fileTmplTable []int
)

func fileTmplFor(i int) int {
	fileTmplOnce.Do(func() {
		const n = 40000
		fileTmplTable = make([]int, n)
		var cnt [pgen.NFileTemplates][3]int
		var tot [pgen.NFileTemplates]int
		for i := 0; i < n; i++ {
			if i%7 != 4 && i%7 != 1 {
				continue
			}
			best := 0
			for k := 1; k < pgen.NFileTemplates; k++ {
				if cnt[k][i%3] < cnt[best][i%3] || (cnt[k][i%3] == cnt[best][i%3] && tot[k] < tot[best]) {
					best = k
				}
			}
			cnt[best][i%3]++
			tot[best]++
			fileTmplTable[i] = 1 + pgen.NTemplates + best
		}
	})
	if i < 0 || i >= len(fileTmplTable) {
		return 0
	}
	return fileTmplTable[i]
}

// tmplFor: every third case is a skeleton program.
func tmplFor(i int) int {
	if i%3 != 1 {
		return 0
	}
	return 1 + (i/3)%pgen.NTemplates
}

func init() {
	registerFlow("C13", &flowDef{
		rule:   "pgen programs whose top-level pipeline returns files in every container nesting (file, user file types, path incl. directories, arrays / typed maps / structs of files, explicit out names, nulls, files named but never written, the same file returned twice); oracle re-derives the outs/ path of every file leaf from parameter name, type and outname and checks (a) that path resolves to the producer's content token, (b) the post-processed _outs is valid JSON of the same shape, file values name a materialised location with that content, every other value unchanged, never-written files became null. distinct = (shape hash, top-level output signature); non-trivial = at least one file leaf checked.",
		assume: []string{"content tokens written by the probe identify the producing job's file", "expected values come from the reference evaluator over recorded stage outputs"},
		cases: func(c *vf.Ctx) []*flowCase {
			n := c.Pick(120, 2000)
			var cases []*flowCase
			for i := 0; i < n; i++ {
				cfg := pgen.DefaultConfig()
				cfg.PFileTypes = 75
				cfg.PNullLit = 8
				cfg.PLiteral = 8
				cfg.MaxTypeDepth = 3
				cfg.MaxStructs = 4
				cfg.PTopMap = 35 // mapped top-level calls: per-fork records and outs/<index|key>/ directories
				seed := c.Seed*1000003 + 1300000 + int64(i)
				big := i%5 == 4
				outside := i%2 == 1
				vdr := []string{"disable", "rolling", "strict"}[i%3]
				tmpl := fileTmplFor(i)
				if i%10 == 7 {
					// an explicit out name equal to a sibling's default file name:
					// rejected before anything runs, or materialised faithfully
					cfg.POutClash = 60
					if i%20 == 7 {
						tmpl = pgen.NTemplates + 9
					}
				}
				if fileTmplFor(i) == pgen.NTemplates+7 {
					vdr = "disable" // the pass-through skeleton needs VDR off
				}
				var extra []string
				if i%6 == 5 || i%12 == 1 {
					// the metadata files (the top-level _outs among them) are archived
					// into _metadata.zip on completion and restored by a later mrp
					extra = []string{"--zip"}
				}
				cases = append(cases, &flowCase{Index: i, Seed: seed, Cfg: cfg, Vdr: vdr, ExtraArg: extra,
					Reattach: i%4 == 1 || i%4 == 2, Template: tmpl,
					Tweak: func(s *pgen.Spec) {
						s.PMissingFile = 12
						s.PNull = 8
						if i%5 == 3 {
							// keys of run-time typed maps (they become file / directory names
							// under outs/ and JSON object keys of the rewritten _outs) with
							// characters that are legal in both but need care when quoted
							s.KeyPool = append(append([]string{}, s.KeyPool...), "e\x1b[1mA", "d\x7f", "bel\a", "vt\v", "q\"uote", "back\\slash", "\U000e0001tag", "nl\nx")
						}
						if big || i%4 == 2 {
							s.NestFilesPct = 40
						}
						if outside {
							s.OutsideDir = filepath.Join(filepath.Dir(s.PsRoot), "outside")
						}
						if big {
							s.MaxLen = 11
						}
					}})
			}
			return cases
		},
		nontrivial: func(r *flowResult) bool { return r.report != nil && r.report.TopLeaves > 0 },
	})
	registerFlow("C14", &flowDef{
		rule:   "C04's file-passing programs with extra unreferenced files, nested directories and TMPDIR files written by every job, under rolling/post/strict VDR with volatile / volatile=strict|false / retain; oracle at completion: no job tmp directory, no chunk-level file of a splitting stage, no file of a volatile (strict mode: any) stage that no top-level output or retain names; every path listed in any _vdrkill* gone; fork and pipestance report count/size == sum of the hook's own lstat inventories taken just before each removal; every vanished file covered by an inventoried removal; every removal inside the pipestance; canary beside it untouched. Every fifth case is interrupted (handled signal at a VDR hook point, SIGKILL at a run-loop boundary) and restarted; every tenth is interrupted mid-run, its top-level pipeline directory is moved outside the pipestance directory and replaced by a symlink, and after the restart the files of completed jobs lying there must all still exist (unless post-processing moved them into outs/). distinct = (shape hash, mode, schedule); non-trivial = at least one removal observed.",
		assume: []string{"report unit: filesystem entries created by jobs (runtime-made tmp/files directory inodes not counted), st_size bytes", "the verif hook inventory (util.VerifPoint vdr:remove*) walks the subtree immediately before os.RemoveAll"},
		cases: func(c *vf.Ctx) []*flowCase {
			n := c.Pick(120, 1500)
			var cases []*flowCase
			modes := []string{"rolling", "post", "strict"}
			hook := []string{"", "vdr:*=40@0.5", "vdr:remove*=30@0.8;fork:doComplete*=20@0.5"}
			for i := 0; i < n; i++ {
				cfg := pgen.DefaultConfig()
				cfg.PFileTypes = 65
				cfg.PVolatile = 60
				cfg.PRetain = 35
				cfg.PResources = 50
				cfg.PSplitStage = 50
				cfg.PLiteral = 8
				seed := c.Seed*1000003 + 1400000 + int64(i)
				cases = append(cases, &flowCase{Index: i, Seed: seed, Cfg: cfg, Vdr: modes[i%3],
					DelayMs: []int{0, 50, 150}[(i/3)%3], Delays: hook[i%len(hook)], Race: !c.Quick() && i%4 == 0,
					Template: fileTmplFor(i)})
				if i%2 == 1 {
					// output files in sub-directories of the files directory
					cases[len(cases)-1].Tweak = func(s *pgen.Spec) { s.NestFilesPct = 40 }
				}
				if i%5 == 2 {
					// interruption and restart between partial and final cleanup: a
					// handled signal at a VDR point (the removal + report of one
					// cleanup step are a critical section), or SIGKILL at a run-loop
					// boundary after clean-up has begun
					crashes := []string{"vdr:partial:write#1:TERM", "vdr:some:removed#1:TERM", "vdr:remove:some#2:TERM",
						"vdr:final:write#1:TERM", "vdr:partial:begin#2:INT", "cleanup:vdr_done#1:TERM", "vdr:pipestance:begin#1:TERM",
						"vdr:remove:chunk_tmp#2:TERM", "loop:begin#4:KILL", "loop:begin#6:KILL", "vdr:partial:write#3:INT", "vdr:remove:join_tmp#1:TERM"}
					cases[len(cases)-1].Crash = crashes[(i/5)%len(crashes)]
				}
				if i%10 == 9 && cases[len(cases)-1].Crash == "" {
					// volatility forced from outside: mrp --overrides with force_volatile
					// on the top-level pipeline (inherited by every stage below it)
					cases[len(cases)-1].ForceVol = true
				}
				if i%10 == 7 && modes[i%3] != "post" {
					// interrupted mid-run, the top-level pipeline directory relocated
					// behind a symlink, restarted
					fc := cases[len(cases)-1]
					fc.Crash = []string{"loop:begin#4:KILL", "loop:begin#6:TERM", "loop:begin#8:KILL", "loop:begin#5:INT"}[(i/10)%4]
					fc.Relocate = true
					fc.DelayMs = 150
				}
			}
			return cases
		},
		nontrivial: func(r *flowResult) bool { return r.vdr.Removals > 0 },
	})
}
