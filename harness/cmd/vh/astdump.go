package main

import (
	"fmt"
	"reflect"
	"sort"
	"strings"
)

// dumpAst renders the structure of a syntax tree (exported fields only) as
// text, ignoring source locations and comments, for structural comparison
// by the harness (it does not use martian's own equivalence code).
type astDumper struct {
	sb    strings.Builder
	seen  map[uintptr]bool
	depth int
	// sortCalls: compare pipeline calls as a set (the formatter may
	// reorder calls into dependency order).
	sortCalls bool
	// skip fields by name
	skip map[string]bool
}

var defaultSkip = map[string]bool{
	"Node": true, "Loc": true, "Comments": true, "Files": true, "TypeTable": true, "Table": true,
	"Errors": true, "File": true, "IncludedFrom": true, "Callables": true,
}

func dumpAst(v interface{}, sortCalls bool, extraSkip ...string) string {
	d := &astDumper{seen: map[uintptr]bool{}, sortCalls: sortCalls, skip: map[string]bool{}}
	for k := range defaultSkip {
		d.skip[k] = true
	}
	for _, k := range extraSkip {
		d.skip[k] = true
	}
	d.walk(reflect.ValueOf(v), "")
	return d.sb.String()
}

func (d *astDumper) walk(v reflect.Value, field string) {
	if d.depth > 200 {
		d.sb.WriteString("<deep>")
		return
	}
	d.depth++
	defer func() { d.depth-- }()
	if !v.IsValid() {
		d.sb.WriteString("nil")
		return
	}
	switch v.Kind() {
	case reflect.Ptr:
		if v.IsNil() {
			d.sb.WriteString("nil")
			return
		}
		p := v.Pointer()
		if d.seen[p] {
			d.sb.WriteString("<cycle>")
			return
		}
		d.seen[p] = true
		d.walk(v.Elem(), field)
		delete(d.seen, p)
	case reflect.Interface:
		if v.IsNil() {
			d.sb.WriteString("nil")
			return
		}
		e := v.Elem()
		t := e.Type()
		for t.Kind() == reflect.Ptr {
			t = t.Elem()
		}
		if n := t.Name(); n != "IntExp" && n != "FloatExp" {
			d.sb.WriteString(n + ":")
		}
		d.walk(e, field)
	case reflect.Struct:
		t := v.Type()
		switch t.Name() {
		case "IntExp":
			// numeric literals are compared numerically (27 == 27.0)
			fmt.Fprintf(&d.sb, "Num{%v}", float64(v.FieldByName("Value").Int()))
			return
		case "FloatExp":
			fmt.Fprintf(&d.sb, "Num{%v}", v.FieldByName("Value").Float()+0)
			return
		case "Modifiers":
			d.walkModifiers(v)
			return
		}
		d.sb.WriteString(t.Name() + "{")
		for i := 0; i < t.NumField(); i++ {
			f := t.Field(i)
			if f.PkgPath != "" && !f.Anonymous {
				continue // unexported
			}
			if d.skip[f.Name] {
				continue
			}
			if f.Anonymous && f.PkgPath != "" {
				// embedded unexported struct (e.g. valExp): only its exported fields
				fv := v.Field(i)
				if fv.Kind() == reflect.Struct {
					continue
				}
			}
			d.sb.WriteString(f.Name + "=")
			d.walk(v.Field(i), f.Name)
			d.sb.WriteString(";")
		}
		d.sb.WriteString("}")
	case reflect.Slice, reflect.Array:
		if v.Kind() == reflect.Slice && v.IsNil() {
			d.sb.WriteString("[]")
			return
		}
		n := v.Len()
		items := make([]string, n)
		for i := 0; i < n; i++ {
			sub := &astDumper{seen: d.seen, sortCalls: d.sortCalls, skip: d.skip, depth: d.depth}
			sub.walk(v.Index(i), field)
			items[i] = sub.sb.String()
		}
		if d.sortCalls && field == "Calls" {
			sort.Strings(items)
		}
		d.sb.WriteString("[" + strings.Join(items, ",") + "]")
	case reflect.Map:
		if v.IsNil() || v.Len() == 0 {
			d.sb.WriteString("map[]")
			return
		}
		keys := v.MapKeys()
		strs := make([]string, len(keys))
		for i, k := range keys {
			sub := &astDumper{seen: d.seen, sortCalls: d.sortCalls, skip: d.skip, depth: d.depth}
			sub.walk(v.MapIndex(k), field)
			strs[i] = fmt.Sprintf("%v", k.Interface()) + ":" + sub.sb.String()
		}
		sort.Strings(strs)
		d.sb.WriteString("map[" + strings.Join(strs, ",") + "]")
	case reflect.String:
		fmt.Fprintf(&d.sb, "%q", v.String())
	case reflect.Float32, reflect.Float64:
		fmt.Fprintf(&d.sb, "%v", v.Float())
	case reflect.Int, reflect.Int8, reflect.Int16, reflect.Int32, reflect.Int64:
		fmt.Fprintf(&d.sb, "%d", v.Int())
	case reflect.Uint, reflect.Uint8, reflect.Uint16, reflect.Uint32, reflect.Uint64:
		fmt.Fprintf(&d.sb, "%d", v.Uint())
	case reflect.Bool:
		fmt.Fprintf(&d.sb, "%v", v.Bool())
	case reflect.Func, reflect.Chan, reflect.UnsafePointer:
		d.sb.WriteString("<fn>")
	default:
		fmt.Fprintf(&d.sb, "%v", v)
	}
}

// firstDiff returns a short excerpt around the first difference.
func firstDiff(a, b string) string {
	n := len(a)
	if len(b) < n {
		n = len(b)
	}
	i := 0
	for i < n && a[i] == b[i] {
		i++
	}
	lo := i - 80
	if lo < 0 {
		lo = 0
	}
	ha, hb := i+80, i+80
	if ha > len(a) {
		ha = len(a)
	}
	if hb > len(b) {
		hb = len(b)
	}
	return fmt.Sprintf("…%s… vs …%s…", a[lo:ha], b[lo:hb])
}

// walkModifiers renders call modifiers by meaning: the keyword form
// (`call volatile X`) and the binding form (`using (volatile = true)`) are
// the same program.
func (d *astDumper) walkModifiers(v reflect.Value) {
	local := v.FieldByName("Local").Bool()
	pre := v.FieldByName("Preflight").Bool()
	vol := v.FieldByName("Volatile").Bool()
	disabled := ""
	b := v.FieldByName("Bindings")
	if b.IsValid() && !b.IsNil() {
		list := b.Elem().FieldByName("List")
		for i := 0; i < list.Len(); i++ {
			bs := list.Index(i).Elem()
			id := bs.FieldByName("Id").String()
			exp := bs.FieldByName("Exp")
			isTrue := false
			if !exp.IsNil() {
				e := exp.Elem()
				for e.Kind() == reflect.Ptr {
					e = e.Elem()
				}
				if e.Type().Name() == "BoolExp" {
					isTrue = e.FieldByName("Value").Bool()
				}
			}
			switch id {
			case "local":
				local = local || isTrue
			case "preflight":
				pre = pre || isTrue
			case "volatile":
				vol = vol || isTrue
			default:
				sub := &astDumper{seen: d.seen, sortCalls: d.sortCalls, skip: d.skip, depth: d.depth}
				sub.walk(exp, "Exp")
				disabled += id + "=" + sub.sb.String() + ";"
			}
		}
	}
	fmt.Fprintf(&d.sb, "Mods{local=%v;preflight=%v;volatile=%v;%s}", local, pre, vol, disabled)
}
