package main

// C12: resource limits are never exceeded and never stall the pipestance.
//
// Runtime monitoring of the real core.ResourceSemaphore, core.MaxJobsSemaphore,
// core.LocalJobManager.GetSystemReqs and core.RemoteJobManager.GetSystemReqs:
//
//  1. concurrent client histories checked for linearizability (porcupine)
//     against a sequential counting model, plus client-side over-limit,
//     conservation and state-decided lost-wake-up monitors;
//  2. a sequential differential driver against a small FIFO reference;
//  3. request normalisation bounds / idempotence.
//
// Race-enabled invocation: build the harness with -race and run
// `GORACE="halt_on_error=0 exitcode=0 log_path=$VERIF_RACE_LOG" vh-race C12`;
// reports mentioning resource_semaphore.go / maxjobs_semaphore.go found in
// $VERIF_RACE_LOG.* are reported as C12:data-race:<file>.

import (
	"bytes"
	"fmt"
	"math"
	"math/bits"
	"math/rand"
	"os"
	"path/filepath"
	"runtime"
	"runtime/debug"
	"sort"
	"strings"
	"sync"
	"sync/atomic"
	"time"

	"github.com/anishathalye/porcupine"
	"github.com/martian-lang/martian/martian/core"
	"github.com/martian-lang/martian/martian/util"
	"verif/harness/internal/vf"
)

// ---------------------------------------------------------------------------
// common

const (
	c12Acquire = iota
	c12Release
	c12UpdateSize
	c12UpdateActual
	c12UpdateFreeUsed
	c12Reserved
	c12Available
	c12CurrentSize
	c12InUse
	c12QueueLength
	// MaxJobsSemaphore
	c12MJAcquire
	c12MJRelease
	c12MJFindDone
	c12MJCurrent
	c12MJWrite
	c12MJClear
	c12MJFindOne // model-only: FindDone restricted to one metadata object
)

var c12Names = [...]string{"Acquire", "Release", "UpdateSize", "UpdateActual", "UpdateFreeUsed",
	"Reserved", "Available", "CurrentSize", "InUse", "QueueLength",
	"MJ.Acquire", "MJ.Release", "MJ.FindDone", "MJ.Current", "MD.Write", "MJ.Clear", "MJ.FindOne"}

// c12Rec is one call recorded at the client boundary.
type c12Rec struct {
	Client int    `json:"client"`
	Op     string `json:"op"`
	Kind   int    `json:"-"`
	A      int64  `json:"a"`
	B      int64  `json:"b,omitempty"`
	NB     bool   `json:"nonblocking,omitempty"`
	Call   int64  `json:"call"`
	Ret    int64  `json:"ret"`
	OK     bool   `json:"ok"`
	V      int64  `json:"v"`
	Panic  string `json:"panic,omitempty"`
}

const c12Watchdog = 90 * time.Second

func c12Yield(i int) {
	if i&63 == 63 {
		time.Sleep(20 * time.Microsecond)
	} else {
		runtime.Gosched()
	}
}

// c12GID returns the id of the calling goroutine.
func c12GID() int64 {
	var b [64]byte
	n := runtime.Stack(b[:], false)
	var id int64
	fmt.Sscanf(string(b[:n]), "goroutine %d ", &id)
	return id
}

// c12Parked counts the goroutines created by goroutine gid which are in
// wait state `state` and have a frame containing `frame`.  A goroutine that
// has been signalled is runnable, not in this state, so this is a decision
// from state and not from time.
func c12Parked(buf *[]byte, gid int64, frame, state string) int {
	var data []byte
	for {
		n := runtime.Stack(*buf, true)
		if n < len(*buf) {
			data = (*buf)[:n]
			break
		}
		*buf = make([]byte, 2*len(*buf))
	}
	tag := []byte(fmt.Sprintf(" in goroutine %d\n", gid))
	fr := []byte(frame)
	st := []byte(state)
	count := 0
	for _, blk := range bytes.Split(data, []byte("\n\n")) {
		if !bytes.HasPrefix(blk, []byte("goroutine ")) {
			continue
		}
		nl := bytes.IndexByte(blk, '\n')
		if nl < 0 {
			continue
		}
		hdr := blk[:nl]
		lb := bytes.IndexByte(hdr, '[')
		if lb < 0 || !bytes.HasPrefix(hdr[lb+1:], st) {
			continue
		}
		if !bytes.Contains(blk, fr) || !bytes.Contains(blk, tag) {
			continue
		}
		count++
	}
	return count
}

type c12Pool struct {
	mu sync.Mutex
	v  []int64
}

func (p *c12Pool) push(n int64) { p.mu.Lock(); p.v = append(p.v, n); p.mu.Unlock() }
func (p *c12Pool) popRand(r *rand.Rand) (int64, bool) {
	p.mu.Lock()
	defer p.mu.Unlock()
	if len(p.v) == 0 {
		return 0, false
	}
	i := r.Intn(len(p.v))
	n := p.v[i]
	p.v[i] = p.v[len(p.v)-1]
	p.v = p.v[:len(p.v)-1]
	return n, true
}
func (p *c12Pool) popAll() []int64 {
	p.mu.Lock()
	defer p.mu.Unlock()
	v := p.v
	p.v = nil
	return v
}

func c12HistKey(prefix string, recs []c12Rec) string {
	var sb strings.Builder
	sb.WriteString(prefix)
	for _, r := range recs {
		fmt.Fprintf(&sb, "|%d:%d:%d:%d:%v:%v:%d", r.Client, r.Kind, r.A, r.B, r.NB, r.OK, r.V)
	}
	return sb.String()
}

// ---------------------------------------------------------------------------
// monitor 1a: ResourceSemaphore, concurrent histories

type c12RSCfg struct {
	Seed    int64 `json:"seed"`
	Max     int64 `json:"max"`
	Clients int   `json:"clients"`
	Per     int   `json:"ops_per_client"`
	Updates bool  `json:"updates"`
}

type c12RSOut struct {
	Cfg     c12RSCfg
	Recs    []c12Rec
	Verdict string // "", lost-wakeup, over-limit, conservation, panic, watchdog
	Detail  string
	Stuck   int // drain rounds entered with every live client queued
}

func c12RSCall(sem *core.ResourceSemaphore, stamp *atomic.Int64, r *c12Rec) {
	r.Op = c12Names[r.Kind]
	defer func() {
		if p := recover(); p != nil {
			r.Panic = fmt.Sprint(p)
			r.Ret = stamp.Add(1)
		}
	}()
	r.Call = stamp.Add(1)
	switch r.Kind {
	case c12Acquire:
		r.OK = sem.Acquire(r.A) == nil
	case c12Release:
		sem.Release(r.A)
		r.OK = true
	case c12UpdateSize:
		sem.UpdateSize(r.A)
		r.OK = true
	case c12UpdateActual:
		r.V = sem.UpdateActual(r.A)
		r.OK = true
	case c12UpdateFreeUsed:
		r.V = sem.UpdateFreeUsed(r.A, r.B)
		r.OK = true
	case c12Reserved:
		r.V = sem.Reserved()
		r.OK = true
	case c12Available:
		r.V = sem.Available()
		r.OK = true
	case c12CurrentSize:
		r.V = sem.CurrentSize()
		r.OK = true
	case c12InUse:
		r.V = sem.InUse()
		r.OK = true
	case c12QueueLength:
		r.V = int64(sem.QueueLength())
		r.OK = true
	}
	r.Ret = stamp.Add(1)
}

func c12RSAmount(rng *rand.Rand, max int64) int64 {
	switch q := rng.Intn(20); {
	case q == 0:
		return 0
	case q <= 2:
		return max + 1 + rng.Int63n(2)
	case q <= 5:
		return max
	default:
		return 1 + rng.Int63n(max)
	}
}

func c12RunRS(cfg c12RSCfg) *c12RSOut {
	res := make(chan *c12RSOut, 1)
	go func() { res <- c12rsRun(cfg) }()
	select {
	case o := <-res:
		return o
	case <-time.After(c12Watchdog):
		return &c12RSOut{Cfg: cfg, Verdict: "watchdog"}
	}
}

func c12rsRun(cfg c12RSCfg) *c12RSOut {
	out := &c12RSOut{Cfg: cfg}
	max, n := cfg.Max, cfg.Clients
	sem := core.NewResourceSemaphore(max, core.DefaultResourceFormatter("units"))
	var stamp, held atomic.Int64
	var done atomic.Int32
	var over, draining atomic.Bool
	pool := &c12Pool{}
	recs := make([][]c12Rec, n+1)
	start := make(chan struct{})
	var wg sync.WaitGroup
	for ci := 0; ci < n; ci++ {
		wg.Add(1)
		go func(ci int) {
			defer wg.Done()
			defer done.Add(1)
			rng := rand.New(rand.NewSource(cfg.Seed*64 + int64(ci) + 1))
			<-start
			for k := 0; k < cfg.Per && !draining.Load(); k++ {
				r := c12Rec{Client: ci}
				p := rng.Intn(100)
				if !cfg.Updates && p >= 60 && p < 79 {
					p = 90
				}
				switch {
				case p < 34:
					r.Kind, r.A = c12Acquire, c12RSAmount(rng, max)
				case p < 60:
					if a, ok := pool.popRand(rng); ok {
						held.Add(-a)
						r.Kind, r.A = c12Release, a
					} else {
						r.Kind = c12Reserved + rng.Intn(5)
					}
				case p < 65:
					r.Kind, r.A = c12UpdateSize, rng.Int63n(max+1)
				case p < 72:
					r.Kind, r.A = c12UpdateActual, rng.Int63n(max+5)-2
				case p < 79:
					r.Kind, r.A, r.B = c12UpdateFreeUsed, rng.Int63n(max+5)-2, rng.Int63n(max+3)
				default:
					r.Kind = c12Reserved + rng.Intn(5)
				}
				c12RSCall(sem, &stamp, &r)
				if r.Kind == c12Acquire && r.OK && r.Panic == "" {
					if held.Add(r.A) > max {
						over.Store(true)
					}
					pool.push(r.A)
				}
				recs[ci] = append(recs[ci], r)
			}
		}(ci)
	}
	close(start)
	orch := func(kind int, a int64) c12Rec {
		r := c12Rec{Client: n, Kind: kind, A: a}
		c12RSCall(sem, &stamp, &r)
		recs[n] = append(recs[n], r)
		return r
	}
	lost := false
	for !lost {
		d := 0
		for i := 0; ; i++ {
			d = int(done.Load())
			if d == n || d+sem.QueueLength() == n {
				break
			}
			c12Yield(i)
		}
		if d == n {
			break
		}
		// Every client which has not finished is in the wait queue.
		out.Stuck++
		if !draining.Load() {
			// Restore the full size, then wait again so that nobody is
			// between being granted and recording what it holds.
			draining.Store(true)
			orch(c12UpdateSize, max)
			continue
		}
		amounts := pool.popAll()
		if len(amounts) == 0 {
			// Nothing is held by anybody and the size is the maximum.
			if ql, av := sem.QueueLength(), sem.Available(); ql > 0 && av == max {
				out.Verdict = "lost-wakeup"
				out.Detail = fmt.Sprintf("QueueLength()=%d while Available()=%d == max and no client holds anything", ql, av)
				lost = true
			} else if ql > 0 {
				out.Verdict = "conservation"
				out.Detail = fmt.Sprintf("no client holds anything, CurrentSize()=%d, yet Available()=%d (max %d) with %d waiting", sem.CurrentSize(), av, max, ql)
				lost = true
			}
		}
		for _, a := range amounts {
			held.Add(-a)
			orch(c12Release, a)
		}
	}
	if !lost {
		wg.Wait()
		for _, a := range pool.popAll() {
			held.Add(-a)
			orch(c12Release, a)
		}
		orch(c12UpdateSize, max)
		r1, r2, r3, r4 := orch(c12Reserved, 0), orch(c12InUse, 0), orch(c12Available, 0), orch(c12QueueLength, 0)
		if r1.V != 0 || r2.V != 0 || r3.V != max || r4.V != 0 {
			out.Verdict = "conservation"
			out.Detail = fmt.Sprintf("after releasing everything and UpdateSize(max=%d): Reserved()=%d InUse()=%d Available()=%d QueueLength()=%d", max, r1.V, r2.V, r3.V, r4.V)
		}
	}
	// Blocked clients (lost wake-up) still own their record slices: only
	// collect records of clients which are done.
	if lost {
		// best effort: let the goroutines go
		for i := 0; i < 4*n; i++ {
			sem.UpdateSize(max * 4)
		}
		time.Sleep(10 * time.Millisecond)
		out.Recs = append(out.Recs, recs[n]...)
		return out
	}
	for _, rs := range recs {
		out.Recs = append(out.Recs, rs...)
	}
	sort.Slice(out.Recs, func(i, j int) bool { return out.Recs[i].Call < out.Recs[j].Call })
	for _, r := range out.Recs {
		if r.Panic != "" && out.Verdict == "" {
			out.Verdict = "panic"
			out.Detail = r.Op + ": " + r.Panic
		}
	}
	if over.Load() && out.Verdict == "" {
		out.Verdict = "over-limit"
		out.Detail = fmt.Sprintf("sum of amounts held by clients (between Acquire returning and Release being called) exceeded max=%d", max)
	}
	return out
}

type c12RSState struct{ Cur, Res int64 }
type c12In struct {
	Kind int
	A, B int64
	NB   bool
}
type c12OutV struct {
	OK bool
	V  int64
}

func c12RSModel(max int64) porcupine.Model {
	return porcupine.Model{
		Init: func() interface{} { return c12RSState{max, 0} },
		Step: func(st, in, ou interface{}) (bool, interface{}) {
			s, i, o := st.(c12RSState), in.(c12In), ou.(c12OutV)
			switch i.Kind {
			case c12Acquire:
				if i.A > max {
					return !o.OK, s
				}
				if !o.OK || s.Cur-s.Res < i.A {
					return false, s
				}
				s.Res += i.A
				return true, s
			case c12Release:
				s.Res -= i.A
				return s.Res >= 0, s
			case c12UpdateSize:
				s.Cur = i.A
				return true, s
			case c12UpdateActual:
				actual := i.A + s.Res
				s.Cur = actual
				if actual > max {
					s.Cur = max
				}
				return o.V == actual-max, s
			case c12UpdateFreeUsed:
				s.Cur = c12FreeUsed(max, s.Res, i.A, i.B)
				return o.V == i.A+i.B-max, s
			case c12Reserved:
				return o.V == s.Res, s
			case c12Available:
				return o.V == s.Cur-s.Res, s
			case c12CurrentSize:
				return o.V == s.Cur, s
			case c12InUse:
				return o.V == max-s.Cur+s.Res, s
			case c12QueueLength:
				return true, s
			}
			return false, s
		},
	}
}

// c12FreeUsed is the documented effect of UpdateFreeUsed on the current size.
func c12FreeUsed(max, reserved, free, used int64) int64 {
	actual := free + used
	if used <= reserved {
		if actual > max {
			return max
		}
		return actual
	}
	adjust := used - reserved
	if actual > max-adjust {
		return max - adjust
	}
	return actual - adjust
}

func c12PorcOps(recs []c12Rec, keep func(kind int) bool, nmd int) []porcupine.Operation {
	var ops []porcupine.Operation
	for _, r := range recs {
		if keep != nil && !keep(r.Kind) {
			continue
		}
		if r.Kind == c12MJFindDone {
			for m := 0; m < nmd; m++ {
				ops = append(ops, porcupine.Operation{ClientId: r.Client, Input: c12In{Kind: c12MJFindOne, A: int64(m)},
					Call: r.Call, Output: c12OutV{OK: true}, Return: r.Ret})
			}
			continue
		}
		ops = append(ops, porcupine.Operation{ClientId: r.Client, Input: c12In{Kind: r.Kind, A: r.A, B: r.B, NB: r.NB},
			Call: r.Call, Output: c12OutV{OK: r.OK, V: r.V}, Return: r.Ret})
	}
	return ops
}

// c12Blame narrows a non-linearizable history down to the kind of read-only
// call whose results cannot be explained (removing read-only calls keeps a
// linearizable history linearizable), or "mutators".
func c12Blame(model porcupine.Model, recs []c12Rec, readOnly []int, nmd int) string {
	isRO := func(k int) bool {
		for _, r := range readOnly {
			if r == k {
				return true
			}
		}
		return false
	}
	r, _ := porcupine.CheckOperationsVerbose(model, c12PorcOps(recs, func(k int) bool { return !isRO(k) }, nmd), 20*time.Second)
	if r != porcupine.Ok {
		return "mutators"
	}
	for _, g := range readOnly {
		r, _ := porcupine.CheckOperationsVerbose(model, c12PorcOps(recs, func(k int) bool { return !isRO(k) || k == g }, nmd), 20*time.Second)
		if r == porcupine.Illegal {
			return c12Names[g]
		}
	}
	return "getters-combined"
}

// ---------------------------------------------------------------------------
// monitor 1b: MaxJobsSemaphore, concurrent histories

const c12MaxMD = 6

const (
	c12FJobInfo = 1 << iota
	c12FLog
	c12FComplete
	c12FErrors
)

var c12FileNames = map[int64]core.MetadataFileName{
	c12FJobInfo: core.JobInfoFile, c12FLog: core.LogFile, c12FComplete: core.CompleteFile, c12FErrors: core.Errors}

// Acquire only admits metadata in the Waiting / Queued states.
func c12MDValid(files uint8) bool { return files&^c12FJobInfo == 0 }

// FindDone removes metadata in the Complete / Failed states.
func c12MDDone(files uint8) bool { return files&(c12FComplete|c12FErrors) != 0 }

type c12MJCfg struct {
	Seed    int64 `json:"seed"`
	Limit   int   `json:"limit"`
	NMD     int   `json:"metadata_objects"`
	Clients int   `json:"clients"`
	Per     int   `json:"ops_per_client"`
	ClearBy int   `json:"clear_by_client"` // -1: no Clear
	ClearAt int   `json:"clear_at_op"`
}

type c12MJOut struct {
	Cfg     c12MJCfg
	Recs    []c12Rec
	Verdict string
	Detail  string
	Stuck   int
}

type c12MJEnv struct {
	sem   *core.MaxJobsSemaphore
	mds   []*core.Metadata
	stamp atomic.Int64
}

func c12NewMJEnv(dir string, limit, nmd int) (*c12MJEnv, error) {
	e := &c12MJEnv{sem: core.NewMaxJobsSemaphore(limit)}
	for i := 0; i < nmd; i++ {
		d := filepath.Join(dir, fmt.Sprintf("md%d", i))
		if err := os.MkdirAll(d, 0755); err != nil {
			return nil, err
		}
		e.mds = append(e.mds, core.NewMetadata(fmt.Sprintf("ID.c12.P.S%d.fork0.chnk0", i), d))
	}
	return e, nil
}

func (e *c12MJEnv) call(r *c12Rec) {
	r.Op = c12Names[r.Kind]
	defer func() {
		if p := recover(); p != nil {
			r.Panic = fmt.Sprint(p)
			r.Ret = e.stamp.Add(1)
		}
	}()
	r.Call = e.stamp.Add(1)
	switch r.Kind {
	case c12MJAcquire:
		r.OK = e.sem.Acquire(e.mds[r.A], r.NB)
	case c12MJRelease:
		e.sem.Release(e.mds[r.A])
		r.OK = true
	case c12MJFindDone:
		e.sem.FindDone()
		r.OK = true
	case c12MJCurrent:
		r.V = int64(e.sem.Current())
		r.OK = true
	case c12MJWrite:
		r.OK = e.mds[r.A].WriteRaw(c12FileNames[r.B], "c12") == nil
	case c12MJClear:
		e.sem.Clear()
		r.OK = true
	}
	r.Ret = e.stamp.Add(1)
}

func c12RandFile(rng *rand.Rand) int64 {
	switch q := rng.Intn(100); {
	case q < 40:
		return c12FJobInfo
	case q < 70:
		return c12FLog
	case q < 85:
		return c12FComplete
	default:
		return c12FErrors
	}
}

func c12RunMJ(cfg c12MJCfg, dir string) *c12MJOut {
	res := make(chan *c12MJOut, 1)
	go func() { res <- c12mjRun(cfg, dir) }()
	select {
	case o := <-res:
		os.RemoveAll(dir)
		return o
	case <-time.After(c12Watchdog):
		return &c12MJOut{Cfg: cfg, Verdict: "watchdog"}
	}
}

const c12CondFrame = "MaxJobsSemaphore).Acquire"
const c12CondState = "sync.Cond.Wait"

func c12mjRun(cfg c12MJCfg, dir string) *c12MJOut {
	out := &c12MJOut{Cfg: cfg}
	n := cfg.Clients
	env, err := c12NewMJEnv(dir, cfg.Limit, cfg.NMD)
	if err != nil {
		out.Verdict, out.Detail = "setup", err.Error()
		return out
	}
	gid := c12GID()
	dump := make([]byte, 1<<18)
	var done, inBlocking atomic.Int32
	var draining, cleared atomic.Bool
	recs := make([][]c12Rec, n+1)
	start := make(chan struct{})
	var wg sync.WaitGroup
	for ci := 0; ci < n; ci++ {
		wg.Add(1)
		go func(ci int) {
			defer wg.Done()
			defer done.Add(1)
			rng := rand.New(rand.NewSource(cfg.Seed*64 + int64(ci) + 1))
			<-start
			for k := 0; k < cfg.Per && !draining.Load(); k++ {
				r := c12Rec{Client: ci}
				p := rng.Intn(100)
				switch {
				case ci == cfg.ClearBy && k == cfg.ClearAt:
					r.Kind = c12MJClear
				case p < 30:
					r.Kind, r.A, r.NB = c12MJAcquire, int64(rng.Intn(cfg.NMD)), rng.Intn(100) < 40
				case p < 52:
					r.Kind, r.A = c12MJRelease, int64(rng.Intn(cfg.NMD))
				case p < 60:
					r.Kind = c12MJFindDone
				case p < 80:
					r.Kind, r.A, r.B = c12MJWrite, int64(rng.Intn(cfg.NMD)), c12RandFile(rng)
				default:
					r.Kind = c12MJCurrent
				}
				blocking := r.Kind == c12MJAcquire && !r.NB
				if blocking {
					inBlocking.Add(1)
				}
				env.call(&r)
				if blocking {
					inBlocking.Add(-1)
				}
				if r.Kind == c12MJClear {
					cleared.Store(true)
				}
				recs[ci] = append(recs[ci], r)
			}
		}(ci)
	}
	close(start)
	orch := func(kind int, a int64) c12Rec {
		r := c12Rec{Client: n, Kind: kind, A: a}
		env.call(&r)
		recs[n] = append(recs[n], r)
		return r
	}
	// waitStuck returns true when every unfinished client is parked in
	// sync.Cond.Wait inside Acquire, false when all clients are done.
	waitStuck := func() bool {
		for i := 0; ; i++ {
			d := done.Load()
			if int(d) == n {
				return false
			}
			if int(d+inBlocking.Load()) == n {
				p := c12Parked(&dump, gid, c12CondFrame, c12CondState)
				if int(d)+p == n && done.Load() == d {
					return true
				}
			}
			c12Yield(i)
		}
	}
	lost := false
	for iter := 0; waitStuck(); iter++ {
		out.Stuck++
		draining.Store(true)
		d0 := done.Load()
		cur := orch(c12MJCurrent, 0).V
		if cleared.Load() || cur < int64(cfg.Limit) {
			out.Verdict = "lost-wakeup"
			out.Detail = fmt.Sprintf("%d client(s) parked in sync.Cond.Wait inside Acquire, nothing else running, while Current()=%d, Limit=%d, cleared=%v",
				n-int(d0), cur, cfg.Limit, cleared.Load())
			lost = true
			break
		}
		for m := 0; m < cfg.NMD; m++ {
			orch(c12MJRelease, int64(m))
		}
		if waitStuck() && done.Load() == d0 {
			// Nobody returned although every metadata object was released.
			if cur := orch(c12MJCurrent, 0).V; cur > 0 {
				out.Verdict = "conservation"
				out.Detail = fmt.Sprintf("Current()=%d after Release of every metadata object with all clients parked", cur)
			} else {
				out.Verdict = "lost-wakeup"
				out.Detail = fmt.Sprintf("%d client(s) stay parked in Acquire after every metadata object was released (Current()=0, Limit=%d)", n-int(d0), cfg.Limit)
			}
			lost = true
			break
		}
	}
	if lost {
		env.sem.Clear() // best effort, lets parked goroutines go
		time.Sleep(5 * time.Millisecond)
		out.Recs = append(out.Recs, recs[n]...)
		return out
	}
	wg.Wait()
	for m := 0; m < cfg.NMD; m++ {
		orch(c12MJRelease, int64(m))
	}
	if r := orch(c12MJCurrent, 0); r.V != 0 {
		out.Verdict = "conservation"
		out.Detail = fmt.Sprintf("Current()=%d after Release of every metadata object at quiescence", r.V)
	}
	for _, rs := range recs {
		out.Recs = append(out.Recs, rs...)
	}
	sort.Slice(out.Recs, func(i, j int) bool { return out.Recs[i].Call < out.Recs[j].Call })
	for _, r := range out.Recs {
		if r.Panic != "" && out.Verdict == "" {
			out.Verdict, out.Detail = "panic", r.Op+": "+r.Panic
		}
		if r.Kind == c12MJWrite && !r.OK && out.Verdict == "" {
			out.Verdict, out.Detail = "setup", "metadata write failed"
		}
	}
	return out
}

type c12MJState struct {
	Limit   int8
	Running uint16
	Files   [c12MaxMD]uint8
}

func c12MJModel(limit int) porcupine.Model {
	return porcupine.Model{
		Init: func() interface{} { return c12MJState{Limit: int8(limit)} },
		Step: func(st, in, ou interface{}) (bool, interface{}) {
			s, i, o := st.(c12MJState), in.(c12In), ou.(c12OutV)
			bit := uint16(1) << uint(i.A)
			switch i.Kind {
			case c12MJAcquire:
				if !c12MDValid(s.Files[i.A]) || s.Limit <= 0 {
					return !o.OK, s
				}
				if bits.OnesCount16(s.Running) < int(s.Limit) {
					s.Running |= bit
					return o.OK, s
				}
				if s.Running&bit != 0 {
					return o.OK, s
				}
				if i.NB {
					return !o.OK, s
				}
				return false, s // would wait
			case c12MJRelease:
				s.Running &^= bit
				return true, s
			case c12MJFindOne:
				if s.Running&bit != 0 && c12MDDone(s.Files[i.A]) {
					s.Running &^= bit
				}
				return true, s
			case c12MJCurrent:
				return o.V == int64(bits.OnesCount16(s.Running)), s
			case c12MJWrite:
				s.Files[i.A] |= uint8(i.B)
				return o.OK, s
			case c12MJClear:
				s.Limit = 0
				return true, s
			}
			return false, s
		},
	}
}

// ---------------------------------------------------------------------------
// monitor 2a: ResourceSemaphore, sequential differential driver

type c12RefW struct {
	id int
	n  int64
}

// c12Ref is the reference: FIFO queue of amounts, grant from the head while
// it fits, fast path only when the queue is empty, n > max is an error.
type c12Ref struct {
	max, cur, res int64
	q             []c12RefW
}

func (r *c12Ref) grant() (ids []int) {
	for len(r.q) > 0 && r.cur-r.res >= r.q[0].n {
		r.res += r.q[0].n
		ids = append(ids, r.q[0].id)
		r.q = r.q[1:]
	}
	return
}

// acquire returns "error", "granted" or "queued".
func (r *c12Ref) acquire(id int, n int64) string {
	if n > r.max {
		return "error"
	}
	if len(r.q) == 0 && r.cur-r.res >= n {
		r.res += n
		return "granted"
	}
	r.q = append(r.q, c12RefW{id, n})
	return "queued"
}

type c12SeqStep struct {
	Op      string `json:"op"`
	A       int64  `json:"a"`
	B       int64  `json:"b,omitempty"`
	Outcome string `json:"outcome,omitempty"`
	Granted []int  `json:"granted,omitempty"`
}

type c12SeqOut struct {
	Seed     int64        `json:"seed"`
	Max      int64        `json:"max"`
	Steps    []c12SeqStep `json:"steps"`
	Sig      string       `json:"-"`
	What     string       `json:"-"`
	Inconc   string       `json:"-"`
	Queued   int          `json:"-"`
	ViaQueue int          `json:"-"`
	Errors   int          `json:"-"`
	MaxQueue int          `json:"-"`
}

type c12SeqW struct {
	id   int
	n    int64
	done chan struct{}
	ok   bool
	pan  string
}

func c12SeqRS(seed int64) *c12SeqOut {
	rng := rand.New(rand.NewSource(seed))
	maxes := []int64{1, 2, 3, 4, 5, 8, 16, 100, 200, 400, 800, 1024, 4096}
	max := maxes[rng.Intn(len(maxes))]
	out := &c12SeqOut{Seed: seed, Max: max}
	sem := core.NewResourceSemaphore(max, core.DefaultResourceFormatter("units"))
	ref := &c12Ref{max: max, cur: max}
	updates := rng.Intn(10) < 7
	steps := 30 + rng.Intn(40)
	waiting := map[int]*c12SeqW{}
	type heldT struct {
		id int
		n  int64
	}
	var held []heldT
	nextID := 0
	t0 := time.Now()
	fail := func(sig, what string) { out.Sig, out.What = sig, what }
	amount := func() int64 {
		switch q := rng.Intn(20); {
		case q == 0:
			return 0
		case q == 1:
			return max + 1 + rng.Int63n(max+1)
		case q <= 4:
			return max
		case q <= 6:
			return max/2 + rng.Int63n(2)
		case q == 7 && max > 1:
			return max - 1
		default:
			return 1 + rng.Int63n(max)
		}
	}
	// collect waits until exactly k waiting acquirers have returned.
	collect := func(k int) ([]int, bool) {
		var ids []int
		for i := 0; len(ids) < k; i++ {
			for id, w := range waiting {
				select {
				case <-w.done:
					ids = append(ids, id)
					delete(waiting, id)
				default:
				}
			}
			if len(ids) >= k {
				break
			}
			if time.Since(t0) > c12Watchdog {
				return ids, false
			}
			c12Yield(i)
		}
		sort.Ints(ids)
		return ids, true
	}
	compare := func(op string, expect []int) bool {
		type g struct {
			name     string
			got, exp int64
		}
		ql := int64(sem.QueueLength())
		av := sem.Available()
		gs := []g{{"QueueLength", ql, int64(len(ref.q))}, {"Reserved", sem.Reserved(), ref.res},
			{"Available", av, ref.cur - ref.res}, {"CurrentSize", sem.CurrentSize(), ref.cur},
			{"InUse", sem.InUse(), max - ref.cur + ref.res}}
		if ql > int64(len(ref.q)) && len(expect) > 0 {
			fail("C12:lost-wakeup:ResourceSemaphore", fmt.Sprintf("after %s: %d request(s) still queued (QueueLength()=%d, reference %d) although the oldest fits: Available()=%d, max=%d",
				op, ql-int64(len(ref.q)), ql, len(ref.q), av, max))
			return false
		}
		for _, x := range gs {
			if x.got != x.exp {
				fail("C12:seq-diff:"+op+":"+x.name, fmt.Sprintf("after %s: %s()=%d, reference %d (max=%d)", op, x.name, x.got, x.exp, max))
				return false
			}
		}
		got, ok := collect(len(expect))
		if !ok {
			out.Inconc = "watchdog waiting for granted acquirers to return"
			return false
		}
		exp := append([]int(nil), expect...)
		sort.Ints(exp)
		if fmt.Sprint(got) != fmt.Sprint(exp) {
			fail("C12:seq-diff:"+op+":grant-order", fmt.Sprintf("after %s: requests %v were granted, the reference (request order) grants %v", op, got, exp))
			return false
		}
		return true
	}
	grantedToHeld := func(ids []int, amounts map[int]int64) {
		for _, id := range ids {
			held = append(held, heldT{id, amounts[id]})
			out.ViaQueue++
		}
	}
	amounts := map[int]int64{}
	doRelease := func(i int) bool {
		h := held[i]
		held = append(held[:i], held[i+1:]...)
		st := c12SeqStep{Op: "Release", A: h.n}
		pan := func() (p string) {
			defer func() {
				if r := recover(); r != nil {
					p = fmt.Sprint(r)
				}
			}()
			sem.Release(h.n)
			return
		}()
		if pan != "" {
			fail("C12:panic:Release", "Release("+fmt.Sprint(h.n)+") of a granted amount panicked: "+pan)
			return false
		}
		ref.res -= h.n
		ids := ref.grant()
		st.Granted = ids
		out.Steps = append(out.Steps, st)
		if !compare("Release", ids) {
			return false
		}
		grantedToHeld(ids, amounts)
		return true
	}
	doUpdate := func(kind int, a, b int64) bool {
		st := c12SeqStep{Op: c12Names[kind], A: a, B: b}
		var ret, expRet int64
		switch kind {
		case c12UpdateSize:
			sem.UpdateSize(a)
			ref.cur = a
		case c12UpdateActual:
			ret = sem.UpdateActual(a)
			expRet = a + ref.res - max
			ref.cur = a + ref.res
			if ref.cur > max {
				ref.cur = max
			}
		case c12UpdateFreeUsed:
			ret = sem.UpdateFreeUsed(a, b)
			expRet = a + b - max
			ref.cur = c12FreeUsed(max, ref.res, a, b)
		}
		ids := ref.grant()
		st.Granted = ids
		out.Steps = append(out.Steps, st)
		if ret != expRet {
			fail("C12:seq-diff:"+st.Op+":return", fmt.Sprintf("%s(%d,%d) returned %d, reference %d", st.Op, a, b, ret, expRet))
			return false
		}
		if !compare(st.Op, ids) {
			return false
		}
		grantedToHeld(ids, amounts)
		return true
	}
	abort := func() {
		// best effort: let blocked goroutines go
		sem.UpdateSize(4*max + 4)
		for i := 0; i < 64; i++ {
			func() {
				defer func() { recover() }()
				if r := sem.Reserved(); r > 0 {
					sem.Release(r)
				}
			}()
		}
	}
	for s := 0; s < steps; s++ {
		p := rng.Intn(100)
		if len(ref.q) >= 8 && p < 42 {
			p = 50
		}
		if !updates && p >= 75 {
			p = rng.Intn(75)
		}
		switch {
		case p < 42:
			n := amount()
			id := nextID
			nextID++
			amounts[id] = n
			w := &c12SeqW{id: id, n: n, done: make(chan struct{})}
			ql0 := sem.QueueLength()
			go func() {
				defer close(w.done)
				defer func() {
					if r := recover(); r != nil {
						w.pan = fmt.Sprint(r)
					}
				}()
				w.ok = sem.Acquire(n) == nil
			}()
			got := ""
			for i := 0; got == ""; i++ {
				select {
				case <-w.done:
					got = "granted"
					if !w.ok {
						got = "error"
					}
					if w.pan != "" {
						got = "panic"
					}
				default:
					if sem.QueueLength() > ql0 {
						got = "queued"
					} else if time.Since(t0) > c12Watchdog {
						out.Inconc = "watchdog: Acquire neither returned nor was queued"
						abort()
						return out
					} else {
						c12Yield(i)
					}
				}
			}
			exp := ref.acquire(id, n)
			out.Steps = append(out.Steps, c12SeqStep{Op: "Acquire", A: n, Outcome: got})
			if got != exp {
				if got == "queued" {
					waiting[id] = w
				}
				cls := "within-limit"
				if n > max {
					cls = "over-limit"
				}
				fail("C12:seq-diff:Acquire:"+cls+":"+exp+"-expected-"+got, fmt.Sprintf("Acquire(%d) with max=%d, reference state cur=%d reserved=%d queue=%d: real outcome %q, reference %q",
					n, max, ref.cur, ref.res, len(ref.q), got, exp))
				abort()
				return out
			}
			switch got {
			case "queued":
				waiting[id] = w
				out.Queued++
				if len(ref.q) > out.MaxQueue {
					out.MaxQueue = len(ref.q)
				}
			case "granted":
				held = append(held, heldT{id, n})
			case "error":
				out.Errors++
			}
			if !compare("Acquire", nil) {
				abort()
				return out
			}
		case p < 75:
			if len(held) == 0 {
				continue
			}
			if !doRelease(rng.Intn(len(held))) {
				abort()
				return out
			}
		case p < 81:
			if !doUpdate(c12UpdateSize, rng.Int63n(max+1), 0) {
				abort()
				return out
			}
		case p < 90:
			if !doUpdate(c12UpdateActual, rng.Int63n(max+max/2+3)-max/4-1, 0) {
				abort()
				return out
			}
		default:
			if !doUpdate(c12UpdateFreeUsed, rng.Int63n(max+max/2+3)-max/4-1, rng.Int63n(max+max/4+2)) {
				abort()
				return out
			}
		}
	}
	// drain: full size, release everything; every queued request fits.
	if !doUpdate(c12UpdateSize, max, 0) {
		abort()
		return out
	}
	for len(held) > 0 {
		if !doRelease(0) {
			abort()
			return out
		}
	}
	if ql, av := sem.QueueLength(), sem.Available(); ql > 0 && av == max {
		fail("C12:lost-wakeup:ResourceSemaphore", fmt.Sprintf("QueueLength()=%d with Available()=%d == max after everything was released", ql, av))
		abort()
	} else if r, u := sem.Reserved(), sem.InUse(); r != 0 || u != 0 || len(waiting) != 0 {
		fail("C12:conservation:ResourceSemaphore", fmt.Sprintf("after releasing everything Reserved()=%d InUse()=%d, %d acquirer(s) never returned", r, u, len(waiting)))
		abort()
	}
	return out
}

// ---------------------------------------------------------------------------
// monitor 2b: MaxJobsSemaphore, sequential driver

type c12MJW struct {
	id, md int
	res    atomic.Int32 // 0 pending, 1 true, 2 false
}

type c12MJSeqOut struct {
	Seed      int64        `json:"seed"`
	Limit     int          `json:"limit"`
	NMD       int          `json:"metadata_objects"`
	Steps     []c12SeqStep `json:"steps"`
	Sig       string       `json:"-"`
	What      string       `json:"-"`
	Inconc    string       `json:"-"`
	Parked    int          `json:"-"`
	ViaWait   int          `json:"-"`
	Cancelled int          `json:"-"`
	OrderInv  int          `json:"-"`
	OrderWhat string       `json:"-"`
}

func c12SeqMJ(seed int64, dir string) *c12MJSeqOut {
	res := make(chan *c12MJSeqOut, 1)
	go func() { res <- c12seqMJ(seed, dir) }()
	select {
	case o := <-res:
		os.RemoveAll(dir)
		return o
	case <-time.After(c12Watchdog + 10*time.Second):
		return &c12MJSeqOut{Seed: seed, Inconc: "watchdog: sequential MaxJobsSemaphore driver stuck"}
	}
}

func c12seqMJ(seed int64, dir string) *c12MJSeqOut {
	rng := rand.New(rand.NewSource(seed))
	limit := 1 + rng.Intn(3)
	nmd := 4 + rng.Intn(c12MaxMD-3)
	out := &c12MJSeqOut{Seed: seed, Limit: limit, NMD: nmd}
	env, err := c12NewMJEnv(dir, limit, nmd)
	if err != nil {
		out.Inconc = "setup: " + err.Error()
		return out
	}
	sem := env.sem
	gid := c12GID()
	dump := make([]byte, 1<<18)
	files := make([]uint8, nmd)
	holders := map[int]bool{}
	var parked []*c12MJW // request order
	var returned atomic.Int32
	launched := 0
	cleared := false
	withClear := rng.Intn(8) == 0
	t0 := time.Now()
	fail := func(sig, what string) {
		if out.Sig == "" {
			out.Sig, out.What = sig, what
		}
	}
	// quiesce waits until every launched blocking Acquire has returned or
	// is parked in sync.Cond.Wait.
	quiesce := func() bool {
		for i := 0; ; i++ {
			r := returned.Load()
			if int(r) == launched {
				return true
			}
			p := c12Parked(&dump, gid, c12CondFrame, c12CondState)
			if int(r)+p == launched && returned.Load() == r {
				return true
			}
			if time.Since(t0) > c12Watchdog {
				out.Inconc = "watchdog waiting for quiescence"
				return false
			}
			c12Yield(i)
		}
	}
	// settle processes the waiters which returned during the last step.
	settle := func(op string) bool {
		if !quiesce() {
			return false
		}
		var still []*c12MJW
		var granted []*c12MJW
		for _, w := range parked {
			switch w.res.Load() {
			case 0:
				still = append(still, w)
			case 1:
				if !c12MDValid(files[w.md]) || cleared {
					fail("C12:seq-diff:MJ.Acquire:true-for-cancelled", fmt.Sprintf("after %s: waiting Acquire(md%d) returned true although its metadata is not queued/waiting (files=%b) or the semaphore was cleared (%v)", op, w.md, files[w.md], cleared))
				}
				holders[w.md] = true
				granted = append(granted, w)
				out.ViaWait++
			case 2:
				if c12MDValid(files[w.md]) && !cleared {
					fail("C12:seq-diff:MJ.Acquire:false-for-valid", fmt.Sprintf("after %s: waiting Acquire(md%d) returned false although its metadata is valid and the semaphore was not cleared", op, w.md))
				}
				out.Cancelled++
			}
		}
		parked = still
		if len(holders) > limit {
			fail("C12:over-limit:MaxJobsSemaphore", fmt.Sprintf("after %s: %d distinct metadata objects hold the semaphore, Limit=%d", op, len(holders), limit))
		}
		if cur := sem.Current(); cur != len(holders) {
			fail("C12:seq-diff:"+op+":Current", fmt.Sprintf("after %s: Current()=%d, reference %d (Limit=%d)", op, cur, len(holders), limit))
		}
		if out.Sig != "" {
			return false
		}
		for _, w := range parked {
			if cleared || (len(holders) < limit && c12MDValid(files[w.md])) {
				fail("C12:lost-wakeup:MaxJobsSemaphore", fmt.Sprintf("after %s: Acquire(md%d) (valid request) is parked in sync.Cond.Wait with nothing runnable while Current()=%d < Limit=%d (cleared=%v)",
					op, w.md, len(holders), limit, cleared))
				return false
			}
		}
		for _, g := range granted {
			for _, w := range parked {
				if w.id < g.id && c12MDValid(files[w.md]) && !holders[w.md] {
					out.OrderInv++
					if out.OrderWhat == "" {
						out.OrderWhat = fmt.Sprintf("after %s: request #%d (md%d) was granted while the older valid request #%d (md%d) is still waiting", op, g.id, g.md, w.id, w.md)
					}
				}
			}
		}
		return true
	}
	steps := 25 + rng.Intn(30)
	clearAt := rng.Intn(steps)
	nextID := 0
	for s := 0; s < steps; s++ {
		p := rng.Intn(100)
		if len(parked) >= 6 && p < 35 {
			p = 40
		}
		st := c12SeqStep{}
		switch {
		case withClear && s == clearAt && !cleared:
			st.Op = "MJ.Clear"
			sem.Clear()
			cleared = true
		case p < 35:
			md := rng.Intn(nmd)
			nb := rng.Intn(100) < 30
			st.Op, st.A = "MJ.Acquire", int64(md)
			exp := "park"
			switch {
			case !c12MDValid(files[md]) || cleared:
				exp = "false"
			case len(holders) < limit || holders[md]:
				exp = "true"
			case nb:
				exp = "false"
			}
			got := ""
			if nb {
				st.B = 1
				got = fmt.Sprint(sem.Acquire(env.mds[md], true))
			} else {
				w := &c12MJW{id: nextID, md: md}
				nextID++
				launched++
				go func() {
					r := int32(2)
					if sem.Acquire(env.mds[md], false) {
						r = 1
					}
					w.res.Store(r)
					returned.Add(1)
				}()
				if !quiesce() {
					sem.Clear()
					return out
				}
				switch w.res.Load() {
				case 0:
					got = "park"
					parked = append(parked, w)
					out.Parked++
				case 1:
					got = "true"
				case 2:
					got = "false"
				}
			}
			st.Outcome = got
			if got != exp {
				out.Steps = append(out.Steps, st)
				fail("C12:seq-diff:MJ.Acquire:"+exp+"-expected-"+got, fmt.Sprintf("Acquire(md%d, nonblocking=%v): outcome %s, reference %s (holders=%d, Limit=%d, md files=%b, cleared=%v)",
					md, nb, got, exp, len(holders), limit, files[md], cleared))
				sem.Clear()
				return out
			}
			if got == "true" {
				holders[md] = true
			}
		case p < 60:
			md := rng.Intn(nmd)
			if len(holders) > 0 && rng.Intn(4) > 0 {
				k := rng.Intn(len(holders))
				var ks []int
				for m := range holders {
					ks = append(ks, m)
				}
				sort.Ints(ks)
				md = ks[k]
			}
			st.Op, st.A = "MJ.Release", int64(md)
			sem.Release(env.mds[md])
			delete(holders, md)
		case p < 68:
			st.Op = "MJ.FindDone"
			sem.FindDone()
			for m := range holders {
				if c12MDDone(files[m]) {
					delete(holders, m)
				}
			}
		default:
			md, f := rng.Intn(nmd), c12RandFile(rng)
			st.Op, st.A, st.B = "MD.Write", int64(md), f
			if env.mds[md].WriteRaw(c12FileNames[f], "c12") != nil {
				out.Inconc = "setup: metadata write failed"
				sem.Clear()
				return out
			}
			files[md] |= uint8(f)
		}
		out.Steps = append(out.Steps, st)
		if !settle(st.Op) {
			sem.Clear()
			return out
		}
	}
	// drain: release every holder until nobody waits.
	for round := 0; len(parked) > 0 && round < 4*c12MaxMD+steps; round++ {
		for m := 0; m < nmd; m++ {
			sem.Release(env.mds[m])
			delete(holders, m)
			out.Steps = append(out.Steps, c12SeqStep{Op: "MJ.Release", A: int64(m)})
			if !settle("MJ.Release") {
				sem.Clear()
				return out
			}
		}
	}
	for m := 0; m < nmd; m++ {
		sem.Release(env.mds[m])
		delete(holders, m)
	}
	if !settle("MJ.Release") {
		sem.Clear()
		return out
	}
	if len(parked) > 0 {
		fail("C12:lost-wakeup:MaxJobsSemaphore", fmt.Sprintf("%d Acquire call(s) still parked after every metadata object was released repeatedly", len(parked)))
		sem.Clear()
	}
	return out
}

// ---------------------------------------------------------------------------
// monitor 3: request normalisation

type c12NormCase struct {
	Mode       string                  `json:"mode"`
	Cores      int                     `json:"localcores,omitempty"`
	MemGB      int                     `json:"localmem,omitempty"`
	VMemGB     int                     `json:"localvmem,omitempty"`
	Cluster    bool                    `json:"cluster_mode,omitempty"`
	MemPerCore int                     `json:"mempercore,omitempty"`
	Threading  bool                    `json:"template_has_threads,omitempty"`
	Settings   core.JobManagerSettings `json:"settings"`
	MaxCores   int                     `json:"effective_max_cores,omitempty"`
	MaxMemGB   int                     `json:"effective_max_mem_gb,omitempty"`
	Request    core.JobResources       `json:"request"`
	Once       core.JobResources       `json:"normalised_once"`
	Twice      core.JobResources       `json:"normalised_twice"`
}

func c12ReqValue(rng *rand.Rand, limit float64) (float64, string) {
	switch q := rng.Intn(24); {
	case q == 0:
		return 0, "zero"
	case q == 1:
		return -1, "negative"
	case q == 2:
		return -float64(1+rng.Intn(400)) / 100, "negative"
	case q == 3:
		return -limit * float64(1+rng.Intn(3)), "negative"
	case q == 4:
		return limit, "at-limit"
	case q == 5:
		return limit + float64(1+rng.Intn(300))/100, "over-limit"
	case q == 6:
		return limit * float64(2+rng.Intn(50)), "over-limit"
	case q == 7:
		return []float64{1e9, 1e18, 1e19, 1e300, 9.3e18}[rng.Intn(5)], "huge"
	case q == 8:
		return []float64{1e-9, 0.004, 0.0001, 1e-300, 0.0009765625}[rng.Intn(5)], "tiny"
	case q == 9:
		return -[]float64{1e-9, 0.004, 1e18, 1e300}[rng.Intn(4)], "negative"
	case q <= 13:
		return float64(1+rng.Intn(int(limit*100)+50)) / 100, "fractional"
	case q <= 15:
		return float64(float32(float64(1+rng.Intn(int(limit*100)+50)) / 100)), "fractional-float32"
	case q <= 17:
		return float64(1+rng.Intn(int(limit*1024)+100)) / 1024, "fractional"
	case q == 18:
		return rng.Float64() * (limit + 1), "fractional"
	case q == 19:
		return limit - float64(1+rng.Intn(5))/100, "near-limit"
	default:
		return float64(1 + rng.Intn(int(limit)+2)), "integer"
	}
}

func c12Special(rng *rand.Rand) string {
	return []string{"", "", "", "highmem", "gpu"}[rng.Intn(5)]
}

type c12NormStats struct {
	mu      sync.Mutex
	classes map[string]int64
	clamped map[string]int64
}

func (s *c12NormStats) add(m map[string]int64, k string) { s.mu.Lock(); m[k]++; s.mu.Unlock() }

func c12NormLocal(c *vf.Ctx, seed int64, nreq int, st *c12NormStats) {
	rng := rand.New(rand.NewSource(seed))
	coresOpts := []int{1, 1, 2, 3, 4, 7, 8, 16, 64, 0}
	memOpts := []int{1, 1, 2, 3, 8, 16, 64, 256, 0}
	nc := c12NormCase{Mode: "local"}
	nc.Cores = coresOpts[rng.Intn(len(coresOpts))]
	nc.MemGB = memOpts[rng.Intn(len(memOpts))]
	nc.Cluster = rng.Intn(4) == 0
	nc.Settings = core.JobManagerSettings{
		ThreadsPerJob: []int{1, 1, 2, 4, 32}[rng.Intn(5)],
		MemGBPerJob:   []int{1, 4, 6, 64}[rng.Intn(4)],
		ExtraVmemGB:   []int{0, 3, 100}[rng.Intn(3)],
	}
	jm0, err := core.NewLocalJobManager(nc.Cores, nc.MemGB, 0, false, false, nc.Cluster,
		&core.JobManagerJson{JobSettings: &nc.Settings})
	if err != nil {
		c.Inconclusive("NewLocalJobManager failed: " + err.Error())
		return
	}
	jm := jm0
	if rng.Intn(2) == 0 {
		// a virtual-memory limit at or above the memory limit
		nc.VMemGB = jm0.GetMaxMemGB() + []int{0, 1, 4, 100}[rng.Intn(4)]
		jm, err = core.NewLocalJobManager(nc.Cores, nc.MemGB, nc.VMemGB, false, false, nc.Cluster,
			&core.JobManagerJson{JobSettings: &nc.Settings})
		if err != nil {
			c.Inconclusive("NewLocalJobManager failed: " + err.Error())
			return
		}
	}
	maxC, maxM := jm.GetMaxCores(), jm.GetMaxMemGB()
	nc.MaxCores, nc.MaxMemGB = maxC, maxM
	hasVmem := jm.GetMaxVMemGB() > 0
	c.Distinct(fmt.Sprintf("local-manager|%d|%d|%v|%v|%+v", maxC, maxM, hasVmem, nc.Cluster, nc.Settings))
	coreSem := core.NewResourceSemaphore(int64(maxC)*100, core.DefaultResourceFormatter("centicores"))
	memSem := core.NewResourceSemaphore(int64(maxM)*1024, core.DefaultResourceFormatter("MB"))
	for i := 0; i < nreq; i++ {
		var req core.JobResources
		var ct, cm, cv string
		req.Threads, ct = c12ReqValue(rng, float64(maxC))
		req.MemGB, cm = c12ReqValue(rng, float64(maxM))
		cv = "zero"
		if rng.Intn(10) < 3 {
			req.VMemGB, cv = c12ReqValue(rng, float64(maxM))
		}
		req.Special = c12Special(rng)
		orig := req
		r1 := jm.GetSystemReqs(&req)
		in1 := r1
		r2 := jm.GetSystemReqs(&in1)
		c.Eval(1)
		st.add(st.classes, "local:threads:"+ct)
		st.add(st.classes, "local:mem_gb:"+cm)
		st.add(st.classes, "local:vmem_gb:"+cv)
		if i < 40 || i%7 == 0 {
			c.Distinct(fmt.Sprintf("local|%d|%d|%v|%s|%s|%s", maxC, maxM, hasVmem, ct, cm, cv))
		}
		nc.Request, nc.Once, nc.Twice = orig, r1, r2
		vio := func(bound, what string) {
			c.Violate("C12:normalise:"+bound, fmt.Sprintf("LocalJobManager(cores=%d, memGB=%d, vmemGB=%d).GetSystemReqs(threads=%g, mem_gb=%g, vmem_gb=%g): %s; once = {threads %v, mem_gb %v, vmem_gb %v}, twice = {threads %v, mem_gb %v, vmem_gb %v}",
				maxC, maxM, nc.VMemGB, orig.Threads, orig.MemGB, orig.VMemGB, what, r1.Threads, r1.MemGB, r1.VMemGB, r2.Threads, r2.MemGB, r2.VMemGB), nc)
		}
		if req != orig {
			vio("request-modified", "the request object passed in was modified")
		}
		if !(r1.Threads > 0) {
			vio("local-threads-not-positive", "threads not > 0")
		}
		if r1.Threads > float64(maxC) {
			vio("local-threads-over-limit", "threads exceed the configured cores")
		} else if r1.Threads == float64(maxC) && ct != "at-limit" {
			st.add(st.clamped, "threads-at-limit")
		}
		if !(r1.MemGB > 0) {
			vio("local-mem-not-positive", "mem_gb not > 0")
		}
		if r1.MemGB > float64(maxM) {
			vio("local-mem-over-limit", "mem_gb exceeds the configured memory")
		} else if r1.MemGB == float64(maxM) && cm != "at-limit" {
			st.add(st.clamped, "mem-at-limit")
		}
		if hasVmem {
			if !(r1.VMemGB > 0) {
				vio("local-vmem-not-positive", "vmem_gb not > 0 although a vmem limit is configured")
			}
			if r1.VMemGB > float64(nc.VMemGB) {
				vio("local-vmem-over-limit", "vmem_gb exceeds the configured virtual memory")
			}
		} else if r1.VMemGB <= 0 {
			st.add(st.clamped, "vmem-nonpositive-without-vmem-limit(info)")
		}
		if r1.Special != orig.Special {
			vio("special-changed", "special resource changed")
		}
		if r2.Threads != r1.Threads {
			// Observation only.  C12 states that reservations never exceed the
			// limits (checked below for both the once- and twice-normalised
			// request), not that normalisation is idempotent; the unchanged tree
			// rounds k/100 thread values up again (1.11 -> 1.12 -> 1.13).
			st.add(st.clamped, "threads-renormalised-differently(info)")
		}
		if r2.MemGB != r1.MemGB {
			vio("not-idempotent:mem_gb", "normalising twice changes mem_gb")
		}
		if r2.VMemGB != r1.VMemGB {
			vio("not-idempotent:vmem_gb", "normalising twice changes vmem_gb")
		}
		// What Enqueue reserves for the (re-)normalised request.
		for _, r := range []core.JobResources{r1, r2} {
			centi := int64(math.Ceil(r.Threads * 100))
			memMb := int64(math.Ceil(r.MemGB * 1024))
			if centi > int64(maxC)*100 || coreSem.Acquire(centi) != nil {
				vio("reservation-over-limit:threads", fmt.Sprintf("the core reservation %d centi-cores is refused by a semaphore of the configured size", centi))
			} else {
				coreSem.Release(centi)
			}
			if memMb > int64(maxM)*1024 || memSem.Acquire(memMb) != nil {
				vio("reservation-over-limit:mem_gb", fmt.Sprintf("the memory reservation %d MB is refused by a semaphore of the configured size", memMb))
			} else {
				memSem.Release(memMb)
			}
		}
	}
	c.Sample(nc)
}

func c12NormRemote(c *vf.Ctx, seed int64, nreq int, tmplDir string, st *c12NormStats) {
	rng := rand.New(rand.NewSource(seed))
	nc := c12NormCase{Mode: "remote"}
	nc.Threading = rng.Intn(4) > 0
	nc.MemPerCore = []int{0, 0, 1, 2, 4, 8}[rng.Intn(6)]
	nc.Settings = core.JobManagerSettings{
		ThreadsPerJob: []int{1, 1, 2, 4, 32}[rng.Intn(5)],
		MemGBPerJob:   []int{1, 4, 6, 64}[rng.Intn(4)],
		ExtraVmemGB:   []int{0, 3, 100}[rng.Intn(3)],
	}
	name := "c12nothreads"
	if nc.Threading {
		name = "c12threads"
	}
	cfg := &core.JobManagerJson{JobSettings: &nc.Settings, JobModes: map[string]*core.JobModeJson{
		"c12threads": {Cmd: "sh"}, "c12nothreads": {Cmd: "sh"}}}
	jm, err := core.NewRemoteJobManager(filepath.Join(tmplDir, name+".template"), nc.MemPerCore,
		1+rng.Intn(4), 3600000, "", cfg, false)
	if err != nil {
		c.Inconclusive("NewRemoteJobManager failed: " + err.Error())
		return
	}
	c.Distinct(fmt.Sprintf("remote-manager|%v|%d|%+v", nc.Threading, nc.MemPerCore, nc.Settings))
	for i := 0; i < nreq; i++ {
		var req core.JobResources
		var ct, cm, cv string
		req.Threads, ct = c12ReqValue(rng, 16)
		req.MemGB, cm = c12ReqValue(rng, 64)
		cv = "zero"
		if rng.Intn(10) < 3 {
			req.VMemGB, cv = c12ReqValue(rng, 64)
		}
		req.Special = c12Special(rng)
		orig := req
		r1 := jm.GetSystemReqs(&req)
		in1 := r1
		r2 := jm.GetSystemReqs(&in1)
		c.Eval(1)
		st.add(st.classes, "remote:threads:"+ct)
		st.add(st.classes, "remote:mem_gb:"+cm)
		st.add(st.classes, "remote:vmem_gb:"+cv)
		if i < 40 || i%7 == 0 {
			c.Distinct(fmt.Sprintf("remote|%v|%d|%s|%s|%s", nc.Threading, nc.MemPerCore, ct, cm, cv))
		}
		nc.Request, nc.Once, nc.Twice = orig, r1, r2
		vio := func(bound, what string) {
			c.Violate("C12:normalise:"+bound, fmt.Sprintf("RemoteJobManager(mempercore=%d, threading=%v, settings=%+v).GetSystemReqs(threads=%g, mem_gb=%g, vmem_gb=%g): %s; once = {threads %v, mem_gb %v, vmem_gb %v}, twice = {threads %v, mem_gb %v, vmem_gb %v}",
				nc.MemPerCore, nc.Threading, nc.Settings, orig.Threads, orig.MemGB, orig.VMemGB, what, r1.Threads, r1.MemGB, r1.VMemGB, r2.Threads, r2.MemGB, r2.VMemGB), nc)
		}
		if req != orig {
			vio("request-modified", "the request object passed in was modified")
		}
		if !(r1.Threads > 0) {
			vio("remote-threads-not-positive", "threads not > 0")
		}
		if nc.Threading && r1.Threads != math.Ceil(r1.Threads) {
			vio("remote-threads-not-integral", "threads is not a whole number")
		}
		if !nc.Threading && r1.Threads != 1 {
			vio("remote-threads-without-threading", "threads != 1 although the template has no thread reservation")
		}
		if !(r1.MemGB > 0) {
			vio("remote-mem-not-positive", "mem_gb not > 0")
		}
		if !(r1.VMemGB > 0) {
			vio("remote-vmem-not-positive", "vmem_gb not > 0")
		}
		if nc.Threading && nc.MemPerCore > 0 && r1.Threads*float64(nc.MemPerCore) < r1.MemGB {
			vio("remote-mempercore", "threads x mempercore does not cover mem_gb")
		}
		if r1.Special != orig.Special {
			vio("special-changed", "special resource changed")
		}
		if r2.Threads != r1.Threads {
			vio("not-idempotent:remote-threads", "normalising twice changes threads")
		}
		if r2.MemGB != r1.MemGB {
			vio("not-idempotent:remote-mem_gb", "normalising twice changes mem_gb")
		}
		if r2.VMemGB != r1.VMemGB {
			vio("not-idempotent:remote-vmem_gb", "normalising twice changes vmem_gb")
		}
	}
	c.Sample(nc)
}

// ---------------------------------------------------------------------------
// race detector reports

func c12RaceBuild() bool {
	if bi, ok := debug.ReadBuildInfo(); ok {
		for _, s := range bi.Settings {
			if s.Key == "-race" && s.Value == "true" {
				return true
			}
		}
	}
	return false
}

func c12RaceReports(c *vf.Ctx) {
	prefix := os.Getenv("VERIF_RACE_LOG")
	c.Set("race_detector_build", c12RaceBuild())
	if prefix == "" {
		return
	}
	files, _ := filepath.Glob(prefix + ".*")
	total, ours := 0, 0
	for _, f := range files {
		b, err := os.ReadFile(f)
		if err != nil {
			continue
		}
		for _, blk := range strings.Split(string(b), "==================") {
			if !strings.Contains(blk, "WARNING: DATA RACE") {
				continue
			}
			total++
			for _, src := range []string{"resource_semaphore.go", "maxjobs_semaphore.go"} {
				if !strings.Contains(blk, src) {
					continue
				}
				ours++
				fn := ""
				for _, l := range strings.Split(blk, "\n") {
					l = strings.TrimSpace(l)
					if strings.Contains(l, "martian/core.(*") && fn == "" {
						fn = strings.TrimPrefix(l, "github.com/martian-lang/martian/martian/core.")
						if k := strings.Index(fn, "("); k > 0 && strings.HasPrefix(fn, "(*") {
							if k2 := strings.Index(fn[2:], "("); k2 > 0 {
								fn = fn[:k2+2]
							}
						}
					}
				}
				c.Violate("C12:data-race:"+src, "the race detector reported a data race with a frame in "+src+" (first core frame "+fn+")",
					map[string]interface{}{"log": f, "report": truncate(blk, 4000)})
				break
			}
		}
	}
	c.Set("race_reports_total", total)
	c.Set("race_reports_in_semaphores", ours)
}

// ---------------------------------------------------------------------------
// the check

func c12Parallel(workers, n int, fn func(i int)) {
	var next atomic.Int64
	var wg sync.WaitGroup
	for w := 0; w < workers; w++ {
		wg.Add(1)
		go func() {
			defer wg.Done()
			for {
				i := int(next.Add(1)) - 1
				if i >= n {
					return
				}
				fn(i)
			}
		}()
	}
	wg.Wait()
}

// c12Waited counts Acquire calls whose interval contains the call of a
// Release / Update* (or MJ Release / FindDone) by somebody else.
func c12Waited(recs []c12Rec, acq int, freeing ...int) int {
	n := 0
	for _, a := range recs {
		if a.Kind != acq || !a.OK || a.NB {
			continue
		}
		for _, r := range recs {
			hit := false
			for _, k := range freeing {
				hit = hit || r.Kind == k
			}
			if hit && r.Call > a.Call && r.Call < a.Ret {
				n++
				break
			}
		}
	}
	return n
}

// c12Breaker stops a monitor after it has reported many violations: the
// verdict is settled, and abandoned (blocked) goroutines of a broken
// semaphore make every further goroutine dump slower.
type c12Breaker struct{ n atomic.Int64 }

func (b *c12Breaker) open(c *vf.Ctx, monitor string) bool {
	if b.n.Load() >= 25 {
		c.Count("cases_skipped_after_25_violations:"+monitor, 1)
		return true
	}
	return false
}

func init() {
	register("C12", "exploration", func(c *vf.Ctx) {
		var brRS, brMJ, brSeq, brSeqMJ c12Breaker
		c.SetRule("(1) concurrent histories: 4-8 client goroutines issue seeded random Acquire/Release/UpdateSize/UpdateActual/UpdateFreeUsed/getter calls on a real core.ResourceSemaphore (max 1..8, requests 0..max+2), resp. Acquire(blocking|nonblocking)/Release/FindDone/Current/Clear plus metadata state writes on a real core.MaxJobsSemaphore (Limit 1..3, 3..6 core.Metadata objects on disk); every call is recorded at the client boundary with call/return stamps from one atomic counter; each history (<= ~60 calls) is checked with porcupine against the sequential counting model, plus client-side over-limit sum, conservation at quiescence and lost wake-up decided from state (QueueLength()>0 with Available()==max; goroutine parked in sync.Cond.Wait with Current()<Limit and nothing runnable). (2) sequential differential driver: one operation at a time, blocking Acquire in a goroutine until QueueLength() shows it queued (resp. the goroutine dump shows it parked), all getters and the set of returned acquirers compared with a FIFO reference after every operation. (3) request normalisation: random limit settings x random requests (zero, negative adaptive, fractional, float32-rounded, tiny, at/over limit, huge) through LocalJobManager.GetSystemReqs / RemoteJobManager.GetSystemReqs: > 0, <= limits, idempotent, reservation accepted by a semaphore of the configured size. (4) end to end: generated pipestances with resource-hungry stages and chunk requests under small --localcores / --localmem: at every instant the reservations (_jobinfo) of jobs whose probe intervals overlap sum to at most the limits; under --jobmode=fake_remote --maxjobs=K at most K jobs overlap, including cases with a saturated --maxjobs=2 where the joins of a mapped splitting stage are slowed to 4.5 s so that they are still running while chunks of other forks wait for a slot; every such pipestance completes. distinct = distinct history (client, call, arguments, result sequence) / driver trace / (limit setting, request class) tuple; non-trivial = history with at least one Acquire that had to wait or overlapping calls, driver trace with a queued request, every normalisation class.")
		c.Assume("UpdateSize(n) is only called with 0 <= n <= the maximum (as LocalJobManager does with the soft process rlimit); Acquire is only called with n >= 0 and Release only with amounts previously granted")
		c.Assume("a configured local virtual-memory limit is not below the local memory limit")
		c.Assume("the wait state \"sync.Cond.Wait\" / \"chan receive\" in runtime.Stack output means the goroutine has not been signalled")
		util.ENABLE_LOGGING = false // util.LogInfo's buffer is not synchronised
		half := runtime.NumCPU() / 2
		if half < 2 {
			half = 2
		}
		full := runtime.NumCPU()

		// ---- 1a
		nRS := c.Pick(3000, 240000)
		var rsSample sync.Once
		c12Parallel(half, nRS, func(i int) {
			rng := rand.New(rand.NewSource(c.Seed*1000003 + int64(i)))
			cfg := c12RSCfg{Seed: c.Seed*1000003 + int64(i), Max: 1 + rng.Int63n(8), Clients: 4 + rng.Intn(5), Updates: rng.Intn(10) < 7}
			cfg.Per = (36 + rng.Intn(16)) / cfg.Clients
			if brRS.open(c, "rs") {
				return
			}
			o := c12RunRS(cfg)
			if o.Verdict != "" {
				brRS.n.Add(1)
			}
			c.Eval(1)
			c.Count("rs_histories", 1)
			replay := map[string]interface{}{"monitor": "ResourceSemaphore concurrent history", "config": cfg, "history": o.Recs, "detail": o.Detail}
			switch o.Verdict {
			case "watchdog":
				c.Inconclusive("watchdog: ResourceSemaphore history did not finish")
				return
			case "lost-wakeup":
				c.Violate("C12:lost-wakeup:ResourceSemaphore", "concurrent history (max="+fmt.Sprint(cfg.Max)+"): "+o.Detail, replay)
				return
			case "over-limit", "conservation":
				c.Violate("C12:"+o.Verdict+":ResourceSemaphore", "concurrent history (max="+fmt.Sprint(cfg.Max)+"): "+o.Detail, replay)
			case "panic":
				c.Violate("C12:panic:"+strings.SplitN(o.Detail, ":", 2)[0], "concurrent history: "+o.Detail, replay)
				return
			}
			c.Count("rs_calls", int64(len(o.Recs)))
			c.Count("rs_drain_rounds_with_all_clients_queued", int64(o.Stuck))
			waited := c12Waited(o.Recs, c12Acquire, c12Release, c12UpdateSize, c12UpdateActual, c12UpdateFreeUsed)
			c.Count("rs_acquires_that_waited", int64(waited))
			overlap := 0
			for _, r := range o.Recs {
				if r.Ret > r.Call+1 {
					overlap++
				}
				if r.Kind == c12Acquire && !r.OK {
					c.Count("rs_acquire_errors", 1)
				}
				if r.Kind == c12QueueLength {
					inflight := int64(0)
					for _, a := range o.Recs {
						if a.Kind == c12Acquire && a.Call < r.Ret && a.Ret > r.Call {
							inflight++
						}
					}
					if r.V < 0 || r.V > inflight {
						c.Violate("C12:queue-length-bound", fmt.Sprintf("QueueLength()=%d while only %d Acquire calls overlap it", r.V, inflight), replay)
					}
				}
			}
			c.Count("rs_overlapped_calls", int64(overlap))
			if waited > 0 || overlap > 0 {
				c.Distinct(c12HistKey(fmt.Sprint("rs|", cfg.Max), o.Recs))
			}
			model := c12RSModel(cfg.Max)
			res, _ := porcupine.CheckOperationsVerbose(model, c12PorcOps(o.Recs, nil, 0), 30*time.Second)
			switch res {
			case porcupine.Ok:
				c.Count("rs_histories_linearizable", 1)
			case porcupine.Unknown:
				c.Inconclusive("porcupine timeout (ResourceSemaphore)")
			case porcupine.Illegal:
				blame := c12Blame(model, o.Recs, []int{c12Reserved, c12Available, c12CurrentSize, c12InUse}, 0)
				c.Violate("C12:not-linearizable:ResourceSemaphore:"+blame, fmt.Sprintf("a %d-call history of %d clients on ResourceSemaphore(max=%d) has no linearization in the counting model (unexplained: %s)", len(o.Recs), cfg.Clients, cfg.Max, blame), replay)
			}
			if waited > 0 {
				rsSample.Do(func() { c.Sample(replay) })
			}
		})

		// ---- 1b
		nMJ := c.Pick(2000, 160000)
		var mjSample sync.Once
		c12Parallel(half, nMJ, func(i int) {
			seed := c.Seed*1000033 + int64(i)
			rng := rand.New(rand.NewSource(seed))
			cfg := c12MJCfg{Seed: seed, Limit: 1 + rng.Intn(3), NMD: 3 + rng.Intn(c12MaxMD-2), Clients: 4 + rng.Intn(5), ClearBy: -1}
			cfg.Per = (32 + rng.Intn(16)) / cfg.Clients
			if rng.Intn(8) == 0 {
				cfg.ClearBy, cfg.ClearAt = rng.Intn(cfg.Clients), rng.Intn(cfg.Per)
			}
			if brMJ.open(c, "mj") {
				return
			}
			o := c12RunMJ(cfg, filepath.Join(c.WorkDir, fmt.Sprintf("mj%d", i)))
			if o.Verdict != "" {
				brMJ.n.Add(1)
			}
			c.Eval(1)
			c.Count("mj_histories", 1)
			replay := map[string]interface{}{"monitor": "MaxJobsSemaphore concurrent history", "config": cfg, "history": o.Recs, "detail": o.Detail,
				"file_bits": "1=_jobinfo 2=_log 4=_complete 8=_errors (field b of MD.Write)"}
			switch o.Verdict {
			case "watchdog":
				c.Inconclusive("watchdog: MaxJobsSemaphore history did not finish")
				return
			case "setup":
				c.Inconclusive("setup: " + o.Detail)
				return
			case "lost-wakeup":
				c.Violate("C12:lost-wakeup:MaxJobsSemaphore", fmt.Sprintf("concurrent history (Limit=%d): %s", cfg.Limit, o.Detail), replay)
				return
			case "conservation":
				c.Violate("C12:conservation:MaxJobsSemaphore", fmt.Sprintf("concurrent history (Limit=%d): %s", cfg.Limit, o.Detail), replay)
			case "panic":
				c.Violate("C12:panic:"+strings.SplitN(o.Detail, ":", 2)[0], "concurrent history: "+o.Detail, replay)
				return
			}
			c.Count("mj_calls", int64(len(o.Recs)))
			c.Count("mj_drain_rounds_with_all_clients_parked", int64(o.Stuck))
			waited := c12Waited(o.Recs, c12MJAcquire, c12MJRelease, c12MJFindDone, c12MJClear)
			c.Count("mj_acquires_that_waited", int64(waited))
			overlap := 0
			for _, r := range o.Recs {
				if r.Ret > r.Call+1 {
					overlap++
				}
				if r.Kind == c12MJCurrent && r.V > int64(cfg.Limit) {
					c.Violate("C12:over-limit:MaxJobsSemaphore", fmt.Sprintf("Current()=%d with Limit=%d", r.V, cfg.Limit), replay)
				}
				if r.Kind == c12MJClear {
					c.Count("mj_histories_with_clear", 1)
				}
			}
			c.Count("mj_overlapped_calls", int64(overlap))
			if waited > 0 || overlap > 0 {
				c.Distinct(c12HistKey(fmt.Sprint("mj|", cfg.Limit, "|", cfg.NMD), o.Recs))
			}
			model := c12MJModel(cfg.Limit)
			res, _ := porcupine.CheckOperationsVerbose(model, c12PorcOps(o.Recs, nil, cfg.NMD), 30*time.Second)
			switch res {
			case porcupine.Ok:
				c.Count("mj_histories_linearizable", 1)
			case porcupine.Unknown:
				c.Inconclusive("porcupine timeout (MaxJobsSemaphore)")
			case porcupine.Illegal:
				blame := c12Blame(model, o.Recs, []int{c12MJCurrent}, cfg.NMD)
				c.Violate("C12:not-linearizable:MaxJobsSemaphore:"+blame, fmt.Sprintf("a %d-call history of %d clients on MaxJobsSemaphore(Limit=%d) has no linearization in which at most Limit distinct metadata objects hold it (unexplained: %s)", len(o.Recs), cfg.Clients, cfg.Limit, blame), replay)
			}
			if waited > 0 {
				mjSample.Do(func() { c.Sample(replay) })
			}
		})

		// ---- 2a
		nSeq := c.Pick(2500, 200000)
		var seqSample sync.Once
		c12Parallel(full, nSeq, func(i int) {
			if brSeq.open(c, "seq_rs") {
				return
			}
			o := c12SeqRS(c.Seed*1000211 + int64(i))
			if o.Sig != "" || o.Inconc != "" {
				brSeq.n.Add(1)
			}
			c.Eval(1)
			c.Count("seq_rs_cases", 1)
			c.Count("seq_rs_operations", int64(len(o.Steps)))
			c.Count("seq_rs_requests_queued", int64(o.Queued))
			c.Count("seq_rs_requests_granted_from_queue", int64(o.ViaQueue))
			c.Count("seq_rs_acquire_errors", int64(o.Errors))
			if o.Inconc != "" {
				c.Inconclusive(o.Inconc)
				return
			}
			if o.Sig != "" {
				c.Violate(o.Sig, fmt.Sprintf("sequential driver, ResourceSemaphore(max=%d), operation %d: %s", o.Max, len(o.Steps), o.What), map[string]interface{}{"monitor": "ResourceSemaphore sequential differential", "case": o})
				return
			}
			if o.Queued > 0 {
				var sb strings.Builder
				for _, s := range o.Steps {
					fmt.Fprintf(&sb, "%s:%s:%d|", s.Op, s.Outcome, len(s.Granted))
				}
				c.Distinct("seqrs|" + sb.String())
				if o.ViaQueue > 2 {
					seqSample.Do(func() {
						c.Sample(map[string]interface{}{"monitor": "ResourceSemaphore sequential differential", "case": o})
					})
				}
			}
		})

		// ---- 2b
		nSeqMJ := c.Pick(500, 40000)
		var orderInv atomic.Int64
		var orderOnce sync.Once
		var orderWitness interface{}
		var orderWhat string
		c12Parallel(full, nSeqMJ, func(i int) {
			if brSeqMJ.open(c, "seq_mj") {
				return
			}
			o := c12SeqMJ(c.Seed*1000291+int64(i), filepath.Join(c.WorkDir, fmt.Sprintf("smj%d", i)))
			if o.Sig != "" || o.Inconc != "" {
				brSeqMJ.n.Add(1)
			}
			c.Eval(1)
			c.Count("seq_mj_cases", 1)
			c.Count("seq_mj_operations", int64(len(o.Steps)))
			c.Count("seq_mj_requests_parked", int64(o.Parked))
			c.Count("seq_mj_requests_granted_after_waiting", int64(o.ViaWait))
			c.Count("seq_mj_waiting_requests_cancelled", int64(o.Cancelled))
			if o.Inconc != "" {
				c.Inconclusive(o.Inconc)
				return
			}
			rep := map[string]interface{}{"monitor": "MaxJobsSemaphore sequential driver", "case": o, "file_bits": "1=_jobinfo 2=_log 4=_complete 8=_errors (field b of MD.Write)"}
			if o.Sig != "" {
				c.Violate(o.Sig, fmt.Sprintf("sequential driver, MaxJobsSemaphore(Limit=%d), operation %d: %s", o.Limit, len(o.Steps), o.What), rep)
				return
			}
			if o.OrderInv > 0 {
				orderInv.Add(int64(o.OrderInv))
				orderOnce.Do(func() { orderWitness, orderWhat = rep, o.OrderWhat })
			}
			if o.Parked > 0 {
				var sb strings.Builder
				for _, s := range o.Steps {
					fmt.Fprintf(&sb, "%s:%d:%s|", s.Op, s.A, s.Outcome)
				}
				c.Distinct(fmt.Sprint("seqmj|", o.Limit, "|", sb.String()))
			}
		})
		c.Set("seq_mj_grant_order_inversions", orderInv.Load())
		// Observation only: the request-order clause of C12 is about the local
		// thread / memory resources; the job-slot semaphore is built on sync.Cond,
		// which does not promise FIFO wake-ups, and the property only bounds the
		// number of submitted jobs.
		_, _ = orderWhat, orderWitness

		// ---- 3
		st := &c12NormStats{classes: map[string]int64{}, clamped: map[string]int64{}}
		tmplDir := filepath.Join(c.WorkDir, "templates")
		os.MkdirAll(tmplDir, 0755)
		os.WriteFile(filepath.Join(tmplDir, "c12threads.template"), []byte("#!/bin/sh\n# __MRO_JOB_NAME__ __MRO_THREADS__ __MRO_MEM_GB__ __MRO_VMEM_GB__\n__MRO_CMD__\n"), 0644)
		os.WriteFile(filepath.Join(tmplDir, "c12nothreads.template"), []byte("#!/bin/sh\n# __MRO_JOB_NAME__ __MRO_MEM_GB__\n__MRO_CMD__\n"), 0644)
		nLocal, nRemote, nReq := c.Pick(120, 1500), c.Pick(60, 600), c.Pick(400, 4000)
		c12Parallel(full, nLocal, func(i int) { c12NormLocal(c, c.Seed*1000303+int64(i), nReq, st) })
		c12Parallel(full, nRemote, func(i int) { c12NormRemote(c, c.Seed*1000313+int64(i), nReq, tmplDir, st) })
		c.Set("normalise_local_managers", nLocal)
		c.Set("normalise_remote_managers", nRemote)
		c.Set("normalise_request_classes", st.classes)
		c.Set("normalise_clamped", st.clamped)

		c12RaceReports(c)
	})
}
