package main

import (
	"encoding/json"
	"fmt"
	"math/rand"
	"os"
	"path/filepath"
	"regexp"
	"sort"
	"strings"
	"time"

	"github.com/martian-lang/martian/martian/syntax"
	"github.com/martian-lang/martian/martian/syntax/refactoring"
	"verif/harness/internal/pgen"
	"verif/harness/internal/vf"
)

// C19: semantic edits (mro edit) preserve behaviour.

type c19Edit struct {
	Kind     string `json:"kind"` // rename, rename-input, rename-output, remove-input, remove-output, remove-unused
	Callable string `json:"callable,omitempty"`
	Param    string `json:"param,omitempty"`
	NewName  string `json:"new,omitempty"`
	Fresh    bool   `json:"fresh"` // the new name occurs nowhere else in the program
	TopCall  string `json:"top,omitempty"`
}

type c19Input struct {
	Files map[string]string `json:"files"`
	Edit  c19Edit           `json:"edit"`
}

type c19Result struct {
	Compiled    bool              `json:"compiled"`
	RefactorErr string            `json:"refactor_err,omitempty"`
	Edits       int               `json:"edits"`
	NewFiles    map[string]string `json:"new_files,omitempty"`
	Problems    []c09Problem      `json:"problems,omitempty"`
}

func writeFiles(dir string, files map[string]string) {
	for name, text := range files {
		fp := filepath.Join(dir, name)
		os.MkdirAll(filepath.Dir(fp), 0755)
		os.WriteFile(fp, []byte(text), 0644)
	}
}

// applyRefactor mimics cmd/mro/edit: compile every file, Refactor, then apply
// the edit to the unchecked parse of each file and format it.
func applyRefactor(dir string, files map[string]string, conf refactoring.RefactorConfig) (map[string]string, int, error) {
	var parser syntax.Parser
	names := pgen.SortedKeys(files)
	var compiled []*syntax.Ast
	for _, n := range names {
		_, _, ast, err := parser.ParseSourceBytes([]byte(files[n]), filepath.Join(dir, n), []string{dir}, false)
		if err != nil {
			return nil, 0, fmt.Errorf("compile %s: %v", n, err)
		}
		compiled = append(compiled, ast)
	}
	edit, err := refactoring.Refactor(compiled, conf)
	if err != nil {
		return nil, 0, err
	}
	out := map[string]string{}
	total := 0
	for _, n := range names {
		out[n] = files[n]
		if edit == nil {
			continue
		}
		ast, err := parser.UncheckedParse([]byte(files[n]), filepath.Join(dir, n))
		if err != nil {
			return nil, 0, err
		}
		count, err := edit.Apply(ast)
		if err != nil {
			return nil, 0, fmt.Errorf("apply to %s: %v", n, err)
		}
		total += count
		if count > 0 {
			out[n] = ast.Format()
		}
	}
	return out, total, nil
}

func confFor(e c19Edit) refactoring.RefactorConfig {
	var conf refactoring.RefactorConfig
	switch e.Kind {
	case "rename":
		conf.Rename = []refactoring.Rename{{Callable: e.Callable, NewName: e.NewName}}
	case "rename-input":
		conf.RenameInParam = []refactoring.RenameParam{{CallableParam: refactoring.CallableParam{Callable: e.Callable, Param: e.Param}, NewName: e.NewName}}
	case "rename-output":
		conf.RenameOutParam = []refactoring.RenameParam{{CallableParam: refactoring.CallableParam{Callable: e.Callable, Param: e.Param}, NewName: e.NewName}}
	case "remove-input":
		conf.RemoveInParams = []refactoring.CallableParam{{Callable: e.Callable, Param: e.Param}}
	case "remove-output":
		conf.RemoveOutParams = []refactoring.CallableParam{{Callable: e.Callable, Param: e.Param}}
	case "remove-unused":
		conf.TopCalls = refactoring.StringSet{e.TopCall: struct{}{}}
		conf.RemoveCalls = true
	}
	return conf
}

func compileMain(dir string, files map[string]string) (*syntax.Ast, error) {
	_, _, ast, err := syntax.ParseSourceBytes([]byte(files["main.mro"]), filepath.Join(dir, "main.mro"), []string{dir}, false)
	return ast, err
}

func wordReplace(s, from, to string) string {
	s = strings.ReplaceAll(strings.ReplaceAll(s, `\u003c`, "<"), `\u003e`, ">")
	s = regexp.MustCompile(`\b`+regexp.QuoteMeta(from)+`\b`).ReplaceAllString(s, to)
	// re-sort object keys (a renamed key sorts differently)
	var v interface{}
	if json.Unmarshal([]byte(s), &v) == nil {
		b, _ := json.Marshal(sortRefLists(v))
		s = string(b)
		s = strings.ReplaceAll(strings.ReplaceAll(s, `\u003c`, "<"), `\u003e`, ">")
	}
	return s
}

func nodeFqids(js string) []string {
	var out []string
	for _, m := range regexp.MustCompile(`"fqid":"([^"]*)"`).FindAllStringSubmatch(js, -1) {
		out = append(out, m[1])
	}
	sort.Strings(out)
	return out
}

func c19Worker(in []byte) interface{} {
	var inp c19Input
	json.Unmarshal(in, &inp)
	res := &c19Result{}
	add := func(sig, what string) { res.Problems = append(res.Problems, c09Problem{sig, what}) }
	d0, _ := os.MkdirTemp("", "c19a")
	defer os.RemoveAll(d0)
	writeFiles(d0, inp.Files)
	ast0, err := compileMain(d0, inp.Files)
	if err != nil {
		return res
	}
	res.Compiled = true
	g0 := callGraphJSON(ast0)
	e := inp.Edit
	nf, count, err := applyRefactor(d0, inp.Files, confFor(e))
	if err != nil {
		res.RefactorErr = err.Error()
		return res
	}
	res.Edits = count
	res.NewFiles = nf
	if count == 0 {
		return res
	}
	d1, _ := os.MkdirTemp("", "c19b")
	defer os.RemoveAll(d1)
	writeFiles(d1, nf)
	ast1, err := compileMain(d1, nf)
	if err != nil {
		cls := classifyParseErr(err.Error(), "")
		if cls == "ArgumentNotSuppliedError" || cls == "NoSuchOutputError" || cls == "MissingOutputError" ||
			strings.Contains(err.Error(), "wildcard binding") || strings.Contains(err.Error(), "ArgumentNotSuppliedError") {
			// a parameter supplied implicitly, by name, through `* = X`
			for _, text := range nf {
				if strings.Contains(text, "* = ") || strings.Contains(text, "*= ") {
					cls = "wildcard-supplied-parameter"
					break
				}
			}
			if e.Kind == "rename-input" && e.Param != "" {
				// ... but the wildcard's own source is ordinary source text: a
				// renamed pipeline input must be renamed in `* = self.<input>` too
				stale := regexp.MustCompile(`\*\s*=\s*self\.` + regexp.QuoteMeta(e.Param) + `\b`)
				for _, text := range nf {
					if stale.MatchString(text) {
						cls = "wildcard-source-not-renamed"
						break
					}
				}
			}
		}
		add("edited-not-compiling:"+e.Kind+":"+cls, fmt.Sprintf("after %v the program no longer compiles: %v", e, err))
		return res
	}
	g1 := callGraphJSON(ast1)
	if strings.HasPrefix(g1, "ERR:") && !strings.HasPrefix(g0, "ERR:") {
		// the edited files compile but their call graph no longer resolves
		cls := "other"
		if strings.Contains(g1, "disabled") && strings.Contains(g1, "null") && strings.Contains(g1, "bound") {
			cls = "disabled-bound-to-null"
		}
		add("edited-callgraph-error:"+e.Kind+":"+cls, fmt.Sprintf("after %v the files compile but the call graph no longer resolves: %s", e, truncate(g1, 400)))
		return res
	}
	if strings.HasPrefix(g0, "ERR:") {
		// the original program has no call graph to compare with
		e.Fresh = false
		if e.Kind == "remove-unused" || e.Kind == "remove-input" || e.Kind == "remove-output" {
			return res
		}
	}
	switch e.Kind {
	case "rename":
		if e.Fresh {
			if want := wordReplace(g0, e.Callable, e.NewName); want != wordReplace(g1, "\x00none", "") {
				add("callgraph-changed:rename", fmt.Sprintf("call graph after renaming %s to %s is not the original with the identifier renamed: %s", e.Callable, e.NewName, firstDiff(want, g1)))
			}
		}
	case "rename-input", "rename-output":
		if e.Fresh {
			a := wordReplace(wordReplace(g0, e.Param, "@@"), "\x00none", "")
			b := wordReplace(wordReplace(g1, e.NewName, "@@"), e.Param, "@@")
			if a != b {
				add("callgraph-changed:"+e.Kind, fmt.Sprintf("call graph after %v differs from the original beyond the renamed parameter: %s", e, firstDiff(a, b)))
			}
		}
	case "remove-input", "remove-output", "remove-unused":
		usedSomewhere := false
		if e.Kind == "remove-output" {
			// removing an output that is in use (CALL.<out> occurs somewhere) cannot leave
			// the call graph alone - its uses become null, a disabled modifier fed by it is
			// dropped; only "still compiles and still resolves" is asked of such an edit
			ref := regexp.MustCompile(`\.` + regexp.QuoteMeta(e.Param) + `\b`)
			for _, text := range inp.Files {
				if ref.MatchString(text) {
					usedSomewhere = true
				}
			}
		}
		if e.Kind != "remove-unused" && !usedSomewhere {
			f0, f1 := nodeFqids(g0), nodeFqids(g1)
			if strings.Join(f0, ",") != strings.Join(f1, ",") {
				add("nodes-changed:"+e.Kind, fmt.Sprintf("the set of call graph nodes changed after %v: %v vs %v", e, f0, f1))
			}
		}
		if e.Kind == "remove-unused" {
			// the top-level outputs must resolve as before
			var a, b map[string]interface{}
			json.Unmarshal([]byte(g0), &a)
			json.Unmarshal([]byte(g1), &b)
			ja, _ := json.Marshal(a["outputs"])
			jb, _ := json.Marshal(b["outputs"])
			if e.Kind == "remove-unused" {
				// unused top-level outputs may go: every remaining one must be unchanged
				var oa, ob struct {
					Expression map[string]json.RawMessage `json:"expression"`
				}
				json.Unmarshal(ja, &oa)
				json.Unmarshal(jb, &ob)
				for k, v := range ob.Expression {
					if _, ok := oa.Expression[k]; !ok {
						continue
					}
					// (a map call that loses an unused split argument keeps its forks but may
					// name another of its - equally long - split sources as the one merged over)
					if blankMergeOver(string(oa.Expression[k])) != blankMergeOver(string(v)) && !strings.Contains(string(v), "null") {
						add("top-outputs-changed:"+e.Kind, fmt.Sprintf("top-level output %s resolves differently after %v: %s vs %s", k, e, truncate(string(oa.Expression[k]), 300), truncate(string(v), 300)))
					}
				}
			} else if string(ja) != string(jb) {
				add("top-outputs-changed:"+e.Kind, fmt.Sprintf("top-level outputs resolve differently after %v: %s", e, firstDiff(string(ja), string(jb))))
			}
		}
	}
	// Round trip for renames.
	if strings.HasPrefix(e.Kind, "rename") {
		back := e
		if e.Kind == "rename" {
			back.Callable, back.NewName = e.NewName, e.Callable
		} else {
			back.Param, back.NewName = e.NewName, e.Param
		}
		nf2, _, err := applyRefactor(d1, nf, confFor(back))
		if err != nil {
			add("roundtrip-refactor-error:"+e.Kind, fmt.Sprintf("renaming back after %v failed: %v", e, err))
			return res
		}
		d2, _ := os.MkdirTemp("", "c19c")
		defer os.RemoveAll(d2)
		writeFiles(d2, nf2)
		ast2, err := compileMain(d2, nf2)
		if err != nil {
			add("roundtrip-not-compiling:"+e.Kind, fmt.Sprintf("renaming back after %v gives a program that does not compile: %v", e, err))
			return res
		}
		c0 := dumpAst(ast0.Callables.List, true, "Table") + dumpAst(ast0.Call, true, "Table")
		c2 := dumpAst(ast2.Callables.List, true, "Table") + dumpAst(ast2.Call, true, "Table")
		if c0 != c2 {
			cls := "other"
			if !e.Fresh {
				cls = "colliding-name"
			}
			add("roundtrip-differs:"+e.Kind+":"+cls, fmt.Sprintf("%v followed by the inverse rename does not restore the original program: %s", e, firstDiff(c0, c2)))
		}
	}
	return res
}

var mergeOverRe = regexp.MustCompile(`"merge_over":\{"ref":"[^"]*"`)

func blankMergeOver(s string) string {
	return mergeOverRe.ReplaceAllString(s, `"merge_over":{"ref":"*"`)
}

func init() { vf.RegisterWorker("c19", c19Worker) }

func init() {
	register("C19", "exploration", func(c *vf.Ctx) {
		c.SetRule("generated compiling multi-file programs (aliases, wildcard-free references, struct projections, disabled modifiers, retains, top-level call) x every applicable edit on every callable / parameter: rename callable (fresh name and a name colliding with an existing call alias or callable), rename input / output (fresh and colliding with another parameter name's prefix), remove input, remove output, remove unused outputs+calls with the top pipeline as top-call; the edit is applied the way cmd/mro/edit does it (compiled ASTs -> refactoring.Refactor -> Edit.Apply on each file's unchecked parse -> Format). Verdict: edited files compile; call-graph JSON equals the original with the identifier renamed (callable renames, fresh name) or is equal once old and new parameter names are both blanked (parameter renames); removals keep the node set and the resolved top-level outputs; rename followed by the inverse rename restores the compiled program (own AST walker). distinct = (program, edit); non-trivial = the edit changed at least one file.")
		c.Assume("an error returned by Refactor itself (edit not applicable) is not a verdict")
		rng := rand.New(rand.NewSource(c.Seed))
		nProg := c.Pick(60, 3000)
		var inputs [][]byte
		var metas []c19Input
		for i := 0; i < nProg; i++ {
			cfg := pgen.DefaultConfig()
			cfg.MultiFile = true
			cfg.PDisabled = 35
			cfg.PRetain = 40
			cfg.PProject = 70
			cfg.PAlias = 40
			cfg.MaxStructs = 4
			cfg.PLiteral = 10
			cfg.PWildcard = 45 // every other pipeline has a wildcard binding (* = CALL, * = self.<struct input>, wildcard return)
			p := pgen.Generate(c.Seed*523+int64(i), cfg)
			isSkel := i%10 == 3
			if isSkel {
				// every tenth program: the prefix-related-names skeleton
				p = pgen.RefactorSkeleton(c.Seed*523+int64(i), cfg)
			}
			files := p.Print()
			add := func(e c19Edit) {
				inp := c19Input{Files: files, Edit: e}
				b, _ := json.Marshal(inp)
				inputs = append(inputs, b)
				metas = append(metas, inp)
			}
			// names in use
			// call aliases in use (not names of callables or structs)
			var callNames []string
			for _, pl := range p.Pipelines {
				for _, cl := range pl.Calls {
					if cl.Alias != "" {
						callNames = append(callNames, cl.Alias)
					}
				}
			}
			type callable struct {
				name      string
				ins, outs []pgen.Param
			}
			var cs []callable
			for _, s := range p.Stages {
				cs = append(cs, callable{s.Name, s.Ins, s.Outs})
			}
			for _, s := range p.Pipelines {
				cs = append(cs, callable{s.Name, s.Ins, s.Outs})
			}
			for _, cb := range cs {
				add(c19Edit{Kind: "rename", Callable: cb.name, NewName: fmt.Sprintf("FRESH_%d", rng.Intn(1000)), Fresh: true})
				if len(callNames) > 0 && rng.Intn(2) == 0 {
					add(c19Edit{Kind: "rename", Callable: cb.name, NewName: callNames[rng.Intn(len(callNames))]})
				}
				for _, in := range cb.ins {
					prefixOfSibling := false
					for _, i2 := range cb.ins {
						if i2.Name != in.Name && strings.HasPrefix(i2.Name, in.Name) {
							prefixOfSibling = true
						}
					}
					if prefixOfSibling || isSkel || rng.Intn(2) == 0 {
						add(c19Edit{Kind: "rename-input", Callable: cb.name, Param: in.Name, NewName: fmt.Sprintf("fresh_in_%d", rng.Intn(1000)), Fresh: true})
					}
					if (isSkel || rng.Intn(3) == 0) && p.Stage(cb.name) != nil {
						// the tool documents remove-input for stages
						add(c19Edit{Kind: "remove-input", Callable: cb.name, Param: in.Name})
					}
				}
				for k, o := range cb.outs {
					prefixOfSibling := false
					for _, o2 := range cb.outs {
						if o2.Name != o.Name && strings.HasPrefix(o2.Name, o.Name) {
							prefixOfSibling = true
						}
					}
					if prefixOfSibling || isSkel || rng.Intn(2) == 0 {
						add(c19Edit{Kind: "rename-output", Callable: cb.name, Param: o.Name, NewName: fmt.Sprintf("fresh_out_%d", rng.Intn(1000)), Fresh: true})
					}
					if len(cb.outs) > 1 && rng.Intn(3) == 0 {
						// new name = another output's name plus a suffix / a prefix of it
						other := cb.outs[(k+1)%len(cb.outs)].Name
						add(c19Edit{Kind: "rename-output", Callable: cb.name, Param: o.Name, NewName: other + "_zz"})
					}
					if rng.Intn(4) == 0 {
						add(c19Edit{Kind: "remove-output", Callable: cb.name, Param: o.Name})
					}
				}
			}
			add(c19Edit{Kind: "remove-unused", TopCall: p.Top.Callee})
		}
		results := vf.RunBatches(c, "c19", inputs, 60, 90*time.Second, 4096)
		byKind := map[string]int{}
		refErrs := map[string]int{}
		for i, r := range results {
			m := metas[i]
			if r.Crashed {
				msg, site := vf.CrashSite(r.Stderr)
				if strings.Contains(site, "refactoring") {
					c.Eval(1)
					c.Violate("C19:crash:"+site+":"+normalizeCrash(msg), fmt.Sprintf("refactoring %v crashed: %s", m.Edit, msg), map[string]interface{}{"files": m.Files, "edit": m.Edit, "stderr": truncate(r.Stderr, 2500)})
				} else {
					c.Inconclusive("crash outside refactoring (C08's subject): " + site)
				}
				continue
			}
			if r.TimedOut || r.Result == nil {
				c.Inconclusive("watchdog")
				continue
			}
			var res c19Result
			json.Unmarshal(r.Result, &res)
			if !res.Compiled {
				c.Count("programs_not_compiling", 1)
				continue
			}
			if res.RefactorErr != "" {
				refErrs[truncate(regexp.MustCompile(`[A-Z_0-9]{3,}|'[^']*'`).ReplaceAllString(res.RefactorErr, "X"), 70)]++
				c.Count("edits_refused_by_refactor", 1)
				continue
			}
			c.Eval(1)
			if res.Edits == 0 {
				c.Count("edits_without_effect", 1)
				continue
			}
			byKind[m.Edit.Kind]++
			c.Distinct(fmt.Sprintf("%v|%v", m.Files, m.Edit))
			for _, pr := range res.Problems {
				c.Violate("C19:"+pr.Sig, pr.What, map[string]interface{}{"files": m.Files, "edit": m.Edit, "edited_files": res.NewFiles})
			}
			if i%211 == 0 {
				c.Sample(map[string]interface{}{"edit": m.Edit, "edits_applied": res.Edits})
			}
		}
		c.Set("effective_edits_by_kind", byKind)
		c.Set("refactor_refusals", refErrs)
	})
}
