package main

import (
	"fmt"
	"os"

	"verif/harness/internal/vf"
)

type check struct {
	level string
	fn    vf.CheckFunc
}

var checks = map[string]check{}

func register(id, level string, fn vf.CheckFunc) { checks[id] = check{level, fn} }

func main() {
	if len(os.Args) < 2 {
		fmt.Fprintln(os.Stderr, "usage: vh <Cxx|tool> [--tier quick|thorough] [--replay f]")
		os.Exit(2)
	}
	switch os.Args[1] {
	case "__child":
		vf.ChildMain(os.Args[2:])
		return
	}
	if t, ok := tools[os.Args[1]]; ok {
		t(os.Args[2:])
		return
	}
	c, ok := checks[os.Args[1]]
	if !ok {
		fmt.Fprintln(os.Stderr, "unknown check", os.Args[1])
		os.Exit(2)
	}
	vf.Main(os.Args[1], c.level, os.Args[2:], c.fn)
}

var tools = map[string]func(args []string){}
