package main

import (
	"crypto/sha256"
	"encoding/hex"
	"encoding/json"
	"fmt"
	"math/rand"
	"os"
	"path/filepath"
	"regexp"
	"sort"
	"strings"
	"time"

	"github.com/martian-lang/martian/martian/syntax"
	"verif/harness/internal/pgen"
	"verif/harness/internal/vf"
	"verif/harness/internal/vrun"
)

// C10: determinism of compile / format / resolve.

type c10Input struct {
	Files map[string]string `json:"files"`
	Reps  int               `json:"reps"`
}

type c10Result struct {
	// digest per artefact kind per repetition
	Digests map[string][]string `json:"digests"`
	// first two differing values per kind (for the witness)
	Example map[string][2]string `json:"example,omitempty"`
}

func sha(s string) string {
	h := sha256.Sum256([]byte(s))
	return hex.EncodeToString(h[:8])
}

func c10Worker(in []byte) interface{} {
	var inp c10Input
	json.Unmarshal(in, &inp)
	dir, _ := os.MkdirTemp("", "c10")
	defer os.RemoveAll(dir)
	for name, text := range inp.Files {
		fp := filepath.Join(dir, name)
		os.MkdirAll(filepath.Dir(fp), 0755)
		os.WriteFile(fp, []byte(text), 0644)
	}
	res := &c10Result{Digests: map[string][]string{}, Example: map[string][2]string{}}
	first := map[string]string{}
	note := func(kind, val string) {
		val = strings.ReplaceAll(val, dir, "$D")
		res.Digests[kind] = append(res.Digests[kind], sha(val))
		if f, ok := first[kind]; !ok {
			first[kind] = val
		} else if f != val {
			if _, have := res.Example[kind]; !have {
				res.Example[kind] = [2]string{f, val}
			}
		}
	}
	mainPath := filepath.Join(dir, "main.mro")
	for rep := 0; rep < inp.Reps; rep++ {
		var parser syntax.Parser
		src, _, ast, err := parser.ParseSourceBytes([]byte(inp.Files["main.mro"]), mainPath, []string{dir}, false)
		if err != nil {
			note("error-text", err.Error())
		} else {
			note("mrosource", src)
		}
		for name, text := range inp.Files {
			if f, ferr := parser.FormatSrcBytes([]byte(text), filepath.Join(dir, name), false, nil); ferr == nil {
				note("format:"+name, f)
			} else {
				note("format-error:"+name, ferr.Error())
			}
		}
		// mro format --includes: the @include list is rewritten to what the file needs
		{
			var fp syntax.Parser
			f, ferr := fp.FormatSrcBytes([]byte(inp.Files["main.mro"]), mainPath, true, []string{dir})
			if ferr == nil {
				note("format-fixincludes:main.mro", f)
			} else {
				note("format-fixincludes-error:main.mro", ferr.Error())
			}
		}
		if err == nil && ast != nil && ast.Call != nil {
			g, gerr := ast.MakeCallGraph("ID.ps.", ast.Call)
			if gerr != nil {
				note("callgraph-error", gerr.Error())
			} else {
				b, _ := json.Marshal(g)
				note("callgraph", string(b))
				if gs, ok := g.(fmt.GoStringer); ok {
					note("callgraph-gostring", gs.GoString())
				}
			}
		}
		if err == nil && ast != nil {
			note("ast-json", syntax.JsonDumpAsts([]*syntax.Ast{ast}))
		}
	}
	return res
}

func init() { vf.RegisterWorker("c10", c10Worker) }

// c10DedupShapes: retain lists with repeated entries.
var c10DedupShapes = []string{`filetype txt;

stage MANY(
    in  int x,
    out txt alpha,
    out txt beta,
    out txt gamma,
    out txt delta,
    out txt epsilon,
    src comp "/bin/true",
) retain (
    delta,
    beta,
    alpha,
    beta,
    epsilon,
    gamma,
)

pipeline P(
    in  int x,
    out txt a,
)
{
    call MANY(
        x = self.x,
    )

    return (
        a = MANY.alpha,
    )
}

call P(
    x = 1,
)
`, `filetype txt;

stage TWO(
    in  int x,
    out txt zeta,
    out txt eta,
    out txt theta,
    src comp "/bin/true",
) retain (
    zeta,
    zeta,
    theta,
    eta,
    theta,
)

stage THREE(
    in  txt f,
    out txt a,
    out txt b,
    out txt c,
    out txt d,
    src comp "/bin/true",
) retain (
    d,
    c,
    d,
    b,
    a,
    a,
)

pipeline Q(
    in  int x,
    out txt r,
)
{
    call TWO(
        x = self.x,
    )

    call THREE(
        f = TWO.zeta,
    )

    return (
        r = THREE.a,
    )

    retain (
        THREE.d,
        TWO.eta,
        THREE.d,
        THREE.b,
        TWO.eta,
        THREE.c,
    )
}

call Q(
    x = 2,
)
`}

// c10CallGraphErrorShapes: accepted by the compiler, rejected by call graph
// resolution with more than one message (two inputs of one map call).
var c10CallGraphErrorShapes = []string{`filetype csv;


struct S1(
    map<path> kappa6,
    map<path> strict,
    map<path> preflight2,
)

struct S2(
    string vmem_gb,
)

stage ST3(
    in  string[] exec "help for exec",
    in  map<path> delta,
    in  string nu "help for nu",
    out map<path>[] theta6,
    src comp "/bin/true ST3",
) using (
    threads = 1,
) retain (
    theta6,
)

stage ST4(
    in  map<path> split,
    in  map<path> zeta,
    out map<path>[] vmem_gb,
    src comp "/bin/true ST4",
) using (
) retain (
    vmem_gb,
)

stage ST5(
    in  map<path> lam4 "new\nline",
    in  map<path> lam4_x,
    in  S1 lam4_x_x,
    out S1 beta,
    out string[] out7,
    out string[][] out7_x,
    src comp "/bin/true ST5",
) using (
    threads = 1,
)

stage ST8(
    in  map<path> disabled7,
    out map<path>[] kappa6,
    out string[] delta,
    src comp "/bin/true ST8",
) using (
    threads = 2,
)

pipeline PL9(
    in  map<path> pin10 "input pin10",
    in  string[] mem_gb,
    in  string iota "input iota",

    in  S1 delta1,
    out map<path>[][] comp7,
    out map<path>[] pout13,
)
{
    map call volatile ST4(
        split = split [
            null,
            {},
        ],
        zeta  = self.pin10,
    )

    call ST3 as AL11(
        exec  = self.mem_gb,
        delta = {
            "k1": "/nonexistent/lit286",
            "key two": null,
            "a": "/nonexistent/lit677",
        },
        nu    = self.iota,
    )

    map call volatile ST5(
        lam4     = split AL11.theta6,
        lam4_x   = self.pin10,
        lam4_x_x = {
            kappa6: {
                "a": "/nonexistent/lit936",
                "b": "/nonexistent/lit305",

                "key two": "/nonexistent/lit323",
            },
            strict: {
                "k1": "/nonexistent/lit452",
                "key two": "/nonexistent/lit161",
                "b": null,
            },
            preflight2: {
                "z9": "/nonexistent/lit197",
            },
        },
    )

    map call ST5 as AL12(
        lam4     = split ST5.beta.kappa6,
        lam4_x   = split ST5.beta.strict,
        lam4_x_x = self.delta1,
    )

    return (
        comp7  = ST4.vmem_gb,
        pout13 = AL12.beta.preflight2,
    )

    retain (
        AL11.theta6,
    )
}


call PL9(
    pin10  = {},
    mem_gb = [],
    iota   = "s334",
    delta1 = null,
)

`}

var bindLineRe = regexp.MustCompile(`(?m)^(\s+[a-z_][a-z0-9_]*\s+= )(self\.[a-z0-9_.]+|[A-Z][A-Z0-9]*\.[a-z0-9_.]+),$`)

// breakProgram injects k independent compile errors.
func breakProgram(r *rand.Rand, text string, k int) string {
	locs := bindLineRe.FindAllStringSubmatchIndex(text, -1)
	if len(locs) == 0 {
		return text
	}
	r.Shuffle(len(locs), func(i, j int) { locs[i], locs[j] = locs[j], locs[i] })
	if k > len(locs) {
		k = len(locs)
	}
	sel := locs[:k]
	sort.Slice(sel, func(i, j int) bool { return sel[i][0] > sel[j][0] })
	for i, l := range sel {
		repl := fmt.Sprintf("UNDEFINED%d.out", i)
		if i%2 == 1 {
			repl = fmt.Sprintf("self.no_such_input%d", i)
		}
		text = text[:l[4]] + repl + text[l[5]:]
	}
	return text
}

func init() {
	register("C10", "exploration", func(c *vf.Ctx) {
		c.SetRule("generated programs with wide map/struct literals (9..40 keys, i.e. more than one hash bucket), typed-map map calls, several split arguments, retains, and variants with 2-5 simultaneous compile errors; every artefact (formatted text of each file, include-expanded source, error text, MakeCallGraph JSON and GoString, AST JSON dump) is computed R times in one process (each Go map range draws a fresh random order) and in P fresh processes (fresh hash seeds); all R*P results must be byte-identical. With an unsorted traversal over >= 2 orders the chance all R*P draws coincide is <= 2^-(R*P-1). Plus: the same program run twice by the real mrp must produce identical directory listings (uniquifiers stripped), fork names and per-fork _invocation bytes. distinct = distinct programs; non-trivial = program has a map/struct literal with >= 9 keys, a typed-map map call, or >= 2 errors.")
		rng := rand.New(rand.NewSource(c.Seed))
		nProg := c.Pick(150, 3000)
		reps := c.Pick(8, 20)
		procs := c.Pick(5, 20)
		keyPool := []string{}
		for i := 0; i < 40; i++ {
			keyPool = append(keyPool, fmt.Sprintf("k%02d_%c", (i*7)%40, 'a'+byte(i%26)))
		}
		var progs []c10Input
		nontrivial := make([]bool, 0, nProg)
		for i := 0; i < nProg; i++ {
			cfg := pgen.DefaultConfig()
			cfg.KeyPool = keyPool
			cfg.WideMaps = 24
			cfg.MultiFile = true
			cfg.PRetain = 50
			cfg.PMapCall = 50
			cfg.PDisabled = 30
			cfg.AllowMixedNestedMap = true
			cfg.AllowNestedDynamic = true
			cfg.MaxStructs = 4
			p := pgen.Generate(c.Seed*131+int64(i), cfg)
			files := p.Print()
			if i%3 == 2 {
				for k, v := range files {
					files[k] = breakProgram(rng, v, 2+rng.Intn(4))
				}
			}
			progs = append(progs, c10Input{Files: files, Reps: reps})
			nontrivial = append(nontrivial, true)
		}
		// every dataflow skeleton (nested / run-time sized map calls, merged
		// struct and map literals, disable chains ...), two instances each
		for t := 0; t < pgen.NTemplates; t++ {
			for k := 0; k < 2; k++ {
				cfg := pgen.DefaultConfig()
				cfg.SrcFor = func(string) (string, string) { return "comp", "/bin/true" }
				p := pgen.Template(t, c.Seed*977+int64(2*t+k), cfg)
				progs = append(progs, c10Input{Files: p.Print(), Reps: reps})
				nontrivial = append(nontrivial, true)
			}
		}
		// include fixing: a main file that uses callables from files in several
		// directories (private "_x.mro" files, names containing the including
		// file's name, plain names) without including any of them
		for k := 0; k < c.Pick(12, 200); k++ {
			dirs := []string{"", "alib/", "lib/", "zlib/", "lib/deep/"}
			names := []string{"_prep", "count", "main_helper", "z", "_z", "a", "main2"}
			files := map[string]string{}
			var calls []string
			used := map[string]bool{}
			n := 2 + rng.Intn(5)
			for j := 0; j < n; j++ {
				fn := dirs[rng.Intn(len(dirs))] + names[rng.Intn(len(names))] + ".mro"
				if used[fn] {
					continue
				}
				used[fn] = true
				st := fmt.Sprintf("ST%d", j)
				files[fn] = "stage " + st + "(\n    in  int x,\n    out int y,\n    src comp \"/bin/true\",\n)\n"
				calls = append(calls, "    call "+st+"(\n        x = self.x,\n    )\n")
			}
			main := "pipeline P(\n    in  int x,\n    out int y,\n)\n{\n" + strings.Join(calls, "\n") + "\n    return (\n        y = ST0.y,\n    )\n}\n"
			if k%3 != 2 {
				// the callables are reachable through one transitive include,
				// which include fixing replaces by the direct ones (every third
				// shape has no include at all: the callables cannot be found and
				// several errors are reported)
				var incs []string
				for fn := range files {
					incs = append(incs, "@include \""+fn+"\"\n")
				}
				sort.Strings(incs)
				files["all.mro"] = strings.Join(incs, "") + "\nfiletype txt;\n"
				main = "@include \"all.mro\"\n\n" + main
			}
			if !used["main.mro"] {
				files["main.mro"] = main
				progs = append(progs, c10Input{Files: files, Reps: reps})
				nontrivial = append(nontrivial, true)
			}
		}
		// fixed shapes: declarations with repeated entries, which the compiler
		// de-duplicates (stage and pipeline retain lists naming a parameter twice)
		for _, text := range c10DedupShapes {
			progs = append(progs, c10Input{Files: map[string]string{"main.mro": text}, Reps: reps})
			nontrivial = append(nontrivial, true)
		}
		// fixed shapes: programs whose call graph resolution reports several errors
		for _, text := range c10CallGraphErrorShapes {
			progs = append(progs, c10Input{Files: map[string]string{"main.mro": text}, Reps: reps})
			nontrivial = append(nontrivial, true)
		}
		var inputs [][]byte
		for pr := 0; pr < procs; pr++ {
			for _, p := range progs {
				b, _ := json.Marshal(p)
				inputs = append(inputs, b)
			}
		}
		results := vf.RunBatches(c, "c10", inputs, len(progs), 120*time.Second, 4096)
		kindsSeen := map[string]int{}
		artefacts := 0
		for i := range progs {
			c.Eval(1)
			all := map[string]map[string]bool{}
			examples := map[string][2]string{}
			crashed := false
			for pr := 0; pr < procs; pr++ {
				r := results[pr*len(progs)+i]
				if r.Crashed || r.TimedOut || r.Result == nil {
					crashed = true
					continue
				}
				var res c10Result
				json.Unmarshal(r.Result, &res)
				for kind, ds := range res.Digests {
					if all[kind] == nil {
						all[kind] = map[string]bool{}
					}
					for _, d := range ds {
						all[kind][d] = true
					}
				}
				for k, ex := range res.Example {
					examples[k] = ex
				}
			}
			if crashed {
				c.Inconclusive("a child crashed or timed out (crashes are C08's subject)")
			}
			c.Distinct(fmt.Sprint(progs[i].Files))
			for kind, set := range all {
				k := kind
				if j := strings.IndexByte(k, ':'); j > 0 {
					k = k[:j]
				}
				kindsSeen[k]++
				artefacts++
				if len(set) > 1 {
					ex := examples[kind]
					what := fmt.Sprintf("%s of the same sources took %d different values over %d repetitions x %d processes", kind, len(set), reps, procs)
					if ex[0] != "" {
						what += ": " + firstDiff(ex[0], ex[1])
					}
					c.Violate("C10:nondeterministic:"+k+":"+diffContext(ex[0], ex[1]), what,
						map[string]interface{}{"files": progs[i].Files, "kind": kind, "value_a": truncate(ex[0], 4000), "value_b": truncate(ex[1], 4000)})
				}
			}
			if i < 2 {
				c.Sample(map[string]interface{}{"files": progs[i].Files, "artefact_kinds": len(all)})
			}
		}
		c.Set("artefacts_compared", artefacts)
		c.Set("artefact_kinds", kindsSeen)
		c.Set("repetitions_per_process", reps)
		c.Set("processes", procs)

		// End to end: two mrp runs of the same program.
		nE2E := c.Pick(6, 100)
		e2e := 0
		for i := 0; i < nE2E; i++ {
			cfg := pgen.DefaultConfig()
			cfg.KeyPool = keyPool[:12]
			cfg.WideMaps = 12
			cfg.PMapCall = 60
			cfg.SrcFor = vrun.ProbeSrc(c.BuildDir)
			p := pgen.Generate(c.Seed*733+int64(i), cfg)
			nRuns := 2
			if i%3 == 1 {
				// skeleton 20: forks keyed by the keys of run-time typed maps (six
				// keys), run four times; the order of the forks is compared too
				p = pgen.Template(20, c.Seed*733+int64(i), cfg)
				nRuns = 4
			}
			if _, _, err := compileProgram(p, filepath.Join(c.WorkDir, "e2e-compile")); err != nil {
				os.RemoveAll(filepath.Join(c.WorkDir, "e2e-compile"))
				continue
			}
			os.RemoveAll(filepath.Join(c.WorkDir, "e2e-compile"))
			var listings [4]string
			var invs [4]map[string]string
			var forkOrder [4]string
			ok := true
			for k := 0; k < nRuns; k++ {
				dir := filepath.Join(c.WorkDir, fmt.Sprintf("e2e-%d-%d", i, k))
				cs, err := vrun.NewCase(c.BuildDir, dir, p, func(s *pgen.Spec) {
					s.KeyPool = cfg.KeyPool
					s.Seed = 1
					if nRuns == 4 {
						s.LenChoices = []int{6}
						s.PNull = 0
					}
				})
				if err != nil {
					ok = false
					break
				}
				r := cs.Run(vrun.RunOpts{Args: []string{"--vdrmode=disable", "--localcores=4", "--localmem=16"}, Seed: int64(k), Timeout: 120 * time.Second})
				if r.TimedOut || r.Exit != 0 {
					cs.KillAll()
					ok = false
					os.RemoveAll(dir)
					break
				}
				var sb strings.Builder
				invs[k] = map[string]string{}
				for _, te := range cs.Tree() {
					rel := vrun.StripUniq(te.Path)
					base := filepath.Base(rel)
					if strings.HasPrefix(rel, "journal") || strings.HasPrefix(rel, "tmp") || base == "_log" || base == "_perf" ||
						base == "_uuid" || base == "_timestamp" || base == "_versions" || base == "_finalstate" || strings.HasPrefix(base, "_perf") {
						continue
					}
					sb.WriteString(rel + "\n")
					if base == "_invocation" && strings.Count(rel, "/") > 1 {
						b, _ := os.ReadFile(filepath.Join(cs.PsDir, te.Path))
						invs[k][rel] = vrun.StripUniq(strings.ReplaceAll(string(b), dir, "$D"))
					}
				}
				listings[k] = sb.String()
				forkOrder[k] = finalStateForkOrder(filepath.Join(cs.PsDir, "_finalstate"), cs.PsDir)
				os.RemoveAll(dir)
			}
			if !ok {
				c.Count("e2e_runs_skipped_failed", 1)
				continue
			}
			e2e++
			c.Eval(1)
			for k := 1; k < nRuns; k++ {
				if forkOrder[k] != forkOrder[0] {
					c.Violate("C10:e2e:fork-order-differs", "the order of a node's forks in _finalstate differs between runs of the same program: "+firstDiff(forkOrder[0], forkOrder[k]),
						map[string]interface{}{"files": p.Print()})
					break
				}
				if k >= 2 && listings[k] != listings[0] {
					c.Violate("C10:e2e:directory-listing-differs", "runs of the same program produced different directory listings: "+firstDiff(listings[0], listings[k]),
						map[string]interface{}{"files": p.Print()})
					break
				}
			}
			if listings[0] != listings[1] {
				c.Violate("C10:e2e:directory-listing-differs", "two runs of the same program produced different directory listings: "+firstDiff(listings[0], listings[1]),
					map[string]interface{}{"files": p.Print()})
			}
			for k, v := range invs[0] {
				if w, ok := invs[1][k]; ok && w != v {
					c.Violate("C10:e2e:invocation-bytes-differ", "per-fork _invocation "+k+" differs between two runs: "+firstDiff(v, w), map[string]interface{}{"files": p.Print()})
					break
				}
			}
		}
		c.Set("e2e_program_pairs_compared", e2e)
	})
}

// finalStateForkOrder lists, node by node, the fork directories in the order
// in which _finalstate records the node's forks.
func finalStateForkOrder(path, psdir string) string {
	b, err := os.ReadFile(path)
	if err != nil {
		return "<no _finalstate>"
	}
	var nodes []struct {
		Fqname string `json:"fqname"`
		Forks  []struct {
			Index    int `json:"index"`
			Metadata struct {
				Path string `json:"path"`
			} `json:"metadata"`
		} `json:"forks"`
	}
	if json.Unmarshal(b, &nodes) != nil {
		return "<unreadable _finalstate>"
	}
	var lines []string
	for _, n := range nodes {
		var fs []string
		for _, f := range n.Forks {
			fs = append(fs, fmt.Sprintf("%d:%s", f.Index, filepath.Base(f.Metadata.Path)))
		}
		lines = append(lines, strings.TrimPrefix(n.Fqname, "ID.")+" "+strings.Join(fs, " "))
	}
	sort.Strings(lines)
	return strings.Join(lines, "\n")
}

// diffContext extracts a stable description of where two texts differ
// (the JSON key / keyword preceding the first difference).
var ctxRe = regexp.MustCompile(`"([a-z_]+)":[^"]*$|([A-Za-z_]+)[^A-Za-z_]*$`)

func diffContext(a, b string) string {
	n := len(a)
	if len(b) < n {
		n = len(b)
	}
	i := 0
	for i < n && a[i] == b[i] {
		i++
	}
	lo := i - 200
	if lo < 0 {
		lo = 0
	}
	pre := a[lo:i]
	// nearest preceding JSON key
	keys := regexp.MustCompile(`"([a-z_]+)":`).FindAllStringSubmatch(pre, -1)
	if len(keys) > 0 {
		return keys[len(keys)-1][1]
	}
	ws := regexp.MustCompile(`[A-Za-z_]+`).FindAllString(pre, -1)
	if len(ws) > 0 {
		return ws[len(ws)-1]
	}
	return "?"
}
