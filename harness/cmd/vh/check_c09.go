package main

import (
	"encoding/json"
	"fmt"
	"math/rand"
	"os"
	"path/filepath"
	"regexp"
	"sort"
	"strconv"
	"strings"
	"time"

	"github.com/martian-lang/martian/martian/syntax"
	"verif/harness/internal/pgen"
	"verif/harness/internal/vf"
)

// C09: formatting is idempotent and preserves the program.

type c09Input struct {
	Files     map[string]string `json:"files"`
	Attached  []string          `json:"attached"` // comment ids placed before an element of their scope
	Other     []string          `json:"other"`    // dangling / trailing comments: only "not lost" is claimed
	MultiFile bool              `json:"multi"`
}

type c09Problem struct {
	Sig  string `json:"sig"`
	What string `json:"what"`
}

type c09Result struct {
	Accepted bool         `json:"accepted"`
	Compiled bool         `json:"compiled"`
	Problems []c09Problem `json:"problems,omitempty"`
	ParseErr string       `json:"parse_err,omitempty"`
}

// c09SafeFormat formats a source the parser has accepted; a panic of the
// formatter is reported (normalised message) instead of ending the child.
func c09SafeFormat(parser *syntax.Parser, text, fp string) (out string, err error, crashed string) {
	defer func() {
		if r := recover(); r != nil {
			crashed = normalizeCrash(fmt.Sprint(r))
		}
	}()
	out, err = parser.FormatSrcBytes([]byte(text), fp, false, nil)
	return
}

func c09Worker(in []byte) interface{} {
	var inp c09Input
	json.Unmarshal(in, &inp)
	res := &c09Result{}
	add := func(sig, what string) { res.Problems = append(res.Problems, c09Problem{sig, what}) }
	dir, _ := os.MkdirTemp("", "c09")
	defer os.RemoveAll(dir)
	for name, text := range inp.Files {
		fp := filepath.Join(dir, name)
		os.MkdirAll(filepath.Dir(fp), 0755)
		os.WriteFile(fp, []byte(text), 0644)
	}
	var parser syntax.Parser
	// Per-file formatting.
	for name, text := range inp.Files {
		fp := filepath.Join(dir, name)
		ast1, err := parser.UncheckedParse([]byte(text), fp)
		if err != nil {
			res.ParseErr = err.Error()
			return res
		}
		res.Accepted = true
		f1, err, crashed := c09SafeFormat(&parser, text, fp)
		if crashed != "" {
			// the parser accepted the source, so this is the formatter's own failure
			add("format-crashed:"+crashed, fmt.Sprintf("the formatter panicked on %s, which the parser accepts: %s", name, crashed))
			return res
		}
		if err != nil {
			add("format-error", "FormatSrcBytes failed on accepted source: "+err.Error())
			continue
		}
		ast2, err := parser.UncheckedParse([]byte(f1), fp)
		if err != nil {
			add("formatted-not-accepted:"+classifyParseErr(err.Error(), f1), fmt.Sprintf("formatter output of %s is rejected by the parser: %v", name, err))
			continue
		}
		d1, d2 := dumpAst(ast1, true), dumpAst(ast2, true)
		if d1 != d2 {
			add("ast-changed:"+diffClass(d1, d2), fmt.Sprintf("formatting %s changed the program: %s", name, firstDiff(d1, d2)))
		}
		// comments
		allAttached := true
		for _, id := range inp.Other {
			if strings.Contains(text, id) {
				allAttached = false
				if !strings.Contains(f1, id) {
					add("comment-lost:dangling:in="+scopeOf(text, id), fmt.Sprintf("comment %s of %s is missing from the formatted output", id, name))
				}
			}
		}
		for _, id := range inp.Attached {
			if !strings.Contains(text, id) {
				continue
			}
			n := strings.Count(f1, id)
			if n == 0 {
				add("comment-lost:attached:in="+scopeOf(text, id), fmt.Sprintf("comment %s of %s (placed before an element of its scope) is missing from the formatted output", id, name))
			} else if n != 1 && allAttached {
				add("comment-duplicated:in="+scopeOf(text, id), fmt.Sprintf("comment %s of %s appears %d times in the formatted output", id, name, n))
			}
		}
		if allAttached {
			f2, err := parser.FormatSrcBytes([]byte(f1), fp, false, nil)
			if err != nil {
				add("reformat-error", "formatting the formatted output failed: "+err.Error())
			} else if f2 != f1 {
				cls := lineDiffClass(f1, f2)
				if cls == "comment-line" {
					cls += ":in=" + scopeOfLine(f1, firstDiffLine(f1, f2))
				}
				add("not-fixed-point:"+cls, fmt.Sprintf("Format(Format(%s)) != Format(%s): %s", name, name, firstDiff(f1, f2)))
			}
		}
	}
	// Whole-program: compile, and the include-expanded rendering.
	mainPath := filepath.Join(dir, "main.mro")
	src, _, ast, err := syntax.ParseSourceBytes([]byte(inp.Files["main.mro"]), mainPath, []string{dir}, false)
	if err != nil || ast == nil {
		return res
	}
	res.Compiled = true
	// formatted files compile to an equal program
	fdir := filepath.Join(dir, "fmt")
	for name, text := range inp.Files {
		f1, err := parser.FormatSrcBytes([]byte(text), filepath.Join(dir, name), false, nil)
		if err != nil {
			return res
		}
		fp := filepath.Join(fdir, name)
		os.MkdirAll(filepath.Dir(fp), 0755)
		os.WriteFile(fp, []byte(f1), 0644)
	}
	fmain, _ := os.ReadFile(filepath.Join(fdir, "main.mro"))
	_, _, fast, ferr := syntax.ParseSourceBytes(fmain, filepath.Join(fdir, "main.mro"), []string{fdir}, false)
	if ferr != nil {
		add("formatted-not-compiling:"+classifyParseErr(ferr.Error(), string(fmain)), "the formatted files no longer compile: "+ferr.Error())
	} else {
		if g1, g2 := callGraphJSON(ast), callGraphJSON(fast); g1 != g2 {
			add("callgraph-changed-by-format", "resolved call graph differs after formatting: "+firstDiff(g1, g2))
		}
		// resources etc. are not in the call graph: compare compiled callables
		c1, c2 := dumpAst(ast.Callables.List, true, "Table"), dumpAst(fast.Callables.List, true, "Table")
		if c1 != c2 {
			add("compiled-ast-changed:"+diffClass(c1, c2), "compiled callables differ after formatting: "+firstDiff(c1, c2))
		}
	}
	// _mrosource rendering compiles standalone to an equivalent program
	sdir := filepath.Join(dir, "single")
	os.MkdirAll(sdir, 0755)
	_, _, sast, serr := syntax.ParseSourceBytes([]byte(src), filepath.Join(sdir, "main.mro"), []string{sdir}, false)
	if serr != nil {
		add("mrosource-not-compiling:"+classifyParseErr(serr.Error(), src), "the include-expanded rendering does not compile on its own: "+serr.Error())
	} else {
		if g1, g2 := callGraphJSON(ast), callGraphJSON(sast); g1 != g2 {
			add("mrosource-callgraph-differs", "include-expanded rendering resolves to a different call graph: "+firstDiff(g1, g2))
		}
		c1, c2 := dumpAst(ast.Callables.List, true, "Table"), dumpAst(sast.Callables.List, true, "Table")
		if c1 != c2 {
			add("mrosource-ast-differs:"+diffClass(c1, c2), "include-expanded rendering compiles to different callables: "+firstDiff(c1, c2))
		}
	}
	return res
}

func callGraphJSON(ast *syntax.Ast) string {
	if ast.Call == nil {
		return ""
	}
	g, err := ast.MakeCallGraph("ID.", ast.Call)
	if err != nil {
		// the order in which several messages are listed is C10's subject:
		// compare the messages as a set of words here
		t := locRe.ReplaceAllString(err.Error(), "")
		words := strings.Fields(t)
		sort.Strings(words)
		return "ERR:" + strings.Join(words, "")
	}
	b, err := json.Marshal(g)
	if err != nil {
		return "ERR:" + err.Error()
	}
	// The order of "retained" reference lists is not stable between two
	// resolutions of the same program (that is C10's subject): compare
	// them as sets here.
	var v interface{}
	if json.Unmarshal(b, &v) == nil {
		b, _ = json.Marshal(sortRefLists(v))
	}
	// numerically, -0 is 0
	b = []byte(negZeroRe.ReplaceAllString(string(b), "${1}0${3}"))
	// source locations embedded in messages are not part of the meaning
	t := locRe.ReplaceAllString(string(b), "")
	return strings.ReplaceAll(strings.ReplaceAll(t, "\\n", ""), " ", "")
}

var negZeroRe = regexp.MustCompile(`([\[,:])-0(\.0+)?([\],}])`)

var locRe = regexp.MustCompile(`((at|\[\d+\]|included from) )?[^ "\\]*\.mro:\d+( included from:?)?`)

var fieldRe = regexp.MustCompile(`([A-Za-z]+)=[^=;]*$`)

// diffClass names the AST field at which two dumps first differ.
func diffClass(a, b string) string {
	n := len(a)
	if len(b) < n {
		n = len(b)
	}
	i := 0
	for i < n && a[i] == b[i] {
		i++
	}
	if m := fieldRe.FindStringSubmatch(a[:i]); m != nil {
		return m[1]
	}
	return "?"
}

func lineDiffClass(a, b string) string {
	la, lb := strings.Split(a, "\n"), strings.Split(b, "\n")
	for i := 0; i < len(la) && i < len(lb); i++ {
		if la[i] != lb[i] {
			f := strings.Fields(la[i])
			if len(f) > 0 {
				w := strings.Trim(f[0], "(),=")
				if strings.HasPrefix(w, "#") {
					return "comment-line"
				}
				return w
			}
		}
	}
	return "length"
}

// scopeOf names the bracketed scope enclosing the comment id: the keyword
// of the nearest preceding less-indented line that opens a bracket.
func scopeOf(text, id string) string {
	lines := strings.Split(text, "\n")
	for i, l := range lines {
		if strings.Contains(l, id) {
			return scopeOfLine(text, i)
		}
	}
	return "?"
}

func firstDiffLine(a, b string) int {
	la, lb := strings.Split(a, "\n"), strings.Split(b, "\n")
	for i := 0; i < len(la) && i < len(lb); i++ {
		if la[i] != lb[i] {
			return i
		}
	}
	return 0
}

var commentStrip = regexp.MustCompile(`\s*#.*$`)

func scopeOfLine(text string, li int) string {
	lines := strings.Split(text, "\n")
	if li >= len(lines) {
		return "?"
	}
	indentOf := func(l string) int { return len(l) - len(strings.TrimLeft(l, " ")) }
	ind := indentOf(lines[li])
	if strings.Contains(lines[li], "trailing") && !strings.HasPrefix(strings.TrimSpace(lines[li]), "#") {
		// trailing comment: its own line opens/continues the scope
		ind++
	}
	for j := li - 1; j >= 0; j-- {
		l := commentStrip.ReplaceAllString(lines[j], "")
		t := strings.TrimSpace(l)
		if t == "" || indentOf(lines[j]) >= ind {
			continue
		}
		if strings.HasSuffix(t, "(") || strings.HasSuffix(t, "{") || strings.HasSuffix(t, "[") {
			f := strings.Fields(strings.Trim(t, "({[ "))
			for k := len(f) - 1; k >= 0; k-- {
				w := strings.Trim(f[k], "(){}[],=")
				switch w {
				case "using", "retain", "return", "split", "call", "stage", "pipeline", "struct":
					return w
				}
			}
			if strings.HasSuffix(t, "[") || strings.Contains(t, "= [") || strings.Contains(t, "= {") {
				return "literal"
			}
			if t == "{" {
				return "body"
			}
			return "call"
		}
	}
	return "top"
}

func classifyParseErr(e string, text string) string {
	switch {
	case strings.Contains(e, "unexpected token"):
		return "syntax"
	default:
		f := strings.Fields(strings.TrimPrefix(e, "MRO "))
		if len(f) > 0 {
			return strings.Trim(f[0], ":")
		}
	}
	return "other"
}

func init() { vf.RegisterWorker("c09", c09Worker) }

// surface randomises the surface syntax of canonical text: comments on
// their own lines before elements (attached) or before closing brackets
// (dangling), trailing comments, blank lines, alternative float spellings.
func surface(r *rand.Rand, text string, idPrefix string, n *int, attached, other *[]string, pComment int) string {
	lines := strings.Split(text, "\n")
	var out []string
	depthParen := 0
	for _, l := range lines {
		trim := strings.TrimSpace(l)
		if trim != "" && r.Intn(100) < pComment && depthParen >= 0 {
			*n++
			id := fmt.Sprintf("#%s%d#", idPrefix, *n)
			indent := l[:len(l)-len(strings.TrimLeft(l, " "))]
			c := indent + id + " comment text"
			if strings.HasPrefix(trim, ")") || strings.HasPrefix(trim, "}") || strings.HasPrefix(trim, "]") {
				*other = append(*other, id)
			} else if strings.HasPrefix(trim, "{") {
				*other = append(*other, id)
			} else {
				*attached = append(*attached, id)
			}
			out = append(out, c)
			if r.Intn(4) == 0 {
				// second line of the same block
				out = append(out, indent+"# more")
			}
		}
		if trim != "" && r.Intn(100) < pComment/4 {
			*n++
			id := fmt.Sprintf("#%s%d#", idPrefix, *n)
			*other = append(*other, id)
			l = l + " " + id + " trailing"
		}
		// alternative float spellings
		if r.Intn(3) == 0 {
			l = outsideStrings(l, func(seg string) string {
				return floatRe.ReplaceAllStringFunc(seg, func(s string) string {
					f, err := strconv.ParseFloat(s, 64)
					if err != nil {
						return s
					}
					switch r.Intn(3) {
					case 0:
						return strconv.FormatFloat(f, 'e', -1, 64)
					case 1:
						t := strconv.FormatFloat(f, 'f', -1, 64)
						if !strings.Contains(t, ".") {
							t += "."
						}
						return t + "0"
					}
					return s
				})
			})
		}
		out = append(out, l)
		if r.Intn(12) == 0 {
			out = append(out, "")
		}
	}
	return strings.Join(out, "\n")
}

// outsideStrings applies fn to the parts of a source line that are not inside
// a double-quoted string literal.
func outsideStrings(l string, fn func(string) string) string {
	var sb strings.Builder
	start, in := 0, false
	for i := 0; i < len(l); i++ {
		switch {
		case in && l[i] == '\\':
			i++
		case l[i] == '"':
			if in {
				sb.WriteString(l[start : i+1])
				start = i + 1
			} else {
				sb.WriteString(fn(l[start:i]))
				start = i
			}
			in = !in
		}
	}
	if in {
		sb.WriteString(l[start:])
	} else {
		sb.WriteString(fn(l[start:]))
	}
	return sb.String()
}

var floatRe = regexp.MustCompile(`-?\b[0-9]+\.[0-9]+\b`)

var c09Specials = []string{"plain", "with space", "q\"uote", "back\\slash", "tab\there", "new\nline", "é ü 日本", "\u0001ctl", "", "$x `y` 'z'"}

func c09Tweak(r *rand.Rand, p *pgen.Program) {
	fr := []float64{0.3, 0.25, 1.5, 0.1, 2, 3.75, 0.999, 1.01, 12, 0.07, 1e-3, 100.5}
	// memory reservations may be negative ("at least"): inexact, exact and integral ones
	frMem := append([]float64{-1.3, -0.7, -0.0625, -2.5, -4, -0.3, -12.01, -100.9}, fr...)
	for _, st := range p.Stages {
		if r.Intn(2) == 0 {
			res := &pgen.Resources{}
			if r.Intn(2) == 0 {
				res.HasThreads, res.Threads = true, fr[r.Intn(len(fr))]
			}
			if r.Intn(2) == 0 {
				res.HasMem, res.MemGB = true, frMem[r.Intn(len(frMem))]
			}
			if r.Intn(3) == 0 {
				res.HasVMem, res.VMemGB = true, frMem[r.Intn(len(frMem))]
			}
			if r.Intn(3) == 0 {
				res.HasSpecial, res.Special = true, c09Specials[r.Intn(len(c09Specials))]
			}
			if r.Intn(3) == 0 {
				res.Volatile = []string{"strict", "false"}[r.Intn(2)]
			}
			st.Res = res
		}
		if r.Intn(8) == 0 {
			st.Src = []string{"a b c", "path/with\\\"quote arg", "x\\\\y", "mod.sub", "/abs/p -flag"}[r.Intn(5)]
			st.SrcLang = []string{"comp", "exec", "py"}[r.Intn(3)]
			if st.SrcLang == "py" {
				st.Src = strings.Fields(st.Src)[0]
			}
		}
		for i := range st.Ins {
			if r.Intn(6) == 0 {
				st.Ins[i].Help = c09Specials[r.Intn(len(c09Specials))]
			}
		}
		for i := range st.Outs {
			if r.Intn(6) == 0 {
				st.Outs[i].Help = c09Specials[r.Intn(len(c09Specials))]
				if r.Intn(2) == 0 {
					st.Outs[i].OutName = "n_" + strings.NewReplacer("/", "_", "\x01", "_", "\n", "_").Replace(c09Specials[r.Intn(len(c09Specials))])
				}
			}
		}
	}
}

func init() {
	register("C09", "exploration", func(c *vf.Ctx) {
		c.SetRule("generated multi-file MRO programs with every literal form (escapes, exponents, negative and large numbers, fractional threads/mem_gb/vmem_gb, special strings, nested empty collections), every optional clause and both modifier syntaxes; surface syntax randomised: tracked comments before elements of their scope (attached) or before closing brackets / trailing (dangling), blank lines, alternative float spellings; plus the repository's own .mro files. Oracle (own reflection-based AST walker, not equivalence.go): formatter output re-parses to a structurally equal tree (calls compared as a set); no comment id lost; with only attached comments each id occurs once and Format is a fixed point; formatted files compile to the same compiled callables and call-graph JSON; the include-expanded rendering returned by ParseSourceBytes compiles standalone to the same. distinct = distinct source text sets; non-trivial = contains a comment, resource clause or non-trivial literal.")
		rng := rand.New(rand.NewSource(c.Seed))
		n := c.Pick(1500, 60000)
		var inputs [][]byte
		var metas []c09Input
		nc := 0
		for i := 0; i < n; i++ {
			cfg := pgen.DefaultConfig()
			cfg.HostileStrings = true
			cfg.BigInts = true
			cfg.MultiFile = true
			cfg.PResources = 60
			cfg.PRetain = 40
			cfg.PPreflight = 10
			cfg.PNullLit = 10
			cfg.MaxTypeDepth = 3
			p := pgen.Generate(c.Seed*977+int64(i), cfg)
			c09Tweak(rng, p)
			pgen.MultiLinePct = []int{0, 40, 80}[(i/3)%3]
			files := p.Print()
			pgen.MultiLinePct = 0
			inp := c09Input{Files: map[string]string{}, MultiFile: p.NFiles > 0}
			pc := []int{0, 10, 30}[i%3]
			dangling := i%2 == 0
			for name, text := range files {
				var att, oth []string
				t := surface(rng, text, fmt.Sprintf("c%d_", i), &nc, &att, &oth, pc)
				if !dangling {
					// strip the dangling/trailing ones again for the fixed-point claim
					for _, id := range oth {
						t = regexp.MustCompile(`(?m)^\s*`+regexp.QuoteMeta(id)+` comment text\n(\s*# more\n)?`).ReplaceAllString(t, "")
						t = strings.ReplaceAll(t, " "+id+" trailing", "")
					}
					oth = nil
				}
				inp.Files[name] = t
				inp.Attached = append(inp.Attached, att...)
				inp.Other = append(inp.Other, oth...)
			}
			b, _ := json.Marshal(inp)
			inputs = append(inputs, b)
			metas = append(metas, inp)
		}
		// repository files, single-file each (includes may not resolve: per-file format checks still run)
		for _, text := range loadRepoCorpus(c.RepoDir) {
			inp := c09Input{Files: map[string]string{"main.mro": text}}
			b, _ := json.Marshal(inp)
			inputs = append(inputs, b)
			metas = append(metas, inp)
		}
		results := vf.RunBatches(c, "c09", inputs, 100, 60*time.Second, 4096)
		accepted, compiled := 0, 0
		for i, r := range results {
			c.Eval(1)
			if r.TimedOut {
				c.Inconclusive("watchdog")
				continue
			}
			if r.Crashed {
				// crashes of the parser / compiler / resolver are C08's subject
				msg, site := vf.CrashSite(r.Stderr)
				c.Inconclusive("process crashed in " + site + " (" + normalizeCrash(msg) + "): decided by C08")
				continue
			}
			var res c09Result
			if json.Unmarshal(r.Result, &res) != nil {
				c.Inconclusive("no result")
				continue
			}
			if !res.Accepted {
				c.Count("sources_rejected_by_parser", 1)
				continue
			}
			accepted++
			if res.Compiled {
				compiled++
			}
			var all strings.Builder
			for _, k := range pgen.SortedKeys(metas[i].Files) {
				all.WriteString(metas[i].Files[k])
			}
			c.Distinct(all.String())
			for _, pr := range res.Problems {
				c.Violate("C09:"+pr.Sig, pr.What, map[string]interface{}{"files": metas[i].Files, "attached": metas[i].Attached, "other": metas[i].Other})
			}
			if i < 3 {
				c.Sample(map[string]interface{}{"files": metas[i].Files, "attached_comments": len(metas[i].Attached), "dangling_comments": len(metas[i].Other)})
			}
		}
		c.Set("sources_accepted", accepted)
		c.Set("programs_compiled_and_compared", compiled)
		c.Set("comments_tracked", nc)
	})
}

func sortRefLists(v interface{}) interface{} {
	switch a := v.(type) {
	case []interface{}:
		allRefs := len(a) > 1
		for i, x := range a {
			a[i] = sortRefLists(x)
			if m, ok := a[i].(map[string]interface{}); !ok || m["__reference__"] == nil {
				allRefs = false
			}
		}
		if allRefs {
			keys := make([]string, len(a))
			for i, x := range a {
				b, _ := json.Marshal(x)
				keys[i] = string(b)
			}
			idx := make([]int, len(a))
			for i := range idx {
				idx[i] = i
			}
			sortInts(idx, func(i, j int) bool { return keys[i] < keys[j] })
			out := make([]interface{}, len(a))
			for i, k := range idx {
				out[i] = a[k]
			}
			return out
		}
		return a
	case map[string]interface{}:
		for k, x := range a {
			a[k] = sortRefLists(x)
		}
		return a
	}
	return v
}

func sortInts(idx []int, less func(i, j int) bool) {
	for i := 1; i < len(idx); i++ {
		for j := i; j > 0 && less(idx[j], idx[j-1]); j-- {
			idx[j], idx[j-1] = idx[j-1], idx[j]
		}
	}
}
