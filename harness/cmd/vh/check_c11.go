package main

import (
	"fmt"
	"math/rand"
	"os"
	"path/filepath"
	"regexp"
	"sort"
	"strings"
	"unicode/utf8"

	"github.com/martian-lang/martian/martian/core"
	"verif/harness/internal/pgen"
	"verif/harness/internal/vf"
	"verif/harness/internal/vmon"
)

// C11: fork identities unique, notifications reach exactly their owner.

var hostileKeys = []string{".", "..", "a.b", "a/b", "/", "%", "%2E", "%2F", "a%2Eb", "fork0", "fork_1", "0", "1", "00", "chnk0", "split",
	"join", "a b", " ", "é", "日本語", "ḱ", "_", "-", "u0123456789", ".u0123456789", "x.u0123456789.y", "a\tb", "a\\b", "a\"b", "'",
	"*", "?", "~", "`x`", "a:b", "a;b", "#", "&", "|", "<", ">", "(", ")", "[", "]", "{", "}", "+", "=", "@", "!", "^", ",",
	"fork", "fork0.chnk1", "x.fork1", "_complete", "complete", "A", "a", strings.Repeat("k", 200), strings.Repeat("é", 100)}

func randKey(r *rand.Rand) string {
	if r.Intn(3) > 0 {
		return hostileKeys[r.Intn(len(hostileKeys))]
	}
	n := 1 + r.Intn(12)
	var sb strings.Builder
	for i := 0; i < n; i++ {
		switch r.Intn(6) {
		case 0:
			sb.WriteRune(rune(0x20 + r.Intn(0x5f)))
		case 1:
			sb.WriteString([]string{".", "/", "%", " ", "_", "-"}[r.Intn(6)])
		case 2:
			sb.WriteRune(rune(0xa0 + r.Intn(0x2000)))
		case 3:
			sb.WriteRune(rune(0x4e00 + r.Intn(0x1000)))
		default:
			sb.WriteByte(byte('a' + r.Intn(26)))
		}
	}
	s := sb.String()
	if !utf8.ValidString(s) {
		return "k"
	}
	return s
}

func keyFeatures(keys []string) string {
	f := map[string]bool{}
	for _, k := range keys {
		if strings.Contains(k, ".") {
			f["dot"] = true
		}
		if strings.Contains(k, "/") {
			f["slash"] = true
		}
		if strings.Contains(k, "%") {
			f["percent"] = true
		}
		if strings.ContainsAny(k, " \t") {
			f["space"] = true
		}
		if k == "" {
			f["empty"] = true
		}
		if len(k) > 100 {
			f["long"] = true
		}
		for _, r := range k {
			if r > 127 {
				f["nonascii"] = true
			}
		}
	}
	var out []string
	for k := range f {
		out = append(out, k)
	}
	sort.Strings(out)
	if len(out) == 0 {
		return "plain"
	}
	return strings.Join(out, "+")
}

type c11Dim struct {
	isMap   bool
	keys    []string
	n       int
	dynamic bool
}

func (d c11Dim) size() int {
	if d.isMap {
		return len(d.keys)
	}
	return d.n
}

func dimsShape(dims []c11Dim) string {
	var p []string
	for _, d := range dims {
		s := "array"
		if d.isMap {
			s = "map"
		}
		if d.dynamic {
			s += "(dyn)"
		}
		p = append(p, s)
	}
	return strings.Join(p, ">")
}

var legalComponent = regexp.MustCompile(`^[^/\x00]{1,255}$`)

func c11Unit(c *vf.Ctx) {
	rng := rand.New(rand.NewSource(c.Seed))
	nCalls := c.Pick(4000, 400000)
	files := []string{"_complete", "_errors", "_assert", "_progress", "_log", "_heartbeat", "_jobinfo", "_stdout", "_stderr", "_outs", "_alarm", "_stage_defs"}
	forksChecked, journalChecked := 0, 0
	for ci := 0; ci < nCalls; ci++ {
		nd := 1 + rng.Intn(3)
		if rng.Intn(3) == 0 {
			nd = 1
		}
		var dims []c11Dim
		total := 1
		if ci < 4 {
			// crafted: nested map dimensions where a key of one level embeds
			// "/fork_" + a key of the other, so that joining the per-level
			// names can give the same string for two different forks
			x := []string{"a", "b c", "é", "k.1"}[ci]
			k := []string{"k", "a", "zz", "0"}[ci]
			outer := []string{x, x + "/fork_" + x}
			inner := []string{k, x + "/fork_" + k}
			sort.Strings(outer)
			sort.Strings(inner)
			dims = []c11Dim{{isMap: true, keys: outer, dynamic: ci%2 == 1}, {isMap: true, keys: inner}}
			total = 4
		}
		for i := 0; i < nd && ci >= 4; i++ {
			d := c11Dim{dynamic: rng.Intn(3) == 0}
			if rng.Intn(2) == 0 {
				d.isMap = true
				nk := 1 + rng.Intn(6)
				seen := map[string]bool{}
				for len(d.keys) < nk {
					k := randKey(rng)
					if len(d.keys) > 0 && rng.Intn(4) == 0 {
						// a key that embeds the fork name of another key of the same set
						base := d.keys[rng.Intn(len(d.keys))]
						k = []string{"", "a", "a/", "x.", "é"}[rng.Intn(5)] + []string{"fork_", "fork", ".fork_", "fork0.", "chnk0."}[rng.Intn(5)] + base
					}
					if !seen[k] {
						seen[k] = true
						d.keys = append(d.keys, k)
					}
				}
				sort.Strings(d.keys)
			} else {
				d.n = []int{1, 2, 3, 9, 10, 11, 99, 100, 101, 999, 1000, 1001, 1100}[rng.Intn(13)]
				if nd > 1 && d.n > 12 {
					d.n = 2 + rng.Intn(10)
				}
			}
			total *= d.size()
			dims = append(dims, d)
		}
		if total > 4000 {
			continue
		}
		c.Eval(1)
		shape := dimsShape(dims)
		// class used in signatures: a map dimension that follows an array dimension
		sawArray := false
		for _, d := range dims {
			if !d.isMap {
				sawArray = true
			} else if sawArray {
				shape = "map-dimension-after-array-dimension"
				break
			}
		}
		var allKeys []string
		for _, d := range dims {
			allKeys = append(allKeys, d.keys...)
		}
		feat := keyFeatures(allKeys)
		c.Distinct(fmt.Sprint(dims))
		// enumerate forks
		nd = len(dims)
		idx := make([]int, nd)
		type forkRec struct {
			desc    string
			dir     string
			journal string
		}
		var forks []forkRec
		failed := false
		for {
			parts := make([]core.VerifForkPart, nd)
			var desc []string
			for i, d := range dims {
				if d.isMap {
					parts[i] = core.VerifForkPart{IsMap: true, Key: d.keys[idx[i]], Keys: d.keys, Dynamic: d.dynamic}
					desc = append(desc, fmt.Sprintf("%q", d.keys[idx[i]]))
				} else {
					parts[i] = core.VerifForkPart{Index: idx[i], Len: d.n, Dynamic: d.dynamic}
					desc = append(desc, fmt.Sprint(idx[i]))
				}
			}
			var dir, jn string
			var err error
			func() {
				defer func() {
					if r := recover(); r != nil {
						err = fmt.Errorf("panic: %v", r)
					}
				}()
				dir, jn, err = core.VerifForkNames(parts)
			}()
			if err != nil {
				c.Violate("C11:fork-name-error:"+shape+":"+normalizeCrash(err.Error()), fmt.Sprintf("no fork name for combination %v of %s: %v", desc, shape, err),
					map[string]interface{}{"dims": fmt.Sprint(dims), "combination": desc})
				failed = true
				break
			}
			forks = append(forks, forkRec{strings.Join(desc, ","), dir, jn})
			// next
			k := 0
			for k < nd {
				idx[k]++
				if idx[k] < dims[k].size() {
					break
				}
				idx[k] = 0
				k++
			}
			if k == nd {
				break
			}
		}
		if failed {
			continue
		}
		forksChecked += len(forks)
		byDir := map[string]string{}
		byJ := map[string]string{}
		collided := false
		for _, f := range forks {
			if o, dup := byDir[f.dir]; dup && !collided {
				collided = true
				c.Violate("C11:directory-collision:"+shape, fmt.Sprintf("forks %s and %s of a call mapped over %s get the same directory %q", o, f.desc, shape, f.dir),
					map[string]interface{}{"dims": fmt.Sprint(dims)})
			}
			byDir[f.dir] = f.desc
			if o, dup := byJ[f.journal]; dup && !collided {
				collided = true
				c.Violate("C11:journal-name-collision:"+shape, fmt.Sprintf("forks %s and %s of a call mapped over %s get the same journal name %q", o, f.desc, shape, f.journal),
					map[string]interface{}{"dims": fmt.Sprint(dims)})
			}
			byJ[f.journal] = f.desc
			for _, comp := range strings.Split(f.dir, "/") {
				if !legalComponent.MatchString(comp) || comp == "." || comp == ".." {
					if len(comp) > 255 {
						c.Count("fork_dir_component_over_255_bytes", 1) // documented file-name restriction
					} else {
						c.Violate("C11:illegal-directory-name:"+feat, fmt.Sprintf("fork %s gets directory %q with an unusable component %q", f.desc, f.dir, comp), nil)
					}
				}
			}
		}
		if collided {
			continue
		}
		// routing
		top := "ID.ps"
		stage := top + ".PIPE.SUB.STAGE_1"
		names := make([]string, len(forks))
		for i, f := range forks {
			names[i] = f.journal
		}
		// The numeric shortcut in fork lookup is only valid if numeric ids are positions.
		sample := len(forks)
		if sample > 40 {
			sample = 40
		}
		for s := 0; s < sample; s++ {
			fi := rng.Intn(len(forks))
			f := forks[fi]
			kind := []string{"split", "join", "chunk"}[rng.Intn(3)]
			width := []int{1, 1, 2, 3}[rng.Intn(4)]
			chunk := -1
			if kind == "chunk" {
				chunk = rng.Intn([]int{1, 10, 100, 1000}[width-1+0])
			}
			uniq := ""
			if rng.Intn(2) == 0 {
				uniq = fmt.Sprintf("%010x", rng.Int63()&0xffffffffff)
			}
			file := files[rng.Intn(len(files))]
			jname := core.VerifJournalFileName(top, stage, f.journal, kind, chunk, width, uniq, file)
			journalChecked++
			fq, forkIndex, gotChunk, gotUniq, state := core.VerifParseRunFilename(jname)
			wantState := file
			if kind == "split" {
				wantState = "split_" + file
			} else if kind == "join" {
				wantState = "join_" + file
			}
			wantFq := strings.TrimPrefix(stage, top+".")
			replay := map[string]interface{}{"journal_file": jname, "fork": f.desc, "dims": fmt.Sprint(dims), "kind": kind, "chunk": chunk, "uniquifier": uniq, "file": file}
			if fq != wantFq || gotChunk != chunk || gotUniq != uniq || state != wantState {
				c.Violate("C11:journal-parse:"+feat+":"+kind, fmt.Sprintf("journal file %q written for (stage %s, fork %s, %s %d, attempt %q, %s) parses as (stage %q, fork %q, chunk %d, attempt %q, %q)",
					jname, wantFq, f.desc, kind, chunk, uniq, wantState, fq, forkIndex, gotChunk, gotUniq, state), replay)
				continue
			}
			pos := core.VerifRouteFork(stage, names, forkIndex)
			// numeric ids: position must equal the number, which holds iff ids are exactly fork0..forkN-1
			if pos != fi {
				numeric := regexp.MustCompile(`^\d+$`).MatchString(forkIndex)
				if numeric {
					// only a verdict when our enumeration order is the numeric order
					want := -1
					for j, n := range names {
						if n == "fork"+forkIndex {
							want = j
						}
					}
					var num int
					fmt.Sscan(forkIndex, &num)
					if want != fi || num != fi {
						continue
					}
				}
				c.Violate("C11:journal-misrouted:"+shape+":"+feat, fmt.Sprintf("journal file %q written by fork %s (position %d) is attributed to fork position %d", jname, f.desc, fi, pos), replay)
			}
		}
	}
	c.Set("forks_named", forksChecked)
	c.Set("journal_names_routed", journalChecked)
}

func init() {
	flowFailureHandler["C11"] = func(c *vf.Ctx, res *flowResult, sig string) {
		// only failures about fork directories / journal routing belong to this property
		if !regexp.MustCompile(`no such file or directory|Journal update for unknown|failed to parse journal|file exists`).MatchString(res.run.Output) {
			c.Inconclusive("pipestance failed for a reason unrelated to fork naming: " + sig)
			return
		}
		c.Violate("C11:e2e:mapped-pipestance-failed:"+c11Class(res.prog)+":"+normalizeFail(basenames(stripIds(failureLine(res.run.Output)))),
			fmt.Sprintf("pipestance mapped over keys %q does not complete: %s", res.fc.Cfg.KeyPool, tail(res.run.Output, 600)),
			map[string]interface{}{"program_seed": res.fc.Seed, "mro": res.prog.Print(), "key_pool": res.fc.Cfg.KeyPool})
	}
	flowExtra["C11"] = func(c *vf.Ctx, res *flowResult) {
		// attempts of one job are distinct identities: a retried job must get
		// a metadata directory (and with it a journal name) of its own
		retried := 0
		for _, j := range res.obs.Jobs {
			seen := map[string]int{}
			for _, st := range j.Starts {
				seen[st.Meta]++
			}
			if len(j.Starts) > 1 {
				retried++
			}
			for meta, n := range seen {
				if n > 1 {
					c.Violate("C11:e2e:attempt-identity-reused:"+j.Phase,
						fmt.Sprintf("job %s was executed %d times in the same metadata directory %s: a later attempt shares directory and journal name with the attempt it replaces", j.ID, n, meta),
						map[string]interface{}{"program_seed": res.fc.Seed, "mro": res.prog.Print(), "rules": res.fc.Rules})
					break
				}
			}
		}
		c.Count("retried_jobs_checked_for_distinct_attempt_identity", int64(retried))
		if len(res.fc.Rules) > 0 && res.fc.Rules[0].Fail == "straggler" {
			// a notification of a superseded attempt must not be taken for the
			// current one: nothing may consume the job's outputs before the
			// attempt that replaced it has ended, and every argument must be right
			if b, err := os.ReadFile(filepath.Join(res.obs.Case.PsDir, "_log")); err == nil {
				c.Count("stale_notifications_of_superseded_attempts_seen_and_dropped_by_mrp", int64(strings.Count(string(b), "There appears to be more than one instance of")))
			}
			for _, f := range res.report.Findings {
				if (f.Prop == "C01" || f.Prop == "C02") && !strings.Contains(f.Sig, "indep") && !strings.Contains(f.Sig, "fed-by-other-instance-of-own-map-call") {
					c.Violate("C11:e2e:stale-attempt-notification:"+f.Prop+":"+f.Sig, "with a leftover of the first attempt reporting completion during the retry: "+f.What,
						map[string]interface{}{"program_seed": res.fc.Seed, "mro": res.prog.Print(), "rules": res.fc.Rules})
				}
			}
		}
		if len(res.fc.Rules) > 0 {
			return // runs with injected transient failures: only the identity check applies
		}
		// any dataflow / exactly-once finding in these otherwise safe-shape runs is a misattribution
		for _, f := range res.report.Findings {
			if (f.Prop == "C01" || f.Prop == "C03") && !strings.Contains(f.Sig, "indep") && !strings.Contains(f.Sig, "unresolved-merge") &&
				!strings.Contains(f.Sig, "fed-by-other-instance-of-own-map-call") { // C01's known finding, not a naming matter
				c.Violate("C11:e2e:"+f.Prop+"-finding:"+c11Class(res.prog)+":"+f.Sig, "with adversarial map keys "+fmt.Sprintf("%q", res.fc.Cfg.KeyPool)+": "+f.What,
					map[string]interface{}{"program_seed": res.fc.Seed, "mro": res.prog.Print()})
			}
		}
		// warnings in the runtime log
		if b, err := os.ReadFile(filepath.Join(res.obs.Case.PsDir, "_log")); err == nil {
			for _, l := range strings.Split(string(b), "\n") {
				if strings.Contains(l, "WARNING: Journal update for unknown") || strings.Contains(l, "failed to parse journal file name") {
					c.Violate("C11:e2e:journal-warning:"+c11Class(res.prog), "runtime log: "+l, map[string]interface{}{"program_seed": res.fc.Seed, "mro": res.prog.Print()})
					break
				}
			}
			c.Count("runtime_logs_scanned", 1)
		}
	}
	registerFlow("C11", &flowDef{
		rule:   "unit speed (through the -tags verif wrappers around the real ForkId.ForkIdString, encodeJournalName, Node.parseRunFilename, Node.getFork, NewMetadataRunWithJournalPath/UpdateJournal naming): random nestings (1-3 dimensions; map over 1-6 adversarial keys incl. '.', '/', '%', '%2E', spaces, non-ASCII, 'fork0', 200-byte keys, random Unicode; array lengths at decimal-width boundaries 9/10/11, 99/100/101, 999/1000/1001; static and run-time sized): all forks of a call must get pairwise distinct directory and journal names; every journal file name built for (fork, split|join|chunk i, attempt, metadata file) must parse back and be routed to exactly that fork / chunk / attempt / file. End to end: pgen programs whose map calls use adversarial key pools (literal and probe-produced), incl. mixed array x map nestings, run by the real mrp: must complete, no dataflow / exactly-once finding, no 'Journal update for unknown' warning; in every run the journal-routing monitor reads the hook trace (refresh:route: journal file name as found on disk + journal base name, prefix and uniquifier of the metadata object that received it) and requires each processed file to carry the name the receiving object's own job writes, and no file to be dropped for want of an owner; a third of the plain cases are nested map calls with run-time sized levels (dataflow skeletons 12, 14), whose forks are created out of name order. distinct = distinct nesting + key set; non-trivial = at least 2 forks.",
		assume: []string{"keys longer than 255 bytes once encoded are excluded (documented file-name restriction)"},
		cases: func(c *vf.Ctx) []*flowCase {
			n := c.Pick(36, 800)
			rng := rand.New(rand.NewSource(c.Seed + 11))
			var cases []*flowCase
			for i := 0; i < n; i++ {
				cfg := pgen.DefaultConfig()
				var pool []string
				seen := map[string]bool{}
				for len(pool) < 6 {
					k := randKey(rng)
					if len(pool) > 0 && rng.Intn(4) == 0 {
						k = []string{"", "a", "a/", "x."}[rng.Intn(4)] + "fork_" + pool[rng.Intn(len(pool))]
					}
					// '$' is excluded: mrp documents that it expands environment
					// variables in the invocation source.
					if !seen[k] && len(k) < 120 && k != "" && !strings.Contains(k, "$") {
						seen[k] = true
						pool = append(pool, k)
					}
				}
				cfg.KeyPool = pool
				cfg.PMapCall = 70
				cfg.PFileTypes = 15
				cfg.AllowMixedNestedMap = i%3 == 0
				seed := c.Seed*1000003 + 2500000 + int64(i)
				cases = append(cases, &flowCase{Index: i, Seed: seed, Cfg: cfg, Vdr: []string{"disable", "rolling"}[i%2], Timeout: 60e9,
					Tweak: func(s *pgen.Spec) { s.LenChoices = []int{0, 1, 2, 9, 10, 11} }})
				if i%4 == 0 {
					// lost-but-alive jobs: the first attempt of every job of one
					// phase dies and a leftover of it reports completion under the
					// superseded attempt's journal name while the retry is running
					fc := cases[len(cases)-1]
					ph := []string{"join", "main", "split", ""}[(i/4)%4] // "": every phase
					fc.Cfg.PSplitStage = 70
					if (i/4)%2 == 0 {
						// skeleton 4: a splitting stage mapped over a run-time
						// collection, fed by another mapped stage
						fc.Template = 5
						fc.Cfg.ForceSplit = true
					}
					fc.AutoRetry = 12
					fc.Timeout = 150e9
					fc.Rules = []pgen.Rule{{Phase: ph, Attempt: 1, Fail: "straggler", DelayAfterMs: 3500}, {Phase: ph, Attempt: 2, DelayBeforeMs: 5000}}
					fc.Tweak = func(s *pgen.Spec) { s.LenChoices = []int{1, 2}; s.ChunkChoices = []int{1, 2} }
				}
				if i%4 == 2 {
					// every main job dies once from a signal and is retried in-process
					fc := cases[len(cases)-1]
					fc.AutoRetry = 12 // one retry per wave of first attempts
					fc.Rules = []pgen.Rule{{Phase: "main", Attempt: 1, Fail: []string{"kill9", "kill_mrjob"}[(i/4)%2]}}
					fc.Tweak = func(s *pgen.Spec) { s.LenChoices = []int{1, 2, 3} }
				}
				if fc := cases[len(cases)-1]; fc.Template == 0 && len(fc.Rules) == 0 && i%3 == 1 {
					// nested map calls with run-time sized levels (dataflow skeletons
					// 12 and 14): forks made at run time are appended to the node's
					// fork list in the order they are discovered, which is not the
					// order of their names - the journal-routing monitor then sees
					// whether every notification still reaches the fork that wrote it
					fc.Template = []int{13, 15}[(i/3)%2]
					fc.DelayMs = 60
				}
			}
			return cases
		},
		nontrivial: func(r *flowResult) bool { return r.report != nil && r.report.Forks > 1 },
	})
	orig := checks["C11"]
	register("C11", "exploration", func(c *vf.Ctx) {
		c11Unit(c)
		orig.fn(c)
	})
}

// c11Class describes the map nesting of the program.
func c11Class(p *pgen.Program) string {
	cls := map[string]bool{}
	for _, cp := range vmon.StageCallPaths(p) {
		k := classifyModes(p, cp)
		if strings.Contains(k, "M") {
			cls[k] = true
		}
	}
	var out []string
	for k := range cls {
		out = append(out, k)
	}
	sort.Strings(out)
	if len(out) > 3 {
		out = out[:3]
	}
	return strings.Join(out, ",")
}

// classifyModes: per enclosing call S single, A array map call, M typed-map map call.
func classifyModes(p *pgen.Program, callPath string) string {
	parts := strings.Split(callPath, "/")
	pl := p.Pipeline(parts[0])
	var sb strings.Builder
	for i := 1; i < len(parts) && pl != nil; i++ {
		var call *pgen.Call
		for _, c := range pl.Calls {
			if c.Name() == parts[i] {
				call = c
			}
		}
		if call == nil {
			break
		}
		if !call.Map {
			// omit singles
		} else {
			k := byte('A')
			for _, b := range call.Binds {
				if b.Split && b.Exp.Kind == pgen.EMap {
					k = 'M'
				}
				if b.Split && (b.Exp.Kind == pgen.ERefCall || b.Exp.Kind == pgen.ERefSelf) {
					k = 'D'
				}
			}
			sb.WriteByte(k)
		}
		pl = p.Pipeline(call.Callee)
	}
	return sb.String()
}
