package main

import (
	"encoding/json"
	"fmt"
	"math/rand"
	"os"
	"path/filepath"
	"strings"
	"time"

	"github.com/martian-lang/martian/martian/syntax"
	"verif/harness/internal/pgen"
	"verif/harness/internal/vf"
	"verif/harness/internal/vrun"
)

// C15: re-attach refused iff the meaning changed; no second writer.

// reachable returns the callables in the transitive closure of the top call.
func reachable(p *pgen.Program) (pipes []*pgen.Pipeline, stages []*pgen.Stage) {
	seenP := map[string]bool{}
	seenS := map[string]bool{}
	var walk func(name string)
	walk = func(name string) {
		if pl := p.Pipeline(name); pl != nil {
			if seenP[name] {
				return
			}
			seenP[name] = true
			pipes = append(pipes, pl)
			for _, c := range pl.Calls {
				walk(c.Callee)
			}
		} else if st := p.Stage(name); st != nil && !seenS[name] {
			seenS[name] = true
			stages = append(stages, st)
		}
	}
	walk(p.Top.Callee)
	return
}

func renameRefs(e *pgen.Exp, from, to string) {
	if e == nil {
		return
	}
	if e.Kind == pgen.ERefCall && e.Id == from {
		e.Id = to
	}
	for _, x := range e.Elems {
		renameRefs(x, from, to)
	}
}

func findLiteral(e *pgen.Exp, out *[]*pgen.Exp) {
	if e == nil {
		return
	}
	switch e.Kind {
	case pgen.EInt, pgen.EFloat, pgen.EString, pgen.EBool:
		*out = append(*out, e)
	}
	for _, x := range e.Elems {
		findLiteral(x, out)
	}
}

var semanticEdits = []string{"literal-value", "call-alias", "add-out-param", "remove-unreferenced-out", "add-in-param",
	"retype-param", "split-toggle", "return-binding", "disabled-remove", "disabled-add", "disabled-repoint", "local-toggle",
	"top-arg-value", "map-toggle-element", "struct-field-add"}
var cosmeticEdits = []string{"reformat", "comments", "include-structure", "filetype-rename", "reorder-declarations", "whitespace"}

// wildcardTwin finds the first wildcard binding `* = CALL` (in a call or in a
// return) of a reachable pipeline, adds a twin of CALL named ZZTWIN right
// after it and, if repoint is set, makes the wildcard take its values from the
// twin. Returns false if the program has no such binding.
func wildcardTwin(p *pgen.Program, repoint bool) bool {
	pipes, _ := reachable(p)
	for _, pl := range pipes {
		var star *pgen.Binding
		for _, c := range pl.Calls {
			for bi := range c.Binds {
				if b := &c.Binds[bi]; b.Id == "*" && b.Exp != nil && b.Exp.Kind == pgen.ERefCall && len(b.Exp.Path) == 0 && star == nil {
					star = b
				}
			}
		}
		for bi := range pl.Ret {
			if b := &pl.Ret[bi]; b.Id == "*" && b.Exp != nil && b.Exp.Kind == pgen.ERefCall && len(b.Exp.Path) == 0 && star == nil {
				star = b
			}
		}
		if star == nil {
			continue
		}
		for ci, c := range pl.Calls {
			if c.Name() != star.Exp.Id {
				continue
			}
			tw := *c
			tw.Alias = "ZZTWIN"
			tw.Binds = nil
			changed := false
			for _, b := range c.Binds {
				nb := b
				if b.Exp != nil && b.Exp.Kind == pgen.EInt && !changed {
					e := *b.Exp
					e.I += 17
					nb.Exp = &e
					changed = true
				}
				tw.Binds = append(tw.Binds, nb)
			}
			calls := append([]*pgen.Call{}, pl.Calls[:ci+1]...)
			calls = append(calls, &tw)
			pl.Calls = append(calls, pl.Calls[ci+1:]...)
			if repoint {
				star.Exp = &pgen.Exp{Kind: pgen.ERefCall, Id: "ZZTWIN"}
			}
			return true
		}
	}
	return false
}

// applySemantic mutates p; returns false if the edit is not applicable.
func applySemantic(p *pgen.Program, op string, r *rand.Rand) bool {
	pipes, stages := reachable(p)
	if len(pipes) == 0 {
		return false
	}
	pl := pipes[r.Intn(len(pipes))]
	switch op {
	case "literal-value", "top-arg-value":
		var lits []*pgen.Exp
		if op == "top-arg-value" {
			for _, b := range p.Top.Binds {
				findLiteral(b.Exp, &lits)
			}
		} else {
			for _, q := range pipes {
				for _, c := range q.Calls {
					for _, b := range c.Binds {
						findLiteral(b.Exp, &lits)
					}
				}
				for _, b := range q.Ret {
					findLiteral(b.Exp, &lits)
				}
			}
		}
		if len(lits) == 0 {
			return false
		}
		e := lits[r.Intn(len(lits))]
		switch e.Kind {
		case pgen.EInt:
			e.I += 1 + int64(r.Intn(5))
		case pgen.EFloat:
			e.F += 0.5
			e.FText = ""
		case pgen.EString:
			e.S += "x"
		case pgen.EBool:
			e.B = !e.B
		}
		return true
	case "call-alias":
		if len(pl.Calls) == 0 {
			return false
		}
		c := pl.Calls[r.Intn(len(pl.Calls))]
		old := c.Name()
		nw := "RENAMED" + fmt.Sprint(r.Intn(1000))
		c.Alias = nw
		for _, c2 := range pl.Calls {
			for _, b := range c2.Binds {
				renameRefs(b.Exp, old, nw)
			}
			renameRefs(c2.Disabled, old, nw)
		}
		for _, b := range pl.Ret {
			renameRefs(b.Exp, old, nw)
		}
		for _, e := range pl.Retain {
			renameRefs(e, old, nw)
		}
		return true
	case "add-out-param":
		if len(stages) == 0 {
			return false
		}
		st := stages[r.Intn(len(stages))]
		st.Outs = append(st.Outs, pgen.Param{Name: "extra_out_zz", Type: pgen.TInt})
		return true
	case "remove-unreferenced-out":
		// an output no binding / return / retain references
		for _, st := range stages {
			if len(st.Outs) < 2 {
				continue
			}
			for oi, o := range st.Outs {
				used := false
				for _, r := range st.Retain {
					if r == o.Name {
						used = true
					}
				}
				for _, q := range p.Pipelines {
					aliases := map[string]bool{}
					for _, c := range q.Calls {
						if c.Callee == st.Name {
							aliases[c.Name()] = true
						}
					}
					check := func(e *pgen.Exp) {
						var w func(e *pgen.Exp)
						w = func(e *pgen.Exp) {
							if e == nil {
								return
							}
							if e.Kind == pgen.ERefCall && aliases[e.Id] && (len(e.Path) == 0 || e.Path[0] == o.Name) {
								used = true
							}
							for _, x := range e.Elems {
								w(x)
							}
						}
						w(e)
					}
					for _, c := range q.Calls {
						for _, b := range c.Binds {
							check(b.Exp)
						}
						check(c.Disabled)
					}
					for _, b := range q.Ret {
						check(b.Exp)
					}
					for _, e := range q.Retain {
						check(e)
					}
				}
				if !used {
					st.Outs = append(st.Outs[:oi:oi], st.Outs[oi+1:]...)
					return true
				}
			}
		}
		return false
	case "add-in-param":
		if len(stages) == 0 {
			return false
		}
		st := stages[r.Intn(len(stages))]
		st.Ins = append(st.Ins, pgen.Param{Name: "extra_in_zz", Type: pgen.TInt})
		for _, q := range p.Pipelines {
			for _, c := range q.Calls {
				if c.Callee == st.Name {
					c.Binds = append(c.Binds, pgen.Binding{Id: "extra_in_zz", Exp: &pgen.Exp{Kind: pgen.EInt, I: 1}})
				}
			}
		}
		return true
	case "retype-param":
		for _, st := range stages {
			for i := range st.Outs {
				if st.Outs[i].Type.Kind == pgen.KString {
					// string -> (is any consumer typed?) keep simple: only if unreferenced is hard; skip
				}
			}
			for i := range st.Ins {
				if st.Ins[i].Type.Kind == pgen.KInt {
					st.Ins[i].Type = pgen.TFloat
					return true
				}
			}
		}
		return false
	case "split-toggle":
		if len(stages) == 0 {
			return false
		}
		st := stages[r.Intn(len(stages))]
		if st.Split {
			st.Split = false
			st.ChunkIns, st.ChunkOuts = nil, nil
		} else {
			st.Split = true
		}
		return true
	case "return-binding":
		for _, q := range pipes {
			for i := range q.Ret {
				if q.Ret[i].Exp.Kind == pgen.ERefCall || q.Ret[i].Exp.Kind == pgen.ERefSelf {
					q.Ret[i].Exp = &pgen.Exp{Kind: pgen.ENull}
					return true
				}
			}
		}
		return false
	case "disabled-remove":
		for _, q := range pipes {
			for _, c := range q.Calls {
				if c.Disabled != nil {
					c.Disabled = nil
					return true
				}
			}
		}
		return false
	case "disabled-add", "disabled-repoint":
		for _, q := range pipes {
			// bool sources: pipeline inputs / call outputs of type bool
			var srcs []*pgen.Exp
			for _, in := range q.Ins {
				if in.Type.Kind == pgen.KBool {
					srcs = append(srcs, &pgen.Exp{Kind: pgen.ERefSelf, Id: in.Name})
				}
			}
			for ci, c := range q.Calls {
				if op == "disabled-add" && c.Disabled == nil && len(srcs) > 0 {
					c.Disabled = srcs[r.Intn(len(srcs))]
					return true
				}
				if op == "disabled-repoint" && c.Disabled != nil {
					for _, s := range srcs {
						if s.String() != c.Disabled.String() {
							c.Disabled = s
							return true
						}
					}
				}
				if !c.Map {
					_, outs, _, _ := p.Callable(c.Callee)
					for _, o := range outs {
						if o.Type.Kind == pgen.KBool && ci < len(q.Calls)-1 {
							srcs = append(srcs, &pgen.Exp{Kind: pgen.ERefCall, Id: c.Name(), Path: []string{o.Name}})
						}
					}
				}
			}
		}
		return false
	case "local-toggle":
		for _, q := range pipes {
			for _, c := range q.Calls {
				if p.Stage(c.Callee) != nil && !c.Preflight {
					c.Local = !c.Local
					return true
				}
			}
		}
		return false
	case "map-toggle-element":
		for _, q := range pipes {
			for _, c := range q.Calls {
				for _, b := range c.Binds {
					if b.Split && b.Exp.Kind == pgen.EArray && len(b.Exp.Elems) > 0 {
						b.Exp.Elems = append(b.Exp.Elems, b.Exp.Elems[0])
						// keep other literal split sources consistent
						for _, b2 := range c.Binds {
							if b2.Split && b2.Exp != b.Exp && b2.Exp.Kind == pgen.EArray && len(b2.Exp.Elems) > 0 {
								b2.Exp.Elems = append(b2.Exp.Elems, b2.Exp.Elems[0])
							}
						}
						return true
					}
				}
			}
		}
		return false
	case "struct-field-add":
		return false
	}
	return false
}

func applyCosmetic(p *pgen.Program, files map[string]string, op string, r *rand.Rand) (map[string]string, bool) {
	switch op {
	case "reformat":
		out := map[string]string{}
		for k, v := range files {
			f, err := syntax.FormatSrcBytes([]byte(v), k, false, nil)
			if err != nil {
				return nil, false
			}
			out[k] = f
		}
		return out, true
	case "comments":
		out := map[string]string{}
		n := 0
		for k, v := range files {
			var a, o []string
			out[k] = surface(r, v, "c15_", &n, &a, &o, 25)
		}
		return out, true
	case "whitespace":
		out := map[string]string{}
		for k, v := range files {
			out[k] = strings.ReplaceAll(strings.ReplaceAll(v, "    ", "\t  "), " = ", "   =  ") + "\n\n"
		}
		return out, true
	case "include-structure":
		if p.NFiles > 0 {
			p.NFiles = 0
		} else {
			p.NFiles = 2
			p.FileNames = []string{"moved_a.mro", "dir/moved_b.mro"}
			k := 0
			total := len(p.Structs) + len(p.Stages) + len(p.Pipelines)
			if total < 2 {
				return nil, false
			}
			as := func() int { f := k * 2 / total; k++; return f }
			for _, s := range p.Structs {
				s.File = as()
			}
			for _, s := range p.Stages {
				s.File = as()
			}
			for _, s := range p.Pipelines {
				s.File = as()
			}
		}
		return p.Print(), true
	case "filetype-rename":
		if len(p.FileTypes) == 0 {
			return nil, false
		}
		old := p.FileTypes[0]
		nw := "renamedft"
		p.FileTypes[0] = nw
		var fix func(t *pgen.Type)
		fix = func(t *pgen.Type) {
			if t == nil {
				return
			}
			if t.Kind == pgen.KUserFile && t.Name == old {
				t.Name = nw
			}
			fix(t.Elem)
		}
		fixPs := func(ps []pgen.Param) {
			for i := range ps {
				// types may be shared pointers: copy on write is unnecessary since all must change
				fix(ps[i].Type)
			}
		}
		for _, s := range p.Structs {
			fixPs(s.Fields)
		}
		for _, s := range p.Stages {
			fixPs(s.Ins)
			fixPs(s.Outs)
			fixPs(s.ChunkIns)
			fixPs(s.ChunkOuts)
		}
		for _, s := range p.Pipelines {
			fixPs(s.Ins)
			fixPs(s.Outs)
		}
		return p.Print(), true
	case "reorder-declarations":
		if len(p.Stages) > 1 {
			p.Stages[0], p.Stages[len(p.Stages)-1] = p.Stages[len(p.Stages)-1], p.Stages[0]
			if p.NFiles > 0 {
				p.Stages[0].File, p.Stages[len(p.Stages)-1].File = p.Stages[len(p.Stages)-1].File, p.Stages[0].File
			}
			return p.Print(), true
		}
		return nil, false
	}
	return nil, false
}

type c15Input struct {
	A map[string]string `json:"a"`
	B map[string]string `json:"b"`
}

type c15Result struct {
	CompiledA, CompiledB bool
	ErrB                 string
	EqAB, EqBA           bool
}

func c15Worker(in []byte) interface{} {
	var inp c15Input
	json.Unmarshal(in, &inp)
	res := &c15Result{}
	compile := func(files map[string]string, tag string) *syntax.Ast {
		dir, _ := os.MkdirTemp("", "c15"+tag)
		defer os.RemoveAll(dir)
		for name, text := range files {
			fp := filepath.Join(dir, name)
			os.MkdirAll(filepath.Dir(fp), 0755)
			os.WriteFile(fp, []byte(text), 0644)
		}
		_, _, ast, err := syntax.ParseSourceBytes([]byte(files["main.mro"]), filepath.Join(dir, "main.mro"), []string{dir}, false)
		if err != nil {
			if tag == "b" {
				res.ErrB = err.Error()
			}
			return nil
		}
		return ast
	}
	a := compile(inp.A, "a")
	b := compile(inp.B, "b")
	res.CompiledA, res.CompiledB = a != nil, b != nil
	if a != nil && b != nil {
		res.EqAB = a.EquivalentCall(b)
		res.EqBA = b.EquivalentCall(a)
	}
	return res
}

func init() { vf.RegisterWorker("c15", c15Worker) }

func c15Config() *pgen.Config {
	cfg := pgen.DefaultConfig()
	cfg.MultiFile = true
	cfg.PDisabled = 45
	cfg.PFileTypes = 35
	cfg.PMapCall = 40
	cfg.PLiteral = 35
	cfg.PResources = 40
	cfg.PRetain = 30
	return cfg
}

func init() {
	register("C15", "exploration", func(c *vf.Ctx) {
		c.SetRule("a case = (generated multi-file program, one labelled edit somewhere in the transitive closure of the top-level call). Cosmetic edits (reformat, comments, whitespace, include structure, consistent file-type rename, declaration order) must be accepted by Ast.EquivalentCall in both directions; semantic edits (literal / top-level argument value, call alias, added or removed parameter, parameter type, split on/off, return binding, disabled condition added / removed / re-pointed, local, mapped collection size) must be refused in both directions; edited programs that no longer compile are discarded. End to end: real mrp run, edit, mrp again on the same --psdir (exit status and refusal text); second mrp while the first holds _lock must be refused. distinct = (program, edit kind, edit site); non-trivial = the edited text differs and both compile.")
		c.Assume("edits the code documents as ignored (volatile, resources, src, chunk parameters, retain, help text) are used in neither class")
		rng := rand.New(rand.NewSource(c.Seed))
		nProg := c.Pick(220, 12000)
		type meta struct {
			label    string
			cosmetic bool
			inp      c15Input
			seed     int64
		}
		var metas []meta
		var inputs [][]byte
		for i := 0; i < nProg; i++ {
			seed := c.Seed*389 + int64(i)
			cfg := c15Config()
			base := pgen.Generate(seed, cfg)
			files := base.Print()
			// one of each class per program
			for k := 0; k < 4; k++ {
				edited := pgen.Generate(seed, cfg) // fresh identical copy
				var label string
				var nf map[string]string
				cosmetic := k%2 == 0
				ok := false
				if cosmetic {
					label = cosmeticEdits[rng.Intn(len(cosmeticEdits))]
					nf, ok = applyCosmetic(edited, files, label, rng)
				} else {
					label = semanticEdits[rng.Intn(len(semanticEdits))]
					ok = applySemantic(edited, label, rng)
					if ok {
						nf = edited.Print()
					}
				}
				if !ok {
					continue
				}
				same := len(nf) == len(files)
				if same {
					for kk, v := range files {
						if nf[kk] != v {
							same = false
						}
					}
				}
				if same {
					continue
				}
				inp := c15Input{A: files, B: nf}
				b, _ := json.Marshal(inp)
				inputs = append(inputs, b)
				metas = append(metas, meta{label, cosmetic, inp, seed})
			}
		}
		// wildcard bindings (`* = CALL` in a call or a return): both versions get
		// a twin of CALL (same callee, own alias, a literal argument changed where
		// there is one); the edit re-points the wildcard to the twin, so only
		// what the wildcard supplies differs
		for i := 0; i < nProg*3; i++ {
			seed := c.Seed*389 + 7000000 + int64(i)
			cfg := c15Config()
			cfg.PWildcard = 60
			base := pgen.Generate(seed, cfg)
			if !wildcardTwin(base, false) {
				continue
			}
			edited := pgen.Generate(seed, cfg)
			wildcardTwin(edited, true)
			inp := c15Input{A: base.Print(), B: edited.Print()}
			b, _ := json.Marshal(inp)
			inputs = append(inputs, b)
			metas = append(metas, meta{"wildcard-repoint", false, inp, seed})
		}
		results := vf.RunBatches(c, "c15", inputs, 200, 60*time.Second, 4096)
		byLabel := map[string]int{}
		for i, r := range results {
			m := metas[i]
			if r.Crashed || r.TimedOut || r.Result == nil {
				c.Inconclusive("compile crashed or timed out (C08's subject)")
				continue
			}
			var res c15Result
			json.Unmarshal(r.Result, &res)
			if !res.CompiledA || !res.CompiledB {
				c.Count("pairs_discarded_not_compiling", 1)
				if m.cosmetic && res.CompiledA {
					c.Count("cosmetic_edit_broke_compilation:"+m.label, 1)
				}
				continue
			}
			c.Eval(1)
			byLabel[m.label]++
			c.Distinct(fmt.Sprintf("%d|%s|%v", m.seed, m.label, m.inp.B))
			replay := map[string]interface{}{"original": m.inp.A, "edited": m.inp.B, "edit": m.label}
			if m.cosmetic {
				if !res.EqAB || !res.EqBA {
					c.Violate("C15:cosmetic-edit-refused:"+m.label, fmt.Sprintf("cosmetic edit %q is not accepted by EquivalentCall (orig->edited %v, edited->orig %v)", m.label, res.EqAB, res.EqBA), replay)
				}
			} else {
				if res.EqAB || res.EqBA {
					c.Violate("C15:semantic-edit-accepted:"+m.label, fmt.Sprintf("semantic edit %q is accepted by EquivalentCall (orig->edited %v, edited->orig %v)", m.label, res.EqAB, res.EqBA), replay)
				}
			}
			if i%97 == 0 {
				c.Sample(map[string]interface{}{"edit": m.label, "cosmetic": m.cosmetic, "program_seed": m.seed})
			}
		}
		c.Set("pairs_by_edit_kind", byLabel)
		c15EndToEnd(c, rng)
	})
}

// c15EndToEnd: real mrp re-attach and lock scenarios.
func c15EndToEnd(c *vf.Ctx, rng *rand.Rand) {
	n := c.Pick(8, 200)
	done := 0
	for i := 0; i < n*3 && done < n; i++ {
		seed := c.Seed*1193 + int64(i)
		cfg := c15Config()
		cfg.SrcFor = vrun.ProbeSrc(c.BuildDir)
		cfg.MultiFile = true
		p := pgen.Generate(seed, cfg)
		if p.NFiles == 0 {
			continue
		}
		dir := filepath.Join(c.WorkDir, fmt.Sprintf("e2e-%d", i))
		if _, _, err := compileProgram(p, filepath.Join(dir, "compile")); err != nil {
			os.RemoveAll(dir)
			continue
		}
		os.RemoveAll(filepath.Join(dir, "compile"))
		cs, err := vrun.NewCase(c.BuildDir, dir, p, func(s *pgen.Spec) { s.KeyPool = cfg.KeyPool; s.Seed = seed })
		if err != nil {
			continue
		}
		args := []string{"--vdrmode=disable", "--localcores=4", "--localmem=16"}
		r := cs.Run(vrun.RunOpts{Args: args, Seed: seed, Timeout: 120 * time.Second})
		if r.TimedOut || r.Exit != 0 {
			cs.KillAll()
			os.RemoveAll(dir)
			continue
		}
		done++
		files := p.Print()
		cosmetic := done%2 == 0
		edited := pgen.Generate(seed, cfg)
		var label string
		var nf map[string]string
		ok := false
		if cosmetic {
			// only edits that leave the invocation file main.mro byte-identical
			label = []string{"reformat", "comments", "whitespace", "filetype-rename"}[rng.Intn(4)]
			nf, ok = applyCosmetic(edited, files, label, rng)
			if ok {
				nf["main.mro"] = files["main.mro"]
			}
		} else {
			label = semanticEdits[rng.Intn(len(semanticEdits))]
			if label == "top-arg-value" {
				label = "literal-value"
			}
			ok = applySemantic(edited, label, rng)
			if ok {
				nf = edited.Print()
				if nf["main.mro"] != files["main.mro"] {
					ok = false // the byte comparison of the invocation would decide; not the subject here
				}
			}
		}
		if !ok {
			os.RemoveAll(dir)
			continue
		}
		changed := false
		for k, v := range nf {
			if files[k] != v {
				changed = true
			}
			fp := filepath.Join(cs.MroDir, k)
			os.MkdirAll(filepath.Dir(fp), 0755)
			os.WriteFile(fp, []byte(v), 0644)
		}
		if !changed {
			os.RemoveAll(dir)
			continue
		}
		// does the edited program still compile?
		if _, _, _, err := syntax.ParseSourceBytes([]byte(nf["main.mro"]), filepath.Join(cs.MroDir, "main.mro"), []string{cs.MroDir}, false); err != nil {
			os.RemoveAll(dir)
			continue
		}
		if !cosmetic || done%4 == 0 {
			// a read-only re-attach (mrp --inspect): the same comparison applies;
			// once attached mrp stays alive until it is stopped
			r3 := cs.Run(vrun.RunOpts{Args: append(append([]string{}, args...), "--inspect"), Seed: seed, Timeout: 15 * time.Second})
			cs.KillAll()
			c.Eval(1)
			c.Count("e2e_inspect_reattach_scenarios", 1)
			c.Distinct(fmt.Sprintf("e2e-inspect|%d|%s", seed, label))
			attached := strings.Contains(r3.Output, "staying alive because --inspect")
			refusedRO := !r3.TimedOut && r3.Exit != 0 && !attached
			replay := map[string]interface{}{"original": files, "edited": nf, "edit": label, "mrp_output": tail(stripDump(r3.Output), 1500)}
			switch {
			case !attached && !refusedRO:
				c.Inconclusive("mrp --inspect neither attached nor refused")
			case cosmetic && refusedRO:
				c.Violate("C15:e2e:inspect:cosmetic-edit-refused:"+label, fmt.Sprintf("mrp --inspect refused to attach after cosmetic edit %q of the included files: %s", label, tail(r3.Output, 400)), replay)
			case !cosmetic && attached:
				c.Violate("C15:e2e:inspect:semantic-edit-accepted:"+label, fmt.Sprintf("mrp --inspect attached to the pipestance after semantic edit %q", label), replay)
			}
		}
		r2 := cs.Run(vrun.RunOpts{Args: args, Seed: seed, Timeout: 120 * time.Second})
		c.Eval(1)
		c.Count("e2e_reattach_scenarios", 1)
		c.Distinct(fmt.Sprintf("e2e|%d|%s", seed, label))
		refused := r2.Exit != 0
		replay := map[string]interface{}{"original": files, "edited": nf, "edit": label, "mrp_output": tail(r2.Output, 1500)}
		if r2.TimedOut {
			c.Inconclusive("watchdog")
		} else if cosmetic && refused {
			c.Violate("C15:e2e:cosmetic-edit-refused:"+label, fmt.Sprintf("mrp refused to re-attach after cosmetic edit %q of the included files: %s", label, tail(r2.Output, 400)), replay)
		} else if !cosmetic && !refused {
			c.Violate("C15:e2e:semantic-edit-accepted:"+label, fmt.Sprintf("mrp re-attached (exit 0) after semantic edit %q", label), replay)
		} else if !cosmetic && !strings.Contains(r2.Output, "invocation") && !strings.Contains(r2.Output, "Invocation") {
			c.Count("e2e_refused_with_other_message", 1)
		}
		os.RemoveAll(dir)
	}
	// Lock scenarios.
	nl := c.Pick(4, 60)
	for i := 0; i < nl; i++ {
		seed := c.Seed*7919 + int64(i)
		cfg := c15Config()
		cfg.SrcFor = vrun.ProbeSrc(c.BuildDir)
		p := pgen.Template(2, seed, cfg)
		dir := filepath.Join(c.WorkDir, fmt.Sprintf("lock-%d", i))
		cs, err := vrun.NewCase(c.BuildDir, dir, p, func(s *pgen.Spec) {
			s.Seed = seed
			s.Rules = []pgen.Rule{{Stage: "GEN", DelayBeforeMs: 2500}}
		})
		if err != nil {
			continue
		}
		args := []string{"--vdrmode=disable", "--localcores=4", "--localmem=16"}
		first := make(chan *vrun.RunResult, 1)
		go func() { first <- cs.Run(vrun.RunOpts{Args: args, Seed: seed, Timeout: 120 * time.Second}) }()
		// wait for the lock to exist
		lock := filepath.Join(cs.PsDir, "_lock")
		okLock := false
		for k := 0; k < 200; k++ {
			if _, err := os.Stat(lock); err == nil {
				okLock = true
				break
			}
			time.Sleep(10 * time.Millisecond)
		}
		if !okLock {
			<-first
			os.RemoveAll(dir)
			c.Inconclusive("first mrp never took the lock")
			continue
		}
		nSecond := 1 + i%3
		type sec struct {
			r        *vrun.RunResult
			lockSeen bool
		}
		secs := make(chan sec, nSecond)
		for k := 0; k < nSecond; k++ {
			go func() {
				_, err := os.Stat(lock)
				c2 := *cs
				r := c2.Run(vrun.RunOpts{Args: args, Seed: seed, Timeout: 60 * time.Second, NoTrace: true})
				secs <- sec{r, err == nil}
			}()
		}
		var seconds []sec
		for k := 0; k < nSecond; k++ {
			seconds = append(seconds, <-secs)
		}
		r1 := <-first
		c.Eval(1)
		c.Count("lock_scenarios", 1)
		c.Distinct(fmt.Sprintf("lock|%d|%d", seed, nSecond))
		for _, s := range seconds {
			// The second mrp started while the first was alive and the lock existed.
			if s.lockSeen && r1.Exit == 0 && s.r.Exit == 0 && s.r.EndT < r1.EndT {
				c.Violate("C15:lock:second-writer-attached", "a second mrp attached (exit 0) to a pipestance while the first mrp was alive and held _lock",
					map[string]interface{}{"second_output": tail(s.r.Output, 800)})
			} else if s.r.Exit != 0 && !strings.Contains(s.r.Output, "lock") && !strings.Contains(s.r.Output, "Lock") {
				c.Count("second_mrp_refused_with_other_message", 1)
			}
		}
		if r1.Exit != 0 {
			c.Violate("C15:lock:first-writer-disturbed", "the first mrp failed while further mrp processes tried to attach: "+tail(r1.Output, 500), nil)
		}
		os.RemoveAll(dir)
	}
}
