package main

import (
	"encoding/json"
	"fmt"
	"math/rand"
	"os"
	"path/filepath"
	"regexp"
	"runtime"
	"sort"
	"strings"
	"sync"
	"time"

	"verif/harness/internal/pgen"
	"verif/harness/internal/vf"
	"verif/harness/internal/vmon"
	"verif/harness/internal/vrun"
)

// faultProgram is a compiled program plus its uninterrupted baseline run.
type faultProgram struct {
	seed     int64
	prog     *pgen.Program
	cfg      *pgen.Config
	tweak    func(*pgen.Spec)
	vdr      string
	baseOuts string            // canonical final _outs
	baseTree map[string]string // outs/ relative path -> token
	points   []vrun.TraceRec   // mrp hook hits of the baseline
	jobs     []string          // job ids in the baseline
	jobStage map[string]string
	jobPhase map[string]string
	model    *pgen.Model
	obs      *vmon.Obs
	calls    []string
}

func mrpArgs(vdr string) []string {
	return []string{"--vdrmode=" + vdr, "--localcores=4", "--localmem=16"}
}

func canonOuts(cs *vrun.Case, topName string) string {
	b, err := os.ReadFile(filepath.Join(cs.PsDir, topName, "fork0", "_outs"))
	if err != nil {
		return "<no _outs: " + err.Error() + ">"
	}
	v, err := vrun.ParseJSON(b)
	if err != nil {
		return "<invalid json>"
	}
	out, _ := json.Marshal(canonPaths(cs, v))
	return string(out)
}

func canonPaths(cs *vrun.Case, v interface{}) interface{} {
	switch a := v.(type) {
	case string:
		return cs.Canon(a)
	case []interface{}:
		o := make([]interface{}, len(a))
		for i, x := range a {
			o[i] = canonPaths(cs, x)
		}
		return o
	case map[string]interface{}:
		o := map[string]interface{}{}
		for k, x := range a {
			o[k] = canonPaths(cs, x)
		}
		return o
	}
	return v
}

// outsTree maps every file under outs/ (following symlinks) to its token.
func outsTree(cs *vrun.Case) map[string]string {
	out := map[string]string{}
	root := filepath.Join(cs.PsDir, "outs")
	filepath.Walk(root, func(p string, info os.FileInfo, err error) error {
		if err != nil || info == nil {
			return nil
		}
		rel, _ := filepath.Rel(root, p)
		st, err := os.Stat(p)
		if err != nil {
			out[rel] = "<dangling>"
			return nil
		}
		if st.IsDir() {
			return nil
		}
		b, _ := os.ReadFile(p)
		s := string(b)
		if strings.HasPrefix(s, "tok:") {
			if i := strings.IndexByte(s, '\n'); i > 0 {
				s = s[:i]
			}
		} else if len(s) > 20 {
			s = s[:20]
		}
		out[rel] = s
		return nil
	})
	return out
}

func treeDiff(a, b map[string]string) string {
	var d []string
	for k, v := range a {
		if w, ok := b[k]; !ok {
			d = append(d, "missing "+k)
		} else if w != v {
			d = append(d, fmt.Sprintf("%s: %s vs %s", k, v, w))
		}
	}
	for k := range b {
		if _, ok := a[k]; !ok {
			d = append(d, "extra "+k)
		}
	}
	sort.Strings(d)
	if len(d) > 6 {
		d = d[:6]
	}
	return strings.Join(d, "; ")
}

// makeFaultProgram generates programs until one compiles and completes a
// clean baseline run with at least minJobs jobs.
func makeFaultProgram(c *vf.Ctx, seed int64, cfg *pgen.Config, vdr string, tweak func(*pgen.Spec), minJobs int, template int) *faultProgram {
	for attempt := 0; attempt < 30; attempt++ {
		s := seed + int64(attempt)*7919
		cfg.SrcFor = vrun.ProbeSrc(c.BuildDir)
		var p *pgen.Program
		if template > 0 {
			p = pgen.Template(template-1, s, cfg)
		} else {
			p = pgen.Generate(s, cfg)
		}
		dir := filepath.Join(c.WorkDir, fmt.Sprintf("base-%d", s))
		if _, _, err := compileProgram(p, filepath.Join(dir, "compile")); err != nil {
			os.RemoveAll(dir)
			c.Count("programs_rejected_by_compiler", 1)
			continue
		}
		os.RemoveAll(filepath.Join(dir, "compile"))
		tw := func(sp *pgen.Spec) {
			sp.KeyPool = cfg.KeyPool
			sp.ExtraFiles = true
			sp.Seed = s
			sp.DelayMaxMs = 20
			if tweak != nil {
				tweak(sp)
			}
		}
		cs, err := vrun.NewCase(c.BuildDir, dir, p, tw)
		if err != nil {
			continue
		}
		r := cs.Run(vrun.RunOpts{Args: mrpArgs(vdr), Seed: s, Timeout: 120 * time.Second})
		if r.TimedOut || r.Exit != 0 {
			cs.KillAll()
			os.RemoveAll(dir)
			c.Count("baseline_runs_failed", 1)
			continue
		}
		obs := vmon.Collect(cs, vmon.StageCallPaths(p))
		if len(obs.Jobs) < minJobs {
			os.RemoveAll(dir)
			continue
		}
		fp := &faultProgram{seed: s, prog: p, cfg: cfg, tweak: tw, vdr: vdr, jobStage: map[string]string{}, jobPhase: map[string]string{}}
		top := p.Pipeline(p.Top.Callee)
		fp.baseOuts = canonOuts(cs, top.Name)
		fp.baseTree = outsTree(cs)
		for _, t := range cs.Trace() {
			if t.Proc == "mrp" {
				fp.points = append(fp.points, t)
			}
		}
		for _, j := range obs.JobOrder {
			fp.jobs = append(fp.jobs, j.ID)
			fp.jobStage[j.ID] = j.Stage
			fp.jobPhase[j.ID] = j.Phase
		}
		fp.model, _ = vmon.Analyze(obs, p)
		fp.obs = obs
		fp.calls = vmon.StageCallPaths(p)
		os.RemoveAll(dir)
		return fp
	}
	return nil
}

type crashSpec struct {
	Point  string `json:"point,omitempty"`
	Hit    int64  `json:"hit,omitempty"`
	Signal string `json:"signal"`
	// job-side kill of mrp
	Job   string `json:"job,omitempty"`
	JobAt string `json:"job_at,omitempty"`
}

func (s crashSpec) String() string {
	if s.Job != "" {
		return fmt.Sprintf("job %s @%s :%s", s.Job, s.JobAt, s.Signal)
	}
	return fmt.Sprintf("%s#%d:%s", s.Point, s.Hit, s.Signal)
}

var metaJobRe = regexp.MustCompile(`/(split|join|chnk\d+)(-u[0-9a-f]{10})?$`)

// completedJobs lists jobs whose _complete marker exists, with its mtime.
func completedJobs(cs *vrun.Case) map[string]time.Time {
	out := map[string]time.Time{}
	filepath.Walk(cs.PsDir, func(p string, info os.FileInfo, err error) error {
		if err != nil || info == nil || info.IsDir() || info.Name() != "_complete" {
			return nil
		}
		d := filepath.Dir(p)
		if !metaJobRe.MatchString(d) {
			return nil
		}
		// skip symlinked alias directories (final path -> uniquified path)
		if li, err := os.Lstat(d); err == nil && li.Mode()&os.ModeSymlink != 0 {
			return nil
		}
		rel, _ := filepath.Rel(cs.PsDir, d)
		out[vrun.StripUniq(rel)] = info.ModTime()
		return nil
	})
	return out
}

// stalled decides from the hook trace whether mrp was idling: many loop
// iterations after the last job event without any state change.
func idleLoops(trace []vrun.TraceRec, mrpPid int) int {
	idle := 0
	for i := len(trace) - 1; i >= 0; i-- {
		t := trace[i]
		if t.Proc != "mrp" || (mrpPid != 0 && t.Pid != mrpPid) {
			continue
		}
		switch {
		case t.Name == "loop:begin":
			idle++
		case strings.HasPrefix(t.Name, "meta:write") || strings.HasPrefix(t.Name, "runjob") ||
			strings.HasPrefix(t.Name, "refresh:file") || strings.HasPrefix(t.Name, "local:"):
			return idle
		}
	}
	return idle
}

type crashOutcome struct {
	spec        []crashSpec
	violations  []string // signature|what
	inconclusive string
	crashedRuns int
	restarts    int
	reexecChecked int
}

// runCrashCase: run with the crash spec(s) in sequence, then a final clean
// restart; check the C05 clauses.
func runCrashCase(c *vf.Ctx, fp *faultProgram, idx int, specs []crashSpec) *crashOutcome {
	oc := &crashOutcome{spec: specs}
	dir := filepath.Join(c.WorkDir, fmt.Sprintf("crash-%d-%d", fp.seed, idx))
	defer os.RemoveAll(dir)
	cs, err := vrun.NewCase(c.BuildDir, dir, fp.prog, fp.tweak)
	if err != nil {
		oc.inconclusive = "harness: " + err.Error()
		return oc
	}
	defer cs.KillAll()
	baseRules := append([]pgen.Rule(nil), cs.Spec.Rules...)
	top := fp.prog.Pipeline(fp.prog.Top.Callee)
	done := map[string]time.Time{}
	add := func(sig, what string) { oc.violations = append(oc.violations, sig+"|"+what) }
	var lastRestartT int64
	checkReexec := func() {
		// any job recorded complete before the interruption that started again?
		// (identity = fork, phase, chunk index: not the directory spelling)
		for _, e := range cs.Events() {
			if e.Ev == "start" && e.T > lastRestartT {
				if _, was := done[logicalJob(e.Job)]; was {
					add("reexecuted-completed-job:"+e.Phase, fmt.Sprintf("job %s had its completion recorded before the interruption (%v) but was executed again after restart", e.Job, specs))
				}
			}
		}
	}
	for si, sp := range specs {
		opts := vrun.RunOpts{Args: mrpArgs(fp.vdr), Seed: fp.seed, Timeout: 90 * time.Second}
		if sp.Job != "" {
			cs.Spec.Rules = append([]pgen.Rule{{Job: sp.Job, KillMrp: sp.Signal, KillMrpAt: sp.JobAt, Attempt: 0}}, baseRules...)
			cs.WriteSpec()
		} else {
			opts.Crash = fmt.Sprintf("%s#%d:%s", sp.Point, sp.Hit, sp.Signal)
		}
		if si > 0 {
			// restart: jobs completed before must not run again
			lastRestartT = vrun.Mono()
		}
		r := cs.Run(opts)
		exitWall := time.Now()
		if si > 0 {
			checkReexec()
		}
		if r.TimedOut {
			if n := idleLoops(cs.Trace(), 0); n >= 20 {
				add("stalled-after-restart", fmt.Sprintf("restarted mrp made no progress for %d loop iterations (specs %v)", n, specs))
			} else {
				oc.inconclusive = "watchdog"
			}
			return oc
		}
		cs.Spec.Rules = baseRules
		cs.WriteSpec()
		crashed := r.Exit != 0 || r.Signaled
		if !crashed {
			// the crash point was not reached (schedule differs): completed normally
			break
		}
		oc.crashedRuns++
		if !cs.WaitOrphans(20 * time.Second) {
			cs.KillAll()
			time.Sleep(100 * time.Millisecond)
		}
		lock := filepath.Join(cs.PsDir, "_lock")
		if sp.Signal == "KILL" {
			os.Remove(lock)
		} else if _, err := os.Stat(lock); err == nil {
			// handled signal must leave the pipestance unlocked
			if !strings.Contains(r.Output, "Caught signal") {
				// died some other way (e.g. panic): still a finding, different class
				add("lock-left:not-signal", fmt.Sprintf("mrp exited %d after %v without handling the signal and left _lock; output tail: %s", r.Exit, sp, tail(r.Output, 400)))
			} else {
				add("lock-left-after-handled-signal:"+sp.Signal, fmt.Sprintf("mrp handled SIG%s at %v but _lock is still present", sp.Signal, sp))
			}
			os.Remove(lock)
		}
		// completion markers durably recorded before the interruption
		for j, mt := range completedJobs(cs) {
			if mt.Before(exitWall.Add(-60 * time.Millisecond)) {
				if _, ok := done[logicalJob(j)]; !ok {
					done[logicalJob(j)] = mt
				}
			}
		}
	}
	// final clean restart
	lastRestartT = vrun.Mono()
	oc.restarts++
	r := cs.Run(vrun.RunOpts{Args: mrpArgs(fp.vdr), Seed: fp.seed, Timeout: 120 * time.Second})
	if r.TimedOut {
		if n := idleLoops(cs.Trace(), 0); n >= 20 {
			add("stalled-after-restart", fmt.Sprintf("restarted mrp made no progress for %d loop iterations after crash %v; log tail: %s", n, specs, tail(stripDump(r.Output), 600)))
		} else {
			oc.inconclusive = "watchdog"
		}
		return oc
	}
	if r.Exit != 0 {
		add("restart-failed:"+normalizeFail(failureLine(r.Output)), fmt.Sprintf("restart after crash %v exited %d: %s", specs, r.Exit, tail(r.Output, 900)))
		return oc
	}
	checkReexec()
	oc.reexecChecked = len(done)
	if got := canonOuts(cs, top.Name); got != fp.baseOuts {
		add("final-outs-differ", fmt.Sprintf("after crash %v and restart the top-level outputs are %s; uninterrupted run: %s", specs, truncate(got, 700), truncate(fp.baseOuts, 700)))
	}
	if d := treeDiff(fp.baseTree, outsTree(cs)); d != "" {
		add("final-outs-tree-differs", fmt.Sprintf("after crash %v and restart outs/ differs from the uninterrupted run: %s", specs, d))
	}
	if _, err := os.Stat(filepath.Join(cs.PsDir, "_lock")); err == nil {
		add("lock-left-after-completion", "pipestance completed after restart but _lock is still present")
	}
	return oc
}

func stripDump(s string) string {
	if i := strings.Index(s, "SIGQUIT"); i > 0 {
		return s[:i]
	}
	return s
}

func failureLine(out string) string {
	for _, l := range strings.Split(out, "\n") {
		if strings.Contains(l, "panic:") || strings.Contains(l, "fatal error") {
			return l
		}
	}
	if i := strings.Index(out, "Log message:"); i >= 0 {
		rest := strings.TrimSpace(out[i+12:])
		return strings.Split(rest, "\n")[0]
	}
	lines := strings.Split(out, "\n")
	for _, l := range lines {
		if strings.Contains(l, "[error]") || strings.Contains(l, "Error") || strings.Contains(l, "error") {
			return basenames(l)
		}
	}
	// last informative line
	for i := len(lines) - 1; i >= 0; i-- {
		l := strings.TrimSpace(lines[i])
		if l == "" || strings.Contains(l, "Shutting down") {
			continue
		}
		return basenames(l)
	}
	return "unknown"
}

var pathRe = regexp.MustCompile(`/[^\s:]*/([^/\s:]+)`)

// basenames replaces absolute paths by their last component.
func basenames(s string) string { return pathRe.ReplaceAllString(s, "$1") }

// pointClass groups hook point names.
func pointClass(name string) string {
	return name
}

func faultConfig() *pgen.Config {
	cfg := pgen.DefaultConfig()
	cfg.PFileTypes = 30
	cfg.PSplitStage = 50
	cfg.PMapCall = 45
	cfg.PDisabled = 20
	cfg.PVolatile = 40
	cfg.MaxPipelines = 2
	cfg.MaxCalls = 4
	cfg.PLiteral = 8
	return cfg
}

func init() {
	register("C05", "fault_enumeration", func(c *vf.Ctx) {
		c.SetRule("for each generated program: an uninterrupted baseline run records the ordered list of mrp hook hits (K points between filesystem effects) and job-side points; a case = (program, crash spec sequence) where a crash spec is (hook point, occurrence, KILL|TERM|INT) or (job, start|outs|end, signal to mrp); after the crash: wait for orphans, remove _lock iff SIGKILL, restart with the same invocation (optionally crash again), final restart. Verdict: final exit 0; canonical final _outs and outs/ content tokens equal the baseline; no job whose _complete marker predates the interruption has a later start event; no _lock after a handled signal; a restart making no progress for 20 loop iterations is a stall. distinct = (program, point name, occurrence, signal); non-trivial = the crash actually fired.")
		c.Assume("all stages run under mrjob (src comp)")
		c.Assume("after SIGKILL the operator removes the stale _lock, as documented")
		c.Assume("probe outputs are a deterministic function of canonical arguments, so the baseline is comparable")
		nProg := c.Pick(5, 36)
		perProg := c.Pick(14, 70)
		rng := rand.New(rand.NewSource(c.Seed))
		var mu sync.Mutex
		classesSeen := map[string]int{}
		type job struct {
			fp    *faultProgram
			idx   int
			specs []crashSpec
		}
		var jobs []job
		for pi := 0; pi < nProg; pi++ {
			cfg := faultConfig()
			tmpl := 0
			if pi%3 == 2 {
				tmpl = 1 + (pi/3)%pgen.NTemplates
			}
			big := pi%2 == 1
			fp := makeFaultProgram(c, c.Seed*7+int64(pi)*104729, cfg, []string{"rolling", "strict", "post"}[pi%3],
				func(s *pgen.Spec) {
					if big {
						s.ChunkChoices = []int{0, 1, 2, 9, 10, 11}
						s.MaxLen = 4
					}
					if pi%4 == 1 {
						// decimal-width boundary: every split defines exactly 10 chunks
						s.Rules = append(s.Rules, pgen.Rule{Phase: "split", Chunks: 11})
					}
				}, 6, tmpl)
			if fp == nil {
				c.Inconclusive("no baseline program")
				continue
			}
			c.Count("programs", 1)
			c.Count("baseline_hook_points", int64(len(fp.points)))
			// group points by class
			byClass := map[string][]vrun.TraceRec{}
			for _, t := range fp.points {
				byClass[pointClass(t.Name)] = append(byClass[pointClass(t.Name)], t)
			}
			var classes []string
			for k := range byClass {
				classes = append(classes, k)
			}
			sort.Strings(classes)
			exhaustive := !c.Quick() && pi < 6 && len(fp.points) <= 400
			idx := 0
			addSpec := func(specs ...crashSpec) {
				jobs = append(jobs, job{fp, idx, specs})
				idx++
			}
			if exhaustive {
				c.Count("programs_exhaustive_over_hook_points", 1)
				for _, t := range fp.points {
					addSpec(crashSpec{Point: t.Name, Hit: t.Hit, Signal: "KILL"})
					if rng.Intn(4) == 0 {
						addSpec(crashSpec{Point: t.Name, Hit: t.Hit, Signal: "TERM"})
					}
				}
			} else {
				rng.Shuffle(len(classes), func(i, j int) { classes[i], classes[j] = classes[j], classes[i] })
				n := perProg
				for k := 0; k < n; k++ {
					cl := classes[k%len(classes)]
					t := byClass[cl][rng.Intn(len(byClass[cl]))]
					sig := []string{"KILL", "KILL", "TERM", "INT"}[rng.Intn(4)]
					sp := crashSpec{Point: t.Name, Hit: t.Hit, Signal: sig}
					if k%9 == 8 {
						// double crash
						t2 := fp.points[rng.Intn(len(fp.points))]
						addSpec(sp, crashSpec{Point: t2.Name, Hit: 1 + t2.Hit/2, Signal: "KILL"})
					} else {
						addSpec(sp)
					}
				}
			}
			// job-side kills
			nj := c.Pick(4, 16)
			for k := 0; k < nj && len(fp.jobs) > 0; k++ {
				j := fp.jobs[rng.Intn(len(fp.jobs))]
				addSpec(crashSpec{Job: j, JobAt: []string{"start", "outs", "end"}[k%3], Signal: []string{"KILL", "TERM"}[k%2]})
			}
		}
		par := runtime.NumCPU() * 3 / 4
		ch := make(chan job)
		var wg sync.WaitGroup
		for w := 0; w < par; w++ {
			wg.Add(1)
			go func() {
				defer wg.Done()
				for jb := range ch {
					oc := runCrashCase(c, jb.fp, jb.idx, jb.specs)
					mu.Lock()
					c.Eval(1)
					if oc.inconclusive != "" {
						c.Inconclusive(oc.inconclusive)
					}
					c.Count("runs_that_crashed_at_the_point", int64(oc.crashedRuns))
					c.Count("completed_jobs_checked_for_reexecution", int64(oc.reexecChecked))
					if oc.crashedRuns > 0 {
						key := fmt.Sprintf("%d|%v", jb.fp.seed, jb.specs)
						c.Distinct(key)
						for _, sp := range jb.specs {
							if sp.Job != "" {
								classesSeen["job:"+sp.JobAt+":"+sp.Signal]++
							} else {
								classesSeen[sp.Point+":"+sp.Signal]++
							}
						}
					} else {
						c.Count("crash_point_not_reached", 1)
					}
					c.Sample(map[string]interface{}{"program_seed": jb.fp.seed, "crash": fmt.Sprint(jb.specs), "crashed": oc.crashedRuns, "vdr": jb.fp.vdr})
					for _, v := range oc.violations {
						parts := strings.SplitN(v, "|", 2)
						sig := parts[0]
						sp := jb.specs[0]
						site := sp.Point
						if sp.Job != "" {
							site = "job:" + jb.fp.jobPhase[sp.Job] + "@" + sp.JobAt
						}
						c.Violate("C05:"+sig+":at="+site+":"+sp.Signal, parts[1], map[string]interface{}{
							"program_seed": jb.fp.seed, "mro": jb.fp.prog.Print(), "crash_specs": jb.specs, "vdrmode": jb.fp.vdr,
						})
					}
					mu.Unlock()
				}
			}()
		}
		for _, jb := range jobs {
			ch <- jb
		}
		close(ch)
		wg.Wait()
		c.Set("crash_point_classes_fired", classesSeen)
		c.Set("distinct_point_classes_fired", len(classesSeen))
	})
}

func normalizeFail(s string) string {
	s = vrun.StripUniq(s)
	var sb strings.Builder
	for _, w := range strings.Fields(s) {
		if len(w) > 0 && w[0] >= '0' && w[0] <= '9' {
			continue
		}
		sb.WriteString(w + " ")
	}
	return truncate(strings.TrimSpace(sb.String()), 120)
}

var chnkRe = regexp.MustCompile(`/chnk0*(\d+)$`)

// logicalJob normalises the chunk directory spelling (zero padding).
func logicalJob(id string) string {
	return chnkRe.ReplaceAllString(id, "/chnk$1")
}
