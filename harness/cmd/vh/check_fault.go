package main

import (
	"encoding/json"
	"fmt"
	"math/rand"
	"os"
	"path/filepath"
	"regexp"
	"runtime"
	"sort"
	"strings"
	"sync"
	"time"

	"verif/harness/internal/pgen"
	"verif/harness/internal/vf"
	"verif/harness/internal/vmon"
	"verif/harness/internal/vrun"
)

// faultProgram is a compiled program plus its uninterrupted baseline run.
type faultProgram struct {
	seed     int64
	prog     *pgen.Program
	cfg      *pgen.Config
	tweak    func(*pgen.Spec)
	vdr      string
	baseOuts string            // canonical final _outs
	baseTree map[string]string // outs/ relative path -> token
	points   []vrun.TraceRec   // mrp hook hits of the baseline
	jobs     []string          // job ids in the baseline
	jobStage map[string]string
	jobPhase map[string]string
	model    *pgen.Model
	obs      *vmon.Obs
	calls    []string
	extra    []string // further mrp options of this program's runs (e.g. --zip)
}

// args: the mrp options of every run of the program.
func (fp *faultProgram) args() []string {
	return append(mrpArgs(fp.vdr), fp.extra...)
}

func mrpArgs(vdr string) []string {
	return []string{"--vdrmode=" + vdr, "--localcores=4", "--localmem=16"}
}

func canonOuts(cs *vrun.Case, topName string) string {
	b, err := os.ReadFile(filepath.Join(cs.PsDir, topName, "fork0", "_outs"))
	if err != nil {
		return "<no _outs: " + err.Error() + ">"
	}
	v, err := vrun.ParseJSON(b)
	if err != nil {
		return "<invalid json>"
	}
	out, _ := json.Marshal(canonPaths(cs, v))
	return string(out)
}

func canonPaths(cs *vrun.Case, v interface{}) interface{} {
	switch a := v.(type) {
	case string:
		// A file-valued output is identified by what it holds: when the same
		// produced file is reachable from two outputs, which of the
		// materialised locations is named can legitimately differ between an
		// uninterrupted and a resumed post-processing pass.
		if filepath.IsAbs(a) {
			if st, err := os.Stat(a); err == nil {
				f := a
				if st.IsDir() {
					f = filepath.Join(a, "content")
				}
				if b, err := os.ReadFile(f); err == nil && strings.HasPrefix(string(b), "tok:") {
					if e := strings.IndexByte(string(b), '\n'); e > 0 {
						// ... but whether the value names a location under
						// the pipestance's outs/ directory cannot differ
						where := "elsewhere"
						if strings.HasPrefix(a, filepath.Join(cs.PsDir, "outs")+"/") {
							where = "outs"
						}
						return "file@" + where + ":" + string(b[:e])
					}
				}
			}
		}
		return cs.Canon(a)
	case []interface{}:
		o := make([]interface{}, len(a))
		for i, x := range a {
			o[i] = canonPaths(cs, x)
		}
		return o
	case map[string]interface{}:
		o := map[string]interface{}{}
		for k, x := range a {
			o[k] = canonPaths(cs, x)
		}
		return o
	}
	return v
}

// outsTree maps every file under outs/ (following symlinks) to its token.
func outsTree(cs *vrun.Case) map[string]string {
	out := map[string]string{}
	root := filepath.Join(cs.PsDir, "outs")
	filepath.Walk(root, func(p string, info os.FileInfo, err error) error {
		if err != nil || info == nil {
			return nil
		}
		rel, _ := filepath.Rel(root, p)
		st, err := os.Stat(p)
		if err != nil {
			out[rel] = "<dangling>"
			return nil
		}
		if st.IsDir() {
			return nil
		}
		b, _ := os.ReadFile(p)
		s := string(b)
		if strings.HasPrefix(s, "tok:") {
			if i := strings.IndexByte(s, '\n'); i > 0 {
				s = s[:i]
			}
		} else if len(s) > 20 {
			s = s[:20]
		}
		out[rel] = s
		return nil
	})
	return out
}

func treeDiff(a, b map[string]string) string {
	var d []string
	for k, v := range a {
		if w, ok := b[k]; !ok {
			d = append(d, "missing "+k)
		} else if w != v {
			d = append(d, fmt.Sprintf("%s: %s vs %s", k, v, w))
		}
	}
	for k := range b {
		if _, ok := a[k]; !ok {
			d = append(d, "extra "+k)
		}
	}
	sort.Strings(d)
	if len(d) > 6 {
		d = d[:6]
	}
	return strings.Join(d, "; ")
}

// makeFaultProgram generates programs until one compiles and completes a
// clean baseline run with at least minJobs jobs.
func makeFaultProgram(c *vf.Ctx, seed int64, cfg *pgen.Config, vdr string, tweak func(*pgen.Spec), minJobs int, template int, extra ...string) *faultProgram {
	for attempt := 0; attempt < 30; attempt++ {
		s := seed + int64(attempt)*7919
		cfg.SrcFor = vrun.ProbeSrc(c.BuildDir)
		if cfg.PyStagePct > 0 {
			pct := cfg.PyStagePct
			cfg.SrcFor = vrun.PyProbeSrc(c.BuildDir, func(stage string) bool {
				return pgen.NewHashRng("py", fmt.Sprint(s), stage).Intn(100) < pct
			})
		}
		var p *pgen.Program
		if template > 0 {
			p = pgen.Template(template-1, s, cfg)
		} else {
			p = pgen.Generate(s, cfg)
		}
		if attempt%2 == 0 {
			injectNumericArgs(p, cfg)
		}
		if execStagePct[cfg] > 0 {
			// some unsplit stages are bare `src exec` stages: mrp runs the probe
			// directly, without the job monitor; it records its own completion
			probe := filepath.Join(c.BuildDir, "harness", "probe")
			for _, st := range p.Stages {
				if !st.Split && st.SrcLang == "comp" && pgen.NewHashRng("exec", fmt.Sprint(s), st.Name).Intn(100) < execStagePct[cfg] {
					st.SrcLang, st.Src = "exec", probe+" --exec "+st.Name
				}
			}
		}
		dir := filepath.Join(c.WorkDir, fmt.Sprintf("base-%d", s))
		if _, _, err := compileProgram(p, filepath.Join(dir, "compile")); err != nil {
			os.RemoveAll(dir)
			c.Count("programs_rejected_by_compiler", 1)
			continue
		}
		os.RemoveAll(filepath.Join(dir, "compile"))
		tw := func(sp *pgen.Spec) {
			sp.KeyPool = cfg.KeyPool
			sp.ExtraFiles = true
			sp.Seed = s
			sp.DelayMaxMs = 20
			if tweak != nil {
				tweak(sp)
			}
		}
		cs, err := vrun.NewCase(c.BuildDir, dir, p, tw)
		if err != nil {
			if os.Getenv("VERIF_DEBUG") != "" {
				fmt.Fprintln(os.Stderr, "makeFaultProgram: NewCase:", err)
			}
			continue
		}
		r := cs.Run(vrun.RunOpts{Args: append(mrpArgs(vdr), extra...), Seed: s, Timeout: 120 * time.Second})
		if os.Getenv("VERIF_DEBUG") != "" {
			fmt.Fprintf(os.Stderr, "makeFaultProgram: template %d seed %d exit %d timedout %v: %s\n", template, s, r.Exit, r.TimedOut, tail(r.Output, 600))
		}
		if r.TimedOut || r.Exit != 0 {
			cs.KillAll()
			os.RemoveAll(dir)
			c.Count("baseline_runs_failed", 1)
			continue
		}
		cs.UnzipMetadata() // --zip: read the archived metadata
		obs := vmon.Collect(cs, vmon.StageCallPaths(p))
		if len(obs.Jobs) < minJobs {
			os.RemoveAll(dir)
			continue
		}
		fp := &faultProgram{seed: s, prog: p, cfg: cfg, tweak: tw, vdr: vdr, extra: extra, jobStage: map[string]string{}, jobPhase: map[string]string{}}
		top := p.Pipeline(p.Top.Callee)
		fp.baseOuts = canonOuts(cs, top.Name)
		fp.baseTree = outsTree(cs)
		for _, t := range cs.Trace() {
			if t.Proc == "mrp" {
				fp.points = append(fp.points, t)
			}
		}
		for _, j := range obs.JobOrder {
			fp.jobs = append(fp.jobs, j.ID)
			fp.jobStage[j.ID] = j.Stage
			fp.jobPhase[j.ID] = j.Phase
		}
		fp.model, _ = vmon.Analyze(obs, p)
		fp.obs = obs
		fp.calls = vmon.StageCallPaths(p)
		os.RemoveAll(dir)
		return fp
	}
	return nil
}

// injectNumericArgs gives the top-level pipeline two more inputs, bound in the
// invocation to a negative non-integral float and a large negative integer,
// and a stage consuming them next to a negative float literal of its own: a
// restart has to recognise the invocation it is given as the one on record.
func injectNumericArgs(p *pgen.Program, cfg *pgen.Config) {
	top := p.Pipeline(p.Top.Callee)
	if top == nil || p.Top.Map || p.Stage("ZZNUM") != nil {
		return
	}
	st := &pgen.Stage{Name: "ZZNUM", Ins: []pgen.Param{{Name: "v", Type: pgen.TFloat}, {Name: "w", Type: pgen.TFloat}, {Name: "k", Type: pgen.TInt}},
		Outs: []pgen.Param{{Name: "n", Type: pgen.TInt}}}
	st.SrcLang, st.Src = cfg.SrcFor(st.Name)
	if st.SrcLang != "comp" {
		return
	}
	p.Stages = append(p.Stages, st)
	top.Ins = append(top.Ins, pgen.Param{Name: "zzneg", Type: pgen.TFloat}, pgen.Param{Name: "zzbig", Type: pgen.TInt})
	top.Calls = append(top.Calls, &pgen.Call{Callee: "ZZNUM", Binds: []pgen.Binding{
		{Id: "v", Exp: &pgen.Exp{Kind: pgen.ERefSelf, Id: "zzneg"}},
		{Id: "w", Exp: &pgen.Exp{Kind: pgen.EFloat, F: -0.0015}},
		{Id: "k", Exp: &pgen.Exp{Kind: pgen.ERefSelf, Id: "zzbig"}}}})
	p.Top.Binds = append(p.Top.Binds, pgen.Binding{Id: "zzneg", Exp: &pgen.Exp{Kind: pgen.EFloat, F: -0.625}},
		pgen.Binding{Id: "zzbig", Exp: &pgen.Exp{Kind: pgen.EInt, I: -9007199254740993}})
}

// execStagePct: per generator configuration, the percentage of unsplit stages
// that are bare `src exec` stages (see makeFaultProgram).
var execStagePct = map[*pgen.Config]int{}

type crashSpec struct {
	Point  string `json:"point,omitempty"`
	Hit    int64  `json:"hit,omitempty"`
	Signal string `json:"signal"`
	// job-side kill of mrp
	Job   string `json:"job,omitempty"`
	JobAt string `json:"job_at,omitempty"`
}

// killInstant: wall-clock time of the last crash record of the most recent mrp
// process in the hook trace (records carry CLOCK_MONOTONIC nanoseconds).
func killInstant(trace []vrun.TraceRec) time.Time {
	pid := lastMrpPid(trace)
	var t int64
	for _, r := range trace {
		if r.Pid == pid && r.Crash != "" && r.Proc == "mrp" {
			t = r.T
		}
	}
	if t == 0 {
		return time.Time{}
	}
	return time.Now().Add(-time.Duration(vrun.Mono() - t))
}

func lastMrpPid(trace []vrun.TraceRec) int {
	pid := 0
	for _, t := range trace {
		if t.Proc == "mrp" {
			pid = t.Pid
		}
	}
	return pid
}

func (s crashSpec) String() string {
	if s.Job != "" {
		return fmt.Sprintf("job %s @%s :%s", s.Job, s.JobAt, s.Signal)
	}
	return fmt.Sprintf("%s#%d:%s", s.Point, s.Hit, s.Signal)
}

// monitorPoints: hook points of the job monitor at which it can signal mrp
// (crashSpec.JobAt -> point name).
var monitorPoints = map[string]string{
	"pre_complete": "meta:write:complete",   // about to write _complete
	"complete":     "meta:journal:complete", // _complete written, journal entry not yet
}

var metaJobRe = regexp.MustCompile(`/(split|join|chnk\d+)(-u[0-9a-f]{10})?$`)

// completedJobs lists jobs whose _complete marker exists, with its mtime.
func completedJobs(cs *vrun.Case) map[string]time.Time {
	out := map[string]time.Time{}
	filepath.Walk(cs.PsDir, func(p string, info os.FileInfo, err error) error {
		if err != nil || info == nil || info.IsDir() || info.Name() != "_complete" {
			return nil
		}
		d := filepath.Dir(p)
		if !metaJobRe.MatchString(d) {
			return nil
		}
		// skip symlinked alias directories (final path -> uniquified path)
		if li, err := os.Lstat(d); err == nil && li.Mode()&os.ModeSymlink != 0 {
			return nil
		}
		rel, _ := filepath.Rel(cs.PsDir, d)
		out[vrun.StripUniq(rel)] = info.ModTime()
		return nil
	})
	return out
}

// stalled decides from the hook trace whether mrp was idling: many loop
// iterations after the last job event without any state change.
func idleLoops(trace []vrun.TraceRec, mrpPid int) int {
	return vrun.IdleLoops(trace)
}

type crashOutcome struct {
	spec          []crashSpec
	violations    []string // signature|what
	inconclusive  string
	crashedRuns   int
	restarts      int
	reexecChecked int
}

// runCrashCase: run with the crash spec(s) in sequence, then a final clean
// restart; check the C05 clauses.
func runCrashCase(c *vf.Ctx, fp *faultProgram, idx int, specs []crashSpec) *crashOutcome {
	oc := &crashOutcome{spec: specs}
	dir := filepath.Join(c.WorkDir, fmt.Sprintf("crash-%d-%d", fp.seed, idx))
	if os.Getenv("VERIF_KEEP") == "" {
		defer os.RemoveAll(dir)
	}
	cs, err := vrun.NewCase(c.BuildDir, dir, fp.prog, fp.tweak)
	if err != nil {
		oc.inconclusive = "harness: " + err.Error()
		return oc
	}
	defer cs.KillAll()
	baseRules := append([]pgen.Rule(nil), cs.Spec.Rules...)
	top := fp.prog.Pipeline(fp.prog.Top.Callee)
	done := map[string]time.Time{}
	add := func(sig, what string) { oc.violations = append(oc.violations, sig+"|"+what) }
	var lastRestartT int64
	checkReexec := func() {
		// any job recorded complete before the interruption that started again?
		// (identity = fork, phase, chunk index: not the directory spelling)
		for _, e := range cs.Events() {
			if e.Ev == "start" && e.T > lastRestartT {
				if _, was := done[logicalJob(e.Job)]; was {
					add("reexecuted-completed-job:"+e.Phase, fmt.Sprintf("job %s had its completion recorded before the interruption (%v) but was executed again after restart", e.Job, specs))
				}
			}
		}
	}
	for si, sp := range specs {
		opts := vrun.RunOpts{Args: fp.args(), Seed: fp.seed, Timeout: 90 * time.Second}
		if pt, ok := monitorPoints[sp.JobAt]; ok && sp.Job != "" {
			// the job's monitor (mrjob) signals mrp at one of its own hook points
			opts.Env = append(opts.Env, fmt.Sprintf("VERIF_KILL_PARENT=%s#1:%s@%s", pt, sp.Signal, strings.ReplaceAll(sp.Job, "/", ".")))
		} else if sp.Job != "" {
			cs.Spec.Rules = append([]pgen.Rule{{Job: sp.Job, KillMrp: sp.Signal, KillMrpAt: sp.JobAt, Attempt: 0}}, baseRules...)
			cs.WriteSpec()
		} else {
			opts.Crash = fmt.Sprintf("%s#%d:%s", sp.Point, sp.Hit, sp.Signal)
		}
		if si > 0 {
			// restart: jobs completed before must not run again
			lastRestartT = vrun.Mono()
		}
		r := cs.Run(opts)
		exitWall := time.Now()
		// "before the interruption" is before the instant of the kill, not before the
		// harness noticed the exit (a job that outlives mrp for a moment may complete in
		// between): the hook records the monotonic time just before it sends the signal
		if kt := killInstant(cs.Trace()); !kt.IsZero() && kt.Before(exitWall) {
			exitWall = kt
		}
		if si > 0 {
			checkReexec()
		}
		if r.TimedOut {
			if n := idleLoops(cs.Trace(), 0); n >= 20 {
				add("stalled-after-restart", fmt.Sprintf("restarted mrp made no progress for %d loop iterations (specs %v)", n, specs))
			} else {
				oc.inconclusive = "watchdog"
			}
			return oc
		}
		cs.Spec.Rules = baseRules
		cs.WriteSpec()
		crashed := r.Exit != 0 || r.Signaled
		if !crashed {
			// the crash point was not reached (schedule differs): completed normally
			break
		}
		oc.crashedRuns++
		if !cs.WaitOrphans(20 * time.Second) {
			cs.KillAll()
			time.Sleep(100 * time.Millisecond)
		}
		lock := filepath.Join(cs.PsDir, "_lock")
		if sp.Signal == "KILL" {
			os.Remove(lock)
		} else if _, err := os.Stat(lock); err == nil {
			// handled signal must leave the pipestance unlocked
			if !strings.Contains(r.Output, "Caught signal") {
				// died some other way (e.g. panic): still a finding, different class
				add("lock-left:not-signal", fmt.Sprintf("mrp exited %d after %v without handling the signal and left _lock; output tail: %s", r.Exit, sp, tail(r.Output, 400)))
			} else {
				add("lock-left-after-handled-signal:"+sp.Signal, fmt.Sprintf("mrp handled SIG%s at %v but _lock is still present", sp.Signal, sp))
			}
			os.Remove(lock)
		}
		if sp.JobAt == "complete" && sp.Job != "" {
			// the monitor signalled mrp after it had written the job's
			// _complete: recorded before the interruption by construction
			for _, t := range cs.Trace() {
				if strings.HasPrefix(t.Crash, "parent:") {
					for j, mt := range completedJobs(cs) {
						if logicalJob(j) == logicalJob(sp.Job) {
							done[logicalJob(j)] = mt
						}
					}
				}
			}
		}
		// interrupted after post-processing had begun: mrp had recorded the
		// completion of every job (their markers may by now be in the archive)
		if pid := lastMrpPid(cs.Trace()); pid != 0 {
			inPost := false
			for _, t := range cs.Trace() {
				if t.Pid == pid && t.Name == "ps:postprocess" {
					inPost = true
				}
			}
			if inPost {
				for _, e := range cs.Events() {
					if e.Ev == "end" {
						if _, ok := done[logicalJob(e.Job)]; !ok {
							done[logicalJob(e.Job)] = exitWall
						}
					}
				}
			}
		}
		// completion markers durably recorded before the interruption
		for j, mt := range completedJobs(cs) {
			if mt.Before(exitWall.Add(-60 * time.Millisecond)) {
				if _, ok := done[logicalJob(j)]; !ok {
					done[logicalJob(j)] = mt
				}
			}
		}
	}
	// final clean restart
	lastRestartT = vrun.Mono()
	oc.restarts++
	r := cs.Run(vrun.RunOpts{Args: fp.args(), Seed: fp.seed, Timeout: 120 * time.Second})
	if r.TimedOut {
		if n := idleLoops(cs.Trace(), 0); n >= 20 {
			add("stalled-after-restart", fmt.Sprintf("restarted mrp made no progress for %d loop iterations after crash %v; log tail: %s", n, specs, tail(stripDump(r.Output), 600)))
		} else {
			oc.inconclusive = "watchdog"
		}
		return oc
	}
	if r.Exit != 0 {
		add("restart-failed:"+normalizeFail(failureLine(r.Output)), fmt.Sprintf("restart after crash %v exited %d: %s", specs, r.Exit, tail(r.Output, 900)))
		return oc
	}
	checkReexec()
	oc.reexecChecked = len(done)
	if _, err := cs.UnzipMetadata(); err != nil {
		add("metadata-archive-unreadable", fmt.Sprintf("after crash %v and restart the metadata archive (--zip) cannot be read: %v", specs, err))
	}
	if got := canonOuts(cs, top.Name); got != fp.baseOuts {
		add("final-outs-differ", fmt.Sprintf("after crash %v and restart the top-level outputs are %s; uninterrupted run: %s", specs, truncate(got, 700), truncate(fp.baseOuts, 700)))
	}
	if d := treeDiff(fp.baseTree, outsTree(cs)); d != "" {
		add("final-outs-tree-differs", fmt.Sprintf("after crash %v and restart outs/ differs from the uninterrupted run: %s", specs, d))
	}
	if _, err := os.Stat(filepath.Join(cs.PsDir, "_lock")); err == nil {
		add("lock-left-after-completion", "pipestance completed after restart but _lock is still present")
	}
	return oc
}

func stripDump(s string) string {
	if i := strings.Index(s, "SIGQUIT"); i > 0 {
		return s[:i]
	}
	return s
}

func failureLine(out string) string {
	for _, l := range strings.Split(out, "\n") {
		if strings.Contains(l, "panic:") || strings.Contains(l, "fatal error") {
			return l
		}
	}
	if i := strings.Index(out, "Log message:"); i >= 0 {
		rest := strings.TrimSpace(out[i+12:])
		return strings.Split(rest, "\n")[0]
	}
	lines := strings.Split(out, "\n")
	for _, l := range lines {
		if strings.Contains(l, "[error]") || strings.Contains(l, "Error") || strings.Contains(l, "error") {
			return basenames(l)
		}
	}
	// last informative line
	for i := len(lines) - 1; i >= 0; i-- {
		l := strings.TrimSpace(lines[i])
		if l == "" || strings.Contains(l, "Shutting down") {
			continue
		}
		return basenames(l)
	}
	return "unknown"
}

var pathRe = regexp.MustCompile(`/[^\s:]*/([^/\s:]+)`)

// basenames replaces absolute paths by their last component.
func basenames(s string) string { return pathRe.ReplaceAllString(s, "$1") }

// pointClass groups hook point names.
func pointClass(name string) string {
	return name
}

func faultConfig() *pgen.Config {
	cfg := pgen.DefaultConfig()
	cfg.PFileTypes = 30
	cfg.PSplitStage = 50
	cfg.PMapCall = 45
	cfg.PDisabled = 20
	cfg.PVolatile = 40
	cfg.MaxPipelines = 2
	cfg.MaxCalls = 4
	cfg.PLiteral = 8
	return cfg
}

func init() {
	register("C05", "fault_enumeration", func(c *vf.Ctx) {
		c.SetRule("for each generated program: an uninterrupted baseline run records the ordered list of mrp hook hits (K points between filesystem effects) and job-side points; a case = (program, crash spec sequence) where a crash spec is (hook point, occurrence, KILL|TERM|INT) or (job, start|outs|end, signal to mrp); after the crash: wait for orphans, remove _lock iff SIGKILL, restart with the same invocation (optionally crash again), final restart. Verdict: final exit 0; canonical final _outs and outs/ content tokens equal the baseline; no job whose _complete marker predates the interruption has a later start event; no _lock after a handled signal; a restart making no progress for 20 loop iterations is a stall. Besides the stratified sample of point classes, every hook hit of the post-processing window (after the last job: final VDR, moving files into outs/, rewriting the top-level _outs, final state, unlock) is used as a crash point, and one program in three is a file-passing skeleton; file-valued outputs are compared by content and by location class (under outs/ or elsewhere). distinct = (program, point name, occurrence, signal); non-trivial = the crash actually fired.")
		c.Assume("all stages run under mrjob (src comp)")
		c.Assume("after SIGKILL the operator removes the stale _lock, as documented")
		c.Assume("probe outputs are a deterministic function of canonical arguments, so the baseline is comparable")
		nProg := c.Pick(5, 36)
		perProg := c.Pick(14, 70)
		rng := rand.New(rand.NewSource(c.Seed))
		var mu sync.Mutex
		classesSeen := map[string]int{}
		type job struct {
			fp    *faultProgram
			idx   int
			specs []crashSpec
		}
		var jobs []job
		// --replay <file written by an earlier run at the same seed and tier>:
		// only that program and crash sequence are run
		var replay struct {
			Case struct {
				ProgramSeed int64       `json:"program_seed"`
				CrashSpecs  []crashSpec `json:"crash_specs"`
			} `json:"case"`
		}
		if c.Replay != "" && c.Replay != "debug" {
			b, err := os.ReadFile(c.Replay)
			if err != nil || json.Unmarshal(b, &replay) != nil || replay.Case.ProgramSeed == 0 {
				c.Inconclusive("unreadable replay file " + c.Replay)
				return
			}
			os.Setenv("VERIF_KEEP", "1")
		}
		for pi := 0; pi < nProg; pi++ {
			cfg := faultConfig()
			tmpl := 0
			if pi%3 == 2 {
				tmpl = 1 + (pi/3)%pgen.NTemplates
			}
			if pi%3 == 0 && pi > 0 {
				// a file-passing skeleton: the top-level pipeline returns files,
				// so post-processing has something to move
				tmpl = 1 + pgen.NTemplates + (pi/3-1)%pgen.NFileTemplates
			}
			dynMap := pi%5 == 4
			if dynMap {
				// skeleton 4: a stage mapped over a run-time sized collection, its
				// merged outputs consumed by a second mapped stage; the forks other
				// than the first are slow, and mrp is interrupted when the first
				// fork's job has ended (the forks exist only in memory until then)
				tmpl = 5
			}
			big := pi%2 == 1
			if ps := replay.Case.ProgramSeed; ps != 0 {
				if d := ps - (c.Seed*7 + int64(pi)*104729); d < 0 || d%7919 != 0 || d/7919 >= 30 {
					continue
				}
			}
			fp := makeFaultProgram(c, c.Seed*7+int64(pi)*104729, cfg, []string{"rolling", "strict", "post"}[pi%3],
				func(s *pgen.Spec) {
					if big {
						s.ChunkChoices = []int{0, 1, 2, 9, 10, 11}
						s.MaxLen = 4
					}
					if tmpl > pgen.NTemplates && len(s.LenChoices) == 0 {
						s.LenChoices = []int{2, 3} // file skeletons: several forks each
					}
					if dynMap {
						s.LenChoices = []int{3}
						for _, f := range []string{"fork1", "fork2", "fork_b", "fork_c", "fork_d"} {
							s.Rules = append(s.Rules, pgen.Rule{JobPrefix: "TOP/M1/" + f + "/", DelayBeforeMs: 1500})
						}
					}
					if pi%4 == 1 {
						// decimal-width boundary: every split defines exactly 10 chunks
						s.Rules = append(s.Rules, pgen.Rule{Phase: "split", Chunks: 11})
					}
				}, map[bool]int{false: 6, true: 3}[tmpl > pgen.NTemplates], tmpl, map[bool][]string{true: {"--zip"}}[pi%4 == 2]...)
			if fp == nil {
				c.Inconclusive("no baseline program")
				continue
			}
			if replay.Case.ProgramSeed != 0 {
				if fp.seed == replay.Case.ProgramSeed {
					jobs = append(jobs, job{fp, 0, replay.Case.CrashSpecs})
					fmt.Printf("replaying %v on program %d in %s\n", replay.Case.CrashSpecs, fp.seed, c.WorkDir)
				}
				continue
			}
			c.Count("programs", 1)
			c.Count("baseline_hook_points", int64(len(fp.points)))
			// group points by class
			byClass := map[string][]vrun.TraceRec{}
			for _, t := range fp.points {
				byClass[pointClass(t.Name)] = append(byClass[pointClass(t.Name)], t)
			}
			var classes []string
			for k := range byClass {
				classes = append(classes, k)
			}
			sort.Strings(classes)
			exhaustive := !c.Quick() && pi < 6 && len(fp.points) <= 400
			idx := 0
			addSpec := func(specs ...crashSpec) {
				jobs = append(jobs, job{fp, idx, specs})
				idx++
			}
			if exhaustive {
				c.Count("programs_exhaustive_over_hook_points", 1)
				for _, t := range fp.points {
					addSpec(crashSpec{Point: t.Name, Hit: t.Hit, Signal: "KILL"})
					if rng.Intn(4) == 0 {
						addSpec(crashSpec{Point: t.Name, Hit: t.Hit, Signal: "TERM"})
					}
				}
			} else {
				rng.Shuffle(len(classes), func(i, j int) { classes[i], classes[j] = classes[j], classes[i] })
				n := perProg
				for k := 0; k < n; k++ {
					cl := classes[k%len(classes)]
					t := byClass[cl][rng.Intn(len(byClass[cl]))]
					// SIGKILL, or one of the signals mrp handles (terminate, interrupt,
					// hang-up, user 1 / 2)
					sig := []string{"KILL", "KILL", "TERM", "INT", "HUP", "USR1", "KILL", "USR2"}[rng.Intn(8)]
					sp := crashSpec{Point: t.Name, Hit: t.Hit, Signal: sig}
					if k%9 == 8 {
						// double crash
						t2 := fp.points[rng.Intn(len(fp.points))]
						addSpec(sp, crashSpec{Point: t2.Name, Hit: 1 + t2.Hit/2, Signal: "KILL"})
					} else {
						addSpec(sp)
					}
				}
			}
			// the post-processing window, point by point: everything mrp does
			// after the last job (final VDR, moving files to outs/, rewriting
			// the top-level _outs, final state, unlock) - a restart there has
			// no job left to run and must only finish that work
			if !exhaustive {
				last := -1
				for i, t := range fp.points {
					if t.Name == "ps:postprocess" {
						last = i
					}
				}
				if last >= 0 {
					w := fp.points[last:]
					if max := c.Pick(24, 80); len(w) > max {
						w = w[:max]
					}
					for k, t := range w {
						addSpec(crashSpec{Point: t.Name, Hit: t.Hit, Signal: []string{"KILL", "TERM", "KILL", "HUP"}[(k+pi)%4]})
					}
					c.Count("post_processing_window_points", int64(len(w)))
				}
			}
			if dynMap {
				for _, j := range fp.jobs {
					if strings.HasPrefix(j, "TOP/M1/") && !strings.Contains(j, "/fork1/") && !strings.Contains(j, "/fork2/") &&
						!strings.Contains(j, "/fork_b/") && !strings.Contains(j, "/fork_c/") && !strings.Contains(j, "/fork_d/") {
						addSpec(crashSpec{Job: j, JobAt: "end", Signal: "KILL"})
						addSpec(crashSpec{Job: j, JobAt: "end", Signal: "TERM"})
						addSpec(crashSpec{Job: j, JobAt: "complete", Signal: "KILL"})
					}
				}
			}
			// the job monitor signals mrp just before / just after it records
			// the job's completion (and is itself signalled by mrp's death)
			nm := c.Pick(4, 16)
			for k := 0; k < nm && len(fp.jobs) > 0; k++ {
				j := fp.jobs[rng.Intn(len(fp.jobs))]
				addSpec(crashSpec{Job: j, JobAt: []string{"complete", "complete", "pre_complete", "complete"}[k%4], Signal: []string{"KILL", "TERM", "KILL", "INT"}[k%4]})
			}
			// job-side kills
			nj := c.Pick(4, 16)
			for k := 0; k < nj && len(fp.jobs) > 0; k++ {
				j := fp.jobs[rng.Intn(len(fp.jobs))]
				addSpec(crashSpec{Job: j, JobAt: []string{"start", "outs", "end"}[k%3], Signal: []string{"KILL", "TERM"}[k%2]})
			}
		}
		par := runtime.NumCPU() * 3 / 4
		ch := make(chan job)
		var wg sync.WaitGroup
		for w := 0; w < par; w++ {
			wg.Add(1)
			go func() {
				defer wg.Done()
				for jb := range ch {
					oc := runCrashCase(c, jb.fp, jb.idx, jb.specs)
					mu.Lock()
					c.Eval(1)
					if oc.inconclusive != "" {
						c.Inconclusive(oc.inconclusive)
					}
					c.Count("runs_that_crashed_at_the_point", int64(oc.crashedRuns))
					c.Count("completed_jobs_checked_for_reexecution", int64(oc.reexecChecked))
					if oc.crashedRuns > 0 {
						key := fmt.Sprintf("%d|%v", jb.fp.seed, jb.specs)
						c.Distinct(key)
						for _, sp := range jb.specs {
							if sp.Job != "" {
								classesSeen["job:"+sp.JobAt+":"+sp.Signal]++
							} else {
								classesSeen[sp.Point+":"+sp.Signal]++
							}
						}
					} else {
						c.Count("crash_point_not_reached", 1)
					}
					c.Sample(map[string]interface{}{"program_seed": jb.fp.seed, "crash": fmt.Sprint(jb.specs), "crashed": oc.crashedRuns, "vdr": jb.fp.vdr})
					for _, v := range oc.violations {
						parts := strings.SplitN(v, "|", 2)
						sig := parts[0]
						sp := jb.specs[0]
						site := sp.Point
						if sp.Job != "" {
							site = "job:" + jb.fp.jobPhase[sp.Job] + "@" + sp.JobAt
						}
						c.Violate("C05:"+sig+":at="+site+":"+sp.Signal, parts[1], map[string]interface{}{
							"program_seed": jb.fp.seed, "mro": jb.fp.prog.Print(), "crash_specs": jb.specs, "vdrmode": jb.fp.vdr,
						})
					}
					mu.Unlock()
				}
			}()
		}
		for _, jb := range jobs {
			ch <- jb
		}
		close(ch)
		wg.Wait()
		c.Set("crash_point_classes_fired", classesSeen)
		c.Set("distinct_point_classes_fired", len(classesSeen))
	})
}

func normalizeFail(s string) string {
	s = vrun.StripUniq(s)
	var sb strings.Builder
	for _, w := range strings.Fields(s) {
		if len(w) > 0 && w[0] >= '0' && w[0] <= '9' {
			continue
		}
		sb.WriteString(w + " ")
	}
	return truncate(strings.TrimSpace(sb.String()), 120)
}

var chnkRe = regexp.MustCompile(`/chnk0*(\d+)$`)

// logicalJob normalises the chunk directory spelling (zero padding).
func logicalJob(id string) string {
	return chnkRe.ReplaceAllString(id, "/chnk$1")
}

// ---------------------------------------------------------------------------
// C06

type failSpec struct {
	Job       string `json:"job"`
	Fail      string `json:"fail"`
	Repeated  bool   `json:"repeated"`
	AutoRetry int    `json:"autoretry"`
}

var failKinds = []string{"errpipe", "assert", "exit", "exit_after_outs", "segv", "kill9", "kill_mrjob",
	"trunc_outs", "no_outs", "missing_key", "wrong_type", "errpipe_exit0", "bad_stage_defs", "bad_resource_type"}

// kindFor: output-file manifestations do not exist for a Python stage (the
// adapter writes _outs / _stage_defs); such a job gets a Python failure instead.
func kindFor(fp *faultProgram, job, kind string, k int) string {
	if st := fp.prog.Stage(fp.jobStage[job]); st != nil && st.SrcLang == "py" {
		switch kind {
		case "trunc_outs", "no_outs", "null_outs", "missing_key", "wrong_type", "bad_stage_defs", "bad_resource_type", "exit_after_outs":
			return pyFailKinds[k%len(pyFailKinds)]
		}
	}
	if st := fp.prog.Stage(fp.jobStage[job]); st != nil && fp.jobPhase[job] != "split" {
		// a phase that owes no outputs cannot produce bad ones
		owed := len(st.Outs)
		if fp.jobPhase[job] == "main" && st.Split {
			owed = len(st.ChunkOuts)
		}
		if owed == 0 {
			switch kind {
			case "trunc_outs", "no_outs", "null_outs", "missing_key", "wrong_type":
				return []string{"exit", "assert", "errpipe", "kill9", "errpipe_exit0", "segv"}[k%6]
			}
		}
	}
	return kind
}

func sortedForkKeys(m map[string]*vmon.Fork) []string {
	ks := make([]string, 0, len(m))
	for k := range m {
		ks = append(ks, k)
	}
	sort.Strings(ks)
	return ks
}

var pyFailKinds = []string{"py_raise", "py_exit", "py_throw", "py_sysexit", "py_osexit", "py_kill"}

type failOutcome struct {
	violations    []string
	inconclusive  string
	faultFired    bool
	bystander     string // fork kept running during an in-process retry
	retriedOthers int
}

// dependentsOf returns the fork keys (callpath/forkdir) of all invocations
// that transitively depend on the fork owning job.
// ancestorsOf returns the forks the given fork (transitively) depends on.
func ancestorsOf(fp *faultProgram, forkKey string) map[string]bool {
	byInv := map[*pgen.StageInvocation]string{}
	var root *pgen.StageInvocation
	for _, inv := range fp.model.Invs {
		if f, ok := inv.Token.(*vmon.Fork); ok && f != nil {
			byInv[inv] = f.Key
			if f.Key == forkKey {
				root = inv
			}
		}
	}
	out := map[string]bool{}
	if root == nil {
		return out
	}
	seen := map[*pgen.StageInvocation]bool{root: true}
	stack := []*pgen.StageInvocation{root}
	for len(stack) > 0 {
		inv := stack[len(stack)-1]
		stack = stack[:len(stack)-1]
		for _, d := range inv.Deps {
			if !seen[d] {
				seen[d] = true
				stack = append(stack, d)
				if k, ok := byInv[d]; ok {
					out[k] = true
				}
			}
		}
	}
	return out
}

func dependentsOf(fp *faultProgram, forkKey string) map[string]bool {
	// map fork -> invocation
	var root *pgen.StageInvocation
	byInv := map[*pgen.StageInvocation]string{}
	for _, inv := range fp.model.Invs {
		if f, ok := inv.Token.(*vmon.Fork); ok && f != nil {
			byInv[inv] = f.Key
			if f.Key == forkKey {
				root = inv
			}
		}
	}
	out := map[string]bool{}
	if root == nil {
		return out
	}
	tainted := map[*pgen.StageInvocation]bool{root: true}
	for changed := true; changed; {
		changed = false
		for _, inv := range fp.model.Invs {
			if tainted[inv] {
				continue
			}
			for i, d := range inv.Deps {
				if tainted[d] && inv.DepKinds[i] != "mapsrc-indep" {
					tainted[inv] = true
					changed = true
					break
				}
			}
		}
	}
	for inv := range tainted {
		if inv != root {
			if k, ok := byInv[inv]; ok {
				out[k] = true
			}
		}
	}
	return out
}

func runFailCase(c *vf.Ctx, fp *faultProgram, idx int, fs failSpec) *failOutcome {
	oc := &failOutcome{}
	dir := filepath.Join(c.WorkDir, fmt.Sprintf("fail-%d-%d", fp.seed, idx))
	defer os.RemoveAll(dir)
	cs, err := vrun.NewCase(c.BuildDir, dir, fp.prog, fp.tweak)
	if err != nil {
		oc.inconclusive = "harness: " + err.Error()
		return oc
	}
	defer cs.KillAll()
	add := func(sig, what string) { oc.violations = append(oc.violations, sig+"|"+what) }
	baseRules := append([]pgen.Rule(nil), cs.Spec.Rules...)
	rule := pgen.Rule{Job: fs.Job, Fail: fs.Fail, Attempt: 1}
	if fs.Repeated {
		rule.Attempt = 0
	}
	cs.Spec.Rules = append([]pgen.Rule{rule}, baseRules...)
	failedFork := fs.Job[:strings.LastIndexByte(fs.Job, '/')]
	if fs.AutoRetry > 0 && !fs.Repeated {
		// a bystander: one fork that neither feeds nor depends on the failing
		// job is kept running while mrp retries in-process
		rel := dependentsOf(fp, failedFork)
		for k := range ancestorsOf(fp, failedFork) {
			rel[k] = true
		}
		var by []string
		for k := range fp.obs.Forks {
			if k != failedFork && !rel[k] {
				by = append(by, k)
			}
		}
		sort.Strings(by)
		if len(by) > 0 {
			b := by[int(fp.seed+int64(idx))%len(by)]
			cs.Spec.Rules = append(cs.Spec.Rules, pgen.Rule{JobPrefix: b + "/", DelayBeforeMs: 2500})
			oc.bystander = b
		}
	}
	cs.WriteSpec()
	args := append(fp.args(), fmt.Sprintf("--autoretry=%d", fs.AutoRetry))
	if fs.Fail == "wrong_type" || fs.Fail == "missing_key" {
		args = append(args, "--strict=error")
	}
	top := fp.prog.Pipeline(fp.prog.Top.Callee)
	r := cs.Run(vrun.RunOpts{Args: args, Seed: fp.seed, Timeout: 120 * time.Second})
	// --autoretry=N: the failing job is executed at most N+1 times by one mrp
	attempts := 0
	for _, e := range cs.Events() {
		if e.Ev == "start" && logicalJob(e.Job) == logicalJob(fs.Job) {
			attempts++
		}
	}
	if fs.Repeated && attempts > fs.AutoRetry+1 {
		add("retry-budget-exceeded:"+fs.Fail, fmt.Sprintf("with --autoretry=%d the failing job %s (%s on every attempt) was executed %d times by one mrp (timed out: %v)", fs.AutoRetry, fs.Job, fs.Fail, attempts, r.TimedOut))
		return oc
	}
	if r.TimedOut {
		if n := idleLoops(cs.Trace(), 0); n >= 20 {
			add("hang-after-fault:"+fs.Fail, fmt.Sprintf("with fault %v mrp neither failed nor completed: %d idle loop iterations; log tail: %s", fs, n, tail(stripDump(r.Output), 500)))
		} else {
			oc.inconclusive = "watchdog"
		}
		return oc
	}
	evs := cs.Events()
	for _, e := range evs {
		if e.Ev == "fault" && e.Job == fs.Job {
			oc.faultFired = true
		}
	}
	if !oc.faultFired {
		lang := "comp"
		if st := fp.prog.Stage(fp.jobStage[fs.Job]); st != nil {
			lang = st.SrcLang
		}
		oc.inconclusive = "fault site not reached: " + fs.Fail + " in a " + lang + " stage (" + fp.jobPhase[fs.Job] + ")"
		return oc
	}
	forkKey := fs.Job[:strings.LastIndexByte(fs.Job, '/')]
	callPath := ""
	if f := fp.obs.Forks[forkKey]; f != nil {
		callPath = f.CallPath
	}
	phase := fp.jobPhase[fs.Job]
	success := r.Exit == 0
	saidSuccess := strings.Contains(r.Output, "Pipestance completed successfully")
	transientOK := fs.AutoRetry > 0 && !fs.Repeated
	if success || saidSuccess {
		if !transientOK {
			add("fault-not-noticed:"+fs.Fail+":"+phase, fmt.Sprintf("job %s failed by %s but mrp exited %d (reported success=%v)", fs.Job, fs.Fail, r.Exit, saidSuccess))
			return oc
		}
		// one-shot fault + auto retry: must equal the baseline
		if got := canonOuts(cs, top.Name); got != fp.baseOuts {
			add("autoretry-result-differs:"+fs.Fail, fmt.Sprintf("fault %v was retried to success but outputs differ from the fault-free run: %s vs %s", fs, truncate(got, 500), truncate(fp.baseOuts, 500)))
		}
		// ... and only the failed job may have been executed again
		starts := map[string]int{}
		for _, e := range evs {
			if e.Ev == "start" {
				starts[logicalJob(e.Job)]++
			}
		}
		var again []string
		for j, n := range starts {
			if n > 1 && j != logicalJob(fs.Job) {
				again = append(again, fmt.Sprintf("%s x%d", j, n))
			}
		}
		sort.Strings(again)
		if len(again) > 0 {
			oc.retriedOthers = len(again)
			add("unfailed-job-reexecuted-by-autoretry:"+fs.Fail, fmt.Sprintf("fault %v in %s was retried in-process; jobs that had not failed were executed again: %s (bystander kept running: %s)", fs.Fail, fs.Job, strings.Join(again, ", "), oc.bystander))
		}
		return oc
	}
	// Failed, as it must.  The report names the failing stage.
	if callPath != "" {
		fq := strings.ReplaceAll(callPath, "/", ".")
		if !strings.Contains(r.Output, callPath) && !strings.Contains(r.Output, fq) {
			add("error-does-not-name-stage:"+fs.Fail, fmt.Sprintf("mrp failed but its report does not name the failing stage call %s: %s", callPath, tail(r.Output, 700)))
		}
	}
	// Dependents never started.
	deps := dependentsOf(fp, forkKey)
	firstFault := int64(0)
	for _, e := range evs {
		if e.Ev == "fault" && e.Job == fs.Job && firstFault == 0 {
			firstFault = e.T
		}
	}
	for _, e := range evs {
		if e.Ev != "start" || strings.HasPrefix(fs.Fail, "complete_then_") {
			// (a process that records completion and fails a moment later may be seen
			// complete by a poll that falls in between; what counts for that fault is
			// that mrp does not end up reporting success)
			continue
		}
		fk := e.Job[:strings.LastIndexByte(e.Job, '/')]
		if deps[fk] {
			add("dependent-started:"+fs.Fail+":"+phase, fmt.Sprintf("job %s depends on the failed job %s but was started", e.Job, fs.Job))
			break
		}
		if fk == forkKey && e.T > firstFault {
			// later phase of the same fork
			if (phase == "split" && e.Phase != "split") || (phase == "main" && e.Phase == "join") {
				add("later-phase-started:"+fs.Fail+":"+phase, fmt.Sprintf("job %s started although %s of the same fork failed", e.Job, fs.Job))
				break
			}
		}
	}
	// Restart with the fault removed.
	if !cs.WaitOrphans(20 * time.Second) {
		cs.KillAll()
	}
	exitWall := time.Now()
	done := map[string]bool{}
	for j, mt := range completedJobs(cs) {
		if mt.Before(exitWall.Add(-60*time.Millisecond)) && logicalJob(j) != logicalJob(fs.Job) {
			done[logicalJob(j)] = true
		}
	}
	if _, err := os.Stat(filepath.Join(cs.PsDir, "_lock")); err == nil {
		add("lock-left-after-failure", "mrp exited after a job failure but left _lock")
		os.Remove(filepath.Join(cs.PsDir, "_lock"))
	}
	cs.Spec.Rules = baseRules
	cs.WriteSpec()
	t0 := vrun.Mono()
	r2 := cs.Run(vrun.RunOpts{Args: append(fp.args(), "--autoretry=0"), Seed: fp.seed, Timeout: 120 * time.Second})
	if r2.TimedOut {
		if n := idleLoops(cs.Trace(), 0); n >= 20 {
			add("stalled-after-fault-removed:"+fs.Fail, fmt.Sprintf("restart after removing fault %v made no progress for %d loop iterations", fs, n))
		} else {
			oc.inconclusive = "watchdog"
		}
		return oc
	}
	if r2.Exit != 0 {
		add("restart-failed-after-fault-removed:"+fs.Fail+":"+phase,
			fmt.Sprintf("after removing fault %v the restart exited %d: %s", fs, r2.Exit, tail(r2.Output, 800)))
		return oc
	}
	for _, e := range cs.Events() {
		if e.Ev == "start" && e.T > t0 && done[logicalJob(e.Job)] {
			fk := e.Job[:strings.LastIndexByte(e.Job, '/')]
			kind := "independent"
			if fk == forkKey {
				kind = "same-fork"
			}
			add("completed-job-reexecuted:"+fs.Fail+":"+kind, fmt.Sprintf("job %s had completed before %s failed, yet it was executed again after the restart", e.Job, fs.Job))
			break
		}
	}
	if got := canonOuts(cs, top.Name); got != fp.baseOuts {
		add("result-after-restart-differs:"+fs.Fail+":"+phase, fmt.Sprintf("after fault %v, fault removal and restart the outputs are %s; fault-free run: %s", fs, truncate(got, 600), truncate(fp.baseOuts, 600)))
	}
	if d := treeDiff(fp.baseTree, outsTree(cs)); d != "" {
		add("outs-tree-after-restart-differs:"+fs.Fail, fmt.Sprintf("after fault %v and restart outs/ differs: %s", fs, d))
	}
	return oc
}

func init() {
	register("C06", "fault_enumeration", func(c *vf.Ctx) {
		c.SetRule("for each generated program with a fault-free baseline: a case = (failure site = one job, manifestation in {error pipe text, ASSERT:, exit code with/without outs, SIGSEGV/SIGKILL of the stage, SIGKILL of mrjob, truncated / missing / missing-key / wrong-type _outs (the last two under --strict=error), bad or missing _stage_defs}, one-shot or repeated, --autoretry 0|2). Verdict: mrp exits non-zero and never prints success (a one-shot fault under auto-retry may instead end in success equal to the baseline); the report names the failing stage call; no job of a transitively dependent call (reference model's dataflow) or later phase of the same fork starts; after removing the fault a restart completes with the baseline outputs and does not re-execute jobs that had completed; with --autoretry=N the failing job is executed at most N+1 times by one mrp, also when the fault looks transient (signal) on every attempt. Directed sites: bad outputs of non-last chunks of multi-chunk forks (a splitting skeleton is always among the programs), preflight jobs, Python-only failures. distinct = (program, job, manifestation, options); non-trivial = the fault actually fired.")
		c.Assume("stages run under mrjob (src comp); python adapter and bare exec stages are not covered by this check")
		c.Assume("ill-typed but parseable outputs are asserted under --strict=error only")
		nProg := c.Pick(4, 30)
		rng := rand.New(rand.NewSource(c.Seed + 6))
		type job struct {
			fp  *faultProgram
			idx int
			fs  failSpec
		}
		var jobs []job
		for pi := 0; pi < nProg; pi++ {
			cfg := faultConfig()
			cfg.PDisabled = 10
			if pi%2 == 1 {
				cfg.PyStagePct = 60 // stages run through the real Python adapter
			}
			tmpl := 0
			if pi%3 == 2 {
				// the first skeleton is the one with preflight calls (kind 3)
				tmpl = 1 + (pi/3+3)%pgen.NTemplates
			}
			if pi%4 == 2 {
				execStagePct[cfg] = 60
			}
			chunkChoices := []int{1, 2, 3}
			if pi%4 == 0 {
				// skeleton 4: a splitting stage (chunk-level outputs, two or three
				// chunks per fork) mapped over a run-time collection - the sites
				// of the directed non-last-chunk faults below always exist
				tmpl = 5
				cfg.ForceSplit = true
				chunkChoices = []int{2, 3}
			}
			fp := makeFaultProgram(c, c.Seed*11+int64(pi)*15485863, cfg, []string{"rolling", "disable", "strict"}[pi%3],
				func(s *pgen.Spec) {
					s.ChunkChoices = chunkChoices
					s.PNull = 0
				}, 5, tmpl)
			if fp == nil {
				c.Inconclusive("no baseline program")
				continue
			}
			c.Count("programs", 1)
			exhaustive := !c.Quick() && pi < 8 && len(fp.jobs) <= 40
			idx := 0
			if exhaustive {
				c.Count("programs_exhaustive_over_sites_and_manifestations", 1)
				for _, j := range fp.jobs {
					for _, k := range failKinds {
						jobs = append(jobs, job{fp, idx, failSpec{Job: j, Fail: kindFor(fp, j, k, idx), Repeated: true}})
						idx++
					}
				}
			} else {
				n := c.Pick(24, 60)
				// sites that need something specific: chunks of multi-chunk forks
				var multi []string
				for _, f := range fp.obs.Forks {
					if f.Split != nil && len(f.Chunks) >= 2 {
						for _, cj := range f.Chunks {
							if cj != nil {
								multi = append(multi, cj.ID)
							}
						}
					}
				}
				sort.Strings(multi)
				for k := 0; k < n; k++ {
					j := fp.jobs[rng.Intn(len(fp.jobs))]
					if len(multi) > 0 && k%2 == 1 {
						j = multi[rng.Intn(len(multi))]
					}
					kind := kindFor(fp, j, failKinds[(k+pi)%len(failKinds)], k)
					fs := failSpec{Job: j, Fail: kind, Repeated: k%3 != 0}
					if k%5 == 4 {
						fs.AutoRetry = 2
					}
					jobs = append(jobs, job{fp, idx, fs})
					idx++
				}
				// directed: bad outputs of a chunk that is not the last one of its
				// fork (the later chunks' outputs are fine), every output-fault kind
				{
					nForks := 0
					for _, fk := range sortedForkKeys(fp.obs.Forks) {
						f := fp.obs.Forks[fk]
						if f.Split == nil || len(f.Chunks) < 2 || f.Chunks[0] == nil || nForks >= 2 {
							continue
						}
						nForks++
						for r, kind := range []string{"trunc_outs", "missing_key", "no_outs", "wrong_type"} {
							cj := f.Chunks[(r+nForks)%(len(f.Chunks)-1)]
							if cj == nil {
								cj = f.Chunks[0]
							}
							jobs = append(jobs, job{fp, idx, failSpec{Job: cj.ID, Fail: kindFor(fp, cj.ID, kind, r), Repeated: true}})
							idx++
						}
					}
				}
				// directed: resource keys of the wrong type in a split's chunk definitions
				{
					nsp := 0
					for _, j := range fp.jobs {
						if fp.jobPhase[j] == "split" && nsp < 2 {
							if st := fp.prog.Stage(fp.jobStage[j]); st != nil && st.SrcLang == "comp" {
								jobs = append(jobs, job{fp, idx, failSpec{Job: j, Fail: "bad_resource_type", Repeated: true}})
								idx++
								nsp++
							}
						}
					}
				}
				// failing preflight calls: everything else in the pipeline,
				// nested at any depth, depends on them
				k := 0
				for _, j := range fp.jobs {
					if strings.Contains(j, "/PRE_") {
						for r := 0; r < 2; r++ {
							fs := failSpec{Job: j, Fail: kindFor(fp, j, failKinds[(k+pi)%len(failKinds)], k), Repeated: k%3 != 0}
							jobs = append(jobs, job{fp, idx, fs})
							idx++
							k++
						}
					}
				}
				// failures only a Python stage can have (exception, martian.exit,
				// martian.throw, sys.exit, os._exit, killed interpreter)
				var pyJobs []string
				for _, j := range fp.jobs {
					if st := fp.prog.Stage(fp.jobStage[j]); st != nil && st.SrcLang == "py" {
						pyJobs = append(pyJobs, j)
					}
				}
				for k := 0; k < c.Pick(8, 24) && len(pyJobs) > 0; k++ {
					fs := failSpec{Job: pyJobs[rng.Intn(len(pyJobs))], Fail: pyFailKinds[(k+pi)%len(pyFailKinds)], Repeated: k%2 == 0}
					if k%4 == 3 {
						fs.AutoRetry = 2
					}
					jobs = append(jobs, job{fp, idx, fs})
					idx++
				}
				// bare exec stages: the failures such a stage can have within the job
				// contract (it reports an error or assertion itself, exits non-zero, dies
				// from a signal). A process that records its completion and then fails
				// after all breaks the contract; whether mrp notices depends on whether a
				// poll falls between the two (seen on the unchanged tree), so that
				// manifestation is not part of the workload.
				var execJobs []string
				for _, j := range fp.jobs {
					if st := fp.prog.Stage(fp.jobStage[j]); st != nil && st.SrcLang == "exec" {
						execJobs = append(execJobs, j)
					}
				}
				for k := 0; k < c.Pick(8, 24) && len(execJobs) > 0; k++ {
					j := execJobs[rng.Intn(len(execJobs))]
					jobs = append(jobs, job{fp, idx, failSpec{Job: j, Fail: []string{"errpipe", "exit", "kill9", "assert", "segv", "exit_after_outs"}[k%6], Repeated: k%3 != 2}})
					idx++
				}
				// a fault that mrp takes for transient, on every attempt: the retry
				// budget must run out and the pipestance fail
				for k, kind := range []string{"kill_mrjob", "segv"} {
					j := fp.jobs[rng.Intn(len(fp.jobs))]
					if st := fp.prog.Stage(fp.jobStage[j]); st != nil && st.SrcLang == "py" {
						kind = "py_kill"
					}
					jobs = append(jobs, job{fp, idx, failSpec{Job: j, Fail: kind, Repeated: true, AutoRetry: 1 + k}})
					idx++
				}
				// transient faults retried in-process (retry.json: "signal: ..."),
				// with a bystander job kept running (see runFailCase)
				for k, kind := range []string{"kill9", "kill_mrjob", "segv", "kill9"} {
					j := fp.jobs[rng.Intn(len(fp.jobs))]
					if len(multi) > 0 && k%2 == 1 {
						j = multi[rng.Intn(len(multi))]
					}
					jobs = append(jobs, job{fp, idx, failSpec{Job: j, Fail: kind, AutoRetry: 2}})
					idx++
				}
			}
		}
		var mu sync.Mutex
		fired := map[string]int{}
		par := runtime.NumCPU() * 3 / 4
		ch := make(chan job)
		var wg sync.WaitGroup
		for w := 0; w < par; w++ {
			wg.Add(1)
			go func() {
				defer wg.Done()
				for jb := range ch {
					if (jb.fs.Fail == "bad_stage_defs" || jb.fs.Fail == "bad_resource_type") && jb.fp.jobPhase[jb.fs.Job] != "split" {
						continue
					}
					if jb.fs.Fail == "no_outs" && jb.fp.jobPhase[jb.fs.Job] == "split" {
						// A split that exits 0 without _stage_defs is only
						// failed by a heartbeat timeout of many minutes:
						// not decidable within a run budget (see DESIGN.md).
						mu.Lock()
						c.Count("skipped_missing_stage_defs_needs_heartbeat_timeout", 1)
						mu.Unlock()
						continue
					}
					oc := runFailCase(c, jb.fp, jb.idx, jb.fs)
					mu.Lock()
					c.Eval(1)
					if oc.inconclusive != "" {
						c.Inconclusive(oc.inconclusive)
					}
					if oc.bystander != "" {
						c.Count("in_process_retry_cases_with_bystander_running", 1)
					}
					if oc.faultFired {
						c.Distinct(fmt.Sprintf("%d|%v", jb.fp.seed, jb.fs))
						fired[jb.fs.Fail+":"+jb.fp.jobPhase[jb.fs.Job]]++
					}
					c.Sample(map[string]interface{}{"program_seed": jb.fp.seed, "fault": jb.fs, "phase": jb.fp.jobPhase[jb.fs.Job]})
					for _, v := range oc.violations {
						parts := strings.SplitN(v, "|", 2)
						c.Violate("C06:"+parts[0], parts[1], map[string]interface{}{
							"program_seed": jb.fp.seed, "mro": jb.fp.prog.Print(), "fault": jb.fs, "vdrmode": jb.fp.vdr,
						})
					}
					mu.Unlock()
				}
			}()
		}
		for _, jb := range jobs {
			ch <- jb
		}
		close(ch)
		wg.Wait()
		c.Set("faults_fired_by_manifestation_and_phase", fired)
	})
}
