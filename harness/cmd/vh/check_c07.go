package main

import (
	"encoding/json"
	"fmt"
	"math/rand"
	"os"
	"path/filepath"
	"regexp"
	"strconv"
	"strings"
	"time"

	"github.com/martian-lang/martian/martian/syntax"
	"verif/harness/internal/pgen"
	"verif/harness/internal/vf"
	"verif/harness/internal/vmon"
)

// C07: accepted programs are type-safe at run time; ill-typed bindings are rejected.

// validateValue is the harness's own JSON-vs-type validator.
func validateValue(p *pgen.Program, v interface{}, t *pgen.Type, where string) string {
	if v == nil {
		return ""
	}
	switch t.Kind {
	case pgen.KInt:
		n, ok := v.(json.Number)
		if !ok {
			return fmt.Sprintf("%s: %T where int expected", where, v)
		}
		if _, err := strconv.ParseInt(string(n), 10, 64); err != nil {
			if f, err2 := strconv.ParseFloat(string(n), 64); err2 != nil || f != float64(int64(f)) {
				return fmt.Sprintf("%s: %s is not an integer", where, n)
			}
		}
	case pgen.KFloat:
		if _, ok := v.(json.Number); !ok {
			return fmt.Sprintf("%s: %T where float expected", where, v)
		}
	case pgen.KString, pgen.KPath, pgen.KFile, pgen.KUserFile:
		if _, ok := v.(string); !ok {
			return fmt.Sprintf("%s: %T where %s expected", where, v, t)
		}
	case pgen.KBool:
		if _, ok := v.(bool); !ok {
			return fmt.Sprintf("%s: %T where bool expected", where, v)
		}
	case pgen.KMap:
		if _, ok := v.(map[string]interface{}); !ok {
			return fmt.Sprintf("%s: %T where map expected", where, v)
		}
	case pgen.KArray:
		a, ok := v.([]interface{})
		if !ok {
			return fmt.Sprintf("%s: %T where %s expected", where, v, t)
		}
		for i, x := range a {
			if e := validateValue(p, x, t.Elem, fmt.Sprintf("%s[%d]", where, i)); e != "" {
				return e
			}
		}
	case pgen.KTMap:
		m, ok := v.(map[string]interface{})
		if !ok {
			return fmt.Sprintf("%s: %T where %s expected", where, v, t)
		}
		for k, x := range m {
			if e := validateValue(p, x, t.Elem, fmt.Sprintf("%s[%q]", where, k)); e != "" {
				return e
			}
		}
	case pgen.KStruct:
		m, ok := v.(map[string]interface{})
		if !ok {
			return fmt.Sprintf("%s: %T where struct %s expected", where, v, t.Name)
		}
		st := p.Struct(t.Name)
		for _, f := range st.Fields {
			x, ok := m[f.Name]
			if !ok {
				return fmt.Sprintf("%s: struct %s lacks field %s", where, t.Name, f.Name)
			}
			if e := validateValue(p, x, f.Type, where+"."+f.Name); e != "" {
				return e
			}
		}
		for k := range m {
			found := false
			for _, f := range st.Fields {
				if f.Name == k {
					found = true
				}
			}
			if !found {
				return fmt.Sprintf("%s: undeclared field %s delivered for struct %s", where, k, t.Name)
			}
		}
	}
	return ""
}

var typeErrRe = regexp.MustCompile(`(?i)invalid type|Error resolving|cannot be parsed|Expected .* (input|output)|unexpected (array|map|value)|not a valid|resolving forks|cannot be resolved|panic:|bound to a null|could not evaluate`)

func init() {
	flowFailureHandler["C07"] = func(c *vf.Ctx, res *flowResult, sig string) {
		out := res.run.Output
		if typeErrRe.MatchString(out) {
			cls := "other"
			if m := typeErrRe.FindString(out); m != "" {
				cls = strings.ToLower(strings.ReplaceAll(m, " ", "-"))
			}
			line := ""
			lines := strings.Split(out, "\n")
			for i, l := range lines {
				if typeErrRe.MatchString(l) {
					line = l
					// mrp prints the reason on the following line: keep its
					// innermost cause, identifiers blanked
					if strings.Contains(l, "Error resolving") {
						// the reason follows on indented lines, innermost cause last
						detail := ""
						for _, d := range lines[i+1:] {
							if len(d) == 0 || (d[0] != ' ' && d[0] != '\t') || strings.HasPrefix(strings.TrimSpace(d), "at ") {
								break
							}
							detail = strings.TrimSpace(d)
						}
						if k := strings.LastIndex(detail, ": "); k >= 0 {
							detail = detail[k+2:]
						}
						if detail != "" {
							cause := regexp.MustCompile(`[0-9]+`).ReplaceAllString(c07Ident.ReplaceAllString(detail, "#"), "N")
							line = regexp.MustCompile(` for ID\S*`).ReplaceAllString(l, "") + " / " + cause
						}
					}
					break
				}
			}
			sigTail := normalizeFail(basenames(stripIds(line)))
			if strings.Contains(out, "panic:") {
				if _, site := vf.CrashSite(out); site != "" {
					cls, sigTail = "panic", site
				}
			}
			if m := c07ForkRe.FindStringSubmatch(out); m != nil && res.obs != nil {
				if res.model == nil {
					res.model, _ = vmon.Analyze(res.obs, res.prog)
				}
				// the stage call whose bindings could not be resolved
				sigTail += vmon.AliasSuffix(res.prog, res.model, strings.ReplaceAll(m[1], ".", "/"))
			}
			c.Violate("C07:runtime-error:"+cls+":"+sigTail,
				fmt.Sprintf("compiler-accepted program fails at run time under --strict=error with conforming stage outputs: %s", truncate(line, 400)),
				map[string]interface{}{"program_seed": res.fc.Seed, "mro": res.prog.Print(), "mrp_output": tail(out, 3000)})
		} else {
			c.Inconclusive("pipestance failed: " + sig)
		}
	}
	flowExtra["C07"] = func(c *vf.Ctx, res *flowResult) {
		// every delivered argument conforms to the declared parameter type
		for _, f := range res.obs.Forks {
			st := vmonStage(res.prog, f.CallPath)
			if st == nil {
				continue
			}
			args, _ := f.Args.(map[string]interface{})
			for _, in := range st.Ins {
				c.Count("arguments_validated", 1)
				if e := validateValue(res.prog, args[in.Name], in.Type, in.Name); e != "" {
					c.Violate("C07:delivered-value-ill-typed:"+in.Type.String(),
						fmt.Sprintf("stage call %s fork %s received for parameter %s %s a non-conforming value: %s", f.CallPath, f.Dir, in.Type, in.Name, e),
						map[string]interface{}{"program_seed": res.fc.Seed, "mro": res.prog.Print()})
				}
			}
		}
	}
}

var idNumRe = regexp.MustCompile(`[A-Z]+[0-9]+|[a-z_]+[0-9]+`)

var c07ForkRe = regexp.MustCompile(`Error resolving input argument bindings for ID\.psid\.([A-Za-z0-9_.]+?)\.fork`)

var c07Ident = regexp.MustCompile(`\b[A-Z][A-Z0-9_]*[0-9][A-Z0-9_]*\b|\b(GEN|USE|USE2|NOP|CHK|INNER|TOP|LEAF|MID|FLAG|DATA|WORK|SUB|AFTER|M[0-9]|G[0-9]|U[AB])\b`)

func stripIds(s string) string {
	s = regexp.MustCompile(`ID\.[A-Za-z0-9_.]+`).ReplaceAllString(s, "ID")
	s = regexp.MustCompile(`^\S+ \S+ \[[a-z]+\] `).ReplaceAllString(s, "")
	return idNumRe.ReplaceAllString(s, "N")
}

func vmonStage(p *pgen.Program, callPath string) *pgen.Stage {
	parts := strings.Split(callPath, "/")
	pl := p.Pipeline(parts[0])
	for i := 1; i < len(parts) && pl != nil; i++ {
		var call *pgen.Call
		for _, c := range pl.Calls {
			if c.Name() == parts[i] {
				call = c
			}
		}
		if call == nil {
			return nil
		}
		if i == len(parts)-1 {
			return p.Stage(call.Callee)
		}
		pl = p.Pipeline(call.Callee)
	}
	return nil
}

// ---- completeness: ill-typed single-point mutations

type c07Mutation struct {
	Kind     string
	Pipeline string
	Call     string
	Param    string
	Call2    string // a second mutated call right after Call, if any
}

func wrongLit(t *pgen.Type) *pgen.Exp {
	switch t.Kind {
	case pgen.KInt, pgen.KFloat, pgen.KBool:
		return &pgen.Exp{Kind: pgen.EString, S: "ZZMUT"}
	case pgen.KString, pgen.KPath, pgen.KFile, pgen.KUserFile:
		return &pgen.Exp{Kind: pgen.EInt, I: 424242}
	case pgen.KArray:
		return &pgen.Exp{Kind: pgen.EInt, I: 424242}
	case pgen.KTMap, pgen.KMap, pgen.KStruct:
		return &pgen.Exp{Kind: pgen.EArray, Elems: []*pgen.Exp{{Kind: pgen.EInt, I: 424242}}}
	}
	return nil
}

// applyIllTyped mutates one binding of one call in a reachable pipeline.
func applyIllTyped(p *pgen.Program, r *rand.Rand, kind string) *c07Mutation {
	pipes, _ := reachable(p)
	r.Shuffle(len(pipes), func(i, j int) { pipes[i], pipes[j] = pipes[j], pipes[i] })
	if kind == "split-wrong-element-level" {
		// A map call splitting REF (a collection of collections X) into a
		// parameter whose type is X's element type: one level too deep.
		for _, pl := range pipes {
			for _, c := range pl.Calls {
				if !c.Map {
					continue
				}
				ins, _, _, _ := p.Callable(c.Callee)
				for _, b := range c.Binds {
					if !b.Split || (b.Exp.Kind != pgen.ERefCall && b.Exp.Kind != pgen.ERefSelf) {
						continue
					}
					for _, in := range ins {
						if in.Name == b.Id && (in.Type.Kind == pgen.KArray || in.Type.Kind == pgen.KTMap) {
							lang, src := "comp", "/bin/true ZZMUT"
							if len(p.Stages) > 0 {
								lang = p.Stages[0].SrcLang
							}
							st := &pgen.Stage{Name: "ZZMUT", Ins: []pgen.Param{{Name: "x", Type: in.Type.Elem}},
								Outs: []pgen.Param{{Name: "y", Type: pgen.TInt}}, SrcLang: lang, Src: src, File: pl.File}
							p.Stages = append(p.Stages, st)
							pl.Calls = append(pl.Calls, &pgen.Call{Callee: "ZZMUT", Map: true,
								Binds: []pgen.Binding{{Id: "x", Exp: b.Exp, Split: true}}})
							return &c07Mutation{Kind: kind, Pipeline: pl.Name, Call: "ZZMUT", Param: "x"}
						}
					}
				}
			}
		}
		return nil
	}
	if kind == "default-shorthand-narrowing" || kind == "default-explicit-narrowing" {
		// A stage with the legacy unnamed output (`out T,`, i.e. an output
		// called "default") consumed through the shorthand `x = CALL` (or
		// spelled out as CALL.default) by a parameter its type cannot be
		// converted to: the conversions only go one way (int -> float,
		// string / file -> path is not allowed the other way round).
		pairs := [][2]*pgen.Type{{pgen.TFloat, pgen.TInt}, {pgen.ArrayOf(pgen.TFloat), pgen.ArrayOf(pgen.TInt)},
			{pgen.TPath, pgen.TString}, {pgen.TString, pgen.TInt}, {pgen.ArrayOf(pgen.TInt), pgen.TInt}, {pgen.TInt, pgen.ArrayOf(pgen.TInt)}}
		pr := pairs[r.Intn(len(pairs))]
		for _, pl := range pipes {
			lang, src := "comp", "/bin/true ZZMUT"
			if len(p.Stages) > 0 {
				lang = p.Stages[0].SrcLang
			}
			def := &pgen.Stage{Name: "ZZDEF", Outs: []pgen.Param{{Name: "default", Type: pr[0]}}, SrcLang: lang, Src: src, File: pl.File}
			st := &pgen.Stage{Name: "ZZMUT", Ins: []pgen.Param{{Name: "x", Type: pr[1]}},
				Outs: []pgen.Param{{Name: "y", Type: pgen.TInt}}, SrcLang: lang, Src: src, File: pl.File}
			p.Stages = append(p.Stages, def, st)
			ref := &pgen.Exp{Kind: pgen.ERefCall, Id: "ZZDEF"}
			if kind == "default-explicit-narrowing" {
				ref.Path = []string{"default"}
			}
			pl.Calls = append(pl.Calls, &pgen.Call{Callee: "ZZDEF"},
				&pgen.Call{Callee: "ZZMUT", Binds: []pgen.Binding{{Id: "x", Exp: ref}}})
			return &c07Mutation{Kind: kind, Pipeline: pl.Name, Call: "ZZMUT", Param: "x"}
		}
		return nil
	}
	if kind == "mapped-output-level-short" || kind == "mapped-output-level-short-tmap" {
		// Two consumers of a map call's output, declared BEFORE the map call
		// (legal: the compiler sorts calls by dependency), whose parameter has
		// the output's declared type, i.e. one collection level short of what
		// the mapped call yields.
		for _, pl := range pipes {
			for _, c := range pl.Calls {
				if !c.Map {
					continue
				}
				_, outs, _, _ := p.Callable(c.Callee)
				if len(outs) == 0 {
					continue
				}
				o := outs[r.Intn(len(outs))]
				lang, src := "comp", "/bin/true ZZMUT"
				if len(p.Stages) > 0 {
					lang = p.Stages[0].SrcLang
				}
				// the first consumer takes the collection (as an array, or in the
				// -tmap variant as a typed map: whichever does not fit the call's
				// mapping mode is one more ill-typed binding in the same span);
				// the second one is a level short
				wrapped := pgen.ArrayOf(o.Type)
				if kind == "mapped-output-level-short-tmap" {
					if !o.Type.CanBeTMapElem() {
						continue
					}
					wrapped = pgen.TMapOf(o.Type)
				}
				st := &pgen.Stage{Name: "ZZMUT", Ins: []pgen.Param{{Name: "x", Type: o.Type}},
					Outs: []pgen.Param{{Name: "y", Type: pgen.TInt}}, SrcLang: lang, Src: src, File: pl.File}
				stw := &pgen.Stage{Name: "ZZWRAP", Ins: []pgen.Param{{Name: "x", Type: wrapped}},
					Outs: []pgen.Param{{Name: "y", Type: pgen.TInt}}, SrcLang: lang, Src: src, File: pl.File}
				p.Stages = append(p.Stages, st, stw)
				ref := func() *pgen.Exp { return &pgen.Exp{Kind: pgen.ERefCall, Id: c.Name(), Path: []string{o.Name}} }
				pl.Calls = append([]*pgen.Call{
					{Callee: "ZZWRAP", Alias: "ZZMUT1", Binds: []pgen.Binding{{Id: "x", Exp: ref()}}},
					{Callee: "ZZMUT", Alias: "ZZMUT2", Binds: []pgen.Binding{{Id: "x", Exp: ref()}}},
				}, pl.Calls...)
				return &c07Mutation{Kind: kind, Pipeline: pl.Name, Call: "ZZMUT1", Param: "x", Call2: "ZZMUT2"}
			}
		}
		return nil
	}
	for _, pl := range pipes {
		calls := append([]*pgen.Call{}, pl.Calls...)
		r.Shuffle(len(calls), func(i, j int) { calls[i], calls[j] = calls[j], calls[i] })
		for _, c := range calls {
			ins, _, _, _ := p.Callable(c.Callee)
			tOf := map[string]*pgen.Type{}
			for _, in := range ins {
				tOf[in.Name] = in.Type
			}
			for bi := range c.Binds {
				b := &c.Binds[bi]
				t := tOf[b.Id]
				if t == nil {
					continue
				}
				m := &c07Mutation{Kind: kind, Pipeline: pl.Name, Call: c.Name(), Param: b.Id}
				switch kind {
				case "wrong-base-type":
					if b.Split {
						continue
					}
					if w := wrongLit(t); w != nil {
						b.Exp = w
						return m
					}
				case "array-depth-plus":
					if b.Split || b.Exp.Kind == pgen.ENull {
						continue
					}
					if b.Exp.Kind == pgen.ERefCall || b.Exp.Kind == pgen.ERefSelf || t.Kind != pgen.KMap {
						if t.Kind == pgen.KMap {
							continue
						}
						b.Exp = &pgen.Exp{Kind: pgen.EArray, Elems: []*pgen.Exp{b.Exp}}
						// [x] is legal if t is an array of x's type: require t not array
						if t.Kind == pgen.KArray {
							b.Exp = &pgen.Exp{Kind: pgen.EArray, Elems: []*pgen.Exp{{Kind: pgen.EArray, Elems: []*pgen.Exp{b.Exp}}}}
							if t.Elem.Kind == pgen.KArray {
								continue
							}
						}
						if containsOnlyNull(b.Exp) {
							continue
						}
						return m
					}
				case "array-depth-minus":
					if !b.Split && t.Kind == pgen.KArray && t.Elem.Kind != pgen.KMap {
						// scalar literal where an array is expected
						switch t.Elem.Kind {
						case pgen.KInt, pgen.KFloat:
							b.Exp = &pgen.Exp{Kind: pgen.EInt, I: 424242}
						case pgen.KString, pgen.KFile, pgen.KPath, pgen.KUserFile:
							b.Exp = &pgen.Exp{Kind: pgen.EString, S: "ZZMUT"}
						case pgen.KBool:
							b.Exp = &pgen.Exp{Kind: pgen.EBool, B: true}
						default:
							continue
						}
						return m
					}
				case "array-vs-map":
					if b.Split {
						continue
					}
					if t.Kind == pgen.KArray {
						b.Exp = &pgen.Exp{Kind: pgen.EMap, Keys: []string{"zzk"}, Elems: []*pgen.Exp{{Kind: pgen.EInt, I: 1}}}
						return m
					}
					if t.Kind == pgen.KTMap {
						b.Exp = &pgen.Exp{Kind: pgen.EArray, Elems: []*pgen.Exp{{Kind: pgen.EInt, I: 1}}}
						return m
					}
				case "unknown-parameter":
					b.Id = "zz_unknown_param"
					m.Param = b.Id
					return m
				case "struct-missing-field", "struct-extra-field":
					if b.Split || t.Kind != pgen.KStruct || b.Exp.Kind != pgen.EStruct || len(b.Exp.Keys) == 0 {
						continue
					}
					if kind == "struct-missing-field" {
						b.Exp.Keys = b.Exp.Keys[1:]
						b.Exp.Elems = b.Exp.Elems[1:]
						if len(b.Exp.Keys) == 0 {
							continue
						}
					} else {
						b.Exp.Keys = append(b.Exp.Keys, "zz_extra_field")
						b.Exp.Elems = append(b.Exp.Elems, &pgen.Exp{Kind: pgen.EInt, I: 1})
					}
					return m
				case "inconsistent-split":
					if !b.Split || b.Exp.Kind != pgen.EArray {
						continue
					}
					// needs a second literal split of the same call
					for bj := range c.Binds {
						if bj != bi && c.Binds[bj].Split && c.Binds[bj].Exp.Kind == pgen.EArray && len(c.Binds[bj].Exp.Elems) > 0 {
							b.Exp.Elems = append(b.Exp.Elems, b.Exp.Elems[0])
							return m
						}
					}
				case "nonexistent-output":
					if b.Exp.Kind == pgen.ERefCall && len(b.Exp.Path) > 0 {
						b.Exp = &pgen.Exp{Kind: pgen.ERefCall, Id: b.Exp.Id, Path: []string{"zz_nope"}}
						return m
					}
				case "missing-parameter":
					if b.Split && countSplits(c) == 1 {
						continue
					}
					c.Binds = append(c.Binds[:bi:bi], c.Binds[bi+1:]...)
					return m
				}
			}
		}
	}
	return nil
}

func countSplits(c *pgen.Call) int {
	n := 0
	for _, b := range c.Binds {
		if b.Split {
			n++
		}
	}
	return n
}

func containsOnlyNull(e *pgen.Exp) bool {
	if e.Kind == pgen.ENull {
		return true
	}
	if e.Kind == pgen.EArray {
		for _, x := range e.Elems {
			if !containsOnlyNull(x) {
				return false
			}
		}
		return true
	}
	return false
}

var c07Kinds = []string{"wrong-base-type", "array-depth-plus", "array-depth-minus", "array-vs-map", "unknown-parameter",
	"struct-missing-field", "struct-extra-field", "inconsistent-split", "nonexistent-output", "missing-parameter", "split-wrong-element-level", "mapped-output-level-short", "mapped-output-level-short-tmap",
	"default-shorthand-narrowing", "default-explicit-narrowing"}

type c07Input struct {
	Files map[string]string `json:"files"`
}

type c07Result struct {
	Err string `json:"err"`
}

func init() {
	vf.RegisterWorker("c07", func(in []byte) interface{} {
		var inp c07Input
		json.Unmarshal(in, &inp)
		dir, _ := os.MkdirTemp("", "c07")
		defer os.RemoveAll(dir)
		writeFiles(dir, inp.Files)
		_, _, ast, err := syntax.ParseSourceBytes([]byte(inp.Files["main.mro"]), filepath.Join(dir, "main.mro"), []string{dir}, false)
		res := &c07Result{}
		if err != nil {
			res.Err = strings.ReplaceAll(err.Error(), dir+"/", "")
		} else if ast != nil && ast.Call != nil {
			if _, gerr := ast.MakeCallGraph("ID.", ast.Call); gerr != nil {
				res.Err = "call graph: " + strings.ReplaceAll(gerr.Error(), dir+"/", "")
			}
		}
		return res
	})
}

// callSpan finds the line range of a call statement in the printed files.
func callSpan(files map[string]string, pipeline, call string) (file string, lo, hi int) {
	for name, text := range files {
		lines := strings.Split(text, "\n")
		inPipe := false
		for i, l := range lines {
			if strings.HasPrefix(l, "pipeline "+pipeline+"(") {
				inPipe = true
			} else if strings.HasPrefix(l, "pipeline ") || strings.HasPrefix(l, "stage ") || strings.HasPrefix(l, "call ") {
				inPipe = false
			}
			if !inPipe {
				continue
			}
			t := strings.TrimSpace(l)
			if (strings.HasPrefix(t, "call ") || strings.HasPrefix(t, "map call ")) &&
				(strings.HasSuffix(t, " "+call+"(") || strings.HasSuffix(t, " as "+call+"(")) {
				// to the closing line at the same indentation
				ind := len(l) - len(strings.TrimLeft(l, " "))
				for j := i + 1; j < len(lines); j++ {
					lj := lines[j]
					if len(lj)-len(strings.TrimLeft(lj, " ")) == ind && strings.HasPrefix(strings.TrimSpace(lj), ")") {
						// include a following using(...) block
						k := j
						if strings.HasSuffix(strings.TrimSpace(lj), "using (") {
							for k = j + 1; k < len(lines); k++ {
								if strings.TrimSpace(lines[k]) == ")" {
									break
								}
							}
						}
						return name, i + 1, k + 1
					}
				}
			}
		}
	}
	return "", 0, 0
}

var errLocRe = regexp.MustCompile(`([A-Za-z0-9_./-]+\.mro):(\d+)`)

func init() {
	registerFlow("C07", &flowDef{
		rule:   "soundness: compiler-accepted pgen programs over the full type language (builtins, user file types, structs, multi-dimensional arrays, typed maps of arrays, untyped maps) with implicit conversions (int->float, struct->narrower struct, struct->map) composed through projection and map-call dimension changes, run by the real mrp with --strict=error and probes whose outputs conform to their declared types: any run-time binding-resolution / validation error or crash is a violation, and every argument each stage received is checked against the declared parameter type by the harness's own validator. completeness: single-point ill-typed mutations (wrong base type, array depth +-1, array vs map, unknown / missing parameter, missing / extra struct field, inconsistent split literals, reference to a non-existent output) must be rejected by the compiler with an error naming a source position inside the mutated call statement. distinct = (program shape, schedule) resp. (program, mutation); non-trivial = the mutated text differs and the base program compiles.",
		assume: []string{"probe outputs conform to declared output types (bool outputs are never null; other leaves may be null)", "mutation operators are restricted to those that are ill-typed by the language documentation"},
		cases: func(c *vf.Ctx) []*flowCase {
			n := c.Pick(72, 1200)
			var cases []*flowCase
			for i := 0; i < n; i++ {
				cfg := pgen.DefaultConfig()
				cfg.MaxTypeDepth = 3
				cfg.MaxStructs = 4
				cfg.PNarrow = 60
				cfg.PProject = 70
				cfg.PDisabled = 30
				cfg.PMapCall = 45
				cfg.AllowDynamicDisabledInMap = true
				seed := c.Seed*1000003 + 2100000 + int64(i)
				fc := &flowCase{Index: i, Seed: seed, Cfg: cfg, Vdr: "disable", ExtraArg: []string{"--strict=error"},
					Template: tmplFor(i), SlowOne: map[bool]int{true: 400}[tmplFor(i) > 0]}
				if (i/(3*pgen.NTemplates))%2 == 1 {
					// every second round of templates: all run-time collections empty
					fc.Tweak = func(s *pgen.Spec) { s.LenChoices = []int{0} }
				}
				cases = append(cases, fc)
			}
			return cases
		},
		nontrivial: func(r *flowResult) bool { return true },
	})
	// completeness part runs inside the same check after the flow campaign
	orig := checks["C07"]
	register("C07", "exploration", func(c *vf.Ctx) {
		orig.fn(c)
		c07Completeness(c)
	})
}

func c07Completeness(c *vf.Ctx) {
	rng := rand.New(rand.NewSource(c.Seed + 7))
	nProg := c.Pick(150, 8000)
	type meta struct {
		mut   *c07Mutation
		files map[string]string
		seed  int64
	}
	var metas []meta
	var inputs [][]byte
	for i := 0; i < nProg; i++ {
		cfg := pgen.DefaultConfig()
		cfg.MultiFile = true
		cfg.MaxStructs = 4
		cfg.PLiteral = 40
		cfg.PMapCall = 45
		seed := c.Seed*2089 + int64(i)
		for _, kind := range c07Kinds {
			p := pgen.Generate(seed, cfg)
			m := applyIllTyped(p, rng, kind)
			if m == nil {
				continue
			}
			files := p.Print()
			b, _ := json.Marshal(c07Input{Files: files})
			inputs = append(inputs, b)
			metas = append(metas, meta{m, files, seed})
		}
	}
	results := vf.RunBatches(c, "c07", inputs, 150, 60*time.Second, 4096)
	byKind := map[string]int{}
	for i, r := range results {
		m := metas[i]
		if r.Crashed || r.TimedOut || r.Result == nil {
			c.Inconclusive("compile crashed or timed out (C08's subject)")
			continue
		}
		var res c07Result
		json.Unmarshal(r.Result, &res)
		c.Eval(1)
		byKind[m.mut.Kind]++
		c.Distinct(fmt.Sprintf("%d|%v", m.seed, *m.mut))
		replay := map[string]interface{}{"files": m.files, "mutation": m.mut, "error": res.Err}
		if res.Err == "" {
			c.Violate("C07:ill-typed-accepted:"+m.mut.Kind, fmt.Sprintf("ill-typed mutation %v is accepted by the compiler and call-graph resolver", *m.mut), replay)
			continue
		}
		file, lo, hi := callSpan(m.files, m.mut.Pipeline, m.mut.Call)
		if m.mut.Call2 != "" {
			if f2, _, hi2 := callSpan(m.files, m.mut.Pipeline, m.mut.Call2); f2 == file && hi2 > hi {
				hi = hi2
			}
		}
		if file == "" {
			c.Count("mutated_call_not_located_by_harness", 1)
			continue
		}
		locs := errLocRe.FindAllStringSubmatch(res.Err, -1)
		if len(locs) == 0 {
			c.Violate("C07:rejected-without-location:"+m.mut.Kind, fmt.Sprintf("mutation %v is rejected but the error has no source position: %s", *m.mut, truncate(res.Err, 300)), replay)
			continue
		}
		ok := false
		for _, l := range locs {
			n, _ := strconv.Atoi(l[2])
			if strings.HasSuffix(file, filepath.Base(l[1])) && n >= lo && n <= hi {
				ok = true
			}
		}
		if !ok {
			c.Violate("C07:error-not-at-binding:"+m.mut.Kind, fmt.Sprintf("mutation %v (call at %s:%d-%d) is rejected with an error that points elsewhere: %s", *m.mut, file, lo, hi, truncate(res.Err, 400)), replay)
		}
		if i%301 == 0 {
			c.Sample(map[string]interface{}{"mutation": m.mut, "error": truncate(res.Err, 200)})
		}
	}
	c.Set("mutants_by_kind", byKind)
	_ = vmon.StageCallPaths
}
