package main

// C16: MRO call text and invocation JSON convert into each other without
// loss; the per-fork _invocation files mrp records are compiling calls of
// their stage carrying that fork's resolved arguments.

import (
	"bytes"
	"context"
	"encoding/json"
	"fmt"
	"math"
	"math/big"
	"math/rand"
	"os"
	"os/exec"
	"path/filepath"
	"reflect"
	"regexp"
	"runtime"
	"runtime/debug"
	"sort"
	"strconv"
	"strings"
	"sync"
	"time"

	"github.com/martian-lang/martian/martian/core"
	"github.com/martian-lang/martian/martian/syntax"
	"verif/harness/internal/pgen"
	"verif/harness/internal/vf"
	"verif/harness/internal/vrun"
)

// c16Outcome is the verdict on one conversion case.  Cat == "" means clean.
type c16Outcome struct {
	Cat    string // failure category (stable, part of the signature)
	Site   string // panic site
	Detail string // human readable witness
	Src    string // text produced by the conversion, if any
}

func (o c16Outcome) sameAs(cat string) bool { return o.Cat != "" && o.fullCat() == cat }

func (o c16Outcome) fullCat() string {
	if o.Cat == "panic" {
		return "panic:" + o.Site
	}
	return o.Cat
}

var c16FrameRe = regexp.MustCompile(`github\.com/martian-lang/martian/martian/([A-Za-z0-9_./()*]+)\(`)

// c16PanicSite returns the innermost martian function on a recovered stack.
func c16PanicSite(stack []byte) string {
	for _, l := range strings.Split(string(stack), "\n") {
		if m := c16FrameRe.FindStringSubmatch(l); m != nil {
			return m[1]
		}
	}
	return "unknown"
}

func c16Recover(o *c16Outcome) {
	if r := recover(); r != nil {
		*o = c16Outcome{Cat: "panic", Site: c16PanicSite(debug.Stack()), Detail: truncate(fmt.Sprint(r), 300), Src: o.Src}
	}
}

func c16Decode(b []byte) (interface{}, error) {
	var v interface{}
	d := json.NewDecoder(bytes.NewReader(b))
	d.UseNumber()
	if err := d.Decode(&v); err != nil {
		return nil, err
	}
	if d.More() {
		return nil, fmt.Errorf("trailing data")
	}
	return v, nil
}

func c16FloatSyntax(s string) bool { return strings.ContainsAny(s, ".eE") }

func c16Rat(s string) *big.Rat {
	r, ok := new(big.Rat).SetString(s)
	if !ok {
		return nil
	}
	return r
}

// c16NumEq: exact equality as rationals; literals written in float syntax
// are compared at float64 precision (a float argument is a float64).
func c16NumEq(a, b string) bool {
	ra, rb := c16Rat(a), c16Rat(b)
	if ra != nil && rb != nil && ra.Cmp(rb) == 0 {
		return true
	}
	if c16FloatSyntax(a) || c16FloatSyntax(b) {
		fa, ea := strconv.ParseFloat(a, 64)
		fb, eb := strconv.ParseFloat(b, 64)
		return ea == nil && eb == nil && fa == fb
	}
	return false
}

type c16Diff struct {
	What string // number, string, bool, null, length, keys, kind, split
	Path string
	Msg  string
}

func c16Short(v interface{}) string {
	b, _ := json.Marshal(v)
	return truncate(string(b), 120)
}

// c16CmpJSON compares two decoded JSON values.
func c16CmpJSON(want, got interface{}, path string) *c16Diff {
	switch w := want.(type) {
	case nil:
		if got != nil {
			return &c16Diff{"null", path, "want null, got " + c16Short(got)}
		}
	case json.Number:
		g, ok := got.(json.Number)
		if !ok {
			return &c16Diff{"number", path, "want " + string(w) + ", got " + c16Short(got)}
		}
		if !c16NumEq(string(w), string(g)) {
			return &c16Diff{"number", path, "want " + string(w) + ", got " + string(g)}
		}
	case string:
		if g, ok := got.(string); !ok || g != w {
			return &c16Diff{"string", path, fmt.Sprintf("want %q, got %s", truncate(w, 80), c16Short(got))}
		}
	case bool:
		if g, ok := got.(bool); !ok || g != w {
			return &c16Diff{"bool", path, fmt.Sprintf("want %v, got %s", w, c16Short(got))}
		}
	case []interface{}:
		g, ok := got.([]interface{})
		if !ok {
			return &c16Diff{"kind", path, "want array, got " + c16Short(got)}
		}
		if len(g) != len(w) {
			return &c16Diff{"length", path, fmt.Sprintf("want %d elements, got %d", len(w), len(g))}
		}
		for i := range w {
			if d := c16CmpJSON(w[i], g[i], fmt.Sprintf("%s[%d]", path, i)); d != nil {
				return d
			}
		}
	case map[string]interface{}:
		g, ok := got.(map[string]interface{})
		if !ok {
			return &c16Diff{"kind", path, "want object, got " + c16Short(got)}
		}
		for k := range w {
			if _, ok := g[k]; !ok {
				return &c16Diff{"keys", path, fmt.Sprintf("key %q lost", k)}
			}
		}
		for k := range g {
			if _, ok := w[k]; !ok {
				return &c16Diff{"keys", path, fmt.Sprintf("key %q appeared", k)}
			}
		}
		for k := range w {
			if d := c16CmpJSON(w[k], g[k], path+"."+k); d != nil {
				return d
			}
		}
	}
	return nil
}

func c16IsNullExp(e syntax.Exp) bool {
	switch x := e.(type) {
	case nil:
		return true
	case *syntax.NullExp:
		return true
	case *syntax.ArrayExp:
		return x == nil || x.Value == nil
	case *syntax.MapExp:
		return x == nil || x.Value == nil
	}
	return false
}

func c16ExpKind(e syntax.Exp) string {
	if c16IsNullExp(e) {
		return "null"
	}
	switch x := e.(type) {
	case *syntax.IntExp:
		return "int"
	case *syntax.FloatExp:
		return "float"
	case *syntax.StringExp:
		return "string"
	case *syntax.BoolExp:
		return "bool"
	case *syntax.ArrayExp:
		return "array"
	case *syntax.MapExp:
		if x.Kind == syntax.KindStruct {
			return "struct"
		}
		return "map"
	case *syntax.SplitExp:
		return "split"
	case *syntax.RefExp:
		return "ref"
	}
	return fmt.Sprintf("%T", e)
}

func c16ExpNum(e syntax.Exp) (string, bool) {
	switch x := e.(type) {
	case *syntax.IntExp:
		return strconv.FormatInt(x.Value, 10), true
	case *syntax.FloatExp:
		if math.IsInf(x.Value, 0) || math.IsNaN(x.Value) {
			return "NaN", true
		}
		s := strconv.FormatFloat(x.Value, 'e', -1, 64)
		return s, true
	}
	return "", false
}

// c16CmpExp compares an expression of a compiled call (own walker over the
// AST, not martian's JSON encoder) against a decoded JSON value.
func c16CmpExp(e syntax.Exp, want interface{}, path string, nodes *int64) *c16Diff {
	*nodes++
	if c16IsNullExp(e) {
		if want != nil {
			return &c16Diff{"null", path, "value " + c16Short(want) + " became null"}
		}
		return nil
	}
	switch w := want.(type) {
	case nil:
		return &c16Diff{"null", path, "null became " + c16ExpKind(e)}
	case json.Number:
		n, ok := c16ExpNum(e)
		if !ok {
			return &c16Diff{"kind", path, "number " + string(w) + " became " + c16ExpKind(e)}
		}
		if !c16NumEq(string(w), n) {
			return &c16Diff{"number", path, "want " + string(w) + ", call text has " + n}
		}
	case string:
		s, ok := e.(*syntax.StringExp)
		if !ok {
			return &c16Diff{"kind", path, "string became " + c16ExpKind(e)}
		}
		if s.Value != w {
			return &c16Diff{"string", path, fmt.Sprintf("want %q, call text has %q", truncate(w, 80), truncate(s.Value, 80))}
		}
	case bool:
		b, ok := e.(*syntax.BoolExp)
		if !ok {
			return &c16Diff{"kind", path, "bool became " + c16ExpKind(e)}
		}
		if b.Value != w {
			return &c16Diff{"bool", path, fmt.Sprintf("want %v", w)}
		}
	case []interface{}:
		a, ok := e.(*syntax.ArrayExp)
		if !ok {
			return &c16Diff{"kind", path, "array became " + c16ExpKind(e)}
		}
		if len(a.Value) != len(w) {
			return &c16Diff{"length", path, fmt.Sprintf("want %d elements, call text has %d", len(w), len(a.Value))}
		}
		for i := range w {
			if d := c16CmpExp(a.Value[i], w[i], fmt.Sprintf("%s[%d]", path, i), nodes); d != nil {
				return d
			}
		}
	case map[string]interface{}:
		m, ok := e.(*syntax.MapExp)
		if !ok {
			return &c16Diff{"kind", path, "object became " + c16ExpKind(e)}
		}
		for k := range w {
			if _, ok := m.Value[k]; !ok {
				return &c16Diff{"keys", path, fmt.Sprintf("key %q lost", k)}
			}
		}
		for k := range m.Value {
			if _, ok := w[k]; !ok {
				return &c16Diff{"keys", path, fmt.Sprintf("key %q appeared", k)}
			}
		}
		for k := range w {
			if d := c16CmpExp(m.Value[k], w[k], path+"."+k, nodes); d != nil {
				return d
			}
		}
	}
	return nil
}

// c16CmpExp2 compares two expression trees of compiled calls.
func c16CmpExp2(a, b syntax.Exp, path string, nodes *int64) *c16Diff {
	*nodes++
	ka, kb := c16ExpKind(a), c16ExpKind(b)
	if ka == "null" || kb == "null" {
		if ka != kb {
			return &c16Diff{ka, path, ka + " became " + kb}
		}
		return nil
	}
	if na, ok := c16ExpNum(a); ok {
		nb, ok := c16ExpNum(b)
		if !ok {
			return &c16Diff{ka, path, "number became " + kb}
		}
		if !c16NumEq(na, nb) {
			return &c16Diff{ka, path, na + " became " + nb}
		}
		return nil
	}
	switch x := a.(type) {
	case *syntax.StringExp:
		y, ok := b.(*syntax.StringExp)
		if !ok || x.Value != y.Value {
			return &c16Diff{ka, path, fmt.Sprintf("%q became %s %s", truncate(x.Value, 80), kb, truncate(b.GoString(), 80))}
		}
	case *syntax.BoolExp:
		y, ok := b.(*syntax.BoolExp)
		if !ok || x.Value != y.Value {
			return &c16Diff{ka, path, "bool became " + b.GoString()}
		}
	case *syntax.ArrayExp:
		y, ok := b.(*syntax.ArrayExp)
		if !ok {
			return &c16Diff{ka, path, "array became " + kb}
		}
		if len(x.Value) != len(y.Value) {
			return &c16Diff{ka, path, fmt.Sprintf("%d elements became %d", len(x.Value), len(y.Value))}
		}
		for i := range x.Value {
			if d := c16CmpExp2(x.Value[i], y.Value[i], fmt.Sprintf("%s[%d]", path, i), nodes); d != nil {
				return d
			}
		}
	case *syntax.MapExp:
		y, ok := b.(*syntax.MapExp)
		if !ok {
			return &c16Diff{ka, path, ka + " became " + kb}
		}
		// struct literal vs map literal is surface syntax: not compared.
		for k := range x.Value {
			if _, ok := y.Value[k]; !ok {
				return &c16Diff{ka, path, fmt.Sprintf("key %q lost", k)}
			}
		}
		for k := range y.Value {
			if _, ok := x.Value[k]; !ok {
				return &c16Diff{ka, path, fmt.Sprintf("key %q appeared", k)}
			}
		}
		for k := range x.Value {
			if d := c16CmpExp2(x.Value[k], y.Value[k], path+"."+k, nodes); d != nil {
				return d
			}
		}
	case *syntax.SplitExp:
		y, ok := b.(*syntax.SplitExp)
		if !ok {
			return &c16Diff{"split", path, "split became " + kb}
		}
		return c16CmpExp2(x.Value, y.Value, path, nodes)
	default:
		return &c16Diff{ka, path, "unexpected expression " + ka}
	}
	return nil
}

type c16Stats struct {
	nodes int64 // expression / JSON nodes compared
}

func c16CallSrcPath(d *c16Defs) string { return d.Dir + "-call/call.mro" }

// c16CheckCallable: the compiled call must name the callable of the case,
// defined in the file the generator put it in.
func c16CheckCallable(ast *syntax.Ast, cs *c16Case) string {
	if ast.Call == nil {
		return "no call statement"
	}
	if ast.Call.DecId != cs.C.Name {
		return fmt.Sprintf("calls %s, want %s", ast.Call.DecId, cs.C.Name)
	}
	if ast.Callables == nil || ast.Callables.Table[cs.C.Name] == nil {
		return "callable not in the compiled table"
	}
	cl := ast.Callables.Table[cs.C.Name]
	_, isPipe := cl.(*syntax.Pipeline)
	if isPipe != cs.C.Pipeline {
		return "stage/pipeline confusion"
	}
	if f := cl.File(); f == nil || f.FullPath != filepath.Join(cs.D.Dir, cs.C.File) {
		return "callable resolved to another file"
	}
	return ""
}

func c16Expected(cs *c16Case) ([]interface{}, error) {
	out := make([]interface{}, len(cs.Args))
	for i, a := range cs.Args {
		if a == nil {
			continue
		}
		var sb strings.Builder
		a.json(&sb, false)
		v, err := c16Decode([]byte(sb.String()))
		if err != nil {
			return nil, fmt.Errorf("%s: %v", sb.String(), err)
		}
		out[i] = v
	}
	return out, nil
}

// c16CheckData compares invocation data (made by martian from call text)
// with the case.
func c16CheckData(inv *core.InvocationData, cs *c16Case, want []interface{}, st *c16Stats) (string, string) {
	if inv == nil {
		return "no-data", "nil invocation data"
	}
	if inv.Call != cs.C.Name {
		return "callable-differs", fmt.Sprintf("call %q, want %q", inv.Call, cs.C.Name)
	}
	inc := inv.Include
	if !filepath.IsAbs(inc) {
		inc = filepath.Join(cs.D.Dir, inc)
	}
	if inc != filepath.Join(cs.D.Dir, cs.C.File) {
		return "include-differs", fmt.Sprintf("mro_file %q, callable is defined in %q", inv.Include, cs.C.File)
	}
	names := map[string]bool{}
	for i, p := range cs.C.Ins {
		names[p.Name] = true
		raw, ok := inv.Args[p.Name]
		if !ok {
			return "binding-missing", "argument " + p.Name + " missing from the invocation data"
		}
		got, err := c16Decode(raw)
		if err != nil {
			return "invalid-json", fmt.Sprintf("argument %s is not valid JSON: %v: %s", p.Name, err, truncate(string(raw), 200))
		}
		if cs.Split[i] {
			m, ok := got.(map[string]interface{})
			if !ok {
				return "split-lost", "split argument " + p.Name + " is not a {\"split\": ...} object: " + c16Short(got)
			}
			inner, ok := m["split"]
			if !ok {
				return "split-lost", "split argument " + p.Name + " has no \"split\" member: " + c16Short(got)
			}
			got = inner
		}
		if d := c16CmpJSON(want[i], got, p.Name); d != nil {
			return d.What + "-differs", d.Path + ": " + d.Msg
		}
	}
	for k := range inv.Args {
		if !names[k] {
			return "binding-extra", "unknown argument " + k
		}
	}
	gotSplit := map[string]bool{}
	for _, s := range inv.SplitArgs {
		gotSplit[s] = true
	}
	for i, p := range cs.C.Ins {
		if cs.Split[i] && !gotSplit[p.Name] {
			return "split-lost", "argument " + p.Name + " no longer listed in splitargs"
		}
		if !cs.Split[i] && gotSplit[p.Name] {
			return "split-gained", "argument " + p.Name + " listed in splitargs"
		}
	}
	if len(inv.SweepArgs) > 0 {
		return "split-gained", "sweepargs set"
	}
	return "", ""
}

// c16CheckAst compares the compiled call statement with the case (own AST
// walker).
func c16CheckAst(ast *syntax.Ast, cs *c16Case, want []interface{}, st *c16Stats) (string, string) {
	if msg := c16CheckCallable(ast, cs); msg != "" {
		return "callable-differs", msg
	}
	binds := map[string]*syntax.BindStm{}
	for _, b := range ast.Call.Bindings.List {
		binds[b.Id] = b
	}
	anySplit := false
	for i, p := range cs.C.Ins {
		b := binds[p.Name]
		if b == nil {
			return "binding-missing", "no binding for " + p.Name
		}
		e := b.Exp
		s, isSplit := e.(*syntax.SplitExp)
		if isSplit {
			e = s.Value
			anySplit = true
		}
		if cs.Split[i] && !isSplit {
			return "split-lost", "binding " + p.Name + " is not split in the call text"
		}
		if !cs.Split[i] && isSplit {
			return "split-gained", "binding " + p.Name + " is split in the call text"
		}
		if d := c16CmpExp(e, want[i], p.Name, &st.nodes); d != nil {
			return d.What + "-differs", d.Path + ": " + d.Msg
		}
	}
	if len(binds) != len(cs.C.Ins) {
		return "binding-extra", "call text binds more than the parameters"
	}
	if mapped := ast.Call.CallMode() != syntax.ModeSingleCall; mapped != anySplit {
		return "split-lost", fmt.Sprintf("map call = %v but split bindings = %v", mapped, anySplit)
	}
	return "", ""
}

var c16NonWord = regexp.MustCompile(`[^a-z]+`)

// c16ErrTail: the innermost reason of a compiler error, without values.
func c16ErrTail(err error) string {
	// the innermost cause is on the last line that is not a position
	lines := strings.Split(err.Error(), "\n")
	line := lines[0]
	for i := len(lines) - 1; i > 0 && !strings.HasPrefix(lines[0], "MRO ParseError"); i-- {
		// (a parse error says what it is on its first line; the lines below
		// quote the source and point at the column)
		l := strings.TrimSpace(lines[i])
		if l != "" && !strings.HasPrefix(l, "at ") && !strings.HasPrefix(l, "included from") {
			line = l
			break
		}
	}
	segs := strings.Split(line, ": ")
	t := strings.ToLower(segs[len(segs)-1])
	if i := strings.IndexAny(t, "'\"{["); i >= 0 {
		t = t[:i]
	}
	t = strings.Trim(c16NonWord.ReplaceAllString(t, "-"), "-")
	return truncate(t, 60)
}

func c16ErrClass(err error) string {
	s := err.Error()
	if strings.HasPrefix(s, "MRO ") {
		s = strings.TrimPrefix(s, "MRO ")
		if i := strings.IndexAny(s, ": \n"); i > 0 {
			return s[:i]
		}
	}
	if strings.HasPrefix(s, "json: ") {
		return "json-error"
	}
	return "error"
}

// c16EvalJSON: invocation JSON -> BuildCallSource -> compile -> (own walker,
// InvocationDataFromSource, BuildDataForAst) -> equal to the input.
func c16EvalJSON(cs *c16Case, st *c16Stats) (out c16Outcome) {
	defer c16Recover(&out)
	paths := cs.D.mroPaths()
	want, err := c16Expected(cs)
	if err != nil {
		return c16Outcome{Cat: "generator-bad-json", Detail: err.Error()}
	}
	var inv core.InvocationData
	dec := json.NewDecoder(strings.NewReader(cs.jsonText()))
	dec.UseNumber()
	if err := dec.Decode(&inv); err != nil {
		return c16Outcome{Cat: "generator-bad-json", Detail: err.Error()}
	}
	src, err := inv.BuildCallSource(paths)
	if err != nil {
		return c16Outcome{Cat: "rejected", Detail: "BuildCallSource: " + truncate(err.Error(), 300)}
	}
	out.Src = src
	if os.Getenv("VERIF_C16_TRACE") != "" && cs.D.Layout == 4 {
		fmt.Fprintf(os.Stderr, "C16TRACE layout4 paths=%v first=%q\n", paths, strings.SplitN(src, "\n", 2)[0])
	}
	_, _, ast, err := syntax.ParseSourceBytes([]byte(src), c16CallSrcPath(cs.D), paths, false)
	if err != nil {
		return c16Outcome{Cat: "not-compiling", Detail: "generated call text does not compile: " + truncate(err.Error(), 300), Src: src}
	}
	if cat, msg := c16CheckAst(ast, cs, want, st); cat != "" {
		return c16Outcome{Cat: cat, Detail: msg, Src: src}
	}
	inv2, err := core.InvocationDataFromSource([]byte(src), paths)
	if err != nil {
		return c16Outcome{Cat: "reverse-error", Detail: "InvocationDataFromSource: " + truncate(err.Error(), 300), Src: src}
	}
	if cat, msg := c16CheckData(inv2, cs, want, st); cat != "" {
		return c16Outcome{Cat: cat + "(reverse)", Detail: msg, Src: src}
	}
	inv3, err := core.BuildDataForAst(ast)
	if err != nil {
		return c16Outcome{Cat: "reverse-error", Detail: "BuildDataForAst: " + truncate(err.Error(), 300), Src: src}
	}
	if cat, msg := c16CheckData(inv3, cs, want, st); cat != "" {
		return c16Outcome{Cat: cat + "(reverse-compiled)", Detail: msg, Src: src}
	}
	return out
}

// c16EncodeLikeMrg encodes invocation data the way `mrg --reverse` prints it.
func c16EncodeLikeMrg(inv *core.InvocationData) ([]byte, error) {
	var buf bytes.Buffer
	enc := json.NewEncoder(&buf)
	enc.SetEscapeHTML(false)
	enc.SetIndent("", "  ")
	err := enc.Encode(inv)
	return buf.Bytes(), err
}

// c16EvalMRO: call text -> invocation JSON -> call text; both texts are
// compiled and the call statements compared with the own walker.
func c16EvalMRO(cs *c16Case, st *c16Stats) (out c16Outcome) {
	defer c16Recover(&out)
	paths := cs.D.mroPaths()
	text1 := cs.mroText()
	_, _, ast1, err := syntax.ParseSourceBytes([]byte(text1), c16CallSrcPath(cs.D), paths, false)
	if err != nil {
		return c16Outcome{Cat: "generator-rejected", Detail: truncate(err.Error(), 2500)}
	}
	if msg := c16CheckCallable(ast1, cs); msg != "" {
		return c16Outcome{Cat: "generator-rejected", Detail: msg}
	}
	var inv *core.InvocationData
	if cs.Compiled {
		inv, err = core.BuildDataForAst(ast1)
	} else {
		inv, err = core.InvocationDataFromSource([]byte(text1), paths)
	}
	if err != nil {
		return c16Outcome{Cat: "to-json-error", Detail: truncate(err.Error(), 300)}
	}
	js, err := c16EncodeLikeMrg(inv)
	if err != nil {
		return c16Outcome{Cat: "invalid-json", Detail: "encoding the invocation data: " + truncate(err.Error(), 300)}
	}
	out.Src = string(js)
	var inv2 core.InvocationData
	dec := json.NewDecoder(bytes.NewReader(js))
	dec.UseNumber()
	if err := dec.Decode(&inv2); err != nil {
		return c16Outcome{Cat: "invalid-json", Detail: "invocation JSON does not decode: " + truncate(err.Error(), 300), Src: string(js)}
	}
	if inv2.Call != cs.C.Name {
		return c16Outcome{Cat: "callable-differs", Detail: "call " + inv2.Call, Src: string(js)}
	}
	text2, err := inv2.BuildCallSource(paths)
	if err != nil {
		return c16Outcome{Cat: "rejected", Detail: "BuildCallSource on the JSON made from the call text: " + truncate(err.Error(), 300), Src: string(js)}
	}
	out.Src = string(js) + "\n---- text after the round trip:\n" + text2
	_, _, ast2, err := syntax.ParseSourceBytes([]byte(text2), c16CallSrcPath(cs.D), paths, false)
	if err != nil {
		return c16Outcome{Cat: "not-compiling", Detail: "call text after the round trip does not compile: " + truncate(err.Error(), 300), Src: out.Src}
	}
	if msg := c16CheckCallable(ast2, cs); msg != "" {
		return c16Outcome{Cat: "callable-differs", Detail: msg, Src: out.Src}
	}
	b1 := map[string]*syntax.BindStm{}
	for _, b := range ast1.Call.Bindings.List {
		b1[b.Id] = b
	}
	if len(ast2.Call.Bindings.List) != len(b1) {
		return c16Outcome{Cat: "binding-missing", Detail: fmt.Sprintf("%d bindings became %d", len(b1), len(ast2.Call.Bindings.List)), Src: out.Src}
	}
	for _, b := range ast2.Call.Bindings.List {
		a := b1[b.Id]
		if a == nil {
			return c16Outcome{Cat: "binding-extra", Detail: "binding " + b.Id + " appeared", Src: out.Src}
		}
		_, sa := a.Exp.(*syntax.SplitExp)
		_, sb := b.Exp.(*syntax.SplitExp)
		if sa && !sb {
			return c16Outcome{Cat: "split-lost", Detail: "binding " + b.Id + " no longer split", Src: out.Src}
		}
		if !sa && sb {
			return c16Outcome{Cat: "split-gained", Detail: "binding " + b.Id + " became split", Src: out.Src}
		}
		if d := c16CmpExp2(a.Exp, b.Exp, b.Id, &st.nodes); d != nil {
			return c16Outcome{Cat: d.What + "-differs", Detail: d.Path + ": " + d.Msg, Src: out.Src}
		}
	}
	if m1, m2 := ast1.Call.CallMode(), ast2.Call.CallMode(); m1 != m2 {
		return c16Outcome{Cat: "split-lost", Detail: fmt.Sprintf("call mode %v became %v", m1, m2), Src: out.Src}
	}
	return out
}

// ---------------------------------------------------------------------
// Campaign

type c16Campaign struct {
	c        *vf.Ctx
	mu       sync.Mutex
	tally    map[string]int64
	preSeen  map[string]int
	outcomes map[string]int64
	st       c16Stats
}

func (cp *c16Campaign) count(k string, n int64) {
	cp.mu.Lock()
	cp.tally[k] += n
	cp.mu.Unlock()
}

func c16DefFiles(d *c16Defs) map[string]string { return d.Files }

// report attributes a failing case to single arguments, shrinks each failing
// argument to a minimal witness and reports one violation per defect class.
func (cp *c16Campaign) report(dir string, cs *c16Case, whole c16Outcome, eval func(*c16Case, *c16Stats) c16Outcome) {
	c := cp.c
	var st c16Stats
	ev := func(x *c16Case) c16Outcome { return eval(x, &st) }
	text := func(x *c16Case) string {
		if dir == "json-mro-json" {
			return x.jsonText()
		}
		return x.mroText()
	}
	// Does the call fail whatever the arguments are?
	bare := cs.clone()
	for j := range bare.Args {
		bare.Args[j] = nil
		bare.Split[j] = false
	}
	bare.SplitMode = 0
	if bo := ev(bare); bo.sameAs(whole.fullCat()) {
		sig := "C16:" + dir + ":call:" + bo.Cat
		if bo.Cat == "panic" {
			sig = "C16:panic:" + bo.Site
		}
		lookup := "with mro_file"
		if dir == "json-mro-json" && !bare.Include {
			if withInc := bare.clone(); cs.D.NoIncludeOK {
				withInc.Include = true
				if o2 := ev(withInc); !o2.sameAs(bo.fullCat()) {
					sig += ":no-mro_file"
					lookup = "without mro_file"
				}
			}
		}
		c.Violate(sig, fmt.Sprintf("%s fails for the call itself, all arguments null (%s, layout %d, pipeline=%v): %s: %s; input: %s", dir, lookup,
			cs.D.Layout, cs.C.Pipeline, bo.fullCat(), bo.Detail, truncate(text(bare), 400)),
			map[string]interface{}{"direction": dir, "defs": c16DefFiles(cs.D), "mropath_layout": cs.D.Layout, "input": text(bare),
				"outcome": bo, "original_input": text(cs)})
		return
	}
	attributed := false
	for i := range cs.C.Ins {
		if cs.Args[i] == nil {
			continue
		}
		one := cs.single(i)
		o := ev(one)
		if o.Cat == "" || strings.HasPrefix(o.Cat, "generator-") {
			continue
		}
		attributed = true
		// cheap pre-signature to bound the shrinking work on frequent defects
		tl := map[string]int64{}
		one.Args[i].tally(tl)
		var tagSet []string
		for k := range tl {
			if !strings.HasPrefix(k, "values_") && !strings.HasSuffix(k, ":plain") && !strings.HasSuffix(k, ":small") {
				tagSet = append(tagSet, k)
			}
		}
		sort.Strings(tagSet)
		pre := vf.Hash(dir, o.fullCat(), cs.C.Ins[i].T.class(), fmt.Sprint(one.SplitMode, one.Include), strings.Join(tagSet, ","))
		cp.mu.Lock()
		cp.preSeen[pre]++
		seen := cp.preSeen[pre]
		cp.mu.Unlock()
		if seen > 2 {
			cp.count("failing_arguments_same_as_already_reported", 1)
			continue
		}
		min, evals := c16Shrink(one, i, o.fullCat(), ev)
		cp.count("shrink_evaluations", int64(evals))
		mo := ev(min)
		class, tags := c16Describe(min, i, dir == "json-mro-json")
		sig := "C16:" + dir + ":" + class + ":" + mo.Cat
		if mo.Cat == "panic" {
			sig = "C16:panic:" + mo.Site
		} else if len(tags) > 0 {
			sig += ":" + strings.Join(tags, "+")
		}
		what := fmt.Sprintf("%s of parameter `%s %s` fails (%s): %s; minimal input: %s", dir, cs.C.Ins[i].T, cs.C.Ins[i].Name,
			mo.fullCat(), mo.Detail, truncate(text(min), 500))
		c.Violate(sig, what, map[string]interface{}{
			"direction": dir, "defs": c16DefFiles(cs.D), "mropath_layout": cs.D.Layout,
			"minimal_input": text(min), "minimal_outcome": mo, "original_input": text(cs), "original_outcome": whole,
			"parameter": cs.C.Ins[i].Name, "parameter_type": cs.C.Ins[i].T.String(), "tags": tags,
		})
	}
	if !attributed {
		sig := "C16:" + dir + ":multi-arg:" + whole.Cat
		if whole.Cat == "panic" {
			sig = "C16:panic:" + whole.Site
		}
		if len(cs.C.Ins) == 0 || !cs.nontrivial() {
			sig = "C16:" + dir + ":no-args:" + whole.Cat
		}
		c.Violate(sig, fmt.Sprintf("%s fails only with the arguments together (%s): %s; input: %s", dir, whole.fullCat(), whole.Detail,
			truncate(text(cs), 600)), map[string]interface{}{"direction": dir, "defs": c16DefFiles(cs.D), "input": text(cs), "outcome": whole})
	}
	cp.mu.Lock()
	cp.st.nodes += st.nodes
	cp.mu.Unlock()
}

type c16MrgJob struct {
	dir   string // forward | reverse
	cs    *c16Case
	input string
}

func c16RunMrg(c *vf.Ctx, mropath string, reverse bool, stdin string) (exit int, stdout, stderr string, timedOut bool) {
	ctx, cancel := context.WithTimeout(context.Background(), 120*time.Second)
	defer cancel()
	args := []string{}
	if reverse {
		args = append(args, "--reverse")
	}
	cmd := exec.CommandContext(ctx, filepath.Join(c.BuildDir, "plain", "bin", "mrg"), args...)
	var env []string
	for _, e := range os.Environ() {
		if strings.HasPrefix(e, "MROPATH=") || strings.HasPrefix(e, "VERIF_") || strings.HasPrefix(e, "MROFLAGS=") {
			continue
		}
		env = append(env, e)
	}
	cmd.Env = append(env, "MROPATH="+mropath)
	cmd.Dir = c.WorkDir
	cmd.Stdin = strings.NewReader(stdin)
	var so, se bytes.Buffer
	cmd.Stdout, cmd.Stderr = &so, &se
	err := cmd.Run()
	if ctx.Err() != nil {
		return -1, "", "", true
	}
	if err != nil {
		if ee, ok := err.(*exec.ExitError); ok {
			return ee.ExitCode(), so.String(), se.String(), false
		}
		return -1, so.String(), err.Error(), false
	}
	return 0, so.String(), se.String(), false
}

// mrgCheck: the mrg binary must agree with the API on the same input.
func (cp *c16Campaign) mrgCheck(j c16MrgJob) {
	c := cp.c
	paths := j.cs.D.mroPaths()
	c.Eval(1)
	replay := map[string]interface{}{"defs": c16DefFiles(j.cs.D), "stdin": j.input, "direction": j.dir}
	if j.dir == "forward" {
		var api c16Outcome
		var src string
		func() {
			defer c16Recover(&api)
			var inv core.InvocationData
			dec := json.NewDecoder(strings.NewReader(j.input))
			dec.UseNumber()
			if err := dec.Decode(&inv); err != nil {
				api.Cat = "rejected"
				return
			}
			s, err := inv.BuildCallSource(paths)
			if err != nil {
				api.Cat = "rejected"
				api.Detail = err.Error()
				return
			}
			src = s
		}()
		exit, so, se, to := c16RunMrg(c, strings.Join(j.cs.D.mroPaths(), ":"), false, j.input)
		if to {
			c.Inconclusive("mrg watchdog")
			return
		}
		cp.count("mrg_forward_runs", 1)
		replay["mrg_exit"], replay["mrg_stdout"], replay["mrg_stderr"], replay["api"] = exit, so, truncate(se, 1500), api
		switch {
		case api.Cat == "" && exit != 0, api.Cat != "" && exit == 0:
			c.Violate("C16:mrg-disagrees:forward:status", fmt.Sprintf("mrg exit %d but API outcome %q on %s", exit, api.fullCat(), truncate(j.input, 300)), replay)
		case api.Cat == "" && so != src:
			c.Violate("C16:mrg-disagrees:forward:output", "mrg prints different call text than BuildCallSource for "+truncate(j.input, 300), replay)
		case api.Cat == "":
			cp.count("mrg_forward_identical_text", 1)
		default:
			cp.count("mrg_forward_both_fail", 1)
		}
		return
	}
	var api c16Outcome
	var inv *core.InvocationData
	func() {
		defer c16Recover(&api)
		v, err := core.InvocationDataFromSource([]byte(j.input), paths)
		if err != nil {
			api.Cat = "rejected"
			api.Detail = err.Error()
			return
		}
		inv = v
	}()
	exit, so, se, to := c16RunMrg(c, strings.Join(j.cs.D.mroPaths(), ":"), true, j.input)
	if to {
		c.Inconclusive("mrg watchdog")
		return
	}
	cp.count("mrg_reverse_runs", 1)
	replay["mrg_exit"], replay["mrg_stdout"], replay["mrg_stderr"], replay["api"] = exit, so, truncate(se, 1500), api
	switch {
	case api.Cat == "" && exit != 0, api.Cat != "" && exit == 0:
		c.Violate("C16:mrg-disagrees:reverse:status", fmt.Sprintf("mrg --reverse exit %d but API outcome %q on %s", exit, api.fullCat(), truncate(j.input, 300)), replay)
	case api.Cat == "":
		a, _ := json.Marshal(inv)
		av, aerr := c16Decode(a)
		mv, merr := c16Decode([]byte(so))
		if aerr != nil || merr != nil || !reflect.DeepEqual(av, mv) {
			c.Violate("C16:mrg-disagrees:reverse:output", "mrg --reverse prints different invocation data than InvocationDataFromSource for "+truncate(j.input, 300), replay)
		} else {
			cp.count("mrg_reverse_identical_data", 1)
		}
	default:
		cp.count("mrg_reverse_both_fail", 1)
	}
}

func init() {
	register("C16", "exploration", func(c *vf.Ctx) {
		c.SetRule("(1) own generator: definition sets (structs, file types, stages and pipelines over int/float/string/bool/path/file/user file/untyped map/struct leaves with inner array dims, typed map, outer array dims; 4 file layouts incl. types in an included file, callables in a sub directory, a wrapper include) and argument values of the declared types (nulls, ints at +-2^53 and int64 limits, floats with exponents / float64 limits / integer literals beyond int64, strings with every JSON escape, surrogate pairs, raw non-ASCII and MRO look-alikes, hostile map keys, nested empties), any subset of arguments split over arrays or typed maps, arguments omitted, with and without mro_file. JSON -> InvocationData.BuildCallSource -> syntax.ParseSourceBytes -> own AST walker + InvocationDataFromSource + BuildDataForAst must equal the input (numbers as rationals, float syntax at float64 precision; key sets; positions; split set; callable and its file). MRO text -> InvocationDataFromSource|BuildDataForAst -> JSON encoded as mrg does -> BuildCallSource: both texts compiled, call statements compared by an own walker. A failing case is re-run per single argument and shrunk to a minimal witness; the signature is (direction, type class of the deepest non-null node, failure category, value/key/split/lookup classes left in the witness). (2) a sample of both directions is repeated through the mrg binary: exit status and output must agree with the API. (3) pgen programs (hostile strings, big ints, multi-file) run under the real mrp with the probe stage; every <call>/fork*/_invocation must compile against the MROPATH as a call of that callable with the call's name, and for stages its argument values (own AST walker) must equal split/_args of that fork minus __ keys. distinct = structural key (direction, parameter type skeletons, value/key class shape, split mode, lookup mode) resp. (program shape, fork path); non-trivial = at least one non-null argument.")
		c.Assume("a split argument is written {\"split\": <collection>} in the invocation JSON and listed in splitargs, as BuildDataForAst emits it; extra members (call, mode, source) beside \"split\" are ignored")
		c.Assume("struct literal vs map literal and int vs float literal of equal value are surface syntax, not part of a call's meaning")
		c.Assume("an explicit error from BuildCallSource on a legal value of the declared type counts as loss (category 'rejected'), as does call text that does not compile")
		cp := &c16Campaign{c: c, tally: map[string]int64{}, preSeen: map[string]int{}, outcomes: map[string]int64{}}
		nDefs := c.Pick(40, 1000)
		perJSON := c.Pick(300, 1200)
		perMRO := c.Pick(150, 600)
		mrgEvery := c.Pick(12, 60)
		units := make(chan int, nDefs)
		for i := 0; i < nDefs; i++ {
			units <- i
		}
		close(units)
		var mrgJobs []c16MrgJob
		var wg sync.WaitGroup
		t0 := time.Now()
		for w := 0; w < runtime.NumCPU(); w++ {
			wg.Add(1)
			go func() {
				defer wg.Done()
				for i := range units {
					r := rand.New(rand.NewSource(c.Seed*7919 + int64(i)))
					d, err := c16GenDefs(r, filepath.Join(c.WorkDir, fmt.Sprintf("defs-%d", i)), i)
					if err != nil {
						c.Inconclusive("cannot write definition set: " + err.Error())
						continue
					}
					// the definition set itself must compile
					probe := fmt.Sprintf("@include \"%s\"\n\nfiletype probeft;\n", d.Callables[0].File)
					if _, _, _, err := syntax.ParseSourceBytes([]byte(probe), c16CallSrcPath(d), d.mroPaths(), false); err != nil {
						cp.count("definition_sets_rejected_by_compiler", 1)
						c.Set("definition_set_rejection_example", truncate(err.Error(), 300))
						continue
					}
					cp.count("definition_sets", 1)
					cp.count(fmt.Sprintf("definition_sets_layout_%d", d.Layout), 1)
					local := map[string]int64{}
					var st c16Stats
					for k := 0; k < perJSON+perMRO; k++ {
						mro := k >= perJSON
						cs := c16GenCase(r, d, mro)
						dir, eval := "json-mro-json", c16EvalJSON
						if mro {
							dir, eval = "mro-json-mro", c16EvalMRO
						}
						o := eval(cs, &st)
						if strings.HasPrefix(o.Cat, "generator-") {
							local["cases_"+dir+"_"+o.Cat]++
							c.Set("generator_rejection_example_"+dir, map[string]string{"input": truncate(cs.mroText(), 600), "error": truncate(o.Detail, 1500)})
							continue
						}
						c.Eval(1)
						local["cases_"+dir]++
						if cs.nontrivial() {
							c.Distinct(cs.key(dir))
						}
						for _, a := range cs.Args {
							if a != nil {
								a.tally(local)
							}
						}
						switch cs.SplitMode {
						case 'a':
							local["cases_split_over_arrays"]++
						case 'm':
							local["cases_split_over_typed_maps"]++
						}
						if !cs.Include {
							local["cases_without_mro_file"]++
						}
						if cs.C.Pipeline {
							local["cases_pipeline_callable"]++
						} else {
							local["cases_stage_callable"]++
						}
						if o.Cat == "" {
							local["cases_"+dir+"_clean"]++
						} else {
							local["cases_"+dir+"_failing"]++
							cp.mu.Lock()
							cp.outcomes[dir+":"+o.fullCat()]++
							cp.mu.Unlock()
							cp.report(dir, cs, o, eval)
						}
						if k%mrgEvery == 0 {
							j := c16MrgJob{dir: "forward", cs: cs, input: cs.jsonText()}
							if mro {
								j = c16MrgJob{dir: "reverse", cs: cs, input: cs.mroText()}
							}
							cp.mu.Lock()
							mrgJobs = append(mrgJobs, j)
							cp.mu.Unlock()
							if !mro && o.Src != "" && o.Cat == "" {
								// also the text martian itself produced
								cp.mu.Lock()
								mrgJobs = append(mrgJobs, c16MrgJob{dir: "reverse", cs: cs, input: o.Src})
								cp.mu.Unlock()
							}
						}
						if k < 2 && i < 3 {
							c.Sample(map[string]string{"direction": dir, "input": truncate(map[bool]string{false: cs.jsonText(), true: cs.mroText()}[mro], 500), "outcome": o.fullCat()})
						}
					}
					cp.mu.Lock()
					for k, v := range local {
						cp.tally[k] += v
					}
					cp.st.nodes += st.nodes
					cp.mu.Unlock()
				}
			}()
		}
		wg.Wait()
		phase := map[string]float64{"conversions": time.Since(t0).Seconds()}
		t0 = time.Now()
		// (2) mrg agreement
		if _, err := os.Stat(filepath.Join(c.BuildDir, "plain", "bin", "mrg")); err != nil {
			c.Eval(1)
			c.Inconclusive("VERIF_BUILD lacks plain/bin/mrg: mrg agreement not checked")
			mrgJobs = nil
		}
		jobs := make(chan c16MrgJob, len(mrgJobs))
		for _, j := range mrgJobs {
			jobs <- j
		}
		close(jobs)
		for w := 0; w < runtime.NumCPU(); w++ {
			wg.Add(1)
			go func() {
				defer wg.Done()
				for j := range jobs {
					cp.mrgCheck(j)
				}
			}()
		}
		wg.Wait()
		phase["mrg"] = time.Since(t0).Seconds()
		t0 = time.Now()
		// (3) per-fork _invocation files of real pipestances
		c16Pipestances(cp)
		phase["pipestances"] = time.Since(t0).Seconds()
		c.Set("phase_wall_seconds", phase)
		for k, v := range cp.tally {
			c.Count(k, v)
		}
		c.Count("value_nodes_compared", cp.st.nodes)
		c.Set("failing_case_outcomes", cp.outcomes)
	})
}

// ---------------------------------------------------------------------
// (3) per-fork _invocation files written by mrp

func c16PgenSkel(t *pgen.Type) string {
	switch t.Kind {
	case pgen.KArray:
		return c16PgenSkel(t.Elem) + "[]"
	case pgen.KTMap:
		return "map<" + c16PgenSkel(t.Elem) + ">"
	case pgen.KStruct:
		return "struct"
	case pgen.KUserFile:
		return "filetype"
	}
	return t.String()
}

// c16ResolveCall follows call names from the top-level call down to the
// call whose fork directory holds the file.
func c16ResolveCall(p *pgen.Program, comps []string) (callee string, ins []pgen.Param, isStage bool, ok bool) {
	if len(comps) == 0 || comps[0] != p.Top.Name() {
		return "", nil, false, false
	}
	callee = p.Top.Callee
	for _, name := range comps[1:] {
		pl := p.Pipeline(callee)
		if pl == nil {
			return "", nil, false, false
		}
		found := false
		for _, cl := range pl.Calls {
			if cl.Name() == name {
				callee, found = cl.Callee, true
				break
			}
		}
		if !found {
			return "", nil, false, false
		}
	}
	ins, _, isStage, ok = p.Callable(callee)
	return
}

func c16Pipestances(cp *c16Campaign) {
	c := cp.c
	for _, f := range []string{"plain/bin/mrp", "plain/bin/mrjob", "harness/probe"} {
		if _, err := os.Stat(filepath.Join(c.BuildDir, f)); err != nil {
			c.Eval(1)
			c.Inconclusive("VERIF_BUILD lacks " + f + ": per-fork invocation files not checked")
			return
		}
	}
	n := c.Pick(40, 1200)
	par := runtime.NumCPU() * 3 / 4
	if par < 2 {
		par = 2
	}
	idx := make(chan int, n)
	for i := 0; i < n; i++ {
		idx <- i
	}
	close(idx)
	var wg sync.WaitGroup
	var mu sync.Mutex
	rejected := map[string]int{}
	failed := map[string]int{}
	for w := 0; w < par; w++ {
		wg.Add(1)
		go func() {
			defer wg.Done()
			for i := range idx {
				seed := c.Seed*1000003 + 1600000 + int64(i)
				cfg := pgen.DefaultConfig()
				cfg.HostileStrings = true
				cfg.BigInts = true
				cfg.PLiteral = 45
				cfg.PNullLit = 8
				cfg.PRefInLiteral = 35
				cfg.PFileTypes = 15
				cfg.MaxTypeDepth = 3
				cfg.MultiFile = i%4 != 0
				cfg.PTopMap = 25
				cfg.SrcFor = vrun.ProbeSrc(c.BuildDir)
				p := pgen.Generate(seed, cfg)
				emptyColls := false
				relocate := ""
				if i%5 == 3 {
					// skeletons whose stages consume merged map-call outputs and
					// projections; every second one with all run-time collections empty
					p = pgen.Template([]int{7, 4, 0, 6}[(i/5)%4], seed, cfg)
					emptyColls = (i/5)%2 == 0
					// definitions apart from the call, as mrp is normally given them
					p.SplitIntoFiles("defs.mro")
					if (i/5)%3 == 1 {
						// the definitions in a sub directory of a second MROPATH
						// entry whose name extends the first entry's
						p.SplitIntoFiles("lib/defs.mro")
						relocate = []string{"_v2", "-next", "22"}[(i/15)%3]
					}
				}
				// three in four programs keep every callable in include files
				// (the layout mrp is normally given: definitions apart from the call)
				for k := int64(1); cfg.MultiFile && p.NFiles == 0 && k < 50; k++ {
					seed += 7777
					p = pgen.Generate(seed, cfg)
				}
				dir := filepath.Join(c.WorkDir, fmt.Sprintf("ps-%d", i))
				if _, _, err := compileProgram(p, filepath.Join(dir, "compile")); err != nil {
					mu.Lock()
					rejected[truncate(strings.Split(err.Error(), "\n")[0], 80)]++
					mu.Unlock()
					os.RemoveAll(dir)
					continue
				}
				os.RemoveAll(filepath.Join(dir, "compile"))
				vc, err := vrun.NewCase(c.BuildDir, dir, p, func(s *pgen.Spec) {
					s.KeyPool = cfg.KeyPool
					s.Seed = seed
					if emptyColls {
						s.LenChoices = []int{0}
					}
				})
				if err == nil && relocate != "" {
					err = vc.RelocateIncludes("lib", relocate)
					cp.count("pipestances_with_prefix_related_mropath_entries", 1)
				}
				if err != nil {
					c.Inconclusive("harness: cannot lay out pipestance case")
					continue
				}
				res := vc.Run(vrun.RunOpts{Args: []string{"--vdrmode=disable", "--localcores=4", "--localmem=16", "--autoretry=0"},
					Seed: seed, Timeout: 240 * time.Second, NoTrace: true})
				if res.TimedOut {
					vc.KillAll()
					c.Eval(1)
					c.Inconclusive("mrp watchdog")
					os.RemoveAll(dir)
					continue
				}
				cp.count("pipestances_run", 1)
				if res.Exit != 0 {
					// invocation files written before the failure are still checked
					cp.count("pipestances_failed", 1)
					c.Eval(1)
					c.Inconclusive("pipestance failed (its invocation files are still checked)")
					mu.Lock()
					failed[truncate(normalizeMsg(tail(res.Output, 300)), 100)]++
					mu.Unlock()
				}
				c16CheckPipestance(cp, vc, p, seed)
				os.RemoveAll(dir)
			}
		}()
	}
	wg.Wait()
	c.Set("pipestance_programs_rejected_by_compiler", rejected)
	c.Set("pipestance_failures", failed)
}

func c16CheckPipestance(cp *c16Campaign, vc *vrun.Case, p *pgen.Program, seed int64) {
	c := cp.c
	var files []string
	filepath.Walk(vc.PsDir, func(path string, info os.FileInfo, err error) error {
		if err == nil && info != nil && info.Name() == "_invocation" && strings.HasPrefix(filepath.Base(filepath.Dir(path)), "fork") {
			files = append(files, path)
		}
		return nil
	})
	sort.Strings(files)
	replay := func(path, text string, extra map[string]interface{}) map[string]interface{} {
		rel, _ := filepath.Rel(vc.PsDir, path)
		m := map[string]interface{}{"program_seed": seed, "mro": p.Print(), "invocation_file": rel, "invocation": text,
			"mrp_args": "--vdrmode=disable --localcores=4 --localmem=16 --autoretry=0"}
		for k, v := range extra {
			m[k] = v
		}
		return m
	}
	for _, path := range files {
		rel, _ := filepath.Rel(vc.PsDir, path)
		comps := strings.Split(rel, string(filepath.Separator))
		forkDir := filepath.Dir(path)
		comps = comps[:len(comps)-2]
		callee, ins, isStage, ok := c16ResolveCall(p, comps)
		if !ok {
			c.Inconclusive("harness: cannot map " + strings.Join(comps, "/") + " to a call of the program")
			continue
		}
		c.Eval(1)
		c.Distinct(p.ShapeHash() + "|" + rel)
		b, err := os.ReadFile(path)
		if err != nil {
			c.Inconclusive("unreadable _invocation")
			continue
		}
		text := string(b)
		var ast *syntax.Ast
		var perr error
		var pout c16Outcome
		func() {
			defer c16Recover(&pout)
			_, _, ast, perr = syntax.ParseSourceBytes(b, path, vc.MroPaths(), false)
		}()
		if pout.Cat == "panic" {
			c.Violate("C16:panic:"+pout.Site, "compiling a recorded _invocation panics: "+pout.Detail, replay(path, text, nil))
			continue
		}
		compiled := true
		if perr != nil && strings.Contains(perr.Error(), "more than one top-level call") {
			// The callable is defined in the file which also holds the
			// pipestance's own top-level call, so the recorded include drags
			// a second call in.  Reported as its own class; the arguments are
			// still compared on the parsed (not compiled) call.
			c.Violate("C16:invocation-not-compiling:include-has-top-level-call", fmt.Sprintf("%s does not compile against the MROPATH: %s",
				rel, truncate(perr.Error(), 300)), replay(path, text, nil))
			cp.count("invocations_including_the_top_level_call_file", 1)
			compiled = false
			var parser syntax.Parser
			func() {
				defer c16Recover(&pout)
				ast, perr = parser.UncheckedParse(b, path)
			}()
		}
		if perr != nil || ast == nil || ast.Call == nil || pout.Cat != "" {
			msg := "no call statement " + pout.Detail
			cls := "no-call"
			if perr != nil {
				msg, cls = perr.Error(), c16ErrClass(perr)+":"+c16ErrTail(perr)
			}
			sigBase := "C16:invocation-not-compiling:"
			if !isStage {
				// the fork of a (mapped) pipeline call, not of a stage: the
				// property speaks of the invocation recorded for a stage, so
				// this is an observation only
				cp.count("pipeline_fork_invocations_not_compiling", 1)
				continue
			}
			c.Violate(sigBase+cls, fmt.Sprintf("%s does not compile against the MROPATH: %s", rel, truncate(msg, 300)),
				replay(path, text, nil))
			continue
		}
		callName := comps[len(comps)-1]
		var cl syntax.Callable
		astStage := isStage
		if compiled {
			cl = ast.Callables.Table[ast.Call.DecId]
			_, astStage = cl.(*syntax.Stage)
		}
		if ast.Call.DecId != callee || ast.Call.Id != callName || (compiled && cl == nil) || astStage != isStage {
			c.Violate("C16:invocation-wrong-callable", fmt.Sprintf("%s is `call %s as %s`, the fork belongs to call %s of %s", rel,
				ast.Call.DecId, ast.Call.Id, callName, callee), replay(path, text, nil))
			continue
		}
		if !isStage {
			cp.count("pipeline_fork_invocations_compiled", 1)
			continue
		}
		cp.count("stage_fork_invocations_compiled", 1)
		argsRaw, err := os.ReadFile(filepath.Join(forkDir, "split", "_args"))
		if err != nil {
			cp.count("stage_fork_invocations_without_args_file", 1)
			continue
		}
		av, err := c16Decode(argsRaw)
		am, isObj := av.(map[string]interface{})
		if err != nil || !isObj {
			c.Inconclusive("split/_args is not a JSON object")
			continue
		}
		binds := map[string]*syntax.BindStm{}
		for _, bd := range ast.Call.Bindings.List {
			binds[bd.Id] = bd
		}
		var nodes int64
		bad := false
		for _, prm := range ins {
			skel := c16PgenSkel(prm.Type)
			bd := binds[prm.Name]
			want, has := am[prm.Name]
			if bd == nil || !has {
				c.Violate("C16:invocation-args-differ:"+skel+":binding-missing", fmt.Sprintf("%s: parameter %s: in invocation %v, in _args %v",
					rel, prm.Name, bd != nil, has), replay(path, text, map[string]interface{}{"args": string(argsRaw)}))
				bad = true
				continue
			}
			e := bd.Exp
			if s, isSplit := e.(*syntax.SplitExp); isSplit {
				c.Violate("C16:invocation-args-differ:"+skel+":split-kept", fmt.Sprintf("%s: argument %s of a single fork is still a split expression",
					rel, prm.Name), replay(path, text, map[string]interface{}{"args": string(argsRaw)}))
				bad = true
				e = s.Value
				continue
			}
			if d := c16CmpExp(e, want, prm.Name, &nodes); d != nil {
				c.Violate("C16:invocation-args-differ:"+skel+":"+d.What, fmt.Sprintf("%s: %s: %s (the fork ran with %s)", rel, d.Path, d.Msg,
					truncate(c16Short(want), 200)), replay(path, text, map[string]interface{}{"args": string(argsRaw)}))
				bad = true
			}
		}
		for k := range am {
			if strings.HasPrefix(k, "__") {
				continue
			}
			found := false
			for _, prm := range ins {
				found = found || prm.Name == k
			}
			if !found {
				c.Violate("C16:invocation-args-differ:unknown-arg", rel+": _args has argument "+k+" which the stage does not declare",
					replay(path, text, map[string]interface{}{"args": string(argsRaw)}))
				bad = true
			}
		}
		cp.count("stage_fork_args_compared", int64(len(ins)))
		cp.count("stage_fork_arg_nodes_compared", nodes)
		if !bad {
			cp.count("stage_fork_invocations_equal_to_args", 1)
		}
		if strings.Contains(filepath.Base(forkDir), "_") || filepath.Base(forkDir) != "fork0" {
			cp.count("stage_fork_invocations_of_mapped_forks", 1)
		}
	}
}
