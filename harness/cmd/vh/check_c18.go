package main

// C18: cluster job scripts reproduce commands, paths and environment values
// exactly.  The deciding step is always a real shell (dash and bash)
// evaluating the real output of appendShellSafeQuote / formatArgs /
// jobScript; a recorder process reports what actually arrived.

import (
	"bytes"
	"encoding/json"
	"fmt"
	"math/rand"
	"os"
	"os/exec"
	"path/filepath"
	"regexp"
	"runtime"
	"sort"
	"strings"
	"sync"
	"sync/atomic"
	"syscall"
	"time"

	"github.com/martian-lang/martian/martian/core"
	"verif/harness/internal/vf"
)

const c18ShellTimeout = 120 * time.Second

type c18State struct {
	c       *vf.Ctx
	shells  []c18Shell
	work    string // canonical work dir
	self    string // this executable (hosts the recorder tools)
	invoked int64  // shell invocations
}

// c18ParFor runs fn(worker, i) for i in [0,n) on NumCPU goroutines.
func c18ParFor(n int, fn func(worker, i int)) { c18ParForN(runtime.NumCPU(), n, fn) }

func c18ParForN(par, n int, fn func(worker, i int)) {
	if par > n {
		par = n
	}
	var next int64 = -1
	var wg sync.WaitGroup
	for w := 0; w < par; w++ {
		wg.Add(1)
		go func(w int) {
			defer wg.Done()
			for {
				i := int(atomic.AddInt64(&next, 1))
				if i >= n {
					return
				}
				fn(w, i)
			}
		}(w)
	}
	wg.Wait()
}

// =====================================================================
// Level 1: quote round trip
// =====================================================================

type c18QuoteFail struct {
	Shell  string `json:"shell"`
	Kind   string `json:"kind"` // side-effect | mismatch | stderr | exit
	Got    []byte `json:"got"`
	Stderr string `json:"stderr"`
	Exit   int    `json:"exit"`
	Side   string `json:"side_effect,omitempty"`
}

func (f *c18QuoteFail) rank() int {
	switch f.Kind {
	case "side-effect":
		return 0
	case "mismatch":
		return 1
	case "stderr":
		return 2
	}
	return 3
}

type c18QuoteWorker struct {
	cwd, scratch string
}

func (st *c18State) quoteWorker(tag string, w int) *c18QuoteWorker {
	qw := &c18QuoteWorker{
		cwd:     filepath.Join(st.work, "q", fmt.Sprintf("%s-%d", tag, w), "cwd"),
		scratch: filepath.Join(st.work, "q", fmt.Sprintf("%s-%d", tag, w), "tmp"),
	}
	os.MkdirAll(qw.scratch, 0755)
	c18PrepareCwd(qw.cwd)
	return qw
}

// quoteEvalOne lets one shell evaluate `printf %s <quoted s>`.
// Returns (nil,false) when the shell printed exactly s and nothing else
// happened; inconclusive=true when the watchdog fired.
func (st *c18State) quoteEvalOne(qw *c18QuoteWorker, sh c18Shell, s string) (fail *c18QuoteFail, inconclusive bool) {
	script := []byte("printf %s " + core.VerifShellSafeQuote(s) + "\n")
	atomic.AddInt64(&st.invoked, 1)
	r := c18RunShell(sh, script, false, qw.cwd, nil, qw.scratch, c18ShellTimeout)
	if r.TimedOut || r.StartErr != "" {
		c18PrepareCwd(qw.cwd)
		return nil, true
	}
	side := c18CwdDelta(qw.cwd)
	if side != "" {
		c18PrepareCwd(qw.cwd)
	}
	f := &c18QuoteFail{Shell: sh.Name, Got: r.Stdout, Stderr: string(r.Stderr), Exit: r.Exit, Side: side}
	if len(f.Got) > 4096 {
		f.Got = f.Got[:4096]
	}
	if len(f.Stderr) > 1000 {
		f.Stderr = f.Stderr[:1000]
	}
	switch {
	case side != "":
		f.Kind = "side-effect"
	case string(r.Stdout) != s:
		f.Kind = "mismatch"
	case len(r.Stderr) != 0:
		f.Kind = "stderr"
	case r.Exit != 0:
		f.Kind = "exit"
	default:
		return nil, false
	}
	return f, false
}

// quoteEvalChunk evaluates strs[idx...] in one shell invocation and
// bisects on any deviation.
func (st *c18State) quoteEvalChunk(qw *c18QuoteWorker, sh c18Shell, strs []string, idx []int,
	report func(i int, f *c18QuoteFail, inconclusive bool)) {
	if len(idx) == 0 {
		return
	}
	if len(idx) == 1 {
		f, inc := st.quoteEvalOne(qw, sh, strs[idx[0]])
		if f != nil || inc {
			report(idx[0], f, inc)
		}
		return
	}
	var script, want bytes.Buffer
	for _, i := range idx {
		script.WriteString("printf '%s\\0' ")
		script.WriteString(core.VerifShellSafeQuote(strs[i]))
		script.WriteByte('\n')
		want.WriteString(strs[i])
		want.WriteByte(0)
	}
	atomic.AddInt64(&st.invoked, 1)
	r := c18RunShell(sh, script.Bytes(), false, qw.cwd, nil, qw.scratch, c18ShellTimeout)
	side := c18CwdDelta(qw.cwd)
	if side != "" || r.TimedOut {
		c18PrepareCwd(qw.cwd)
	}
	if !r.TimedOut && r.StartErr == "" && side == "" && r.Exit == 0 && len(r.Stderr) == 0 &&
		bytes.Equal(r.Stdout, want.Bytes()) {
		return
	}
	parts := 8
	step := (len(idx) + parts - 1) / parts
	for lo := 0; lo < len(idx); lo += step {
		hi := lo + step
		if hi > len(idx) {
			hi = len(idx)
		}
		st.quoteEvalChunk(qw, sh, strs, idx[lo:hi], report)
	}
}

// quoteEvalAll evaluates all strings in all shells; returns per string the
// failures (one per failing shell).
func (st *c18State) quoteEvalAll(tag string, strs []string) (fails map[int][]*c18QuoteFail, inconclusive map[int]bool) {
	fails = map[int][]*c18QuoteFail{}
	inconclusive = map[int]bool{}
	var mu sync.Mutex
	const batch = 512
	type task struct {
		sh  c18Shell
		idx []int
	}
	var tasks []task
	// keep very long strings in batches of their own
	var cur []int
	curBytes := 0
	flush := func() {
		if len(cur) > 0 {
			for _, sh := range st.shells {
				tasks = append(tasks, task{sh, cur})
			}
			cur = nil
			curBytes = 0
		}
	}
	for i, s := range strs {
		cur = append(cur, i)
		curBytes += len(s)
		if len(cur) >= batch || curBytes > 4<<20 {
			flush()
		}
	}
	flush()
	workers := make([]*c18QuoteWorker, runtime.NumCPU())
	c18ParFor(len(tasks), func(w, ti int) {
		if workers[w] == nil {
			workers[w] = st.quoteWorker(tag, w)
		}
		t := tasks[ti]
		st.quoteEvalChunk(workers[w], t.sh, strs, t.idx, func(i int, f *c18QuoteFail, inc bool) {
			mu.Lock()
			if inc {
				inconclusive[i] = true
			} else {
				fails[i] = append(fails[i], f)
			}
			mu.Unlock()
		})
	})
	return
}

// c18HostileClasses counts the distinct non-alphanumeric classes in s.
func c18HostileClasses(s string) int {
	m := map[string]bool{}
	for _, u := range c18Units(0, s) {
		if k := c18Class(u.S); k != "alnum" {
			m[k] = true
		}
	}
	return len(m)
}

func c18Octal(s string) string {
	var sb strings.Builder
	for _, u := range c18Units(0, s) {
		if c18Class(u.S) == "invalid-utf8" {
			fmt.Fprintf(&sb, "\\%03o", u.S[0])
		} else {
			sb.WriteString(u.S)
		}
	}
	return sb.String()
}

func c18Sanitize(s string, known map[string]bool) string {
	var sb strings.Builder
	for _, u := range c18Units(0, s) {
		if !known[c18Class(u.S)] {
			sb.WriteString(u.S)
		}
	}
	return sb.String()
}

func c18BestFail(fs []*c18QuoteFail) *c18QuoteFail {
	best := fs[0]
	for _, f := range fs[1:] {
		if f.rank() < best.rank() {
			best = f
		}
	}
	return best
}

func (f *c18QuoteFail) describe(s string) string {
	switch f.Kind {
	case "side-effect":
		return fmt.Sprintf("%s executed part of the value: working directory changed (%s); printed %s, stderr %q",
			f.Shell, f.Side, c18Q(string(f.Got)), f.Stderr)
	case "mismatch":
		return fmt.Sprintf("%s printed %s instead of %s (stderr %q)", f.Shell, c18Q(string(f.Got)), c18Q(s), f.Stderr)
	case "stderr":
		return fmt.Sprintf("%s printed the value but complained on stderr: %q", f.Shell, f.Stderr)
	}
	return fmt.Sprintf("%s exited with status %d (stderr %q)", f.Shell, f.Exit, f.Stderr)
}

// quoteLevel runs the whole round-trip campaign over strs and reports
// one violation per distinct culprit character class.
func (st *c18State) quoteLevel(tag string, strs []string) {
	c := st.c
	fails, inconc := st.quoteEvalAll(tag, strs)
	for range inconc {
		c.Inconclusive("quote round trip: shell watchdog")
	}
	c.Eval(len(strs))
	nontrivial := 0
	for _, s := range strs {
		if !c18Trivial(s) {
			nontrivial++
			c.Distinct("q:" + s)
		}
	}
	c.Count("quote_strings_"+tag, int64(len(strs)))
	c.Count("quote_strings_nontrivial_"+tag, int64(nontrivial))
	c.Count("quote_strings_not_round_tripping_"+tag, int64(len(fails)))
	c.Count("quote_strings_round_tripping_"+tag, int64(len(strs)-len(fails)-len(inconc)))
	if len(fails) == 0 {
		return
	}
	// Attribute every failing string to a culprit class.
	type pending struct {
		orig string // the workload string
		cur  string // what is left after removing known culprits
	}
	var unexplained []pending
	for i := range fails {
		unexplained = append(unexplained, pending{strs[i], strs[i]})
	}
	sort.Slice(unexplained, func(a, b int) bool {
		if len(unexplained[a].cur) != len(unexplained[b].cur) {
			return len(unexplained[a].cur) < len(unexplained[b].cur)
		}
		return unexplained[a].cur < unexplained[b].cur
	})
	origFail := map[string][]*c18QuoteFail{}
	for i, f := range fails {
		origFail[strs[i]] = f
	}
	known := map[string]bool{}
	type culprit struct {
		sig, what string
		replay    map[string]interface{}
		classes   map[string]bool
		count     int
		witness   string
		wfail     *c18QuoteFail
	}
	var culprits []*culprit
	qw := st.quoteWorker(tag+"-min", 0)
	failsAny := func(s string) *c18QuoteFail {
		var got []*c18QuoteFail
		for _, sh := range st.shells {
			f, inc := st.quoteEvalOne(qw, sh, s)
			if inc {
				c.Inconclusive("quote round trip: shell watchdog (minimisation)")
			}
			if f != nil {
				got = append(got, f)
			}
		}
		if len(got) == 0 {
			return nil
		}
		return c18BestFail(got)
	}
	attribute := func(p pending) {
		// count p.orig for every culprit whose class occurs in it; keep the most
		// telling witness (a side effect beats a mismatch beats a complaint).
		cls := map[string]bool{}
		for _, u := range c18Units(0, p.orig) {
			cls[c18Class(u.S)] = true
		}
		for _, cu := range culprits {
			hit := false
			for k := range cu.classes {
				if cls[k] {
					hit = true
				}
			}
			if !hit {
				continue
			}
			cu.count++
			of := origFail[p.orig]
			if len(of) == 0 {
				continue
			}
			// only strings whose hostile content is this culprit alone make clean witnesses
			if c18Sanitize(p.orig, cu.classes) != c18Sanitize(p.orig, known) {
				continue
			}
			bf := c18BestFail(of)
			if cu.wfail == nil || bf.rank() < cu.wfail.rank() {
				cu.wfail = bf
				cu.witness = p.orig
			}
		}
	}
	for round := 0; len(unexplained) > 0 && round < 100; round++ {
		var cand []pending
		if len(known) > 0 {
			var check []string
			var checkOf []int
			seen := map[string]int{}
			for pi, p := range unexplained {
				san := c18Sanitize(p.cur, known)
				if san == p.cur {
					cand = append(cand, p)
					continue
				}
				unexplained[pi].cur = san
				if _, ok := seen[san]; !ok {
					seen[san] = len(check)
					check = append(check, san)
				}
				checkOf = append(checkOf, pi)
			}
			f2, inc2 := st.quoteEvalAll(tag+"-san", check)
			c.Count("quote_sanitized_reevaluations_"+tag, int64(len(check)))
			for _, pi := range checkOf {
				p := unexplained[pi]
				k := seen[p.cur]
				switch {
				case inc2[k]:
					c.Inconclusive("quote round trip: shell watchdog (attribution)")
				case len(f2[k]) > 0:
					cand = append(cand, p)
				default:
					attribute(p)
				}
			}
		} else {
			cand = unexplained
		}
		if len(cand) == 0 {
			break
		}
		// minimise the candidate with the fewest distinct hostile classes first (then the shortest):
		// "$$" names its culprit more precisely than "$!"
		ncls := map[string]int{}
		for _, p := range cand {
			if _, ok := ncls[p.cur]; !ok {
				ncls[p.cur] = c18HostileClasses(p.cur)
			}
		}
		sort.SliceStable(cand, func(a, b int) bool {
			if na, nb := ncls[cand[a].cur], ncls[cand[b].cur]; na != nb {
				return na < nb
			}
			if len(cand[a].cur) != len(cand[b].cur) {
				return len(cand[a].cur) < len(cand[b].cur)
			}
			return cand[a].cur < cand[b].cur
		})
		pick := cand[0]
		if failsAny(pick.cur) == nil {
			// not reproducible on its own (flaky): cannot be decided
			c.Inconclusive("quote round trip: failure not reproducible in isolation")
			unexplained = cand[1:]
			continue
		}
		min := c18Minimize(c18Units(0, pick.cur), func(u []c18Unit) bool {
			return failsAny(c18JoinFields(1, u)[0]) != nil
		})
		minStr := c18JoinFields(1, min)[0]
		mf := failsAny(minStr)
		cu := &culprit{classes: map[string]bool{}, witness: minStr, wfail: mf, count: 0}
		for _, u := range min {
			cu.classes[c18Class(u.S)] = true
		}
		if len(cu.classes) > 1 {
			// plain characters only matter as company of the hostile ones
			delete(cu.classes, "alnum")
		}
		if len(min) == 0 {
			cu.sig = "C18:quote-roundtrip:every-string"
			culprits = append(culprits, cu)
			cu.count = len(cand)
			break
		}
		if cu.classes["invalid-utf8"] {
			detail := mf.Kind
			if string(mf.Got) == c18Octal(minStr) {
				detail = "octal-escape-not-decoded"
			}
			rest := map[string]bool{}
			for k := range cu.classes {
				if k != "invalid-utf8" {
					rest[k] = true
				}
			}
			cu.sig = "C18:invalid-utf8:" + detail
			if len(rest) > 0 {
				cu.sig += ":with-" + c18SigClasses(rest)
			}
		} else {
			cu.sig = "C18:quote-roundtrip:" + c18SigClasses(cu.classes)
		}
		for k := range cu.classes {
			known[k] = true
		}
		culprits = append(culprits, cu)
		unexplained = cand
	}
	for _, cu := range culprits {
		f := cu.wfail
		what := fmt.Sprintf("appendShellSafeQuote(%s) = %s: %s; %d workload strings fail because of this character class",
			c18Q(cu.witness), c18Q(core.VerifShellSafeQuote(cu.witness)), f.describe(cu.witness), cu.count)
		c.Violate(cu.sig, what, map[string]interface{}{
			"level": "quote", "s_b64": []byte(cu.witness), "s": fmt.Sprintf("%q", cu.witness),
			"quoted": core.VerifShellSafeQuote(cu.witness), "observed": f, "classes": c18SigClasses(cu.classes),
		})
	}
}

func c18QuoteWorkload(rng *rand.Rand, c *vf.Ctx) (valid, invalid []string) {
	seen := map[string]bool{}
	add := func(dst *[]string, s string) {
		if strings.IndexByte(s, 0) >= 0 || seen[s] {
			return
		}
		seen[s] = true
		*dst = append(*dst, s)
	}
	carriers := func(dst *[]string, x string) {
		add(dst, x)
		add(dst, "a"+x+"b")
		add(dst, x+"ab")
		add(dst, "ab"+x)
	}
	for _, a := range c18Specials {
		carriers(&valid, a)
		for _, b := range c18Specials {
			carriers(&valid, a+b)
		}
	}
	if !c.Quick() {
		for _, a := range c18Specials {
			for _, b := range c18Specials {
				for _, d := range c18Specials {
					add(&valid, a+b+d)
					add(&valid, "a"+a+b+d+"b")
				}
			}
		}
	}
	for b := 1; b < 128; b++ {
		carriers(&valid, string([]byte{byte(b)}))
	}
	for _, p := range c18Payloads {
		carriers(&valid, p)
		add(&valid, p+p)
		add(&valid, "x "+p+" y")
	}
	for i := 0; i < c.Pick(20000, 600000); i++ {
		add(&valid, c18RandString(rng, 1+rng.Intn(24), 10+rng.Intn(50), false))
	}
	// long strings, many lines
	for i := 0; i < c.Pick(6, 40); i++ {
		n := c.Pick(20000, 400000)
		add(&valid, c18RandString(rng, n, 30, false))
	}
	add(&valid, strings.Repeat("a", 1<<20))
	add(&valid, strings.Repeat("\n", 50000))
	add(&valid, strings.Repeat("\\", 50001))
	add(&valid, strings.Repeat("$", 50001))
	add(&valid, strings.Repeat("\"", 50001))
	add(&valid, strings.Repeat("'", 50001))
	add(&valid, strings.Repeat("line with 'quotes' \"and\" $vars\n", 5000))
	// invalid UTF-8: a class of its own
	for b := 0x80; b < 0x100; b++ {
		carriers(&invalid, string([]byte{byte(b)}))
	}
	for _, f := range c18InvalidFragments {
		carriers(&invalid, f)
		for _, sp := range c18Specials {
			add(&invalid, f+sp)
			add(&invalid, sp+f)
		}
	}
	for i := 0; i < c.Pick(2000, 60000); i++ {
		s := c18RandString(rng, 1+rng.Intn(24), 10+rng.Intn(40), true)
		for _, u := range c18Units(0, s) {
			if c18Class(u.S) == "invalid-utf8" {
				add(&invalid, s)
				break
			}
		}
	}
	for i := 0; i < c.Pick(500, 10000); i++ {
		b := make([]byte, 1+rng.Intn(40))
		for j := range b {
			b[j] = byte(1 + rng.Intn(255))
		}
		s := string(b)
		for _, u := range c18Units(0, s) {
			if c18Class(u.S) == "invalid-utf8" {
				add(&invalid, s)
				break
			}
		}
	}
	return
}

// =====================================================================
// Level 2: whole job scripts
// =====================================================================

type c18Template struct {
	Name     string
	Text     string
	Redirect bool // the script itself redirects to __MRO_STDOUT__/__MRO_STDERR__
}

var c18RedirRe = regexp.MustCompile(`>\s*__MRO_STDOUT__`)

func c18LoadTemplates(dir string) []c18Template {
	var out []c18Template
	for _, pat := range []string{"*.template", "*.template.example"} {
		m, _ := filepath.Glob(filepath.Join(dir, pat))
		sort.Strings(m)
		for _, f := range m {
			b, err := os.ReadFile(f)
			if err != nil {
				continue
			}
			name := strings.Replace(filepath.Base(f), ".template", "", 1)
			out = append(out, c18Template{name, string(b), c18RedirRe.Match(b)})
		}
	}
	return out
}

type c18Mode struct {
	Shell    c18Shell
	ViaStdin bool
}

func (m c18Mode) String() string {
	if m.ViaStdin {
		return m.Shell.Name + "<stdin"
	}
	return m.Shell.Name + " file"
}

// A script case: Fields are the hostile strings, Kinds their roles:
// "cmd" (program path component), "arg", "env" (value), "stdio-path"
// (component of the metadata directory holding _stdout/_stderr), "workdir".
type c18ScriptCase struct {
	Tmpl       int      `json:"template_index"`
	TmplName   string   `json:"template"`
	Fields     []string `json:"-"`
	FieldsB64  [][]byte `json:"fields_b64"`
	FieldsQ    []string `json:"fields"`
	Kinds      []string `json:"kinds"`
	EnvNames   []string `json:"env_names"`
	Threads    float64  `json:"threads"`
	MemGB      float64  `json:"mem_gb"`
	MemPerCore int      `json:"mem_per_core"`
	AlwaysVmem bool     `json:"always_vmem"`
	Special    bool     `json:"special"`
}

func (sc *c18ScriptCase) finish() *c18ScriptCase {
	sc.FieldsB64 = c18B64List(sc.Fields)
	sc.FieldsQ = nil
	for _, f := range sc.Fields {
		sc.FieldsQ = append(sc.FieldsQ, fmt.Sprintf("%q", f))
	}
	return sc
}

func (sc *c18ScriptCase) withFields(f []string) *c18ScriptCase {
	cp := *sc
	cp.Fields = f
	return cp.finish()
}

type c18ScriptEnv struct {
	st        *c18State
	templates []c18Template
	settings  *core.JobManagerSettings
	modes     []c18Mode
	seq       int64
	evals     int64
	records   int64
}

type c18Deviation struct {
	Mode   string `json:"mode"`
	What   string `json:"what"`
	Script string `json:"script,omitempty"`
	Stderr string `json:"shell_stderr,omitempty"`
	// files which appeared or vanished below the case directory
	Files string `json:"files_delta,omitempty"`
}

// executed reports whether the deviation includes a foreign side effect
// (a file created or removed: part of a value was run as a command).
func (d *c18Deviation) executed() bool {
	return d != nil && (strings.Contains(d.Files, "CANARY") || strings.Contains(d.Files, "KEEP"))
}

var c18ShellOwnVars = map[string]bool{"PWD": true, "OLDPWD": true, "SHLVL": true, "_": true, "LC_ALL": true,
	"C18_OUTFILE": true}

var c18NumRe = regexp.MustCompile(`^[0-9]+$`)
var c18PidRe = regexp.MustCompile(`^[0-9]+\n$`)

// evaluate builds the job script with the real jobScript and lets the
// shells run it.  fail=nil means every mode reproduced everything.
func (se *c18ScriptEnv) evaluate(sc *c18ScriptCase, fields []string) (dev *c18Deviation, inconclusive bool) {
	for _, m := range se.modes {
		d, inc := se.evaluateMode(sc, fields, m)
		if inc {
			inconclusive = true
			continue
		}
		if d != nil {
			return d, false
		}
	}
	return nil, inconclusive
}

func (se *c18ScriptEnv) evaluateMode(sc *c18ScriptCase, fields []string, m c18Mode) (dev *c18Deviation, inconclusive bool) {
	tm := se.templates[sc.Tmpl]
	root := filepath.Join(se.st.work, "s", fmt.Sprintf("%d", atomic.AddInt64(&se.seq, 1)))
	scratch := root + ".tmp"
	os.MkdirAll(scratch, 0755)
	defer os.RemoveAll(root)
	defer os.RemoveAll(scratch)
	// lay the fields out
	var cmdPath, metaPath, filesPath string
	var argv []string
	envs := map[string]string{}
	outFile := filepath.Join(root, "out", "rec.json")
	argv = append(argv, "__c18rec", outFile)
	ei := 0
	var cmdComp, metaComp, filesComp string
	for i, k := range sc.Kinds {
		switch k {
		case "cmd":
			cmdComp = c18PathComp("p", fields[i])
			cmdPath = filepath.Join(root, "c") + "/" + cmdComp
		case "arg":
			argv = append(argv, fields[i])
		case "env":
			envs[sc.EnvNames[ei]] = fields[i]
			ei++
		case "stdio-path":
			metaComp = c18PathComp("m", fields[i])
			metaPath = filepath.Join(root, "m") + "/" + metaComp
		case "workdir":
			filesComp = c18PathComp("f", fields[i])
			filesPath = filepath.Join(root, "f") + "/" + filesComp
		}
	}
	for _, d := range []string{filepath.Join(root, "c"), filepath.Join(root, "out"), metaPath} {
		if err := os.MkdirAll(d, 0755); err != nil {
			return nil, true
		}
	}
	os.MkdirAll(filepath.Join(root, "f"), 0755)
	c18PrepareCwd(filesPath)
	if err := os.Symlink(se.st.self, cmdPath); err != nil {
		return nil, true
	}
	res := &core.JobResources{Threads: sc.Threads, MemGB: sc.MemGB}
	jobRes := map[string]string{}
	if sc.Special {
		res.Special = "bigmem"
		jobRes["bigmem"] = "mem_free=32G"
	}
	var script string
	var panicked interface{}
	func() {
		defer func() { panicked = recover() }()
		script = core.VerifJobScript(tm.Text, se.settings, sc.MemPerCore, sc.AlwaysVmem, "#$ -l __RESOURCES__", jobRes,
			cmdPath, argv, envs, metaPath, filesPath, res, "ID.c18.P.ST.fork0.chnk0", "main")
	}()
	if panicked != nil {
		return &c18Deviation{Mode: m.String(), What: fmt.Sprint("jobScript panicked: ", panicked)}, false
	}
	atomic.AddInt64(&se.evals, 1)
	atomic.AddInt64(&se.st.invoked, 1)
	r := c18RunShell(m.Shell, []byte(script), m.ViaStdin, filesPath, nil, scratch, c18ShellTimeout)
	if r.TimedOut || r.StartErr != "" {
		return nil, true
	}
	// 1. nothing but the expected files anywhere
	want := []string{"c/", "c/" + cmdComp, "out/", "out/rec.json", "m/", "m/" + metaComp + "/", "f/", "f/" + filesComp + "/"}
	for _, f := range c18CwdFiles {
		want = append(want, "f/"+filesComp+"/"+f)
	}
	if tm.Redirect {
		want = append(want, "m/"+metaComp+"/_stdout", "m/"+metaComp+"/_stderr")
	}
	have := c18Tree(root)
	treeDiff := c18DiffSets(want, have)
	mk := func(format string, a ...interface{}) *c18Deviation {
		s := script
		if len(s) > 6000 {
			s = s[:6000] + "..."
		}
		e := string(r.Stderr)
		if len(e) > 1000 {
			e = e[:1000]
		}
		w := fmt.Sprintf(format, a...)
		if treeDiff != "" && !strings.Contains(w, treeDiff) {
			w += "; files: " + treeDiff
		}
		return &c18Deviation{Mode: m.String(), What: w, Script: s, Stderr: e, Files: treeDiff}
	}
	// 2. the record
	b, err := os.ReadFile(outFile)
	if err != nil {
		return mk("the command was not run as given (no record written); shell exit %d, stdout %s; files: %s",
			r.Exit, c18Q(string(r.Stdout)), treeDiff), false
	}
	var rec c18Record
	if json.Unmarshal(b, &rec) != nil {
		return nil, true
	}
	atomic.AddInt64(&se.records, 1)
	if string(rec.Argv0) != cmdPath {
		return mk("program path arrived as %s, expected %s", c18Q(string(rec.Argv0)), c18Q(cmdPath)), false
	}
	wantArgs := argv[2:]
	if len(rec.Args) != len(wantArgs) {
		return mk("%d arguments arrived, expected %d: got %s", len(rec.Args), len(wantArgs), c18Q(fmt.Sprintf("%q", rec.Args))), false
	}
	for i := range wantArgs {
		if string(rec.Args[i]) != wantArgs[i] {
			return mk("argument %d arrived as %s, expected %s", i, c18Q(string(rec.Args[i])), c18Q(wantArgs[i])), false
		}
	}
	got := map[string]string{}
	for _, e := range rec.Env {
		if k := bytes.IndexByte(e, '='); k >= 0 {
			got[string(e[:k])] = string(e[k+1:])
		}
	}
	for k, v := range envs {
		gv, ok := got[k]
		if !ok {
			return mk("environment variable %s did not arrive (expected %s)", k, c18Q(v)), false
		}
		if gv != v {
			return mk("environment variable %s arrived as %s, expected %s", k, c18Q(gv), c18Q(v)), false
		}
	}
	allowed := map[string]bool{}
	for _, e := range c18BaseEnv {
		allowed[e[:strings.IndexByte(e, '=')]] = true
	}
	for _, k := range se.settings.ThreadEnvs {
		allowed[k] = true
		if _, set := envs[k]; !set && !c18NumRe.MatchString(got[k]) {
			return mk("thread environment variable %s arrived as %s", k, c18Q(got[k])), false
		}
	}
	for k := range got {
		if !allowed[k] && !c18ShellOwnVars[k] {
			if _, ok := envs[k]; !ok {
				return mk("unexpected environment variable %s=%s arrived", c18Q(k), c18Q(got[k])), false
			}
		}
	}
	for _, e := range c18BaseEnv {
		k := e[:strings.IndexByte(e, '=')]
		if _, over := envs[k]; !over && got[k] != e[len(k)+1:] {
			return mk("inherited environment variable %s changed to %s", k, c18Q(got[k])), false
		}
	}
	if string(rec.Cwd) != filesPath {
		return mk("working directory was %s, expected %s", c18Q(string(rec.Cwd)), c18Q(filesPath)), false
	}
	// 3. stdout / stderr
	if tm.Redirect {
		so, _ := os.ReadFile(metaPath + "/_stdout")
		se2, _ := os.ReadFile(metaPath + "/_stderr")
		if string(so) != c18OutMark || string(se2) != c18ErrMark {
			return mk("stdout/stderr files at the given paths hold %s / %s", c18Q(string(so)), c18Q(string(se2))), false
		}
		if !c18PidRe.Match(r.Stdout) || len(r.Stderr) != 0 {
			return mk("script printed %s on stdout and %s on stderr (expected a pid and nothing)", c18Q(string(r.Stdout)), c18Q(string(r.Stderr))), false
		}
	} else {
		if string(r.Stdout) != c18OutMark || string(r.Stderr) != c18ErrMark {
			return mk("script output is %s / %s: more than the command's own output (shell complained or ran something else)",
				c18Q(string(r.Stdout)), c18Q(string(r.Stderr))), false
		}
	}
	if treeDiff != "" {
		return mk("files differ from the expected set: %s", treeDiff), false
	}
	if r.Exit != 0 {
		return mk("shell exit status %d", r.Exit), false
	}
	return nil, false
}

var c18FieldKinds = []string{"cmd", "arg", "arg", "arg", "env", "env", "stdio-path", "workdir"}
var c18EnvNames = []string{"C18V_A", "TMPDIR"}

func c18BenignFields() []string {
	return []string{"prog", "one", "two", "", "value", "/tmp/x", "meta", "files"}
}

func (se *c18ScriptEnv) newCase(rng *rand.Rand, tmpl int, fields []string) *c18ScriptCase {
	sc := &c18ScriptCase{
		Tmpl: tmpl, TmplName: se.templates[tmpl].Name, Fields: fields, Kinds: c18FieldKinds, EnvNames: c18EnvNames,
		Threads: float64(1 + rng.Intn(4)), MemGB: float64(1 + rng.Intn(8)), MemPerCore: []int{0, 0, 2}[rng.Intn(3)],
		AlwaysVmem: rng.Intn(2) == 0, Special: rng.Intn(4) == 0,
	}
	return sc.finish()
}

func c18ScriptKey(kind, class string) string { return kind + ":" + class }

func c18SanitizeFields(sc *c18ScriptCase, fields []string, known map[string]bool) ([]string, bool) {
	out := make([]string, len(fields))
	changed := false
	for i, f := range fields {
		var sb strings.Builder
		for _, u := range c18Units(i, f) {
			if known[c18ScriptKey(sc.Kinds[i], c18Class(u.S))] {
				changed = true
				continue
			}
			sb.WriteString(u.S)
		}
		out[i] = sb.String()
	}
	return out, changed
}

func (se *c18ScriptEnv) scriptLevel(rng *rand.Rand) {
	c := se.st.c
	// baseline: a benign case must pass under every template, otherwise nothing can be concluded for it.
	usable := map[int]bool{}
	for ti := range se.templates {
		sc := se.newCase(rng, ti, c18BenignFields())
		d, inc := se.evaluate(sc, sc.Fields)
		c.Eval(1)
		switch {
		case inc:
			c.Inconclusive("script: watchdog on the benign case of template " + se.templates[ti].Name)
		case d != nil:
			c.Violate("C18:script:benign-case-fails:"+se.templates[ti].Name,
				fmt.Sprintf("template %s: even a benign command is not reproduced: %s: %s", se.templates[ti].Name, d.Mode, d.What),
				map[string]interface{}{"level": "script", "case": sc, "deviation": d})
		default:
			usable[ti] = true
		}
	}
	// workload
	var cases []*c18ScriptCase
	hostile := func(x string) string { return "a" + x + "b" }
	for ti := range se.templates {
		if !usable[ti] {
			continue
		}
		// one hostile character (and each payload) in one field at a time
		addSingle := func(fi int, x string) {
			f := c18BenignFields()
			f[fi] = x
			cases = append(cases, se.newCase(rng, ti, f))
		}
		for fi, kind := range c18FieldKinds {
			if fi == 2 || fi == 3 {
				continue // further args behave like the first
			}
			full := !c.Quick() || kind == "arg"
			for _, s := range c18Specials {
				addSingle(fi, hostile(s))
				if full || kind == "env" {
					addSingle(fi, s)
				}
			}
			for b := 1; b < 0x20; b++ {
				if full || b%6 == (ti+fi)%6 {
					addSingle(fi, hostile(string([]byte{byte(b)})))
				}
			}
			for _, s := range []string{"\x7f", "a\x80b", "\xff", "\xc3", "\xe2\x82", "\xed\xa0\x80"} {
				addSingle(fi, s)
			}
			// quick tier: each payload meets each role under one template (rotating); thorough: under all
			for pi, s := range c18Payloads {
				if !c.Quick() || pi%len(se.templates) == ti {
					addSingle(fi, s)
				}
			}
		}
		// two-character combinations in every field at once
		nPairs := c.Pick(30, 800)
		for i := 0; i < nPairs; i++ {
			f := c18BenignFields()
			for fi := range f {
				f[fi] = hostile(c18Specials[rng.Intn(len(c18Specials))] + c18Specials[rng.Intn(len(c18Specials))])
			}
			cases = append(cases, se.newCase(rng, ti, f))
		}
		// random text everywhere
		nRand := c.Pick(50, 1500)
		for i := 0; i < nRand; i++ {
			f := c18BenignFields()
			inv := i%5 == 4
			for fi := range f {
				f[fi] = c18RandString(rng, 1+rng.Intn(30), 5+rng.Intn(40), inv)
				f[fi] = strings.Replace(f[fi], "\x00", "", -1)
			}
			cases = append(cases, se.newCase(rng, ti, f))
		}
		// long values
		for i := 0; i < c.Pick(2, 20); i++ {
			f := c18BenignFields()
			f[1] = c18RandString(rng, 20000, 30, false)
			f[4] = c18RandString(rng, 20000, 30, false)
			cases = append(cases, se.newCase(rng, ti, f))
		}
	}
	c.Set("script_templates", func() []string {
		var n []string
		for _, t := range se.templates {
			n = append(n, t.Name)
		}
		return n
	}())
	c.Set("script_modes", func() []string {
		var n []string
		for _, m := range se.modes {
			n = append(n, m.String())
		}
		return n
	}())
	type outcome struct {
		dev *c18Deviation
		inc bool
	}
	evalMany := func(cs []*c18ScriptCase) []outcome {
		out := make([]outcome, len(cs))
		c18ParFor(len(cs), func(w, i int) {
			d, inc := se.evaluate(cs[i], cs[i].Fields)
			out[i] = outcome{d, inc}
		})
		return out
	}
	res := evalMany(cases)
	c.Eval(len(cases))
	var failing []*c18ScriptCase
	origDev := map[*c18ScriptCase]*c18Deviation{}
	for i, sc := range cases {
		nt := false
		for _, f := range sc.Fields {
			if !c18Trivial(f) {
				nt = true
			}
		}
		if nt {
			c.Distinct("s:" + sc.TmplName + "\x00" + strings.Join(sc.Fields, "\x00"))
		}
		switch {
		case res[i].inc:
			c.Inconclusive("script: shell watchdog")
		case res[i].dev != nil:
			failing = append(failing, sc)
			origDev[sc] = res[i].dev
		}
	}
	c.Count("script_cases", int64(len(cases)))
	c.Count("script_cases_not_reproduced", int64(len(failing)))
	if len(cases) > 0 {
		c.Sample(map[string]interface{}{"level": "script", "case": cases[rng.Intn(len(cases))]})
	}
	// attribution
	known := map[string]bool{}
	type culprit struct {
		sig     string
		keys    map[string]bool
		min     *c18ScriptCase
		dev     *c18Deviation
		tmpls   []string
		count   int
		witness *c18ScriptCase
		wdev    *c18Deviation
	}
	var culprits []*culprit
	type pend struct {
		orig, cur *c18ScriptCase
	}
	var unexplained []pend
	for _, sc := range failing {
		unexplained = append(unexplained, pend{sc, sc})
	}
	size := func(sc *c18ScriptCase) int {
		n := 0
		for _, f := range sc.Fields {
			n += len(f)
		}
		return n
	}
	for round := 0; len(unexplained) > 0 && round < 100; round++ {
		var cand []pend
		if len(known) > 0 {
			var check []*c18ScriptCase
			var checkOf []int
			for pi, p := range unexplained {
				san, changed := c18SanitizeFields(p.cur, p.cur.Fields, known)
				if !changed {
					cand = append(cand, p)
					continue
				}
				unexplained[pi].cur = p.cur.withFields(san)
				check = append(check, unexplained[pi].cur)
				checkOf = append(checkOf, pi)
			}
			r2 := evalMany(check)
			c.Count("script_sanitized_reevaluations", int64(len(check)))
			for k, pi := range checkOf {
				p := unexplained[pi]
				switch {
				case r2[k].inc:
					c.Inconclusive("script: shell watchdog (attribution)")
				case r2[k].dev != nil:
					cand = append(cand, p)
				default:
					// explained by the known culprits present in the original
					for _, cu := range culprits {
						hit := false
						for i, f := range p.orig.Fields {
							for _, u := range c18Units(i, f) {
								if cu.keys[c18ScriptKey(p.orig.Kinds[i], c18Class(u.S))] {
									hit = true
								}
							}
						}
						if hit {
							cu.count++
							// prefer a witness in which part of a value was executed
							if od := origDev[p.orig]; od.executed() && !cu.wdev.executed() {
								cu.witness, cu.wdev = p.orig, od
							}
						}
					}
					// a passing, still hostile case: the monitor saw a correct reproduction
					c.Count("script_cases_reproduced_after_removing_culprits", 1)
				}
			}
		} else {
			cand = unexplained
		}
		if len(cand) == 0 {
			break
		}
		nkeys := func(sc *c18ScriptCase) int {
			n := 0
			for _, f := range sc.Fields {
				n += c18HostileClasses(f)
			}
			return n
		}
		sort.SliceStable(cand, func(a, b int) bool {
			if na, nb := nkeys(cand[a].cur), nkeys(cand[b].cur); na != nb {
				return na < nb
			}
			return size(cand[a].cur) < size(cand[b].cur)
		})
		pick := cand[0]
		var units []c18Unit
		for i, f := range pick.cur.Fields {
			units = append(units, c18Units(i, f)...)
		}
		nf := len(pick.cur.Fields)
		failsFn := func(u []c18Unit) bool {
			d, inc := se.evaluate(pick.cur, c18JoinFields(nf, u))
			if inc {
				c.Inconclusive("script: shell watchdog (minimisation)")
			}
			return d != nil
		}
		if !failsFn(units) {
			c.Inconclusive("script: failure not reproducible")
			unexplained = cand[1:]
			continue
		}
		min := c18Minimize(units, failsFn)
		if len(min) == 0 {
			c.Inconclusive("script: the empty case fails although the benign case passed (" + pick.cur.TmplName + ")")
			unexplained = cand[1:]
			continue
		}
		minCase := pick.cur.withFields(c18JoinFields(nf, min))
		dev, _ := se.evaluate(minCase, minCase.Fields)
		cu := &culprit{keys: map[string]bool{}, min: minCase, dev: dev, witness: pick.orig, wdev: origDev[pick.orig]}
		invalid := false
		for _, u := range min {
			cl := c18Class(u.S)
			if cl == "invalid-utf8" {
				invalid = true
			}
			cu.keys[c18ScriptKey(pick.cur.Kinds[u.Field], cl)] = true
		}
		if hostileKeys := func() int {
			n := 0
			for k := range cu.keys {
				if !strings.HasSuffix(k, ":alnum") {
					n++
				}
			}
			return n
		}(); hostileKeys > 0 {
			for k := range cu.keys {
				if strings.HasSuffix(k, ":alnum") {
					delete(cu.keys, k)
				}
			}
		}
		// in which templates does the minimal case fail?
		all := len(usable) == len(se.templates)
		for ti := range se.templates {
			if !usable[ti] {
				continue
			}
			tc := *minCase
			tc.Tmpl = ti
			tc.TmplName = se.templates[ti].Name
			if d, _ := se.evaluate(&tc, tc.Fields); d != nil {
				cu.tmpls = append(cu.tmpls, se.templates[ti].Name)
			} else {
				all = false
			}
		}
		if invalid {
			ks := map[string]bool{}
			for k := range cu.keys {
				ks[strings.TrimSuffix(k, ":invalid-utf8")] = true
			}
			cu.sig = "C18:invalid-utf8:script:" + c18SigClasses(ks)
		} else {
			cu.sig = "C18:script:" + c18SigClasses(cu.keys)
		}
		if !all {
			cu.sig += ":templates=" + strings.Join(cu.tmpls, ",")
		}
		for k := range cu.keys {
			known[k] = true
		}
		culprits = append(culprits, cu)
		unexplained = cand
	}
	for _, cu := range culprits {
		what := fmt.Sprintf("job script (template %s) with %s: %s: %s; fails with templates %v; %d further workload cases fail because of it",
			cu.min.TmplName, c18DescribeFields(cu.min), cu.dev.Mode, cu.dev.What, cu.tmpls, cu.count)
		if cu.wdev.executed() {
			what += fmt.Sprintf("; e.g. template %s with %s: %s: %s", cu.witness.TmplName, c18DescribeFields(cu.witness), cu.wdev.Mode, cu.wdev.What)
		}
		c.Violate(cu.sig, what, map[string]interface{}{
			"level": "script", "case": cu.min, "deviation": cu.dev, "templates_failing": cu.tmpls,
			"original_case": cu.witness, "original_deviation": cu.wdev,
		})
	}
	c.Count("script_shell_evaluations", atomic.LoadInt64(&se.evals))
	c.Count("script_records_compared", atomic.LoadInt64(&se.records))
}

func c18DescribeFields(sc *c18ScriptCase) string {
	var parts []string
	ben := c18BenignFields()
	for i, f := range sc.Fields {
		if i < len(ben) && f == ben[i] {
			continue
		}
		if f == "" {
			continue
		}
		parts = append(parts, fmt.Sprintf("%s=%s", sc.Kinds[i], c18Q(f)))
	}
	return strings.Join(parts, " ")
}

// =====================================================================
// Level 3: end to end through mrp --jobmode=fake_remote
// =====================================================================

type c18E2ECase struct {
	Where  string `json:"where"` // psdir | program-path
	S      string `json:"-"`
	SQ     string `json:"s"`
	SB64   []byte `json:"s_b64"`
	Single string `json:"single_class,omitempty"`
}

type c18E2EResult struct {
	Verdict string // ok | violation | inconclusive | not-applicable
	What    string
	Detail  map[string]interface{}
}

func c18SingleQuote(s string) string { return "'" + strings.Replace(s, "'", `'\''`, -1) + "'" }

func (st *c18State) e2eRun(n int, ec *c18E2ECase) c18E2EResult {
	c := st.c
	caseDir := filepath.Join(st.work, "e2e", fmt.Sprintf("%d", n))
	os.RemoveAll(caseDir)
	side := filepath.Join(caseDir, "side")
	os.MkdirAll(side, 0755)
	treeName := "tree"
	psName := "ps"
	if ec.Where == "program-path" {
		treeName = c18PathComp("t", ec.S)
	} else {
		psName = c18PathComp("ps", ec.S)
	}
	tree := filepath.Join(caseDir, "install") + "/" + treeName
	realBin := filepath.Join(c.BuildDir, "plain", "bin")
	if err := os.MkdirAll(tree+"/bin", 0755); err != nil {
		return c18E2EResult{Verdict: "inconclusive", What: "cannot create install tree: " + err.Error()}
	}
	os.Symlink(filepath.Join(realBin, "mrp"), tree+"/bin/mrp")
	os.Symlink(filepath.Join(c.BuildDir, "plain", "jobmanagers"), tree+"/jobmanagers")
	os.Symlink(filepath.Join(c.BuildDir, "plain", "adapters"), tree+"/adapters")
	wrapper := "#!/bin/sh\n# C18: stands where mrjob is; records instead when asked to.\n" +
		"if [ -n \"${C18_OUTFILE:-}\" ]; then\n  exec " + c18SingleQuote(st.self) + " __c18rec \"$C18_OUTFILE\" \"$@\"\nfi\n" +
		"exec " + c18SingleQuote(filepath.Join(realBin, "mrjob")) + " \"$@\"\n"
	os.WriteFile(tree+"/bin/mrjob", []byte(wrapper), 0755)
	psParent := filepath.Join(caseDir, "run")
	os.MkdirAll(psParent, 0755)
	psdir := psParent + "/" + psName
	mro := fmt.Sprintf("stage ST(\n    src comp \"%s __c18stage %s\",\n)\n\npipeline P(\n)\n{\n    call ST()\n    return ()\n}\n\ncall P()\n", st.self, side)
	mroFile := filepath.Join(caseDir, "p.mro")
	os.WriteFile(mroFile, []byte(mro), 0644)

	type runOut struct {
		exit     int
		finished bool
		output   string
	}
	runMrp := func(jobmode, psdir string, onPoll func(elapsed time.Duration) (stop bool)) runOut {
		logf, _ := os.Create(filepath.Join(caseDir, "mrp-"+jobmode+".log"))
		defer logf.Close()
		cmd := exec.Command(tree+"/bin/mrp", mroFile, "c18ps", "--jobmode="+jobmode, "--disable-ui",
			"--localcores=2", "--localmem=2", "--psdir="+psdir)
		cmd.Dir = psParent
		cmd.Env = append(append([]string{}, c18BaseEnv...), "LC_ALL=C")
		cmd.Stdout = logf
		cmd.Stderr = logf
		cmd.SysProcAttr = &syscall.SysProcAttr{Setpgid: true}
		if err := cmd.Start(); err != nil {
			return runOut{exit: -1, output: err.Error()}
		}
		done := make(chan struct{})
		go func() { cmd.Wait(); close(done) }()
		start := time.Now()
		fin := false
	loop:
		for {
			select {
			case <-done:
				fin = true
				break loop
			case <-time.After(200 * time.Millisecond):
				if onPoll != nil && onPoll(time.Since(start)) {
					break loop
				}
				if time.Since(start) > 60*time.Second {
					break loop
				}
			}
		}
		syscall.Kill(-cmd.Process.Pid, syscall.SIGKILL)
		<-done
		out, _ := os.ReadFile(logf.Name())
		if len(out) > 3000 {
			out = out[len(out)-3000:]
		}
		return runOut{exit: cmd.ProcessState.ExitCode(), finished: fin, output: string(out)}
	}
	findScripts := func() []string {
		var l []string
		filepath.Walk(psdir, func(p string, info os.FileInfo, err error) error {
			if err == nil && !info.IsDir() && info.Name() == "_jobscript" {
				l = append(l, p)
			}
			return nil
		})
		sort.Strings(l)
		return l
	}
	scratch := filepath.Join(caseDir, "tmp")
	os.MkdirAll(scratch, 0755)
	reevalN := 0
	// reevaluate lets dash and bash evaluate a saved _jobscript with the recorder standing in for mrjob.
	reevaluate := func(js string) (problem string, inconclusive bool) {
		meta := filepath.Dir(js)
		script, err := os.ReadFile(js)
		if err != nil {
			return "", true
		}
		for _, sh := range st.shells {
			if sh.Name == "bash-utf8" {
				continue
			}
			reevalN++
			out := filepath.Join(scratch, fmt.Sprintf("rec-%d.json", reevalN))
			os.Remove(meta + "/_stdout")
			os.Remove(meta + "/_stderr")
			atomic.AddInt64(&st.invoked, 1)
			cwd := meta + "/files"
			if _, err := os.Stat(cwd); err != nil {
				cwd = meta
			}
			r := c18RunShell(sh, script, true, cwd, []string{"C18_OUTFILE=" + out}, scratch, c18ShellTimeout)
			if r.TimedOut || r.StartErr != "" {
				return "", true
			}
			pre := fmt.Sprintf("re-evaluating %s with %s: ", c18Q(js), sh.Name)
			b, err := os.ReadFile(out)
			if err != nil {
				return pre + fmt.Sprintf("the command was not run as given (no record); shell exit %d stdout %s stderr %s",
					r.Exit, c18Q(string(r.Stdout)), c18Q(string(r.Stderr))), false
			}
			var rec c18Record
			if json.Unmarshal(b, &rec) != nil {
				return "", true
			}
			wantHead := []string{st.self, "__c18stage", side, "main", meta, meta + "/files"}
			if len(rec.Args) != len(wantHead)+1 {
				return pre + fmt.Sprintf("%d arguments arrived, expected %d: %q", len(rec.Args), len(wantHead)+1, rec.Args), false
			}
			for i, w := range wantHead {
				if string(rec.Args[i]) != w {
					return pre + fmt.Sprintf("argument %d arrived as %s, expected %s", i, c18Q(string(rec.Args[i])), c18Q(w)), false
				}
			}
			if !strings.HasPrefix(string(rec.Args[6]), psdir+"/journal/") {
				return pre + fmt.Sprintf("journal argument arrived as %s, expected it below %s", c18Q(string(rec.Args[6])), c18Q(psdir+"/journal/")), false
			}
			tmpdir := ""
			for _, e := range rec.Env {
				if bytes.HasPrefix(e, []byte("TMPDIR=")) {
					tmpdir = string(e[7:])
				}
			}
			if tmpdir != meta+"/tmp" {
				return pre + fmt.Sprintf("TMPDIR arrived as %s, expected %s", c18Q(tmpdir), c18Q(meta+"/tmp")), false
			}
			so, _ := os.ReadFile(meta + "/_stdout")
			se, _ := os.ReadFile(meta + "/_stderr")
			if string(so) != c18OutMark || string(se) != c18ErrMark {
				return pre + fmt.Sprintf("stdout/stderr files at the job's metadata path hold %s / %s", c18Q(string(so)), c18Q(string(se))), false
			}
			if !c18PidRe.Match(r.Stdout) || len(r.Stderr) != 0 {
				return pre + fmt.Sprintf("script printed %s / %s", c18Q(string(r.Stdout)), c18Q(string(r.Stderr))), false
			}
		}
		return "", false
	}
	canaries := func() []string {
		var l []string
		filepath.Walk(caseDir, func(p string, info os.FileInfo, err error) error {
			if err == nil && strings.Contains(info.Name(), "CANARY") && !strings.Contains(filepath.Dir(p)+"/", "/side/") &&
				p != psdir && p != tree && !strings.HasPrefix(p, scratch) {
				l = append(l, p)
			}
			return nil
		})
		return l
	}
	detail := map[string]interface{}{"case": ec, "psdir": fmt.Sprintf("%q", psdir), "install": fmt.Sprintf("%q", tree)}
	earlyProblem := ""
	earlyDone := false
	ro := runMrp("fake_remote", psdir, func(el time.Duration) bool {
		if el > 8*time.Second && !earlyDone {
			earlyDone = true
			for _, js := range findScripts() {
				if p, _ := reevaluate(js); p != "" {
					earlyProblem = p
					return true
				}
			}
		}
		return false
	})
	detail["mrp_output_tail"] = ro.output
	detail["mrp_exit"] = ro.exit
	detail["mrp_finished"] = ro.finished
	scripts := findScripts()
	detail["jobscripts"] = len(scripts)
	if cn := canaries(); len(cn) > 0 {
		detail["canaries"] = cn
		return c18E2EResult{"violation", fmt.Sprintf("running the pipeline executed part of a path: file(s) %q appeared", cn), detail}
	}
	if earlyProblem != "" {
		return c18E2EResult{"violation", "mrp did not finish; " + earlyProblem, detail}
	}
	// the saved job scripts, re-evaluated
	for _, js := range scripts {
		p, inc := reevaluate(js)
		if p != "" {
			if len(js) > 0 {
				if b, err := os.ReadFile(js); err == nil {
					detail["jobscript"] = string(b)
				}
			}
			return c18E2EResult{"violation", fmt.Sprintf("mrp finished=%v exit=%d; ", ro.finished, ro.exit) + p, detail}
		}
		if inc {
			return c18E2EResult{"inconclusive", "e2e: watchdog while re-evaluating a job script", detail}
		}
	}
	c.Count("e2e_jobscripts_reevaluated", int64(len(scripts)))
	if cn := canaries(); len(cn) > 0 {
		detail["canaries"] = cn
		return c18E2EResult{"violation", fmt.Sprintf("re-evaluating the job script executed part of a path: file(s) %q appeared", cn), detail}
	}
	if !ro.finished {
		return c18E2EResult{"inconclusive", "e2e: mrp watchdog (job scripts re-evaluate correctly)", detail}
	}
	if ro.exit != 0 || len(scripts) == 0 {
		// does mrp cope with this path at all, without any job script?
		lo := runMrp("local", psdir+"-local", nil)
		detail["local_mode_exit"] = lo.exit
		if !lo.finished || lo.exit != 0 {
			return c18E2EResult{"not-applicable", "mrp rejects this path in local mode too", detail}
		}
		return c18E2EResult{"inconclusive", "e2e: fake_remote run failed though its job scripts re-evaluate correctly", detail}
	}
	// what the real stage process received
	recs, _ := filepath.Glob(filepath.Join(side, "stage-*.json"))
	if len(recs) != 1 || len(scripts) != 1 {
		return c18E2EResult{"violation", fmt.Sprintf("pipestance completed but %d stage executions were recorded for %d job scripts", len(recs), len(scripts)), detail}
	}
	var rec c18Record
	b, _ := os.ReadFile(recs[0])
	if json.Unmarshal(b, &rec) != nil {
		return c18E2EResult{"inconclusive", "e2e: unreadable stage record", detail}
	}
	meta := filepath.Dir(scripts[0])
	if len(rec.Args) != 4 || string(rec.Args[0]) != "main" || string(rec.Args[1]) != meta || string(rec.Args[2]) != meta+"/files" ||
		!strings.HasPrefix(string(rec.Args[3]), psdir+"/journal/") {
		return c18E2EResult{"violation", fmt.Sprintf("the stage received %q, expected [main %q %q %q...]", rec.Args, meta, meta+"/files", psdir+"/journal/"), detail}
	}
	tmpdir := ""
	for _, e := range rec.Env {
		if bytes.HasPrefix(e, []byte("TMPDIR=")) {
			tmpdir = string(e[7:])
		}
	}
	if tmpdir != meta+"/tmp" {
		return c18E2EResult{"violation", fmt.Sprintf("the stage's TMPDIR is %s, expected %s", c18Q(tmpdir), c18Q(meta+"/tmp")), detail}
	}
	if string(rec.Cwd) != meta+"/files" {
		return c18E2EResult{"violation", fmt.Sprintf("the stage's working directory is %s, expected %s", c18Q(string(rec.Cwd)), c18Q(meta+"/files")), detail}
	}
	if ec.Where == "program-path" {
		// mrjob's path as written into the script must be below the hostile install path
		js, _ := os.ReadFile(scripts[0])
		detail["jobscript_bytes"] = len(js)
	}
	return c18E2EResult{"ok", "", detail}
}

func (st *c18State) e2eLevel(rng *rand.Rand) {
	c := st.c
	if _, err := os.Stat(filepath.Join(c.BuildDir, "plain", "bin", "mrp")); err != nil {
		c.Inconclusive("e2e: no mrp in VERIF_BUILD")
		return
	}
	if strings.ContainsAny(st.self+st.work, " \t\n\"\\") {
		c.Inconclusive("e2e: harness path contains whitespace or quotes; cannot be named in a src comp string")
		return
	}
	mk := func(where, s, single string) *c18E2ECase {
		return &c18E2ECase{Where: where, S: s, SQ: fmt.Sprintf("%q", s), SB64: []byte(s), Single: single}
	}
	var phaseA []*c18E2ECase
	for _, sp := range c18Specials {
		phaseA = append(phaseA, mk("psdir", "a"+sp+"b", c18Class(sp)))
	}
	phaseA = append(phaseA, mk("psdir", "a\u00e9b", "utf8-2byte"), mk("psdir", "a\u4e2db", "utf8-3byte"), mk("psdir", "a\U0001F600b", "utf8-4byte"),
		mk("psdir", "a\x01b", "ctrl-01"), mk("psdir", "a\xffb", "invalid-utf8"),
		// a carriage return alone and next to a line feed (what a line-ending
		// normalisation of the finished script would eat)
		mk("psdir", "a\rb", "cr"), mk("psdir", "a\r\nb", "crlf"), mk("psdir", "a\r\rb", "cr-cr"))
	progSingles := []string{" ", "'", "\"", "\\", "$", "`", "\n", "*", ";", "=", "\u00e9"}
	if !c.Quick() {
		progSingles = append([]string{}, c18Specials...)
		progSingles = append(progSingles, "\u00e9", "\U0001F600", "\xff")
	}
	for _, sp := range progSingles {
		phaseA = append(phaseA, mk("program-path", "a"+sp+"b", c18Class(c18Units(0, sp)[0].S)))
	}
	bad := map[string]bool{} // where:class known to fail
	var mu sync.Mutex
	counts := map[string]int{}
	type vio struct {
		sig, what string
		detail    map[string]interface{}
	}
	vios := map[string]*vio{}
	handle := func(ec *c18E2ECase, r c18E2EResult, sig string) {
		mu.Lock()
		defer mu.Unlock()
		counts[r.Verdict]++
		switch r.Verdict {
		case "violation":
			if _, ok := vios[sig]; !ok {
				vios[sig] = &vio{sig, fmt.Sprintf("%s %s: %s", ec.Where, c18Q(ec.S), r.What), r.Detail}
			}
		case "inconclusive":
			c.Inconclusive(r.What)
		}
	}
	var seq int64
	run := func(cases []*c18E2ECase, sigOf func(*c18E2ECase) string) {
		// mrp sleeps most of the time (3 s run-loop step): oversubscribe
		c18ParForN(3*runtime.NumCPU(), len(cases), func(w, i int) {
			ec := cases[i]
			n := int(atomic.AddInt64(&seq, 1))
			r := st.e2eRun(n, ec)
			os.RemoveAll(filepath.Join(st.work, "e2e", fmt.Sprintf("%d", n)))
			c.Eval(1)
			c.Distinct("e:" + ec.Where + "\x00" + ec.S)
			if r.Verdict == "violation" && ec.Single != "" {
				mu.Lock()
				bad[ec.Where+":"+ec.Single] = true
				mu.Unlock()
			}
			handle(ec, r, sigOf(ec))
		})
	}
	// baseline: harmless names must work, otherwise nothing can be concluded about hostile ones
	skip := map[string]bool{}
	wheres := []string{"psdir", "program-path"}
	baseRes := make([]c18E2EResult, len(wheres))
	c18ParForN(len(wheres), len(wheres), func(w, i int) {
		n := int(atomic.AddInt64(&seq, 1))
		baseRes[i] = st.e2eRun(n, mk(wheres[i], "plain", ""))
		os.RemoveAll(filepath.Join(st.work, "e2e", fmt.Sprintf("%d", n)))
	})
	for i, where := range wheres {
		r := baseRes[i]
		c.Eval(1)
		switch r.Verdict {
		case "ok":
			continue
		case "violation":
			r.Detail["level"] = "e2e"
			c.Violate("C18:e2e:"+where+":benign-case-fails", where+" \"plain\": "+r.What, r.Detail)
		default:
			c.Inconclusive("e2e: benign " + where + " case: " + r.What)
		}
		skip[where] = true
	}
	filter := func(l []*c18E2ECase) []*c18E2ECase {
		var out []*c18E2ECase
		for _, ec := range l {
			if !skip[ec.Where] {
				out = append(out, ec)
			}
		}
		return out
	}
	phaseA = filter(phaseA)
	run(phaseA, func(ec *c18E2ECase) string {
		if ec.Single == "invalid-utf8" {
			return "C18:invalid-utf8:e2e:" + ec.Where
		}
		return "C18:e2e:" + ec.Where + ":" + ec.Single
	})
	// phase B: everything that passed on its own, combined; plus payloads
	var phaseB []*c18E2ECase
	for _, where := range []string{"psdir", "program-path"} {
		var sb strings.Builder
		for _, ec := range phaseA {
			if ec.Where == where && !bad[where+":"+ec.Single] && ec.Single != "alnum" {
				sb.WriteString(strings.TrimSuffix(strings.TrimPrefix(ec.S, "a"), "b"))
			}
		}
		if sb.Len() > 0 {
			phaseB = append(phaseB, mk(where, "all"+sb.String()+"end", ""))
		}
	}
	payloads := []string{"$(touch CANARY)", "`touch CANARY`", "x; touch CANARY ;", "x\ntouch CANARY\n", "x\" ; touch CANARY ; \"",
		"x' ; touch CANARY ; '", "$HOME ${a} $$", "x & touch CANARY &", "x > CANARY", "\u202eabc \u05d0\u05d1 e\u0301 \U0001F468\u200d\U0001F469", "-rf", " lead", "trail "}
	for _, p := range payloads {
		phaseB = append(phaseB, mk("psdir", p, ""))
	}
	for i := 0; i < c.Pick(6, 120); i++ {
		s := c18RandString(rng, 2+rng.Intn(20), 40, false)
		if s != "" {
			where := "psdir"
			if i%3 == 2 {
				where = "program-path"
			}
			phaseB = append(phaseB, mk(where, s, ""))
		}
	}
	phaseB = filter(phaseB)
	run(phaseB, func(ec *c18E2ECase) string {
		// blame the classes which already fail on their own; otherwise this is a new combination
		cls := map[string]bool{}
		blamed := map[string]bool{}
		for _, u := range c18Units(0, ec.S) {
			k := c18Class(u.S)
			cls[k] = true
			if bad[ec.Where+":"+k] {
				blamed[k] = true
			}
		}
		if len(blamed) > 0 {
			var l []string
			for k := range blamed {
				l = append(l, k)
			}
			sort.Strings(l)
			if l[0] == "invalid-utf8" {
				return "C18:invalid-utf8:e2e:" + ec.Where
			}
			return "C18:e2e:" + ec.Where + ":" + l[0]
		}
		return "C18:e2e:" + ec.Where + ":combination:" + c18SigClasses(cls)
	})
	var sigs []string
	for s := range vios {
		sigs = append(sigs, s)
	}
	sort.Strings(sigs)
	for _, s := range sigs {
		v := vios[s]
		v.detail["level"] = "e2e"
		c.Violate(v.sig, v.what, v.detail)
	}
	for k, v := range counts {
		c.Count("e2e_runs_"+k, int64(v))
	}
}

// =====================================================================

func c18LoadSettings(repo string) *core.JobManagerSettings {
	var cfg struct {
		Settings *core.JobManagerSettings `json:"settings"`
	}
	if b, err := os.ReadFile(filepath.Join(repo, "jobmanagers", "config.json")); err == nil {
		json.Unmarshal(b, &cfg)
	}
	if cfg.Settings == nil {
		cfg.Settings = &core.JobManagerSettings{ThreadsPerJob: 1, MemGBPerJob: 1, ExtraVmemGB: 3,
			ThreadEnvs: []string{"GOMAXPROCS", "OMP_NUM_THREADS"}}
	}
	return cfg.Settings
}

func c18Replay(st *c18State, se *c18ScriptEnv) {
	c := st.c
	var rp struct {
		Signature string `json:"signature"`
		Case      struct {
			Level string          `json:"level"`
			SB64  []byte          `json:"s_b64"`
			Case  json.RawMessage `json:"case"`
		} `json:"case"`
	}
	b, err := os.ReadFile(c.Replay)
	if err != nil || json.Unmarshal(b, &rp) != nil {
		c.Inconclusive("replay file unreadable")
		return
	}
	c.Eval(1)
	switch rp.Case.Level {
	case "quote":
		qw := st.quoteWorker("replay", 0)
		s := string(rp.Case.SB64)
		for _, sh := range st.shells {
			f, inc := st.quoteEvalOne(qw, sh, s)
			if inc {
				c.Inconclusive("replay: watchdog")
			} else if f != nil {
				c.Violate(rp.Signature, f.describe(s), map[string]interface{}{"level": "quote", "s_b64": []byte(s), "observed": f})
			}
		}
	case "script":
		var sc c18ScriptCase
		if json.Unmarshal(rp.Case.Case, &sc) != nil {
			c.Inconclusive("replay: bad case")
			return
		}
		sc.Fields = nil
		for _, f := range sc.FieldsB64 {
			sc.Fields = append(sc.Fields, string(f))
		}
		sc.Tmpl = -1
		for i, t := range se.templates {
			if t.Name == sc.TmplName {
				sc.Tmpl = i
			}
		}
		if sc.Tmpl < 0 {
			c.Inconclusive("replay: template gone")
			return
		}
		d, inc := se.evaluate(&sc, sc.Fields)
		if inc {
			c.Inconclusive("replay: watchdog")
		} else if d != nil {
			c.Violate(rp.Signature, d.Mode+": "+d.What, map[string]interface{}{"level": "script", "case": &sc, "deviation": d})
		}
	case "e2e":
		var ec c18E2ECase
		if json.Unmarshal(rp.Case.Case, &ec) != nil {
			c.Inconclusive("replay: bad case")
			return
		}
		ec.S = string(ec.SB64)
		r := st.e2eRun(1, &ec)
		switch r.Verdict {
		case "violation":
			r.Detail["level"] = "e2e"
			c.Violate(rp.Signature, r.What, r.Detail)
		case "inconclusive":
			c.Inconclusive(r.What)
		}
	default:
		c.Inconclusive("replay: unknown level")
	}
}

func init() {
	register("C18", "exploration", func(c *vf.Ctx) {
		c.SetRule("Three levels, each decided by real shells (dash = /bin/sh, and bash) evaluating the real output. " +
			"(1) quote round trip: `printf %s <appendShellSafeQuote(s)>` must print s byte for byte, with empty stderr, exit 0 and an untouched working directory " +
			"(which holds glob-matchable files and a KEEP file; strings try to create CANARY / remove KEEP); strings = every 1- and 2-character (thorough: 3-character) " +
			"combination of 33 shell-special characters alone / a<X>b / leading / trailing, every ASCII byte 1..127, an injection payload list, seeded random Unicode " +
			"(combining, RTL, bidi controls, emoji, ZWJ, line separators, private use, U+10FFFF) mixed with specials, long and many-line strings; strings containing invalid UTF-8 bytes " +
			"form a separate class (signature prefix C18:invalid-utf8:). Strings are batched per shell invocation and bisected down to the single string on any deviation. " +
			"(2) script level: RemoteJobManager.jobScript with every template in jobmanagers/ and hostile program path (a symlink to the recorder), arguments, environment values, " +
			"metadata (stdout/stderr) path and working directory; the script is run by dash on stdin and bash as a file (thorough: all four combinations) from the hostile working directory; " +
			"a recorder process reports argv[0], argv, its whole environment and physical cwd; all must equal the originals, no other environment variable may appear, stdout/stderr must arrive " +
			"exactly at the given paths (template with redirection) or be exactly the recorder's markers, and no file may appear or vanish anywhere. " +
			"(3) end to end: real mrp --jobmode=fake_remote on a one-stage pipeline with hostile --psdir or hostile install path (mrjob's program path); the stage process records what it received, " +
			"every saved _jobscript is re-evaluated by dash and bash with a recorder in mrjob's place. " +
			"Failing cases are attributed by delta debugging to a minimal set of characters; each distinct (role, character class) gets its own signature; cases are re-evaluated with known culprits removed so that one defect cannot hide another. " +
			"distinct = distinct case content; non-trivial = contains at least one non-alphanumeric character.")
		c.Assume("a POSIX shell is represented by dash and bash (both locales C; thorough adds bash under C.UTF-8)")
		c.Assume("scheduler directive lines (#$, #BSUB, #SBATCH, #PBS) are comments to the shell: they are only required to stay comments; how each scheduler's own option parser unquotes them is outside this property")
		c.Assume("strings contain no NUL byte; path components additionally contain no '/' and are at most 200 bytes")
		c.Assume("end-to-end cases in which mrp fails in --jobmode=local as well (no job script involved) are not attributed to job scripts")
		os.Unsetenv("MRO_ACCOUNT")
		st := &c18State{c: c}
		st.work, _ = filepath.EvalSymlinks(c.WorkDir)
		if st.work == "" {
			st.work = c.WorkDir
		}
		st.self, _ = os.Executable()
		if p, err := filepath.EvalSymlinks(st.self); err == nil {
			st.self = p
		}
		st.shells = c18Shells(!c.Quick())
		if len(st.shells) == 0 {
			c.Inconclusive("no shell found")
			return
		}
		var names []string
		for _, s := range st.shells {
			names = append(names, s.Name+"="+s.Path+" LC_ALL="+s.Locale)
		}
		c.Set("shells", names)
		se := &c18ScriptEnv{st: st, templates: c18LoadTemplates(filepath.Join(c.RepoDir, "jobmanagers")),
			settings: c18LoadSettings(c.RepoDir)}
		for _, sh := range st.shells {
			if sh.Name == "bash-utf8" {
				continue
			}
			stdinFirst := sh.Name != "bash"
			se.modes = append(se.modes, c18Mode{sh, stdinFirst})
			if !c.Quick() {
				se.modes = append(se.modes, c18Mode{sh, !stdinFirst})
			}
		}
		if c.Replay != "" {
			c18Replay(st, se)
			return
		}
		rng := rand.New(rand.NewSource(c.Seed))
		valid, invalid := c18QuoteWorkload(rng, c)
		c.Sample(map[string]interface{}{"level": "quote", "s": fmt.Sprintf("%q", valid[len(valid)/2]), "quoted": core.VerifShellSafeQuote(valid[len(valid)/2])})
		t0 := time.Now()
		st.quoteLevel("valid", valid)
		st.quoteLevel("invalid_utf8", invalid)
		c.Set("seconds_quote_level", int(time.Since(t0).Seconds()))
		t0 = time.Now()
		if len(se.templates) == 0 {
			c.Inconclusive("no job templates found in " + c.RepoDir + "/jobmanagers")
		} else {
			se.scriptLevel(rand.New(rand.NewSource(c.Seed + 1)))
		}
		c.Set("seconds_script_level", int(time.Since(t0).Seconds()))
		t0 = time.Now()
		st.e2eLevel(rand.New(rand.NewSource(c.Seed + 2)))
		c.Set("seconds_e2e_level", int(time.Since(t0).Seconds()))
		c.Count("shell_invocations", atomic.LoadInt64(&st.invoked))
	})
}
