package main

// C17: JSON validation and filtering agree with the type system.
//
// Reading of the code under test (martian/syntax/{builtin,collection,struct,
// user_file}_type*.go and their tests):
//   - IsValidJson returns a non-nil error when the value does not have the
//     declared shape ("reject"); for user-defined file types a non-string is
//     only written to the alarms builder ("alarm", kept for backwards
//     compatibility) and nil is returned.  "clean" = nil error and no alarms.
//     null is clean for every type; struct values may be supersets (extra
//     keys); int accepts only integer literals in the int64 range (3.0 and
//     3e0 are rejected by validation, but converted by FilterJson); typed
//     maps whose IsFile() is "directory" additionally require every key to be
//     a legal unix file name (TestTypedMapValidJson).
//   - FilterJson returns (bytes, fatal, err).  A non-fatal err is a warning
//     (TestBuiltinFilterJson: 1.0 for int gives "1", fatal=false, err!=nil);
//     the returned bytes are meaningful whenever fatal is false.
//   - IsAssignableFrom: int->float, string->file/path, user file type ->
//     file/string, file/string -> user file type, struct/typed map -> map,
//     struct -> typed map when every member is assignable to the element
//     type, struct -> struct when every member of the target exists in the
//     source with an assignable type, arrays/typed maps elementwise; "null
//     can be assigned to anything" (types.go).
//
// The reference implementation below (c17Conform, c17RefFilter,
// c17RefAssignable) works on a parsed JSON tree and the generator's own type
// IR and calls no martian code.

import (
	"bytes"
	"encoding/json"
	"errors"
	"fmt"
	"math/big"
	"math/rand"
	"os"
	"runtime"
	"runtime/debug"
	"sort"
	"strconv"
	"strings"
	"sync"
	"time"

	"github.com/martian-lang/martian/martian/syntax"
	"verif/harness/internal/vf"
)

// ---------------------------------------------------------------- type IR

type c17Type struct {
	K    string // int float string bool path file map user struct array tmap null
	Name string // user file type / struct name
	Elem *c17Type
	skey string
}

type c17Field struct {
	Name string
	T    *c17Type
}

type c17Struct struct {
	Name   string
	Fields []c17Field
}

func (s *c17Struct) field(n string) *c17Type {
	for i := range s.Fields {
		if s.Fields[i].Name == n {
			return s.Fields[i].T
		}
	}
	return nil
}

func (t *c17Type) mro() string {
	switch t.K {
	case "user", "struct":
		return t.Name
	case "array":
		return t.Elem.mro() + "[]"
	case "tmap":
		return "map<" + t.Elem.mro() + ">"
	}
	return t.K
}

func (t *c17Type) typeId() syntax.TypeId {
	var id syntax.TypeId
	for t.K == "array" {
		id.ArrayDim++
		t = t.Elem
	}
	if t.K == "tmap" {
		id.MapDim = 1
		t = t.Elem
		for t.K == "array" {
			id.MapDim++
			t = t.Elem
		}
	}
	id.Tname = t.mro()
	return id
}

func c17Arr(t *c17Type) *c17Type  { return &c17Type{K: "array", Elem: t} }
func c17TMap(t *c17Type) *c17Type { return &c17Type{K: "tmap", Elem: t} }

// wrap builds map<base[]^(mdim-1)>[]^adim (mdim==0: no map).
func c17Wrap(base *c17Type, adim, mdim int) *c17Type {
	t := base
	if mdim > 0 {
		for i := 1; i < mdim; i++ {
			t = c17Arr(t)
		}
		t = c17TMap(t)
	}
	for i := 0; i < adim; i++ {
		t = c17Arr(t)
	}
	return t
}

func (t *c17Type) baseOf() *c17Type {
	for t.K == "array" || t.K == "tmap" {
		t = t.Elem
	}
	return t
}

// kindPath is the spine of kinds, e.g. array>tmap>struct.
func (t *c17Type) kindPath() string {
	if t.Elem != nil {
		return t.K + ">" + t.Elem.kindPath()
	}
	return t.K
}

// ---------------------------------------------------------------- universe

type c17Universe struct {
	Index   int
	Seed    int64
	Structs []*c17Struct
	byName  map[string]*c17Struct
	subOf   map[string]string
	Pool    []*c17Type
	Src     string
	lkA     *syntax.TypeLookup
	lkB     *syntax.TypeLookup
	realA   []syntax.Type
	realB   []syntax.Type
	nullT   syntax.Type
	fkMemo  map[string]int
	assign  [][]int // assign[si] = pool indexes T (!= si) with refAssignable(T,S)
}

var c17Builtins = []string{"int", "float", "string", "bool", "path", "file", "map"}
var c17Users = []string{"txt", "json"}
var c17FieldNames = []string{"a", "b", "c", "d", "e", "n", "x", "y", "val", "cnt", "f0", "f1", "Alpha", "beta_2", "m", "k"}

// structural key with struct bodies expanded (structs are never recursive).
func (u *c17Universe) skey(t *c17Type) string {
	if t.skey != "" {
		return t.skey
	}
	var s string
	switch t.K {
	case "array", "tmap":
		s = t.K + ">" + u.skey(t.Elem)
	case "struct":
		var sb strings.Builder
		sb.WriteString("struct{")
		for i, f := range u.byName[t.Name].Fields {
			if i > 0 {
				sb.WriteByte(',')
			}
			sb.WriteString(f.Name + ":" + u.skey(f.T))
		}
		sb.WriteByte('}')
		s = sb.String()
	default:
		s = t.K
	}
	t.skey = s
	return s
}

func (u *c17Universe) randLeaf(r *rand.Rand, noMap bool) *c17Type {
	for {
		n := r.Intn(18)
		switch {
		case n < 4:
			return &c17Type{K: "int"}
		case n < 6:
			return &c17Type{K: "float"}
		case n < 8:
			return &c17Type{K: "string"}
		case n < 9:
			return &c17Type{K: "bool"}
		case n < 10:
			return &c17Type{K: "path"}
		case n < 11:
			return &c17Type{K: "file"}
		case n < 12:
			if noMap {
				continue
			}
			return &c17Type{K: "map"}
		case n < 14:
			return &c17Type{K: "user", Name: c17Users[r.Intn(len(c17Users))]}
		default:
			if len(u.Structs) == 0 {
				continue
			}
			return &c17Type{K: "struct", Name: u.Structs[r.Intn(len(u.Structs))].Name}
		}
	}
}

func (u *c17Universe) randType(r *rand.Rand) *c17Type {
	w := r.Intn(12)
	switch {
	case w < 4:
		return u.randLeaf(r, false)
	case w < 7:
		return c17Wrap(u.randLeaf(r, false), 1+r.Intn(2)+r.Intn(2)*r.Intn(2), 0)
	case w < 10:
		return c17Wrap(u.randLeaf(r, true), 0, 1+r.Intn(3))
	default:
		return c17Wrap(u.randLeaf(r, true), 1+r.Intn(2), 1+r.Intn(3))
	}
}

func (u *c17Universe) addStruct(s *c17Struct) *c17Struct {
	u.Structs = append(u.Structs, s)
	u.byName[s.Name] = s
	return s
}

func (u *c17Universe) randStruct(r *rand.Rand, name string) *c17Struct {
	s := &c17Struct{Name: name}
	perm := r.Perm(len(c17FieldNames))
	nf := 1 + r.Intn(4)
	for i := 0; i < nf; i++ {
		s.Fields = append(s.Fields, c17Field{c17FieldNames[perm[i]], u.randType(r)})
	}
	return s
}

// widen returns a type assignable from t (by the documented coercions).
func (u *c17Universe) widen(r *rand.Rand, t *c17Type) *c17Type {
	if r.Intn(10) < 3 {
		return t
	}
	switch t.K {
	case "int":
		return &c17Type{K: "float"}
	case "string":
		return []*c17Type{{K: "file"}, {K: "path"}, {K: "user", Name: "txt"}}[r.Intn(3)]
	case "user":
		return []*c17Type{{K: "file"}, {K: "string"}}[r.Intn(2)]
	case "file":
		return &c17Type{K: "user", Name: "json"}
	case "struct":
		if sub, ok := u.subOf[t.Name]; ok {
			return &c17Type{K: "struct", Name: sub}
		}
		if r.Intn(4) == 0 {
			return &c17Type{K: "map"}
		}
		// struct -> typed map of its first field's type when every field
		// is assignable to that.
		if fs := u.byName[t.Name].Fields; r.Intn(2) == 0 && fs[0].T.baseOf().K != "map" && !strings.Contains(fs[0].T.kindPath(), "tmap") {
			all := true
			for _, f := range fs {
				all = all && u.refAssignable(fs[0].T, f.T)
			}
			if all {
				return c17TMap(fs[0].T)
			}
		}
	case "array":
		return c17Arr(u.widen(r, t.Elem))
	case "tmap":
		if r.Intn(6) == 0 {
			return &c17Type{K: "map"}
		}
		if w := u.widen(r, t.Elem); w.baseOf().K != "map" && !strings.Contains(w.kindPath(), "tmap") {
			return c17TMap(w)
		}
	}
	return t
}

// breakType returns a type which should not be assignable from t.
func (u *c17Universe) breakType(r *rand.Rand, t *c17Type) *c17Type {
	switch r.Intn(4) {
	case 0:
		return c17Arr(t)
	case 1:
		if t.K == "array" {
			return t.Elem
		}
		if t.K == "tmap" {
			return t.Elem
		}
	case 2:
		if t.K == "array" || t.K == "tmap" {
			return &c17Type{K: t.K, Elem: u.breakType(r, t.Elem)}
		}
	}
	switch t.K {
	case "float":
		return &c17Type{K: "int"}
	case "int":
		return &c17Type{K: "bool"}
	case "string":
		return &c17Type{K: "int"}
	case "user":
		if t.Name == "txt" {
			return &c17Type{K: "user", Name: "json"}
		}
		return &c17Type{K: "user", Name: "txt"}
	case "file":
		return &c17Type{K: "path"}
	case "path":
		return &c17Type{K: "file"}
	case "tmap":
		return c17Arr(t.Elem)
	}
	return c17Arr(t)
}

func c17GenUniverse(index int, seed int64) *c17Universe {
	r := rand.New(rand.NewSource(seed))
	u := &c17Universe{Index: index, Seed: seed, byName: map[string]*c17Struct{}, subOf: map[string]string{}, fkMemo: map[string]int{}}
	nBase := 3 + r.Intn(3)
	var bases []*c17Struct
	for i := 0; i < nBase; i++ {
		s := u.addStruct(u.randStruct(r, fmt.Sprintf("S%d", i)))
		bases = append(bases, s)
		// SUB: subset of the fields, declared right away so that later
		// structs can use it and widen() can map S -> SUB.
		if len(s.Fields) >= 2 {
			sub := &c17Struct{Name: s.Name + "SUB"}
			for _, f := range s.Fields {
				if r.Intn(3) > 0 {
					sub.Fields = append(sub.Fields, f)
				}
			}
			if len(sub.Fields) == 0 || len(sub.Fields) == len(s.Fields) {
				sub.Fields = append([]c17Field(nil), s.Fields[:len(s.Fields)-1]...)
			}
			u.addStruct(sub)
			u.subOf[s.Name] = sub.Name
		}
	}
	for _, s := range bases {
		wide := &c17Struct{Name: s.Name + "WIDE"}
		for _, f := range s.Fields {
			wide.Fields = append(wide.Fields, c17Field{f.Name, u.widen(r, f.T)})
		}
		u.addStruct(wide)
		miss := &c17Struct{Name: s.Name + "MISS"}
		miss.Fields = append(miss.Fields, s.Fields...)
		k := r.Intn(len(miss.Fields))
		if r.Intn(4) == 0 {
			miss.Fields[k].Name = miss.Fields[k].Name + "_r"
		} else {
			miss.Fields[k].T = u.breakType(r, miss.Fields[k].T)
		}
		u.addStruct(miss)
	}
	// UNI: all fields assignable to one element type E, so map<E> <- UNI.
	var uniElems []*c17Type
	for i := 0; i < 2; i++ {
		var e *c17Type
		for {
			e = c17Wrap(u.randLeaf(r, true), r.Intn(2), 0)
			if e.baseOf().K != "map" {
				break
			}
		}
		uni := &c17Struct{Name: fmt.Sprintf("U%d", i)}
		narrow := func(t *c17Type) *c17Type {
			b := t.baseOf()
			nb := b
			switch b.K {
			case "float":
				nb = &c17Type{K: "int"}
			case "file", "path":
				nb = &c17Type{K: "string"}
			case "struct":
				for _, s := range u.Structs {
					if u.subOf[s.Name] == b.Name {
						nb = &c17Type{K: "struct", Name: s.Name}
					}
				}
			}
			if t.K == "array" {
				return c17Arr(nb)
			}
			return nb
		}
		nf := 2 + r.Intn(2)
		for j := 0; j < nf; j++ {
			ft := e
			if r.Intn(2) == 0 {
				ft = narrow(e)
			}
			uni.Fields = append(uni.Fields, c17Field{c17FieldNames[j], ft})
		}
		u.addStruct(uni)
		uniElems = append(uniElems, e)
	}
	// NEST: struct of structs / collections of structs.
	nest := &c17Struct{Name: "NEST"}
	for j := 0; j < 3; j++ {
		b := &c17Type{K: "struct", Name: u.Structs[r.Intn(len(u.Structs))].Name}
		nest.Fields = append(nest.Fields, c17Field{c17FieldNames[j], c17Wrap(b, r.Intn(3), r.Intn(3))})
	}
	u.addStruct(nest)

	// Pool: every base type bare, every struct under a common set of
	// wrappings (so related structs meet under the same collection shape),
	// builtins/user types under two of them, plus map<E> for the UNI structs.
	wraps := [][2]int{{1, 0}, {2, 0}, {0, 1}, {0, 2}, {1, 1}, {2, 2}, {3, 0}, {1, 3}, {0, 3}}
	r.Shuffle(len(wraps), func(i, j int) { wraps[i], wraps[j] = wraps[j], wraps[i] })
	common := wraps[:3]
	seen := map[string]bool{}
	add := func(t *c17Type) {
		if !seen[t.mro()] {
			seen[t.mro()] = true
			u.Pool = append(u.Pool, t)
		}
	}
	for _, b := range c17Builtins {
		bt := &c17Type{K: b}
		add(bt)
		for k := 0; k < 3; k++ {
			w := wraps[r.Intn(len(wraps))]
			if b == "map" {
				w[1] = 0
				if w[0] == 0 {
					w[0] = 1
				}
			}
			add(c17Wrap(bt, w[0], w[1]))
		}
	}
	for _, n := range c17Users {
		bt := &c17Type{K: "user", Name: n}
		add(bt)
		for _, w := range common {
			add(c17Wrap(bt, w[0], w[1]))
		}
	}
	for _, s := range u.Structs {
		bt := &c17Type{K: "struct", Name: s.Name}
		add(bt)
		for _, w := range common {
			add(c17Wrap(bt, w[0], w[1]))
		}
	}
	for _, e := range uniElems {
		add(c17TMap(e))
		add(c17Arr(c17TMap(e)))
		add(e)
	}
	for i := 0; i < 6; i++ {
		add(u.randType(r))
	}
	// source
	var sb strings.Builder
	for _, n := range c17Users {
		fmt.Fprintf(&sb, "filetype %s;\n", n)
	}
	sb.WriteString("\n")
	for _, s := range u.Structs {
		fmt.Fprintf(&sb, "struct %s(\n", s.Name)
		for _, f := range s.Fields {
			fmt.Fprintf(&sb, "    %s %s,\n", f.T.mro(), f.Name)
		}
		sb.WriteString(")\n\n")
	}
	sb.WriteString("stage C17_STAGE(\n")
	for i, t := range u.Pool {
		fmt.Fprintf(&sb, "    in  %s p%d,\n", t.mro(), i)
	}
	sb.WriteString("    out int o,\n    src comp \"x\",\n)\n")
	u.Src = sb.String()
	return u
}

func (u *c17Universe) compile() error {
	for k := 0; k < 2; k++ {
		_, _, ast, err := syntax.ParseSourceBytes([]byte(u.Src), "c17.mro", nil, false)
		if err != nil {
			return err
		}
		if ast == nil {
			return errors.New("no ast")
		}
		lk := &ast.TypeTable
		reals := make([]syntax.Type, len(u.Pool))
		for i, t := range u.Pool {
			rt := lk.Get(t.typeId())
			if rt == nil {
				return fmt.Errorf("TypeTable.Get(%s) returned nil", t.mro())
			}
			if got := rt.TypeId(); got != t.typeId() {
				return fmt.Errorf("TypeId round trip: asked %v got %v", t.typeId(), got)
			}
			reals[i] = rt
		}
		if k == 0 {
			u.lkA, u.realA = lk, reals
			u.nullT = lk.Get(syntax.TypeId{Tname: "null"})
		} else {
			u.lkB, u.realB = lk, reals
		}
	}
	return nil
}

func (u *c17Universe) real(t *c17Type) syntax.Type { return u.lkA.Get(t.typeId()) }

// ---------------------------------------------------------------- JSON tree

type c17V struct {
	K   byte   // 'n' null, 'b' bool, '#' number, 's' string, 'a' array, 'o' object, 'r' raw token (possibly malformed)
	Lit string // bool/number/raw text; for strings the JSON literal including quotes
	Str string // decoded string
	Arr []*c17V
	Obj []c17KV
}

type c17KV struct {
	Lit  string // key literal including quotes
	Name string // decoded key
	Val  *c17V
}

func c17Null() *c17V           { return &c17V{K: 'n', Lit: "null"} }
func c17Num(l string) *c17V    { return &c17V{K: '#', Lit: l} }
func c17Raw(l string) *c17V    { return &c17V{K: 'r', Lit: l} }
func c17Bool(b bool) *c17V     { return &c17V{K: 'b', Lit: strconv.FormatBool(b)} }
func c17ArrV(e ...*c17V) *c17V { return &c17V{K: 'a', Arr: e} }
func c17ObjV() *c17V           { return &c17V{K: 'o'} }

func c17QuoteStr(s string) string {
	var b bytes.Buffer
	enc := json.NewEncoder(&b)
	enc.SetEscapeHTML(false)
	enc.Encode(s)
	return strings.TrimSuffix(b.String(), "\n")
}

func c17Str(s string) *c17V { return &c17V{K: 's', Lit: c17QuoteStr(s), Str: s} }

// c17StrLit makes a string node from a JSON literal (decoded with the
// standard library).
func c17StrLit(lit string) *c17V {
	var s string
	if err := json.Unmarshal([]byte(lit), &s); err != nil {
		panic("bad string literal in generator: " + lit)
	}
	return &c17V{K: 's', Lit: lit, Str: s}
}

func (v *c17V) set(name string, val *c17V) {
	v.Obj = append(v.Obj, c17KV{Lit: c17QuoteStr(name), Name: name, Val: val})
}

func (v *c17V) clone() *c17V {
	c := *v
	if v.Arr != nil {
		c.Arr = make([]*c17V, len(v.Arr))
		for i, e := range v.Arr {
			c.Arr[i] = e.clone()
		}
	}
	if v.Obj != nil {
		c.Obj = make([]c17KV, len(v.Obj))
		for i, kv := range v.Obj {
			c.Obj[i] = c17KV{kv.Lit, kv.Name, kv.Val.clone()}
		}
	}
	return &c
}

// last returns the object's members with JSON "last duplicate wins"
// semantics, in order of first appearance of each key.
func (v *c17V) last() ([]string, map[string]*c17V) {
	m := make(map[string]*c17V, len(v.Obj))
	var order []string
	for _, kv := range v.Obj {
		if _, ok := m[kv.Name]; !ok {
			order = append(order, kv.Name)
		}
		m[kv.Name] = kv.Val
	}
	return order, m
}

func (v *c17V) hasRaw() bool {
	if v.K == 'r' {
		return true
	}
	for _, e := range v.Arr {
		if e.hasRaw() {
			return true
		}
	}
	for _, kv := range v.Obj {
		if kv.Val.hasRaw() {
			return true
		}
	}
	return false
}

// skeleton is the structural shape of a value (no scalar contents).
func (v *c17V) skeleton(sb *strings.Builder, depth int) {
	if depth <= 0 && (v.K == 'a' || v.K == 'o') {
		sb.WriteByte(v.K)
		return
	}
	switch v.K {
	case '#':
		if c17NumIsInt(v.Lit) {
			sb.WriteByte('#')
		} else {
			sb.WriteByte('%')
		}
	case 'a':
		sb.WriteByte('[')
		for i, e := range v.Arr {
			if i >= 3 {
				sb.WriteString("..")
				break
			}
			e.skeleton(sb, depth-1)
		}
		sb.WriteByte(']')
	case 'o':
		sb.WriteByte('{')
		for i, kv := range v.Obj {
			if i >= 6 {
				sb.WriteString("..")
				break
			}
			sb.WriteString(kv.Name)
			sb.WriteByte(':')
			kv.Val.skeleton(sb, depth-1)
			sb.WriteByte(',')
		}
		sb.WriteByte('}')
	default:
		sb.WriteByte(v.K)
	}
}

// printing.  style 0 compact, 1 spaced, 2 indented, 3 random whitespace.
type c17Printer struct {
	style int
	r     *rand.Rand
	buf   bytes.Buffer
}

var c17WS = []string{"", "", " ", "\n", "\t", "\r\n ", "  ", " \t\n"}

func (p *c17Printer) gap(depth int, kind byte) {
	switch p.style {
	case 1:
		if kind == ',' || kind == ':' {
			p.buf.WriteByte(' ')
		}
	case 2:
		if kind == ':' {
			p.buf.WriteByte(' ')
		} else if kind != 'e' {
			p.buf.WriteByte('\n')
			for i := 0; i < depth; i++ {
				p.buf.WriteByte('\t')
			}
		}
	case 3:
		p.buf.WriteString(c17WS[p.r.Intn(len(c17WS))])
	}
}

func (p *c17Printer) val(v *c17V, depth int) {
	switch v.K {
	case 'a':
		p.buf.WriteByte('[')
		if len(v.Arr) == 0 {
			p.gap(depth, 'e')
		}
		for i, e := range v.Arr {
			if i > 0 {
				if p.style == 3 {
					p.gap(depth, 'x')
				}
				p.buf.WriteByte(',')
				p.gap(depth+1, ',')
			} else {
				p.gap(depth+1, '[')
			}
			p.val(e, depth+1)
		}
		if len(v.Arr) > 0 {
			p.gap(depth, ']')
		}
		p.buf.WriteByte(']')
	case 'o':
		p.buf.WriteByte('{')
		if len(v.Obj) == 0 {
			p.gap(depth, 'e')
		}
		for i, kv := range v.Obj {
			if i > 0 {
				if p.style == 3 {
					p.gap(depth, 'x')
				}
				p.buf.WriteByte(',')
				p.gap(depth+1, ',')
			} else {
				p.gap(depth+1, '[')
			}
			p.buf.WriteString(kv.Lit)
			if p.style == 3 {
				p.gap(depth, 'x')
			}
			p.buf.WriteByte(':')
			p.gap(depth+1, ':')
			p.val(kv.Val, depth+1)
		}
		if len(v.Obj) > 0 {
			p.gap(depth, ']')
		}
		p.buf.WriteByte('}')
	default:
		p.buf.WriteString(v.Lit)
	}
}

func c17Print(v *c17V, style int, r *rand.Rand) []byte {
	if r == nil && style == 3 {
		style = 0
	}
	p := c17Printer{style: style, r: r}
	p.val(v, 0)
	return p.buf.Bytes()
}

// parsing (of martian's output and of byte-mutated inputs) with the standard
// library tokenizer; number literals and duplicate keys are preserved.
func c17Parse(b []byte) (*c17V, error) {
	if !json.Valid(b) {
		return nil, errors.New("not valid JSON")
	}
	dec := json.NewDecoder(bytes.NewReader(b))
	dec.UseNumber()
	return c17ParseVal(dec)
}

func c17ParseVal(dec *json.Decoder) (*c17V, error) {
	tok, err := dec.Token()
	if err != nil {
		return nil, err
	}
	switch x := tok.(type) {
	case nil:
		return c17Null(), nil
	case bool:
		return c17Bool(x), nil
	case json.Number:
		return c17Num(string(x)), nil
	case string:
		return c17Str(x), nil
	case json.Delim:
		if x == '[' {
			v := &c17V{K: 'a', Arr: []*c17V{}}
			for dec.More() {
				e, err := c17ParseVal(dec)
				if err != nil {
					return nil, err
				}
				v.Arr = append(v.Arr, e)
			}
			_, err := dec.Token()
			return v, err
		} else if x == '{' {
			v := c17ObjV()
			for dec.More() {
				kt, err := dec.Token()
				if err != nil {
					return nil, err
				}
				k, ok := kt.(string)
				if !ok {
					return nil, errors.New("non-string key")
				}
				e, err := c17ParseVal(dec)
				if err != nil {
					return nil, err
				}
				v.set(k, e)
			}
			_, err := dec.Token()
			return v, err
		}
	}
	return nil, fmt.Errorf("unexpected token %v", tok)
}

// c17Canon renders martian's output for messages and replay files with
// object keys sorted (typed map filtering emits keys in Go map order, which
// would make witnesses differ from run to run); non-JSON is shown raw.
func c17Canon(b []byte) string {
	v, err := c17Parse(b)
	if err != nil {
		return string(b)
	}
	var sortKeys func(v *c17V)
	sortKeys = func(v *c17V) {
		for _, e := range v.Arr {
			sortKeys(e)
		}
		for _, kv := range v.Obj {
			sortKeys(kv.Val)
		}
		sort.SliceStable(v.Obj, func(i, j int) bool { return v.Obj[i].Name < v.Obj[j].Name })
	}
	sortKeys(v)
	return string(c17Print(v, 0, nil))
}

func c17NumIsInt(l string) bool { return !strings.ContainsAny(l, ".eE") }

// numbers: integer literals compare exactly, other literals at float64
// precision; an integer literal never equals a non-integer literal (the only
// rewrite the filter may do is non-integer literal -> integer literal for
// int, which the reference filter does as well).
func c17NumEq(a, b string) bool {
	ai, bi := c17NumIsInt(a), c17NumIsInt(b)
	if ai != bi {
		return false
	}
	if ai {
		x, ok1 := new(big.Int).SetString(a, 10)
		y, ok2 := new(big.Int).SetString(b, 10)
		return ok1 && ok2 && x.Cmp(y) == 0
	}
	fa, ea := strconv.ParseFloat(a, 64)
	fb, eb := strconv.ParseFloat(b, 64)
	if ea != nil || eb != nil {
		return a == b
	}
	return fa == fb
}

func c17Equal(a, b *c17V) bool {
	if a.K != b.K {
		return false
	}
	switch a.K {
	case 'n':
		return true
	case 'b', 'r':
		return a.Lit == b.Lit
	case '#':
		return c17NumEq(a.Lit, b.Lit)
	case 's':
		return a.Str == b.Str
	case 'a':
		if len(a.Arr) != len(b.Arr) {
			return false
		}
		for i := range a.Arr {
			if !c17Equal(a.Arr[i], b.Arr[i]) {
				return false
			}
		}
		return true
	case 'o':
		_, ma := a.last()
		_, mb := b.last()
		if len(ma) != len(mb) {
			return false
		}
		for k, va := range ma {
			vb, ok := mb[k]
			if !ok || !c17Equal(va, vb) {
				return false
			}
		}
		return true
	}
	return false
}

// diffClass names the kind of difference between what the filter produced
// and what the reference filter produced, at one level.
func c17DiffClass(got, want *c17V) string {
	if got.K != want.K {
		return "kind-changed"
	}
	switch got.K {
	case '#':
		if c17NumIsInt(got.Lit) != c17NumIsInt(want.Lit) {
			return "number-form"
		}
		return "number-value"
	case 's':
		return "string-value"
	case 'b':
		return "bool-value"
	case 'a':
		if len(got.Arr) != len(want.Arr) {
			return "array-length"
		}
		return "element-value"
	case 'o':
		_, mg := got.last()
		_, mw := want.last()
		for k := range mg {
			if _, ok := mw[k]; !ok {
				return "undeclared-key-kept-or-key-added"
			}
		}
		for k := range mw {
			if _, ok := mg[k]; !ok {
				return "key-dropped"
			}
		}
		return "member-value"
	}
	return "other"
}

// ---------------------------------------------------------------- reference

const (
	c17Clean  = 0
	c17Alarm  = 1
	c17Reject = 2
	c17Panic  = 3
)

var c17VerdictName = []string{"clean", "alarm", "reject", "panic"}

type c17Conf struct {
	V     int
	Cause string   // leaf cause of the worst finding
	Path  []string // steps from the root to it ("[i]" or "k:<key>")
}

func c17Worse(a, b c17Conf) c17Conf {
	if b.V > a.V {
		return b
	}
	return a
}

func c17LegalName(k string) bool {
	if len(k) > 255 || k == "" || k == "." || k == ".." {
		return false
	}
	return !strings.ContainsAny(k, "/\x00")
}

// fileKind: 0 not a file, 1 may contain paths, 2 file, 3 directory.
func (u *c17Universe) fileKind(t *c17Type) int {
	switch t.K {
	case "string", "map":
		return 1
	case "path", "file", "user":
		return 2
	case "array":
		k := u.fileKind(t.Elem)
		if k == 2 {
			return 3
		}
		return k
	case "tmap":
		switch u.fileKind(t.Elem) {
		case 0:
			return 0
		case 2, 3:
			return 3
		}
		return 1
	case "struct":
		if k, ok := u.fkMemo[t.Name]; ok {
			return k
		}
		cur := 0
		for _, f := range u.byName[t.Name].Fields {
			switch u.fileKind(f.T) {
			case 1:
				if cur == 0 {
					cur = 1
				}
			case 2, 3:
				cur = 3
			}
		}
		u.fkMemo[t.Name] = cur
		return cur
	}
	return 0
}

// c17Conform is the reference validator.
func (u *c17Universe) conform(t *c17Type, v *c17V) c17Conf {
	if v.K == 'n' {
		return c17Conf{}
	}
	bad := func(cause string) c17Conf { return c17Conf{V: c17Reject, Cause: t.K + ":" + cause} }
	switch t.K {
	case "int":
		if v.K == '#' && c17NumIsInt(v.Lit) {
			if x, ok := new(big.Int).SetString(v.Lit, 10); ok && x.IsInt64() {
				return c17Conf{}
			}
			return bad("out-of-int64-range")
		}
		return bad("not-an-integer")
	case "float":
		if v.K == '#' {
			if _, err := strconv.ParseFloat(v.Lit, 64); err == nil {
				return c17Conf{}
			}
			return bad("out-of-float64-range")
		}
		return bad("not-a-number")
	case "string", "path", "file":
		if v.K == 's' {
			return c17Conf{}
		}
		return bad("not-a-string")
	case "user":
		if v.K == 's' {
			return c17Conf{}
		}
		return c17Conf{V: c17Alarm, Cause: "user:not-a-string"}
	case "bool":
		if v.K == 'b' {
			return c17Conf{}
		}
		return bad("not-a-bool")
	case "map":
		if v.K == 'o' {
			return c17Conf{}
		}
		return bad("not-an-object")
	case "array":
		if v.K != 'a' {
			return bad("not-an-array")
		}
		var w c17Conf
		for i, e := range v.Arr {
			c := u.conform(t.Elem, e)
			if c.V > w.V {
				c.Path = append([]string{fmt.Sprintf("[%d]", i)}, c.Path...)
				w = c
			}
		}
		return w
	case "tmap":
		if v.K != 'o' {
			return bad("not-an-object")
		}
		order, m := v.last()
		isDir := u.fileKind(t) == 3
		var w c17Conf
		for _, k := range order {
			c := u.conform(t.Elem, m[k])
			if c.V > w.V {
				c.Path = append([]string{"k:" + k}, c.Path...)
				w = c
			}
			if isDir && !c17LegalName(k) && w.V < c17Reject {
				w = bad("illegal-key")
			}
		}
		return w
	case "struct":
		if v.K != 'o' {
			return bad("not-an-object")
		}
		_, m := v.last()
		var w c17Conf
		for _, f := range u.byName[t.Name].Fields {
			fv, ok := m[f.Name]
			if !ok {
				if w.V < c17Reject {
					w = bad("missing-field")
				}
				continue
			}
			c := u.conform(f.T, fv)
			if c.V > w.V {
				c.Path = append([]string{"k:" + f.Name}, c.Path...)
				w = c
			}
		}
		return w
	}
	panic("conform: bad type " + t.K)
}

// refFilter is the reference filter: drop undeclared struct fields, write
// integral floats within the int64 range as integers for int; nothing else.
func (u *c17Universe) refFilter(t *c17Type, v *c17V) *c17V {
	switch {
	case v.K == 'n':
		return v
	case t.K == "int" && v.K == '#' && !c17NumIsInt(v.Lit):
		f, err := strconv.ParseFloat(v.Lit, 64)
		if err == nil && f >= -9223372036854775808.0 && f < 9223372036854775808.0 && f == float64(int64(f)) {
			return c17Num(strconv.FormatInt(int64(f), 10))
		}
		return v
	case t.K == "array" && v.K == 'a':
		out := &c17V{K: 'a', Arr: make([]*c17V, len(v.Arr))}
		for i, e := range v.Arr {
			out.Arr[i] = u.refFilter(t.Elem, e)
		}
		return out
	case t.K == "tmap" && v.K == 'o':
		out := c17ObjV()
		order, m := v.last()
		for _, k := range order {
			out.set(k, u.refFilter(t.Elem, m[k]))
		}
		return out
	case t.K == "struct" && v.K == 'o':
		out := c17ObjV()
		_, m := v.last()
		for _, f := range u.byName[t.Name].Fields {
			if fv, ok := m[f.Name]; ok {
				out.set(f.Name, u.refFilter(f.T, fv))
			}
		}
		return out
	}
	return v
}

// refAssignable is the componentwise reference for IsAssignableFrom.
func (u *c17Universe) refAssignable(t, s *c17Type) bool {
	if s.K == "null" {
		return true
	}
	switch t.K {
	case "array":
		return s.K == "array" && u.refAssignable(t.Elem, s.Elem)
	case "tmap":
		switch s.K {
		case "tmap":
			return u.refAssignable(t.Elem, s.Elem)
		case "struct":
			for _, f := range u.byName[s.Name].Fields {
				if !u.refAssignable(t.Elem, f.T) {
					return false
				}
			}
			return true
		}
		return false
	case "struct":
		if s.K != "struct" {
			return false
		}
		if s.Name == t.Name {
			return true
		}
		ss := u.byName[s.Name]
		for _, f := range u.byName[t.Name].Fields {
			sf := ss.field(f.Name)
			if sf == nil || !u.refAssignable(f.T, sf) {
				return false
			}
		}
		return true
	case "user":
		return s.K == "user" && s.Name == t.Name || s.K == "file" || s.K == "string"
	case "map":
		return s.K == "map" || s.K == "struct" || s.K == "tmap"
	case "float":
		return s.K == "float" || s.K == "int"
	case "file":
		return s.K == "file" || s.K == "string" || s.K == "user"
	case "path":
		return s.K == "path" || s.K == "string"
	case "string":
		return s.K == "string" || s.K == "user"
	default:
		return s.K == t.K
	}
}

// coercion edge at the leaf where the kinds of two types first differ when
// walking matching composites; "" when structurally identical kinds.
func (u *c17Universe) edges(t, s *c17Type, out map[string]bool) {
	if t.K != s.K {
		out[t.K+"<-"+s.K] = true
		return
	}
	switch t.K {
	case "array", "tmap":
		u.edges(t.Elem, s.Elem, out)
	case "struct":
		if t.Name == s.Name {
			return
		}
		ss := u.byName[s.Name]
		for _, f := range u.byName[t.Name].Fields {
			if sf := ss.field(f.Name); sf != nil {
				u.edges(f.T, sf, out)
			} else {
				out["missing-member"] = true
			}
		}
	case "user":
		if t.Name != s.Name {
			out["user<-other-user"] = true
		}
	}
}

func c17SortedKeys(m map[string]bool) string {
	var ks []string
	for k := range m {
		ks = append(ks, k)
	}
	sort.Strings(ks)
	return strings.Join(ks, ",")
}

// ---------------------------------------------------------------- calls into martian

func c17PanicSite(stack []byte) string {
	lines := strings.Split(string(stack), "\n")
	after := false
	for _, l := range lines {
		if strings.HasPrefix(l, "panic(") {
			after = true
			continue
		}
		if after && strings.HasPrefix(l, "github.com/martian-lang/martian/") {
			fn := l
			if k := strings.LastIndex(fn, "("); k > 0 {
				fn = fn[:k]
			}
			return strings.TrimPrefix(fn, "github.com/martian-lang/martian/martian/")
		}
	}
	return "unknown"
}

type c17ValidRes struct {
	V      int
	Err    string
	Alarms string
	Panic  string
}

func c17RealValid(t syntax.Type, data []byte, lk *syntax.TypeLookup) (res c17ValidRes) {
	defer func() {
		if r := recover(); r != nil {
			res = c17ValidRes{V: c17Panic, Panic: c17PanicSite(debug.Stack()), Err: fmt.Sprint(r)}
		}
	}()
	var al strings.Builder
	err := t.IsValidJson(json.RawMessage(append([]byte(nil), data...)), &al, lk)
	res.Alarms = al.String()
	if err != nil {
		res.V = c17Reject
		res.Err = err.Error()
	} else if al.Len() > 0 {
		res.V = c17Alarm
	}
	return res
}

type c17FilterRes struct {
	Out   []byte
	Fatal bool
	Err   string
	Same  bool // returned the input slice itself (fast path)
	Panic string
}

func c17RealFilter(t syntax.Type, data []byte, lk *syntax.TypeLookup) (res c17FilterRes) {
	defer func() {
		if r := recover(); r != nil {
			res = c17FilterRes{Fatal: true, Panic: c17PanicSite(debug.Stack()), Err: fmt.Sprint(r)}
		}
	}()
	in := append([]byte(nil), data...)
	out, fatal, err := t.FilterJson(json.RawMessage(in), lk)
	res.Fatal = fatal
	if err != nil {
		res.Err = err.Error()
		if res.Err == "" {
			res.Err = "(empty error)"
		}
	}
	res.Same = len(out) == len(in) && (len(in) == 0 || &out[0] == &in[0])
	if !bytes.Equal(in, data) {
		res.Panic = "input-slice-modified"
	}
	res.Out = append([]byte(nil), out...)
	return res
}

func c17RealAssignable(t, s syntax.Type, lk *syntax.TypeLookup) (ok bool, msg string, pan string) {
	defer func() {
		if r := recover(); r != nil {
			ok, msg, pan = false, fmt.Sprint(r), c17PanicSite(debug.Stack())
		}
	}()
	if err := t.IsAssignableFrom(s, lk); err != nil {
		return false, err.Error(), ""
	}
	return true, "", ""
}

// ---------------------------------------------------------------- value generation

var (
	c17Ints    = []string{"0", "1", "-1", "7", "42", "-0", "123456789", "9223372036854775807", "-9223372036854775808", "9007199254740993"}
	c17Floats  = []string{"1.5", "-0.0", "1e10", "3", "2.5E-3", "1e308", "-7", "0.1", "1E+2", "4.9e-324", "3.0"}
	c17StrLits = []string{`""`, `"a"`, `"x y"`, `"é"`, `"é"`, `"line\nbreak"`, `"q\"uote\\"`, `"123"`, `"null"`, `"true"`,
		`"\/slash"`, `"😀"`, `"[1]"`, `"{}"`, `"3.0"`, `" "`, `"<&>"`}
	c17PathLits = []string{`"/tmp/a.txt"`, `"rel/b"`, `""`, `"a b"`, `"/x/é.json"`}
	c17Keys     = []string{"k0", "k1", "a b", "ü", "x.y", "K", "0", "null", "a\"q", "<k>"}
)

func c17Pick(r *rand.Rand, l []string) string { return l[r.Intn(len(l))] }

func c17AnyJSON(r *rand.Rand, depth int) *c17V {
	n := r.Intn(8)
	if depth <= 0 && n >= 6 {
		n = r.Intn(6)
	}
	switch n {
	case 0:
		return c17Null()
	case 1:
		return c17Bool(r.Intn(2) == 0)
	case 2:
		return c17Num(c17Pick(r, c17Ints))
	case 3:
		return c17Num(c17Pick(r, c17Floats))
	case 4, 5:
		return c17StrLit(c17Pick(r, c17StrLits))
	case 6:
		v := &c17V{K: 'a', Arr: []*c17V{}}
		for i := r.Intn(3); i > 0; i-- {
			v.Arr = append(v.Arr, c17AnyJSON(r, depth-1))
		}
		return v
	default:
		v := c17ObjV()
		for i := r.Intn(3); i > 0; i-- {
			v.set(c17Pick(r, c17Keys), c17AnyJSON(r, depth-1))
		}
		return v
	}
}

// gen makes a value conforming to t.  budget bounds the number of nodes.
func (u *c17Universe) gen(r *rand.Rand, t *c17Type, budget *int, top bool) *c17V {
	*budget--
	if !top && r.Intn(14) == 0 {
		return c17Null()
	}
	count := func() int {
		if *budget <= 0 {
			return r.Intn(2)
		}
		return []int{0, 1, 1, 2, 2, 3}[r.Intn(6)]
	}
	switch t.K {
	case "int":
		return c17Num(c17Pick(r, c17Ints))
	case "float":
		return c17Num(c17Pick(r, c17Floats))
	case "string":
		return c17StrLit(c17Pick(r, c17StrLits))
	case "path", "file", "user":
		return c17StrLit(c17Pick(r, c17PathLits))
	case "bool":
		return c17Bool(r.Intn(2) == 0)
	case "map":
		v := c17ObjV()
		for i := r.Intn(3); i > 0; i-- {
			v.set(c17Pick(r, c17Keys), c17AnyJSON(r, 2))
		}
		return v
	case "array":
		v := &c17V{K: 'a', Arr: []*c17V{}}
		for i := count(); i > 0; i-- {
			v.Arr = append(v.Arr, u.gen(r, t.Elem, budget, false))
		}
		return v
	case "tmap":
		v := c17ObjV()
		perm := r.Perm(len(c17Keys))
		for i := count(); i > 0; i-- {
			v.set(c17Keys[perm[i]], u.gen(r, t.Elem, budget, false))
		}
		return v
	case "struct":
		v := c17ObjV()
		for _, f := range u.byName[t.Name].Fields {
			v.set(f.Name, u.gen(r, f.T, budget, false))
		}
		if r.Intn(5) == 0 { // undeclared extra field
			v.set(c17Pick(r, []string{"zz_extra", "", "ZZ", "extra field"}), c17AnyJSON(r, 2))
		}
		if r.Intn(3) == 0 {
			r.Shuffle(len(v.Obj), func(i, j int) { v.Obj[i], v.Obj[j] = v.Obj[j], v.Obj[i] })
		}
		return v
	}
	panic("gen: bad type " + t.K)
}

// typed positions of a value
type c17Pos struct {
	slot **c17V
	t    *c17Type
}

func (u *c17Universe) positions(t *c17Type, slot **c17V, out *[]c17Pos) {
	*out = append(*out, c17Pos{slot, t})
	v := *slot
	switch {
	case t.K == "array" && v.K == 'a':
		for i := range v.Arr {
			u.positions(t.Elem, &v.Arr[i], out)
		}
	case t.K == "tmap" && v.K == 'o':
		for i := range v.Obj {
			u.positions(t.Elem, &v.Obj[i].Val, out)
		}
	case t.K == "struct" && v.K == 'o':
		st := u.byName[t.Name]
		for i := range v.Obj {
			if ft := st.field(v.Obj[i].Name); ft != nil {
				u.positions(ft, &v.Obj[i].Val, out)
			}
		}
	}
}

func c17IsContainerType(t *c17Type) bool {
	return t.K == "array" || t.K == "tmap" || t.K == "struct" || t.K == "map"
}

type c17Mut struct {
	name string
	ok   func(t *c17Type, v *c17V) bool
	do   func(r *rand.Rand, u *c17Universe, t *c17Type, slot **c17V)
}

func c17Any(*c17Type, *c17V) bool { return true }

var c17BadTokens = []string{"01", "+1", ".5", "1.", "'a'", "tru", "NaN", "Infinity", `"abc`, `"\x41"`, "undefined", "1,", "[1,]", `{"a":1,}`, "{a:1}", "0x10", "-", "1e", `"a" "b"`, "nul", "\xef\xbb\xbf1", `"\u12"`}

var c17Muts = []c17Mut{
	{"null-at", c17Any, func(r *rand.Rand, u *c17Universe, t *c17Type, s **c17V) { *s = c17Null() }},
	{"wrap-array", c17Any, func(r *rand.Rand, u *c17Universe, t *c17Type, s **c17V) { *s = c17ArrV(*s) }},
	{"unwrap-array", func(t *c17Type, v *c17V) bool { return v.K == 'a' && len(v.Arr) > 0 },
		func(r *rand.Rand, u *c17Universe, t *c17Type, s **c17V) { *s = (*s).Arr[0] }},
	{"num-as-string", func(t *c17Type, v *c17V) bool { return v.K == '#' },
		func(r *rand.Rand, u *c17Universe, t *c17Type, s **c17V) { *s = c17Str((*s).Lit) }},
	{"string-as-num", func(t *c17Type, v *c17V) bool { return v.K == 's' },
		func(r *rand.Rand, u *c17Universe, t *c17Type, s **c17V) {
			*s = c17Num(c17Pick(r, []string{"5", "0", "1.5"}))
		}},
	{"nonintegral-float-for-int", func(t *c17Type, v *c17V) bool { return t.K == "int" },
		func(r *rand.Rand, u *c17Universe, t *c17Type, s **c17V) {
			*s = c17Num(c17Pick(r, []string{"3.5", "-0.25", "1e-1", "2.5e0", "1.0000000001", "0.9999999999999999"}))
		}},
	{"integral-float-for-int", func(t *c17Type, v *c17V) bool { return t.K == "int" },
		func(r *rand.Rand, u *c17Universe, t *c17Type, s **c17V) {
			*s = c17Num(c17Pick(r, []string{"3.0", "3e0", "30e-1", "-0.0", "1E2", "1e18", "-7.000", "123456789.0", "0.0", "0e0",
				"9007199254740993.0", "-9223372036854775808.0", "0.3e1", "1e+2"}))
		}},
	{"number-out-of-range", func(t *c17Type, v *c17V) bool { return t.K == "int" || t.K == "float" },
		func(r *rand.Rand, u *c17Universe, t *c17Type, s **c17V) {
			if t.K == "float" {
				*s = c17Num(c17Pick(r, []string{"1e400", "-1e999", "1e309"}))
			} else {
				*s = c17Num(c17Pick(r, []string{"9223372036854775808", "-9223372036854775809", "1e19", "9223372036854775807.0",
					"1e400", "-1e400", "123456789012345678901234567890", "9223372036854775808.0"}))
			}
		}},
	{"bool-as-other", func(t *c17Type, v *c17V) bool { return t.K == "bool" },
		func(r *rand.Rand, u *c17Universe, t *c17Type, s **c17V) {
			*s = []*c17V{c17Num("0"), c17Num("1"), c17Str("true"), c17Str("false")}[r.Intn(4)]
		}},
	{"extra-field", func(t *c17Type, v *c17V) bool { return t.K == "struct" && v.K == 'o' },
		func(r *rand.Rand, u *c17Universe, t *c17Type, s **c17V) {
			v := *s
			name := c17Pick(r, []string{"zz_extra", "", "extra field", "é"})
			if r.Intn(3) == 0 && len(v.Obj) > 0 {
				name = strings.ToUpper(v.Obj[0].Name) + "_"
			}
			kv := c17KV{Lit: c17QuoteStr(name), Name: name, Val: c17AnyJSON(r, 2)}
			k := r.Intn(len(v.Obj) + 1)
			v.Obj = append(v.Obj[:k], append([]c17KV{kv}, v.Obj[k:]...)...)
		}},
	{"missing-field", func(t *c17Type, v *c17V) bool { return t.K == "struct" && v.K == 'o' && len(v.Obj) > 0 },
		func(r *rand.Rand, u *c17Universe, t *c17Type, s **c17V) {
			v := *s
			name := v.Obj[r.Intn(len(v.Obj))].Name
			var keep []c17KV
			for _, kv := range v.Obj {
				if kv.Name != name {
					keep = append(keep, kv)
				}
			}
			v.Obj = keep
		}},
	{"case-variant-field", func(t *c17Type, v *c17V) bool { return t.K == "struct" && v.K == 'o' && len(v.Obj) > 0 },
		func(r *rand.Rand, u *c17Universe, t *c17Type, s **c17V) {
			v := *s
			k := r.Intn(len(v.Obj))
			n := v.Obj[k].Name
			if strings.ToUpper(n) != n {
				n = strings.ToUpper(n)
			} else {
				n = strings.ToLower(n)
			}
			v.Obj[k].Name, v.Obj[k].Lit = n, c17QuoteStr(n)
		}},
	{"dup-field", func(t *c17Type, v *c17V) bool {
		return (t.K == "struct" || t.K == "tmap") && v.K == 'o' && len(v.Obj) > 0
	},
		func(r *rand.Rand, u *c17Universe, t *c17Type, s **c17V) {
			v := *s
			k := r.Intn(len(v.Obj))
			dup := c17KV{Lit: v.Obj[k].Lit, Name: v.Obj[k].Name}
			switch r.Intn(3) {
			case 0:
				dup.Val = v.Obj[k].Val.clone()
			case 1:
				dup.Val = c17AnyJSON(r, 1)
			default:
				dup.Val = c17Num("2.0")
			}
			if r.Intn(2) == 0 { // duplicate goes first: the original wins
				v.Obj = append([]c17KV{dup}, v.Obj...)
			} else {
				v.Obj = append(v.Obj, dup)
			}
		}},
	{"swap-container", func(t *c17Type, v *c17V) bool { return v.K == 'a' || v.K == 'o' },
		func(r *rand.Rand, u *c17Universe, t *c17Type, s **c17V) {
			v := *s
			if v.K == 'a' {
				o := c17ObjV()
				for i, e := range v.Arr {
					o.set(strconv.Itoa(i), e)
				}
				*s = o
			} else {
				a := &c17V{K: 'a', Arr: []*c17V{}}
				for _, kv := range v.Obj {
					a.Arr = append(a.Arr, kv.Val)
				}
				*s = a
			}
		}},
	{"empty-container", func(t *c17Type, v *c17V) bool { return c17IsContainerType(t) },
		func(r *rand.Rand, u *c17Universe, t *c17Type, s **c17V) {
			if t.K == "array" {
				*s = &c17V{K: 'a', Arr: []*c17V{}}
			} else {
				*s = c17ObjV()
			}
		}},
	{"wrong-empty-container", func(t *c17Type, v *c17V) bool { return c17IsContainerType(t) },
		func(r *rand.Rand, u *c17Universe, t *c17Type, s **c17V) {
			if t.K == "array" {
				*s = c17ObjV()
			} else {
				*s = &c17V{K: 'a', Arr: []*c17V{}}
			}
		}},
	{"scalar-for-container", func(t *c17Type, v *c17V) bool { return c17IsContainerType(t) },
		func(r *rand.Rand, u *c17Universe, t *c17Type, s **c17V) {
			*s = []*c17V{c17Num("7"), c17Str("x"), c17Bool(true), c17Str("[]"), c17Str("{}")}[r.Intn(5)]
		}},
	{"container-for-scalar", func(t *c17Type, v *c17V) bool { return !c17IsContainerType(t) },
		func(r *rand.Rand, u *c17Universe, t *c17Type, s **c17V) {
			old := *s
			switch r.Intn(4) {
			case 0:
				*s = &c17V{K: 'a', Arr: []*c17V{}}
			case 1:
				*s = c17ObjV()
			case 2:
				*s = c17ArrV(old)
			default:
				o := c17ObjV()
				o.set("v", old)
				*s = o
			}
		}},
	{"key-escape", func(t *c17Type, v *c17V) bool { return v.K == 'o' && len(v.Obj) > 0 },
		func(r *rand.Rand, u *c17Universe, t *c17Type, s **c17V) {
			v := *s
			k := r.Intn(len(v.Obj))
			var sb strings.Builder
			sb.WriteByte('"')
			for _, c := range v.Obj[k].Name {
				if c < 0x10000 {
					fmt.Fprintf(&sb, "\\u%04x", c)
				} else {
					sb.WriteString(strings.Trim(c17QuoteStr(string(c)), `"`))
				}
			}
			sb.WriteByte('"')
			v.Obj[k].Lit = sb.String()
		}},
	{"illegal-key", func(t *c17Type, v *c17V) bool { return t.K == "tmap" && v.K == 'o' },
		func(r *rand.Rand, u *c17Universe, t *c17Type, s **c17V) {
			b := 6
			name := c17Pick(r, []string{"", ".", "..", "a/b", "\x00x", strings.Repeat("n", 256), "/"})
			(*s).set(name, u.gen(r, t.Elem, &b, false))
		}},
	{"tmap-bad-value", func(t *c17Type, v *c17V) bool { return t.K == "tmap" && v.K == 'o' },
		func(r *rand.Rand, u *c17Universe, t *c17Type, s **c17V) {
			(*s).set("zz", c17AnyJSON(r, 1))
		}},
	{"float-literal-forms", func(t *c17Type, v *c17V) bool { return t.K == "float" },
		func(r *rand.Rand, u *c17Universe, t *c17Type, s **c17V) {
			*s = c17Num(c17Pick(r, []string{"1E+2", "-0", "0.0", "1e-320", "5", "9223372036854775808", "1e-400", "123456789012345678901234567890"}))
		}},
	{"odd-string", func(t *c17Type, v *c17V) bool { return v.K == 's' },
		func(r *rand.Rand, u *c17Universe, t *c17Type, s **c17V) {
			*s = c17StrLit(c17Pick(r, []string{`"\ud800"`, `"\u0000"`, `"\/"`, "\"\xff\"", `"` + strings.Repeat("A", 300) + `"`, `"\b\f\r\t"`}))
		}},
	{"malformed-token", c17Any, func(r *rand.Rand, u *c17Universe, t *c17Type, s **c17V) { *s = c17Raw(c17Pick(r, c17BadTokens)) }},
}

// mutate applies one mutation of a random class at a random compatible
// position of (a clone of) v and returns the class name.
func (u *c17Universe) mutate(r *rand.Rand, t *c17Type, v *c17V) (*c17V, string) {
	root := v.clone()
	var pos []c17Pos
	u.positions(t, &root, &pos)
	for tries := 0; tries < 8; tries++ {
		m := &c17Muts[r.Intn(len(c17Muts))]
		var cand []int
		for i, p := range pos {
			if m.ok(p.t, *p.slot) {
				cand = append(cand, i)
			}
		}
		if len(cand) == 0 {
			continue
		}
		p := pos[cand[r.Intn(len(cand))]]
		m.do(r, u, p.t, p.slot)
		depth := "top"
		if p.slot != &root {
			depth = "nested"
		}
		return root, m.name + "@" + depth
	}
	root = c17Null()
	return root, "null-at@top"
}

// ---------------------------------------------------------------- evaluation

type c17Viol struct {
	Sig, What string
	Replay    interface{}
}

type c17Rec struct {
	viols   []c17Viol
	seen    map[string]bool
	counts  map[string]int64
	keys    []string
	samples []interface{}
	inconc  []string
}

func c17NewRec() *c17Rec { return &c17Rec{seen: map[string]bool{}, counts: map[string]int64{}} }

func (r *c17Rec) violate(sig, what string, replay interface{}) {
	r.counts["violating_cases"]++
	if r.seen[sig] {
		return
	}
	r.seen[sig] = true
	r.viols = append(r.viols, c17Viol{sig, what, replay})
}

func c17Trunc(s string, n int) string {
	if len(s) > n {
		return s[:n] + "..."
	}
	return s
}

// children of a typed value whose shape matches the type.
type c17Child struct {
	t    *c17Type
	v    *c17V
	step string
}

func (u *c17Universe) children(t *c17Type, v *c17V) []c17Child {
	var out []c17Child
	switch {
	case t.K == "array" && v.K == 'a':
		for i, e := range v.Arr {
			out = append(out, c17Child{t.Elem, e, fmt.Sprintf("[%d]", i)})
		}
	case t.K == "tmap" && v.K == 'o':
		order, m := v.last()
		for _, k := range order {
			out = append(out, c17Child{t.Elem, m[k], "k:" + k})
		}
	case t.K == "struct" && v.K == 'o':
		_, m := v.last()
		for _, f := range u.byName[t.Name].Fields {
			if fv, ok := m[f.Name]; ok {
				out = append(out, c17Child{f.T, fv, "k:" + f.Name})
			}
		}
	}
	return out
}

// descendValid narrows a validation disagreement to the deepest sub-value
// which still shows it; returns the kinds along the path.
func (u *c17Universe) descendValid(t *c17Type, v *c17V) (string, *c17Type, *c17V) {
	for _, ch := range u.children(t, v) {
		rv := c17RealValid(u.real(ch.t), c17Print(ch.v, 0, nil), u.lkA)
		if rv.V != u.conform(ch.t, ch.v).V {
			p, lt, lv := u.descendValid(ch.t, ch.v)
			return t.K + ">" + p, lt, lv
		}
	}
	return t.K, t, v
}

// descendFilter: same for a filter result differing from the reference.
func (u *c17Universe) descendFilter(t *c17Type, v *c17V) (string, *c17Type, *c17V) {
	for _, ch := range u.children(t, v) {
		fr := c17RealFilter(u.real(ch.t), c17Print(ch.v, 0, nil), u.lkA)
		if fr.Fatal || fr.Panic != "" {
			continue
		}
		got, err := c17Parse(fr.Out)
		if err != nil || !c17Equal(got, u.refFilter(ch.t, ch.v)) {
			p, lt, lv := u.descendFilter(ch.t, ch.v)
			return t.K + ">" + p, lt, lv
		}
	}
	return t.K, t, v
}

// failEdge walks T and S along the reference's failing path of a value and
// reports the coercion edge on that path and a cause class.
func (u *c17Universe) failEdge(t, s *c17Type, c c17Conf) (string, string) {
	cause := c.Cause
	diff, deepest := "", t.K+"<-"+s.K
	if t.K != s.K {
		diff = deepest
	}
	pick := func() string {
		if diff != "" {
			return diff
		}
		return deepest
	}
	for _, step := range c.Path {
		var tc, sc *c17Type
		key := strings.TrimPrefix(step, "k:")
		switch t.K {
		case "array", "tmap":
			tc = t.Elem
		case "struct":
			tc = u.byName[t.Name].field(key)
		}
		switch s.K {
		case "array", "tmap":
			sc = s.Elem
		case "struct":
			sc = u.byName[s.Name].field(key)
			if sc == nil {
				return pick(), "undeclared-field-kept"
			}
		}
		if tc == nil || sc == nil {
			break
		}
		t, s = tc, sc
		deepest = t.K + "<-" + s.K
		if t.K != s.K {
			diff = deepest
		}
	}
	edge := pick()
	if i := strings.Index(cause, ":"); i >= 0 {
		cause = cause[i+1:]
	}
	return edge, cause
}

// c17ShortPath makes a stable shape class of a kind path: consecutive
// repeats collapsed, last three kinds kept.
func c17ShortPath(p string) string {
	parts := strings.Split(p, ">")
	var out []string
	for _, k := range parts {
		if len(out) == 0 || out[len(out)-1] != k {
			out = append(out, k)
		}
	}
	if len(out) > 3 {
		out = out[len(out)-3:]
	}
	return strings.Join(out, ">")
}

func c17NumClass(v *c17V) string {
	if v.K != '#' {
		return ""
	}
	f, err := strconv.ParseFloat(v.Lit, 64)
	inRange := err == nil && f >= -9223372036854775808.0 && f < 9223372036854775808.0
	if c17NumIsInt(v.Lit) {
		if x, ok := new(big.Int).SetString(v.Lit, 10); ok && x.IsInt64() {
			return ":int-literal"
		}
		return ":int-literal-out-of-int64"
	}
	if err == nil && inRange && f == float64(int64(f)) {
		return ":integral-float"
	}
	if err == nil && !inRange {
		return ":float-out-of-int64"
	}
	return ":non-integral-float"
}

// descendFatal narrows "filter is fatal although the reference-filtered
// value is valid".
func (u *c17Universe) descendFatal(t *c17Type, v *c17V) (string, *c17Type, *c17V) {
	for _, ch := range u.children(t, v) {
		fr := c17RealFilter(u.real(ch.t), c17Print(ch.v, 0, nil), u.lkA)
		if fr.Fatal && u.conform(ch.t, u.refFilter(ch.t, ch.v)).V != c17Reject {
			p, lt, lv := u.descendFatal(ch.t, ch.v)
			return t.K + ">" + p, lt, lv
		}
	}
	return t.K, t, v
}

// evalCase checks oracles (a)-(d) for one (T, value) pair.  S (si >= 0) is
// the type the value was generated from.
func (u *c17Universe) evalCase(ti, si int, w *c17V, data []byte, class string, rec *c17Rec) {
	T := u.Pool[ti]
	rt := u.realA[ti]
	rec.counts["value_cases"]++
	rec.counts["class:"+class]++
	replay := func(extra map[string]interface{}) map[string]interface{} {
		m := map[string]interface{}{
			"universe_index": u.Index, "universe_seed": u.Seed, "mro": u.Src,
			"T": T.mro(), "json": string(data), "class": class,
		}
		if si >= 0 {
			m["S"] = u.Pool[si].mro()
		}
		for k, v := range extra {
			m[k] = v
		}
		return m
	}
	prefix := ""
	if strings.HasPrefix(class, "padded") && w != nil && w.K == 'n' {
		prefix = "padded-null:"
	}
	rv := c17RealValid(rt, data, u.lkA)
	fr := c17RealFilter(rt, data, u.lkA)
	if rv.Panic != "" {
		rec.violate("C17:panic:"+rv.Panic, fmt.Sprintf("IsValidJson of %s panicked (%s) on %s", T.mro(), rv.Err, c17Trunc(string(data), 300)), replay(nil))
		return
	}
	if fr.Panic != "" {
		rec.violate("C17:panic:"+fr.Panic, fmt.Sprintf("FilterJson of %s panicked (%s) on %s", T.mro(), fr.Err, c17Trunc(string(data), 300)), replay(nil))
		return
	}
	rec.counts["real_valid_"+c17VerdictName[rv.V]]++
	if w == nil {
		// not JSON at all: must never validate cleanly.
		rec.counts["malformed_inputs"]++
		if rv.V == c17Clean {
			rec.violate("C17:invalid-accepted:malformed-json:"+T.K,
				fmt.Sprintf("IsValidJson of %s accepts malformed JSON %q without error or alarm", T.mro(), c17Trunc(string(data), 200)), replay(nil))
		}
		return
	}
	var sk strings.Builder
	w.skeleton(&sk, 3)
	rec.keys = append(rec.keys, u.skey(T)+"|"+class+"|"+sk.String())

	// (d) validation verdict equals the reference verdict.
	cf := u.conform(T, w)
	rec.counts["ref_valid_"+c17VerdictName[cf.V]]++
	if rv.V != cf.V {
		path, lt, lv := u.descendValid(T, w)
		name := "valid-rejected"
		tail := ""
		if rv.V < cf.V {
			name = "invalid-accepted"
			lc := u.conform(lt, lv)
			tail = ":" + lc.Cause
		}
		if cf.V == c17Alarm || rv.V == c17Alarm {
			tail += fmt.Sprintf(":ref=%s,real=%s", c17VerdictName[cf.V], c17VerdictName[rv.V])
		}
		rec.violate("C17:"+name+":"+prefix+c17ShortPath(path)+tail,
			fmt.Sprintf("IsValidJson of %s on %s: real verdict %s (err=%q alarms=%q), reference verdict %s (%s at %v); smallest sub-value showing it: %s as %s",
				T.mro(), c17Trunc(string(data), 300), c17VerdictName[rv.V], c17Trunc(rv.Err, 200), c17Trunc(rv.Alarms, 100),
				c17VerdictName[cf.V], cf.Cause, cf.Path, c17Trunc(string(c17Print(lv, 0, nil)), 200), lt.mro()),
			replay(map[string]interface{}{"real_err": rv.Err, "real_alarms": rv.Alarms}))
	}

	// filter
	A := u.refFilter(T, w)
	ca := u.conform(T, A)
	if fr.Same {
		rec.counts["filter_returned_input_slice"]++
	} else {
		rec.counts["filter_rebuilt_or_new_slice"]++
	}
	if fr.Fatal {
		rec.counts["filter_fatal"]++
	} else if fr.Err != "" {
		rec.counts["filter_warning_nonfatal"]++
	}
	// (c) value valid for S, T assignable from S => filtered value valid for T
	checkC := func(v1V int, v1Err, v1Alarms string, out []byte) {
		if si < 0 || strings.HasPrefix(class, "padded") {
			return
		}
		S := u.Pool[si]
		if u.conform(S, w).V != c17Clean {
			return
		}
		if ok, _, _ := c17RealAssignable(rt, u.realA[si], u.lkA); !ok {
			return
		}
		if !u.refAssignable(T, S) {
			// the assignability answer itself is wrong; oracle (e) reports
			// that pair (every T, S here is a pool pair).
			rec.counts["oracle_c_skipped_assignability_disagrees"]++
			return
		}
		rec.counts["oracle_c_applicable"]++
		if si != ti {
			rec.counts["oracle_c_applicable_T_differs_from_S"]++
		}
		if v1V == c17Clean {
			return
		}
		var sig string
		if ca.V != c17Clean {
			edge, cause := u.failEdge(T, S, ca)
			sig = "C17:assignable-but-invalid-after-filter:" + edge + ":" + cause
		} else {
			sig = "C17:assignable-but-invalid-after-filter:real-only:" + c17ShortPath(T.kindPath())
		}
		rec.violate(sig,
			fmt.Sprintf("%s validates cleanly as %s, %s.IsAssignableFrom(%s) == nil, but FilterJson to %s gives %s (fatal=%v) which IsValidJson of %s answers with %s (%s %s)",
				c17Trunc(string(data), 300), S.mro(), T.mro(), S.mro(), T.mro(), c17Trunc(c17Canon(out), 300), fr.Fatal, T.mro(),
				c17VerdictName[v1V], c17Trunc(v1Err, 200), c17Trunc(v1Alarms, 100)),
			replay(map[string]interface{}{"filter_out": c17Canon(out), "real_err": v1Err}))
	}
	if fr.Fatal {
		checkC(c17Reject, fr.Err, "", fr.Out)
		if ca.V != c17Reject {
			path, lt, lv := u.descendFatal(T, w)
			rec.violate("C17:filter-fatal-on-conforming:"+prefix+c17ShortPath(path)+c17NumClass(lv),
				fmt.Sprintf("FilterJson of %s reports a fatal error (%s) for %s, which the reference filter turns into a valid value %s; smallest sub-value showing it: %s as %s",
					T.mro(), c17Trunc(fr.Err, 200), c17Trunc(string(data), 300), c17Trunc(string(c17Print(A, 0, nil)), 300),
					c17Trunc(string(c17Print(lv, 0, nil)), 200), lt.mro()),
				replay(map[string]interface{}{"filter_err": fr.Err}))
		}
		return
	}
	p1, perr := c17Parse(fr.Out)
	if perr != nil {
		rec.violate("C17:filter-output-malformed:"+c17ShortPath(T.kindPath()),
			fmt.Sprintf("FilterJson of %s (fatal=false) returned bytes which are not JSON: %q for input %s", T.mro(), c17Trunc(c17Canon(fr.Out), 200), c17Trunc(string(data), 300)),
			replay(map[string]interface{}{"filter_out": c17Canon(fr.Out)}))
		return
	}
	// (b) conservativeness
	if !c17Equal(p1, A) {
		path, lt, lv := u.descendFilter(T, w)
		lfr := c17RealFilter(u.real(lt), c17Print(lv, 0, nil), u.lkA)
		dc := "other"
		if lp, err := c17Parse(lfr.Out); err == nil {
			dc = c17DiffClass(lp, u.refFilter(lt, lv))
		}
		rec.violate("C17:filter-changed-value:"+prefix+c17ShortPath(path)+":"+dc+c17NumClass(lv),
			fmt.Sprintf("FilterJson of %s on %s gives %s, reference filter gives %s; smallest sub-value showing it: %s as %s -> %s",
				T.mro(), c17Trunc(string(data), 300), c17Trunc(c17Canon(fr.Out), 300), c17Trunc(string(c17Print(A, 0, nil)), 300),
				c17Trunc(string(c17Print(lv, 0, nil)), 200), lt.mro(), c17Trunc(c17Canon(lfr.Out), 200)),
			replay(map[string]interface{}{"filter_out": c17Canon(fr.Out), "reference_out": string(c17Print(A, 0, nil))}))
	} else if !fr.Same {
		rec.counts["filter_changed_and_matched_reference"]++
	}
	// (a) idempotence
	f2 := c17RealFilter(rt, fr.Out, u.lkA)
	if f2.Panic != "" {
		rec.violate("C17:panic:"+f2.Panic, fmt.Sprintf("FilterJson of %s panicked on its own output %s", T.mro(), c17Trunc(c17Canon(fr.Out), 300)), replay(nil))
	} else if f2.Fatal {
		if ca.V != c17Reject {
			rec.violate("C17:filter-not-idempotent:"+prefix+c17ShortPath(T.kindPath())+":second-pass-fatal",
				fmt.Sprintf("FilterJson of %s accepts %s but reports a fatal error on its own output %s: %s", T.mro(), c17Trunc(string(data), 300), c17Trunc(c17Canon(fr.Out), 300), c17Trunc(f2.Err, 200)),
				replay(map[string]interface{}{"filter_out": c17Canon(fr.Out)}))
		}
	} else if p2, err := c17Parse(f2.Out); err != nil || !c17Equal(p2, p1) {
		rec.violate("C17:filter-not-idempotent:"+prefix+c17ShortPath(T.kindPath()),
			fmt.Sprintf("FilterJson of %s: first pass %s, second pass %s (input %s)", T.mro(), c17Trunc(c17Canon(fr.Out), 300), c17Trunc(c17Canon(f2.Out), 300), c17Trunc(string(data), 300)),
			replay(map[string]interface{}{"filter_out": c17Canon(fr.Out), "filter_out2": c17Canon(f2.Out)}))
	} else {
		rec.counts["idempotence_checked"]++
	}
	// (d) on the filter's own output
	v1 := c17RealValid(rt, fr.Out, u.lkA)
	c1 := u.conform(T, p1)
	if v1.Panic != "" {
		rec.violate("C17:panic:"+v1.Panic, fmt.Sprintf("IsValidJson of %s panicked on filter output %s", T.mro(), c17Trunc(c17Canon(fr.Out), 300)), replay(nil))
		return
	}
	if v1.V != c1.V && rv.V == cf.V {
		path, _, _ := u.descendValid(T, p1)
		name := "valid-rejected"
		if v1.V < c1.V {
			name = "invalid-accepted"
		}
		rec.violate("C17:"+name+":after-filter:"+c17ShortPath(path),
			fmt.Sprintf("IsValidJson of %s on filter output %s: real %s (%s), reference %s", T.mro(), c17Trunc(c17Canon(fr.Out), 300), c17VerdictName[v1.V], c17Trunc(v1.Err, 200), c17VerdictName[c1.V]),
			replay(map[string]interface{}{"filter_out": c17Canon(fr.Out)}))
	}
	checkC(v1.V, v1.Err, v1.Alarms, fr.Out)
}

// ---------------------------------------------------------------- assignability (e)

func (u *c17Universe) descendAssign(t, s *c17Type) (string, *c17Type, *c17Type) {
	type pair struct{ t, s *c17Type }
	var kids []pair
	switch {
	case t.K == "array" && s.K == "array", t.K == "tmap" && s.K == "tmap":
		kids = append(kids, pair{t.Elem, s.Elem})
	case t.K == "tmap" && s.K == "struct":
		for _, f := range u.byName[s.Name].Fields {
			kids = append(kids, pair{t.Elem, f.T})
		}
	case t.K == "struct" && s.K == "struct":
		ss := u.byName[s.Name]
		for _, f := range u.byName[t.Name].Fields {
			if sf := ss.field(f.Name); sf != nil {
				kids = append(kids, pair{f.T, sf})
			}
		}
	}
	for _, k := range kids {
		ok, _, _ := c17RealAssignable(u.real(k.t), u.lkB.Get(k.s.typeId()), u.lkA)
		if ok != u.refAssignable(k.t, k.s) {
			return u.descendAssign(k.t, k.s)
		}
	}
	// Class of the composite-level disagreement.  When the real answer is
	// too strict, name the coercions between container kinds among the
	// components (scalar coercions next to them are incidental and would
	// only multiply signatures); when it is too lax, the kinds suffice.
	e := map[string]bool{}
	for _, k := range kids {
		u.edges(k.t, k.s, e)
	}
	ce := map[string]bool{}
	for k := range e {
		if k == "map<-tmap" || k == "tmap<-struct" || k == "map<-struct" {
			ce[k] = true
		}
	}
	if len(ce) > 1 {
		// map<-struct next to another container coercion is incidental too
		delete(ce, "map<-struct")
	}
	cls := "[scalar-coercions]"
	if len(ce) > 0 {
		cls = "[" + c17SortedKeys(ce) + "]"
	} else if len(e) == 0 {
		cls = "[identical-component-kinds]"
	}
	if !u.refAssignable(t, s) {
		cls = "[components-not-assignable]"
	}
	return t.K + "<-" + s.K + ":" + cls, t, s
}

func (u *c17Universe) checkAssignability(rec *c17Rec) {
	n := len(u.Pool)
	u.assign = make([][]int, n)
	for ti, T := range u.Pool {
		// null type
		if u.nullT != nil {
			rec.counts["assign_pairs"]++
			ok, msg, pan := c17RealAssignable(u.realA[ti], u.nullT, u.lkA)
			if pan != "" {
				rec.violate("C17:panic:"+pan, fmt.Sprintf("%s.IsAssignableFrom(null) panicked: %s", T.mro(), msg), map[string]interface{}{"mro": u.Src, "T": T.mro(), "S": "null"})
			} else if !ok {
				// Observation only: a code comment in types.go says null can be
				// assigned to anything, but property C17 states reflexivity and
				// componentwise agreement, not this; asserting it would demand
				// more than the property.
				rec.counts["null_type_not_assignable_observed"]++
			}
		}
		for si, S := range u.Pool {
			want := u.refAssignable(T, S)
			if want {
				rec.counts["assign_ref_true"]++
			}
			if want && si != ti {
				u.assign[si] = append(u.assign[si], ti)
			}
			for variant, rs := range []syntax.Type{u.realA[si], u.realB[si]} {
				rec.counts["assign_pairs"]++
				ok, msg, pan := c17RealAssignable(u.realA[ti], rs, u.lkA)
				if ok {
					rec.counts["assign_real_true"]++
				}
				if variant == 1 {
					// non-trivial pair: same outer kind, or assignable by
					// the reference or by the code under test.
					if T.K == S.K || want || ok {
						rec.counts["assign_pairs_nontrivial"]++
						rec.keys = append(rec.keys, "A|"+u.skey(T)+"|"+u.skey(S))
					}
					if ti == si {
						rec.counts["assign_reflexive_structural_checked"]++
					}
				}
				if pan != "" {
					rec.violate("C17:panic:"+pan, fmt.Sprintf("%s.IsAssignableFrom(%s) panicked: %s", T.mro(), S.mro(), msg),
						map[string]interface{}{"mro": u.Src, "T": T.mro(), "S": S.mro()})
					continue
				}
				if ok == want {
					continue
				}
				var sig string
				if ti == si {
					sig = "C17:assignability:not-reflexive:" + c17ShortPath(T.kindPath()) + []string{":same-object", ":equal-copy"}[variant]
				} else {
					cls, _, _ := u.descendAssign(T, S)
					sig = fmt.Sprintf("C17:assignability:%s:real=%v", cls, map[bool]string{true: "ok", false: "err"}[ok])
				}
				_, lt, ls := u.descendAssign(T, S)
				rec.violate(sig,
					fmt.Sprintf("%s.IsAssignableFrom(%s): real %v (%s), componentwise reference %v; innermost disagreeing pair %s <- %s",
						T.mro(), S.mro(), ok, c17Trunc(msg, 300), want, c17Describe(u, lt), c17Describe(u, ls)),
					map[string]interface{}{"universe_index": u.Index, "universe_seed": u.Seed, "mro": u.Src, "T": T.mro(), "S": S.mro(), "real_msg": msg, "reference": want})
			}
		}
	}
}

func c17Describe(u *c17Universe, t *c17Type) string {
	if b := t.baseOf(); b.K == "struct" {
		return t.mro() + " = " + u.skey(t)
	}
	return t.mro()
}

// ---------------------------------------------------------------- one universe

var c17Pads = []string{" ", "\n", "\t ", "\r\n", "  \n"}

// byteMutate applies a top-level byte mutation; returns the class.
func c17ByteMutate(r *rand.Rand, data []byte) ([]byte, string) {
	switch r.Intn(4) {
	case 0:
		pre, post := "", ""
		if r.Intn(3) != 0 {
			pre = c17Pick(r, c17Pads)
		}
		if pre == "" || r.Intn(2) == 0 {
			post = c17Pick(r, c17Pads)
		}
		return []byte(pre + string(data) + post), "padded"
	case 1:
		if len(data) > 1 {
			return append([]byte(nil), data[:len(data)-1-r.Intn(minInt(3, len(data)-1))]...), "truncated"
		}
		return []byte{}, "truncated"
	case 2:
		return append(append([]byte(nil), data...), c17Pick(r, []string{" x", ",", "]", "}", " 1", "\x00", " null"})...), "trailing-garbage"
	default:
		return append([]byte(c17Pick(r, []string{"\xef\xbb\xbf", ",", "x", "//c\n"})), data...), "leading-garbage"
	}
}

func minInt(a, b int) int {
	if a < b {
		return a
	}
	return b
}

func (u *c17Universe) run(nConf, nMut int, rec *c17Rec) {
	r := rand.New(rand.NewSource(u.Seed ^ 0x5deece66d))
	u.checkAssignability(rec)
	for si, S := range u.Pool {
		// explicit nulls for every type, exact and padded
		u.evalCase(si, si, c17Null(), []byte("null"), "null", rec)
		u.evalCase(si, si, c17Null(), []byte(c17Pick(r, []string{" null", "null ", "\nnull\n", "\tnull"})), "padded-null", rec)
		u.evalCase(si, -1, nil, []byte(""), "empty-input", rec)
		targets := func() []int {
			ts := []int{si}
			as := u.assign[si]
			if len(as) > 0 {
				p := r.Perm(len(as))
				for k := 0; k < 2 && k < len(p); k++ {
					ts = append(ts, as[p[k]])
				}
			}
			if r.Intn(2) == 0 {
				ts = append(ts, r.Intn(len(u.Pool)))
			}
			return ts
		}
		for k := 0; k < nConf+nMut; k++ {
			budget := 10 + r.Intn(30)
			w := u.gen(r, S, &budget, true)
			class := "conforming"
			if k >= nConf {
				if r.Intn(8) == 0 {
					class = "bytes"
				} else {
					w, class = u.mutate(r, S, w)
				}
			}
			style := r.Intn(4)
			data := c17Print(w, style, r)
			if class == "bytes" {
				data, class = c17ByteMutate(r, data)
			}
			reparse := class == "truncated" || class == "trailing-garbage" || class == "leading-garbage" || w.hasRaw()
			if reparse {
				if p, err := c17Parse(data); err == nil {
					w = p
					class += "(still-json)"
				} else {
					w = nil
				}
			}
			for _, ti := range targets() {
				u.evalCase(ti, si, w, data, class, rec)
			}
			if len(rec.samples) < 1 && S.baseOf().K == "struct" && strings.Contains(class, "@nested") && len(data) < 400 && len(data) > 60 {
				rec.samples = append(rec.samples, map[string]string{"S": S.mro(), "S_shape": u.skey(S), "class": class, "json": c17Trunc(string(data), 300)})
			}
		}
	}
}

// ---------------------------------------------------------------- the check

func init() {
	register("C17", "exploration", func(c *vf.Ctx) {
		c.SetRule("per universe (seeded): an MRO source with 2 file types, 12-25 structs (random field types incl. multi-dimensional arrays, typed maps of arrays, arrays of typed maps, structs of structs; plus related families SUB (field subset), WIDE (documented coercions int->float, string->file/path/user type, user type->file/string, struct->its SUB, typed map->map), MISS (one field broken), UNI (all fields assignable to one element type), NEST) and one stage taking every pool type (60-130 types) as in-param is compiled twice with syntax.ParseSourceBytes; real Type objects come from ast.TypeTable.Get. (e) every ordered pair of pool types is compared with the componentwise reference, both against the same Type object and against the structurally equal object of the second compilation, plus the null type. For every pool type S: null, padded null, empty input, conforming values generated from S (nulls at every depth, empties, big ints, odd strings/keys, undeclared fields, shuffled keys) and single-point mutants of them (27 classes: wrong depth, number<->string, non-integral / integral float for int, out-of-range numbers, extra/missing/duplicate/case-variant fields, container swaps, illegal map keys, escaped keys, malformed tokens, padding, truncation, garbage) at a random typed position, printed in 4 whitespace styles, are evaluated against T in {S, up to 2 types assignable from S, a random type}: oracles (a) filter idempotent, (b) filter == reference filter whenever not fatal, (c) clean for S and T.IsAssignableFrom(S)==nil => FilterJson_T result validates cleanly for T, (d) IsValidJson verdict (clean/alarm/reject) == reference verdict, on the input and on the filter output; malformed JSON never validates cleanly. distinct = (structural type shape with struct bodies expanded, mutation class, value skeleton) resp. (T shape, S shape) for assignability; all counted cases are non-trivial except the bare null cases.")
		c.Assume("JSON objects with duplicate keys mean 'last one wins' (the semantics of Go's and Python's decoders); JSON syntax validity is decided by encoding/json.Valid; non-integer number literals are compared at float64 precision")
		c.Assume("top-level surrounding whitespace is part of the quantified inputs because BuiltinType.FilterJson trims it and TestBuiltinFilterJson tests ' null'")
		if c.Replay != "" {
			c17Replay(c)
			return
		}
		nUni := c.Pick(96, 12000)
		if v := os.Getenv("C17_UNIVERSES"); v != "" {
			if n, err := strconv.Atoi(v); err == nil {
				nUni = n
			}
		}
		nConf, nMut := 3, 17
		// the set of distinct-case hashes is kept in memory; it is recorded
		// for the first distinctCap universes only (reported in evidence).
		const distinctCap = 2000
		type bestViol struct {
			idx, ord int
			v        c17Viol
		}
		best := map[string]bestViol{}
		var samples [][]interface{} = make([][]interface{}, nUni)
		idx := make(chan int, nUni)
		for i := 0; i < nUni; i++ {
			idx <- i
		}
		close(idx)
		var wg sync.WaitGroup
		var mu sync.Mutex
		maxPool, totalPool, totalStructs := 0, 0, 0
		for p := 0; p < runtime.NumCPU(); p++ {
			wg.Add(1)
			go func() {
				defer wg.Done()
				for i := range idx {
					rec := c17NewRec()
					u := c17GenUniverse(i, c.Seed*1000003+int64(i))
					if err := u.compile(); err != nil {
						rec.violate("C17:generated-types-rejected", "generated MRO source does not compile or a type cannot be looked up: "+c17Trunc(err.Error(), 400),
							map[string]interface{}{"universe_index": i, "universe_seed": u.Seed, "mro": u.Src})
					} else {
						u.run(nConf, nMut, rec)
					}
					// commutative evidence is merged right away
					if i < distinctCap {
						for _, k := range rec.keys {
							c.Distinct(k)
						}
					}
					rec.keys = nil
					c.Eval(int(rec.counts["value_cases"] + rec.counts["assign_pairs"]))
					for k, v := range rec.counts {
						c.Count(k, v)
					}
					mu.Lock()
					// per signature keep the witness of the lowest universe
					// index: deterministic whatever the scheduling.
					for ord, v := range rec.viols {
						if b, ok := best[v.Sig]; !ok || i < b.idx {
							best[v.Sig] = bestViol{i, ord, v}
						}
					}
					if i < 64 {
						samples[i] = rec.samples
					}
					totalPool += len(u.Pool)
					totalStructs += len(u.Structs)
					if len(u.Pool) > maxPool {
						maxPool = len(u.Pool)
					}
					mu.Unlock()
				}
			}()
		}
		done := make(chan struct{})
		go func() { wg.Wait(); close(done) }()
		select {
		case <-done:
		case <-time.After(time.Duration(c.Pick(20, 120)) * time.Minute):
			c.Inconclusive("watchdog: universes still running")
			return
		}
		// order-dependent evidence in universe order
		var bl []bestViol
		for _, b := range best {
			bl = append(bl, b)
		}
		sort.Slice(bl, func(i, j int) bool {
			if bl[i].idx != bl[j].idx {
				return bl[i].idx < bl[j].idx
			}
			return bl[i].ord < bl[j].ord
		})
		for _, b := range bl {
			c.Violate(b.v.Sig, b.v.What, b.v.Replay)
		}
		for _, ss := range samples {
			for _, s := range ss {
				c.Sample(s)
			}
		}
		c.Set("universes", nUni)
		c.Set("distinct_counted_over_first_n_universes", minInt(nUni, distinctCap))
		c.Set("pool_types_total", totalPool)
		c.Set("pool_types_max_per_universe", maxPool)
		c.Set("structs_total", totalStructs)
		c.Set("mutation_classes", len(c17Muts)+4)
	})
}

// c17Replay re-evaluates the case stored in a replay file: the universe is
// regenerated from its seed, T and S are found by name.
func c17Replay(c *vf.Ctx) {
	b, err := os.ReadFile(c.Replay)
	if err != nil {
		c.Inconclusive("cannot read replay file")
		return
	}
	var f struct {
		Case struct {
			Index int    `json:"universe_index"`
			Seed  int64  `json:"universe_seed"`
			T     string `json:"T"`
			S     string `json:"S"`
			JSON  string `json:"json"`
			Class string `json:"class"`
		} `json:"case"`
	}
	if err := json.Unmarshal(b, &f); err != nil {
		c.Inconclusive("cannot parse replay file")
		return
	}
	u := c17GenUniverse(f.Case.Index, f.Case.Seed)
	if err := u.compile(); err != nil {
		c.Violate("C17:generated-types-rejected", err.Error(), nil)
		return
	}
	rec := c17NewRec()
	find := func(n string) int {
		for i, t := range u.Pool {
			if t.mro() == n {
				return i
			}
		}
		return -1
	}
	ti, si := find(f.Case.T), find(f.Case.S)
	if ti < 0 {
		c.Inconclusive("replay: type not in regenerated universe")
		return
	}
	if f.Case.Class == "" { // an assignability case
		u.checkAssignability(rec)
	} else {
		w, err := c17Parse([]byte(f.Case.JSON))
		if err != nil {
			w = nil
		}
		u.evalCase(ti, si, w, []byte(f.Case.JSON), f.Case.Class, rec)
	}
	c.Eval(1)
	for _, v := range rec.viols {
		c.Violate(v.Sig, v.What, v.Replay)
	}
}
