package main

import (
	"flag"
	"fmt"
	"os"
	"path/filepath"
	"strings"

	"verif/harness/internal/pgen"
	"verif/harness/internal/vrun"
)

func init() {
	tools["run"] = func(args []string) {
		fs := flag.NewFlagSet("run", flag.ExitOnError)
		seed := fs.Int64("seed", 1, "")
		dir := fs.String("dir", "/tmp/vrun-case", "")
		vdr := fs.String("vdr", "rolling", "")
		nested := fs.Bool("nested", false, "")
		race := fs.Bool("race", false, "")
		show := fs.Bool("show", true, "")
		delay := fs.Int("delay", 0, "")
		fs.Parse(args)
		build := os.Getenv("VERIF_BUILD")
		cfg := pgen.DefaultConfig()
		cfg.AllowNestedDynamic = *nested
		cfg.SrcFor = vrun.ProbeSrc(build)
		p := pgen.Generate(*seed, cfg)
		os.RemoveAll(*dir)
		c, err := vrun.NewCase(build, *dir, p, func(s *pgen.Spec) {
			s.KeyPool = cfg.KeyPool
			s.ExtraFiles = true
			s.DelayMaxMs = *delay
			s.Seed = *seed
		})
		if err != nil {
			fmt.Println(err)
			os.Exit(1)
		}
		if *show {
			fmt.Print(p.Print()["main.mro"])
		}
		r := c.Run(vrun.RunOpts{Race: *race, Args: []string{"--vdrmode=" + *vdr, "--localcores=4", "--localmem=8"}, Seed: *seed})
		fmt.Printf("exit=%d timedout=%v wall=%v\n", r.Exit, r.TimedOut, r.Wall)
		fmt.Println(r.Output)
		evs := c.Events()
		fmt.Printf("%d events, %d trace records\n", len(evs), len(c.Trace()))
		for _, e := range evs {
			a := strings.ReplaceAll(string(e.Args), "\n", "")
			if len(a) > 200 {
				a = a[:200]
			}
			fmt.Printf("%s %s %s/%s a=%s\n", e.Ev, e.Job, e.Stage, e.Phase, strings.Join(strings.Fields(a), " "))
		}
		b, _ := os.ReadFile(filepath.Join(c.PsDir, p.Top.Callee, "fork0", "_outs"))
		fmt.Println("TOP OUTS:", string(b))
	}
}
