package main

// C16 helper: own generator of callable signatures, definition files and
// typed argument values (rendered both as invocation JSON and as MRO call
// text).  Shares no code with martian.

import (
	"fmt"
	"math/rand"
	"os"
	"path/filepath"
	"sort"
	"strings"
)

type c16Kind int

const (
	ckInt c16Kind = iota
	ckFloat
	ckString
	ckBool
	ckPath
	ckFile
	ckUserFile
	ckMap // untyped map
	ckStruct
	ckArray
	ckTMap
)

type c16Type struct {
	K    c16Kind
	Name string // user file type / struct name
	Elem *c16Type
}

func (t *c16Type) String() string {
	switch t.K {
	case ckInt:
		return "int"
	case ckFloat:
		return "float"
	case ckString:
		return "string"
	case ckBool:
		return "bool"
	case ckPath:
		return "path"
	case ckFile:
		return "file"
	case ckMap:
		return "map"
	case ckUserFile, ckStruct:
		return t.Name
	case ckArray:
		return t.Elem.String() + "[]"
	case ckTMap:
		return "map<" + t.Elem.String() + ">"
	}
	return "?"
}

// class is the coarse type class used in violation signatures.
func (t *c16Type) class() string {
	if t == nil {
		return "map"
	}
	switch t.K {
	case ckUserFile:
		return "filetype"
	case ckStruct:
		return "struct"
	case ckArray:
		return "array"
	case ckTMap:
		return "tmap"
	}
	return t.String()
}

// skeleton renders the type with user names replaced by their class.
func (t *c16Type) skeleton() string {
	switch t.K {
	case ckArray:
		return t.Elem.skeleton() + "[]"
	case ckTMap:
		return "map<" + t.Elem.skeleton() + ">"
	}
	return t.class()
}

func (t *c16Type) canBeMapElem() bool {
	for t.K == ckArray {
		t = t.Elem
	}
	return t.K != ckTMap && t.K != ckMap
}

type c16Field struct {
	Name string
	T    *c16Type
}

type c16Struct struct {
	Name   string
	Fields []c16Field
}

type c16Callable struct {
	Name     string
	Pipeline bool
	Ins      []c16Field
	File     string // relative to the MROPATH dir
}

type c16Defs struct {
	Dir       string
	Layout    int
	Files     map[string]string
	FileTypes []string
	Structs   []*c16Struct
	Callables []*c16Callable
	Wrapper   string // a file which only includes the callable file ("" if none)
	// callables can be found without mro_file (top-level files of MROPATH)
	NoIncludeOK bool
	// Extra MROPATH entries searched before Dir (layout 4: a sibling directory
	// whose name is a string prefix of Dir's)
	ExtraPaths []string
}

// mroPaths: the MROPATH of the definition set.
func (d *c16Defs) mroPaths() []string {
	return append(append([]string{}, d.ExtraPaths...), d.Dir)
}

func (d *c16Defs) structOf(name string) *c16Struct {
	for _, s := range d.Structs {
		if s.Name == name {
			return s
		}
	}
	return nil
}

// ids known to be accepted by the grammar's id rule, keywords-as-ids included.
var c16Ids = []string{"alpha", "beta", "gamma", "delta", "eps", "zeta", "eta", "theta", "iota", "kappa",
	"lam", "mu", "nu", "xi", "omi", "pi", "rho", "sigma", "tau", "ups", "phi", "chi", "psi", "omega",
	"threads", "special", "strict", "retain", "local", "volatile", "struct", "split", "using", "mem_gb",
	"vmem_gb", "disabled", "preflight", "exec", "comp", "filetype", "x1", "y_2", "Zed", "_under"}

func c16PickIds(r *rand.Rand, n int) []string {
	perm := r.Perm(len(c16Ids))
	out := make([]string, n)
	for i := 0; i < n; i++ {
		out[i] = c16Ids[perm[i]]
		if r.Intn(4) == 0 {
			out[i] += fmt.Sprint(r.Intn(10))
		}
	}
	return out
}

func (d *c16Defs) genLeafType(r *rand.Rand) *c16Type {
	switch r.Intn(12) {
	case 0, 1:
		return &c16Type{K: ckInt}
	case 2, 3:
		return &c16Type{K: ckFloat}
	case 4, 5:
		return &c16Type{K: ckString}
	case 6:
		return &c16Type{K: ckBool}
	case 7:
		switch r.Intn(3) {
		case 0:
			return &c16Type{K: ckPath}
		case 1:
			return &c16Type{K: ckFile}
		}
		if len(d.FileTypes) > 0 {
			return &c16Type{K: ckUserFile, Name: d.FileTypes[r.Intn(len(d.FileTypes))]}
		}
		return &c16Type{K: ckFile}
	case 8:
		return &c16Type{K: ckMap}
	}
	if len(d.Structs) > 0 {
		return &c16Type{K: ckStruct, Name: d.Structs[r.Intn(len(d.Structs))].Name}
	}
	return &c16Type{K: ckString}
}

// genType: leaf, inner array dims, optional typed map, outer array dims
// (the shape martian's TypeId can express).
func (d *c16Defs) genType(r *rand.Rand) *c16Type {
	t := d.genLeafType(r)
	if r.Intn(100) < 45 {
		return t
	}
	for n := r.Intn(3); n > 0; n-- {
		t = &c16Type{K: ckArray, Elem: t}
	}
	if r.Intn(100) < 40 && t.canBeMapElem() {
		t = &c16Type{K: ckTMap, Elem: t}
		for n := r.Intn(3); n > 0; n-- {
			t = &c16Type{K: ckArray, Elem: t}
		}
	}
	return t
}

func c16WriteParams(sb *strings.Builder, ins []c16Field) {
	for _, p := range ins {
		fmt.Fprintf(sb, "    in  %s %s,\n", p.T.String(), p.Name)
	}
}

// c16GenDefs generates one definition set and writes it below dir.
func c16GenDefs(r *rand.Rand, dir string, idx int) (*c16Defs, error) {
	d := &c16Defs{Dir: dir, Layout: r.Intn(5), Files: map[string]string{}}
	if d.Layout == 4 {
		// two MROPATH entries, the first a string prefix (not a path prefix)
		// of the second, which holds the definitions in a sub directory
		d.ExtraPaths = []string{dir}
		os.MkdirAll(dir, 0755)
		os.WriteFile(filepath.Join(dir, "unrelated.mro"), []byte("filetype unrelated;\n"), 0644)
		d.Dir = dir + []string{"_v2", "2", "-next"}[r.Intn(3)]
		dir = d.Dir
	}
	fts := []string{"bam", "vcf.gz", "txt"}
	for _, i := range r.Perm(len(fts))[:r.Intn(3)] {
		d.FileTypes = append(d.FileTypes, fts[i])
	}
	ns := 1 + r.Intn(3)
	for i := 0; i < ns; i++ {
		s := &c16Struct{Name: fmt.Sprintf("SX%d_%d", idx, i)}
		nf := 1 + r.Intn(4)
		for _, id := range c16PickIds(r, nf) {
			s.Fields = append(s.Fields, c16Field{Name: id, T: d.genType(r)})
		}
		d.Structs = append(d.Structs, s) // later structs may refer to earlier ones only
	}
	var types, calls strings.Builder
	for _, ft := range d.FileTypes {
		fmt.Fprintf(&types, "filetype %s;\n", ft)
	}
	types.WriteString("\n")
	for _, s := range d.Structs {
		fmt.Fprintf(&types, "struct %s(\n", s.Name)
		for _, f := range s.Fields {
			fmt.Fprintf(&types, "    %s %s,\n", f.T.String(), f.Name)
		}
		types.WriteString(")\n\n")
	}
	callFile := "defs.mro"
	if d.Layout == 2 || d.Layout == 4 {
		callFile = "sub/stages.mro"
	}
	nc := 1 + r.Intn(2)
	for i := 0; i < nc; i++ {
		cl := &c16Callable{Name: fmt.Sprintf("CALLABLE%d_%d", idx, i), Pipeline: r.Intn(100) < 45, File: callFile}
		np := 1 + r.Intn(6)
		if r.Intn(25) == 0 {
			np = 0
		}
		for _, id := range c16PickIds(r, np) {
			cl.Ins = append(cl.Ins, c16Field{Name: id, T: d.genType(r)})
		}
		d.Callables = append(d.Callables, cl)
		if !cl.Pipeline {
			fmt.Fprintf(&calls, "stage %s(\n", cl.Name)
			c16WriteParams(&calls, cl.Ins)
			calls.WriteString("    out int r_out,\n    src comp \"stagecode\",\n)\n\n")
			continue
		}
		inner := "INNER_" + cl.Name
		fmt.Fprintf(&calls, "stage %s(\n", inner)
		c16WriteParams(&calls, cl.Ins)
		calls.WriteString("    out int r_out,\n    src comp \"stagecode\",\n)\n\n")
		fmt.Fprintf(&calls, "pipeline %s(\n", cl.Name)
		c16WriteParams(&calls, cl.Ins)
		calls.WriteString("    out int r_out,\n)\n{\n")
		fmt.Fprintf(&calls, "    call %s(\n", inner)
		for _, p := range cl.Ins {
			fmt.Fprintf(&calls, "        %s = self.%s,\n", p.Name, p.Name)
		}
		fmt.Fprintf(&calls, "    )\n\n    return (\n        r_out = %s.r_out,\n    )\n}\n\n", inner)
	}
	switch d.Layout {
	case 0:
		d.Files["defs.mro"] = types.String() + calls.String()
	default:
		d.Files["types.mro"] = types.String()
		d.Files[callFile] = "@include \"types.mro\"\n\n" + calls.String()
	}
	if d.Layout == 3 {
		d.Wrapper = "top.mro"
		d.Files["top.mro"] = "@include \"defs.mro\"\n\nfiletype wrapft;\n"
	}
	d.NoIncludeOK = d.Layout != 2 && d.Layout != 4
	for name, text := range d.Files {
		fp := filepath.Join(dir, name)
		if err := os.MkdirAll(filepath.Dir(fp), 0755); err != nil {
			return nil, err
		}
		if err := os.WriteFile(fp, []byte(text), 0644); err != nil {
			return nil, err
		}
	}
	return d, nil
}

// ---------------------------------------------------------------------
// Values

type c16Key struct {
	Raw string // JSON / MRO string literal including quotes
	Dec string // decoded key (struct field name for struct literals)
	Tag string
}

type c16Val struct {
	K      byte   // 'n' null, 'i' number, 's' string, 'b' bool, 'a' array, 'o' object
	Raw    string // JSON text of a scalar
	Mro    string // MRO text of a scalar if it differs from Raw
	Tag    string // value class of a scalar
	Elems  []*c16Val
	Keys   []c16Key
	T      *c16Type // declared type at this node; nil inside an untyped map
	Struct bool     // object is a struct value
	Synth  bool     // synthetic collection wrapping the per-fork values of a split argument
}

func (v *c16Val) clone() *c16Val {
	if v == nil {
		return nil
	}
	c := *v
	c.Elems = make([]*c16Val, len(v.Elems))
	for i, e := range v.Elems {
		c.Elems[i] = e.clone()
	}
	c.Keys = append([]c16Key(nil), v.Keys...)
	return &c
}

func c16Null(t *c16Type) *c16Val { return &c16Val{K: 'n', T: t} }

type c16Leaf struct{ raw, mro, tag string }

var c16IntLeaves = []c16Leaf{
	{"0", "", "small"}, {"7", "", "small"}, {"-3", "", "small"}, {"42", "", "small"}, {"100000", "", "small"},
	{"-0", "", "neg-zero"},
	{"9007199254740991", "", "2^53-boundary"}, {"9007199254740992", "", "2^53-boundary"}, {"9007199254740993", "", "2^53-boundary"},
	{"-9007199254740993", "", "2^53-boundary"},
	{"9223372036854775807", "", "int64-boundary"}, {"-9223372036854775808", "", "int64-boundary"},
	{"-9223372036854775807", "", "int64-boundary"}, {"9223372036854775806", "", "int64-boundary"},
	{"1234567890123456789", "", "19-digits"},
}
var c16IntLeavesMro = []c16Leaf{{"7", "007", "leading-zeros"}, {"-12", "-0012", "leading-zeros"}}

var c16FloatLeaves = []c16Leaf{
	{"3", "", "integer-literal"}, {"-17", "", "integer-literal"}, {"0", "", "integer-literal"},
	{"0.5", "", "decimal"}, {"-2.25", "", "decimal"}, {"0.1", "", "decimal"}, {"3.141592653589793", "", "decimal"},
	{"100.0", "", "decimal-integral"}, {"1.0", "", "decimal-integral"},
	{"1e5", "", "exponent"}, {"1E5", "", "exponent"}, {"1.5e+300", "", "exponent"}, {"-2.5E-10", "", "exponent"},
	{"1e-7", "", "exponent"}, {"1e21", "", "exponent"}, {"1e+21", "", "exponent"}, {"6.02214076e23", "", "exponent"},
	{"5e-324", "", "float64-limit"}, {"1.7976931348623157e308", "", "float64-limit"}, {"2.2250738585072014e-308", "", "float64-limit"},
	{"-0.0", "", "neg-zero"},
	// integral values between 2^63 and 1e21: too large for an MRO integer token,
	// small enough that many number printers would write all their digits
	{"1e19", "", "integral-beyond-int64"}, {"1e20", "", "integral-beyond-int64"}, {"-3e19", "", "integral-beyond-int64"},
	{"9.3e18", "", "integral-beyond-int64"}, {"18446744073709551616.0", "", "integral-beyond-int64"}, {"9.99999999999999e20", "", "integral-beyond-int64"},
	{"1e18", "", "integral-exponent"}, {"123456789012.0", "", "integral-exponent"},
	{"9007199254740993", "", "integer-literal-beyond-2^53"},
	{"9223372036854775807", "", "integer-literal-int64-boundary"}, {"-9223372036854775808", "", "integer-literal-int64-boundary"},
	{"0.1000000000000000055511151231257827", "", "excess-precision"},
}

// legal JSON numbers of type float which are integers beyond int64
var c16FloatLeavesJSON = []c16Leaf{
	{"9223372036854775808", "", "integer-literal-beyond-int64-19-digits"},
	{"-9223372036854775809", "", "integer-literal-beyond-int64-19-digits"},
	{"18446744073709551616", "", "integer-literal-20+-digits"},
	{"100000000000000000000000", "", "integer-literal-20+-digits"},
}

var c16StringLeaves = []c16Leaf{
	{`"plain"`, "", "plain"}, {`"s1"`, "", "plain"}, {`"hello world"`, "", "plain"},
	{`""`, "", "empty"},
	{`"q\"uote back\\slash"`, "", "escape-quote-backslash"},
	{`"\b\f\n\r\t"`, "", "escape-control"},
	{`"A\u0000\u001f\u007f"`, "", "escape-u-ascii"},
	{`"\u00e9\u65e5\u672c"`, "", "escape-u-bmp"},
	{`"\u2028\u2029"`, "", "escape-u-2028"},
	{`"x\ud800y"`, "", "escape-lone-surrogate"},
	{`"café 日本 ñ"`, "", "raw-non-ascii"},
	{"\"\U0001F600 astral \U00010348\"", "", "raw-astral"},
	{"\"a\u2028b\u2029c\"", "", "raw-2028"},
	{"\"del\x7f\"", "", "raw-del"},
	{`"self.x"`, "", "mro-lookalike"}, {`"split [1]"`, "", "mro-lookalike"}, {`"null"`, "", "mro-lookalike"},
	{`"# not a comment"`, "", "mro-lookalike"}, {`"@include \"x.mro\""`, "", "mro-lookalike"}, {`"{a: 1}"`, "", "mro-lookalike"},
	{`"<a href='x'>&amp;</a>"`, "", "html"},
	{`"%s %d %% $HOME $(x)"`, "", "format-verbs"},
	{`"` + strings.Repeat("long-", 80) + `"`, "", "long"},
	{`" lead and trail "`, "", "spaces"},
}
var c16StringLeavesJSON = []c16Leaf{{`"a\/b"`, "", "escape-solidus"}, {`"x\ud83d\ude00y"`, "", "escape-surrogate-pair"}}
var c16StringLeavesMro = []c16Leaf{
	{`"\u0007\u000bAA"`, `"\a\v\x41\101"`, "mro-escape"},
	{"\"\U0001F600\"", `"\U0001F600"`, "mro-escape-U"},
	{`"tab\there\nnl"`, "\"tab\there\nnl\"", "raw-control"},
}

var c16PathLeaves = []c16Leaf{
	{`"/abs/dir/reads.bam"`, "", "path"}, {`"rel/x y.txt"`, "", "path"}, {`"/data/é/file.vcf.gz"`, "", "path"}, {`""`, "", "empty"},
}

var c16KeyPool = []c16Key{
	{`"a"`, "a", "plain"}, {`"b"`, "b", "plain"}, {`"k1"`, "k1", "plain"}, {`"zz9"`, "zz9", "plain"},
	{`"b c"`, "b c", "key-space"}, {`""`, "", "key-empty"}, {`"0"`, "0", "key-digit"},
	{`"k\u00e9"`, "ké", "key-escape-u"}, {`"日本"`, "日本", "key-non-ascii"}, {`"q\"k"`, "q\"k", "key-quote"},
	{`"b\\k"`, "b\\k", "key-backslash"}, {`"null"`, "null", "key-keyword"}, {`"split"`, "split", "key-keyword"},
	{`"self"`, "self", "key-keyword"}, {`"a.b"`, "a.b", "key-dot"}, {`"n\nl"`, "n\nl", "key-newline"},
	{"\"\U0001F600\"", "\U0001F600", "key-astral"}, {`"a-b"`, "a-b", "key-dash"},
}
var c16KeyPoolJSON = []c16Key{{`"\ud83d\ude00k"`, "\U0001F600k", "key-escape-surrogate-pair"}, {`"a\/k"`, "a/k", "key-escape-solidus"}}

type c16Gen struct {
	r   *rand.Rand
	d   *c16Defs
	mro bool // values are rendered as MRO text (no JSON-only lexemes)
	// hostile controls how often rare lexemes are drawn
}

func (g *c16Gen) pick(base []c16Leaf, jsonOnly, mroOnly []c16Leaf) c16Leaf {
	n := len(base)
	extra := jsonOnly
	if g.mro {
		extra = mroOnly
	}
	rare := 2 // JSON-only lexemes hit known defects: keep them sparse so that other values are not masked
	if g.mro {
		rare = 10
	}
	if len(extra) > 0 && g.r.Intn(100) < rare {
		return extra[g.r.Intn(len(extra))]
	}
	return base[g.r.Intn(n)]
}

// containsFile: typed maps over such types become directories, their keys
// must be legal file names (part of the declared type).
func (d *c16Defs) containsFile(t *c16Type) bool {
	switch t.K {
	case ckPath, ckFile, ckUserFile:
		return true
	case ckArray, ckTMap:
		return d.containsFile(t.Elem)
	case ckStruct:
		for _, f := range d.structOf(t.Name).Fields {
			if d.containsFile(f.T) {
				return true
			}
		}
	}
	return false
}

func (g *c16Gen) keys(n int, fileSafe bool) []c16Key {
	pool := c16KeyPool
	if !g.mro && g.r.Intn(12) == 0 {
		pool = append(append([]c16Key(nil), c16KeyPool...), c16KeyPoolJSON...)
	}
	if fileSafe {
		var p2 []c16Key
		for _, k := range pool {
			if k.Dec != "" && !strings.Contains(k.Dec, "/") {
				p2 = append(p2, k)
			}
		}
		pool = p2
	}
	// mostly plain keys
	var out []c16Key
	seen := map[string]bool{}
	for len(out) < n {
		var k c16Key
		if g.r.Intn(100) < 55 {
			k = pool[g.r.Intn(4)]
		} else {
			k = pool[g.r.Intn(len(pool))]
		}
		if seen[k.Dec] {
			continue
		}
		seen[k.Dec] = true
		out = append(out, k)
	}
	return out
}

func (g *c16Gen) scalar(k byte, l c16Leaf, t *c16Type) *c16Val {
	return &c16Val{K: k, Raw: l.raw, Mro: l.mro, Tag: l.tag, T: t}
}

func (g *c16Gen) randInt() c16Leaf {
	v := int64(g.r.Uint64())
	return c16Leaf{fmt.Sprint(v), "", "random-64bit"}
}

// untyped generates arbitrary JSON below an untyped map.
func (g *c16Gen) untyped(depth int) *c16Val {
	switch c := g.r.Intn(10); {
	case c == 0:
		return c16Null(nil)
	case c <= 2:
		return g.scalar('i', g.pick(c16IntLeaves, nil, nil), nil)
	case c == 3:
		return g.scalar('i', g.pick(c16FloatLeaves, nil, nil), nil)
	case c <= 5:
		return g.scalar('s', g.pick(c16StringLeaves, c16StringLeavesJSON, c16StringLeavesMro), nil)
	case c == 6:
		return &c16Val{K: 'b', Raw: []string{"true", "false"}[g.r.Intn(2)], Tag: "plain"}
	case c <= 7 && depth < 3:
		v := &c16Val{K: 'a'}
		for n := g.r.Intn(4); n > 0; n-- {
			v.Elems = append(v.Elems, g.untyped(depth+1))
		}
		return v
	case depth < 3:
		v := &c16Val{K: 'o'}
		v.Keys = g.keys(g.r.Intn(3), false)
		for range v.Keys {
			v.Elems = append(v.Elems, g.untyped(depth+1))
		}
		return v
	}
	return g.scalar('i', c16Leaf{"1", "", "small"}, nil)
}

func (g *c16Gen) val(t *c16Type, depth int) *c16Val {
	if g.r.Intn(100) < 8 {
		return c16Null(t)
	}
	switch t.K {
	case ckInt:
		if g.r.Intn(8) == 0 {
			return g.scalar('i', g.randInt(), t)
		}
		return g.scalar('i', g.pick(c16IntLeaves, nil, c16IntLeavesMro), t)
	case ckFloat:
		return g.scalar('i', g.pick(c16FloatLeaves, c16FloatLeavesJSON, nil), t)
	case ckString:
		return g.scalar('s', g.pick(c16StringLeaves, c16StringLeavesJSON, c16StringLeavesMro), t)
	case ckBool:
		return &c16Val{K: 'b', Raw: []string{"true", "false"}[g.r.Intn(2)], Tag: "plain", T: t}
	case ckPath, ckFile, ckUserFile:
		return g.scalar('s', c16PathLeaves[g.r.Intn(len(c16PathLeaves))], t)
	case ckMap:
		v := &c16Val{K: 'o', T: t}
		v.Keys = g.keys(g.r.Intn(4), false)
		for range v.Keys {
			v.Elems = append(v.Elems, g.untyped(1))
		}
		return v
	case ckStruct:
		s := g.d.structOf(t.Name)
		v := &c16Val{K: 'o', T: t, Struct: true}
		for _, f := range s.Fields {
			v.Keys = append(v.Keys, c16Key{Raw: `"` + f.Name + `"`, Dec: f.Name, Tag: "plain"})
			if depth > 5 {
				v.Elems = append(v.Elems, c16Null(f.T))
			} else {
				v.Elems = append(v.Elems, g.val(f.T, depth+1))
			}
		}
		return v
	case ckArray:
		v := &c16Val{K: 'a', T: t}
		n := g.r.Intn(4)
		if depth > 5 {
			n = 0
		}
		for ; n > 0; n-- {
			v.Elems = append(v.Elems, g.val(t.Elem, depth+1))
		}
		return v
	case ckTMap:
		v := &c16Val{K: 'o', T: t}
		n := g.r.Intn(4)
		if depth > 5 {
			n = 0
		}
		v.Keys = g.keys(n, g.d.containsFile(t.Elem))
		for range v.Keys {
			v.Elems = append(v.Elems, g.val(t.Elem, depth+1))
		}
		return v
	}
	return c16Null(t)
}

// ---------------------------------------------------------------------
// Rendering

func (v *c16Val) json(sb *strings.Builder, spaced bool) {
	sep, colon := ",", ":"
	if spaced {
		sep, colon = ", ", ": "
	}
	switch v.K {
	case 'n':
		sb.WriteString("null")
	case 'i', 's', 'b':
		sb.WriteString(v.Raw)
	case 'a':
		sb.WriteByte('[')
		for i, e := range v.Elems {
			if i > 0 {
				sb.WriteString(sep)
			}
			e.json(sb, spaced)
		}
		sb.WriteByte(']')
	case 'o':
		sb.WriteByte('{')
		if spaced && len(v.Elems) > 0 {
			sb.WriteString("\n  ")
		}
		for i, e := range v.Elems {
			if i > 0 {
				sb.WriteString(sep)
			}
			sb.WriteString(v.Keys[i].Raw)
			sb.WriteString(colon)
			e.json(sb, spaced)
		}
		sb.WriteByte('}')
	}
}

func (v *c16Val) mro(sb *strings.Builder) {
	switch v.K {
	case 'n':
		sb.WriteString("null")
	case 'i', 's', 'b':
		if v.Mro != "" {
			sb.WriteString(v.Mro)
		} else {
			sb.WriteString(v.Raw)
		}
	case 'a':
		sb.WriteByte('[')
		for i, e := range v.Elems {
			if i > 0 {
				sb.WriteString(", ")
			}
			e.mro(sb)
		}
		sb.WriteByte(']')
	case 'o':
		sb.WriteByte('{')
		for i, e := range v.Elems {
			if i > 0 {
				sb.WriteString(", ")
			}
			if v.Struct {
				sb.WriteString(v.Keys[i].Dec)
			} else {
				sb.WriteString(v.Keys[i].Raw)
			}
			sb.WriteString(": ")
			e.mro(sb)
		}
		sb.WriteByte('}')
	}
}

// shape is a structural key of a value: kinds, value classes, key classes.
func (v *c16Val) shape(sb *strings.Builder) {
	switch v.K {
	case 'n':
		sb.WriteByte('n')
	case 'i', 's', 'b':
		sb.WriteByte(v.K)
		sb.WriteString(":" + v.Tag)
	case 'a':
		sb.WriteByte('[')
		for _, e := range v.Elems {
			e.shape(sb)
			sb.WriteByte(',')
		}
		sb.WriteByte(']')
	case 'o':
		sb.WriteByte('{')
		for i, e := range v.Elems {
			if !v.Struct {
				sb.WriteString(v.Keys[i].Tag)
			}
			sb.WriteByte('=')
			e.shape(sb)
			sb.WriteByte(',')
		}
		sb.WriteByte('}')
	}
}

// tally counts the value classes drawn, for the evidence file.
func (v *c16Val) tally(m map[string]int64) {
	switch v.K {
	case 'n':
		m["values_null"]++
	case 'i':
		m["number:"+v.Tag]++
	case 's':
		m["string:"+v.Tag]++
	case 'b':
		m["values_bool"]++
	case 'a':
		if len(v.Elems) == 0 {
			m["values_empty_array"]++
		}
		m["values_array"]++
	case 'o':
		if len(v.Elems) == 0 {
			m["values_empty_object"]++
		}
		switch {
		case v.Struct:
			m["values_struct"]++
		case v.T == nil || v.T.K == ckMap:
			m["values_untyped_map"]++
		default:
			m["values_typed_map"]++
		}
		if !v.Struct {
			for _, k := range v.Keys {
				m["key:"+k.Tag]++
			}
		}
	}
	for _, e := range v.Elems {
		e.tally(m)
	}
}

// ---------------------------------------------------------------------
// Cases

type c16Case struct {
	D     *c16Defs
	C     *c16Callable
	Args  []*c16Val // parallel to C.Ins; nil = argument not given (JSON direction only)
	Split []bool
	// 0 none, 'a' arrays, 'm' typed maps
	SplitMode byte
	Include   bool // JSON direction: mro_file given; MRO direction: always true
	Spaced    bool
	Compiled  bool // MRO direction: JSON made from the compiled AST (BuildDataForAst) instead of InvocationDataFromSource
	Wrapper   bool // MRO direction: text includes the wrapper file
}

func (cs *c16Case) clone() *c16Case {
	c := *cs
	c.Args = make([]*c16Val, len(cs.Args))
	for i, a := range cs.Args {
		c.Args[i] = a.clone()
	}
	c.Split = append([]bool(nil), cs.Split...)
	return &c
}

func c16GenCase(r *rand.Rand, d *c16Defs, mro bool) *c16Case {
	g := &c16Gen{r: r, d: d, mro: mro}
	cl := d.Callables[r.Intn(len(d.Callables))]
	cs := &c16Case{D: d, C: cl, Args: make([]*c16Val, len(cl.Ins)), Split: make([]bool, len(cl.Ins)),
		Include: true, Spaced: r.Intn(3) == 0, Compiled: r.Intn(2) == 0, Wrapper: d.Wrapper != "" && r.Intn(2) == 0}
	if !mro && d.NoIncludeOK && r.Intn(100) < 15 {
		cs.Include = false
	}
	mode := byte(0)
	if len(cl.Ins) > 0 {
		switch x := r.Intn(100); {
		case x < 52:
		case x < 78:
			mode = 'a'
		default:
			mode = 'm'
		}
	}
	if mode == 'm' {
		ok := false
		for _, p := range cl.Ins {
			ok = ok || p.T.canBeMapElem()
		}
		if !ok {
			mode = 'a'
		}
	}
	if mode != 0 {
		for {
			any := false
			for i, p := range cl.Ins {
				cs.Split[i] = r.Intn(100) < 45 && (mode == 'a' || p.T.canBeMapElem())
				any = any || cs.Split[i]
			}
			if any {
				break
			}
		}
	}
	cs.SplitMode = mode
	n := 1 + r.Intn(3)
	empty := !mro && mode != 0 && r.Intn(100) < 4 // JSON can say "split over nothing"; MRO text cannot
	if empty {
		n = 0
	}
	var keys []c16Key
	if mode == 'm' {
		fileSafe := false
		for i, p := range cl.Ins {
			fileSafe = fileSafe || (cs.Split[i] && d.containsFile(p.T))
		}
		keys = g.keys(n, fileSafe)
	}
	for i, p := range cl.Ins {
		switch {
		case !cs.Split[i]:
			if !mro && r.Intn(100) < 7 {
				continue // omitted
			}
			cs.Args[i] = g.val(p.T, 0)
		case mode == 'a':
			v := &c16Val{K: 'a', T: &c16Type{K: ckArray, Elem: p.T}, Synth: true}
			for j := 0; j < n; j++ {
				v.Elems = append(v.Elems, g.val(p.T, 1))
			}
			if empty && r.Intn(2) == 0 {
				v = &c16Val{K: 'n', T: v.T, Synth: true}
			}
			cs.Args[i] = v
		default:
			v := &c16Val{K: 'o', T: &c16Type{K: ckTMap, Elem: p.T}, Synth: true, Keys: append([]c16Key(nil), keys...)}
			for j := 0; j < n; j++ {
				v.Elems = append(v.Elems, g.val(p.T, 1))
			}
			if empty && r.Intn(2) == 0 {
				v = &c16Val{K: 'n', T: v.T, Synth: true}
			}
			cs.Args[i] = v
		}
	}
	return cs
}

func (cs *c16Case) includeName() string {
	if cs.Wrapper && cs.D.Wrapper != "" {
		return cs.D.Wrapper
	}
	return cs.C.File
}

// jsonText renders the invocation JSON.
func (cs *c16Case) jsonText() string {
	var sb strings.Builder
	fmt.Fprintf(&sb, `{"call":"%s","args":{`, cs.C.Name)
	first := true
	var sp []string
	for i, p := range cs.C.Ins {
		if cs.Split[i] {
			sp = append(sp, `"`+p.Name+`"`)
		}
		if cs.Args[i] == nil {
			continue
		}
		if !first {
			sb.WriteByte(',')
		}
		first = false
		fmt.Fprintf(&sb, `"%s":`, p.Name)
		if cs.Split[i] {
			sb.WriteString(`{"split":`)
			cs.Args[i].json(&sb, cs.Spaced)
			sb.WriteByte('}')
		} else {
			cs.Args[i].json(&sb, cs.Spaced)
		}
	}
	sb.WriteString("}")
	if cs.Include {
		fmt.Fprintf(&sb, `,"mro_file":"%s"`, cs.C.File)
	}
	if len(sp) > 0 {
		sb.WriteString(`,"splitargs":[` + strings.Join(sp, ",") + "]")
	}
	sb.WriteString("}")
	return sb.String()
}

// mroText renders the call as MRO source.
func (cs *c16Case) mroText() string {
	var sb strings.Builder
	fmt.Fprintf(&sb, "@include \"%s\"\n\n", cs.includeName())
	if cs.SplitMode != 0 {
		sb.WriteString("map ")
	}
	fmt.Fprintf(&sb, "call %s(\n", cs.C.Name)
	for i, p := range cs.C.Ins {
		fmt.Fprintf(&sb, "    %s = ", p.Name)
		if cs.Split[i] {
			sb.WriteString("split ")
		}
		a := cs.Args[i]
		if a == nil {
			a = c16Null(p.T)
		}
		a.mro(&sb)
		sb.WriteString(",\n")
	}
	sb.WriteString(")\n")
	return sb.String()
}

func (cs *c16Case) key(dir string) string {
	var sb strings.Builder
	sb.WriteString(dir)
	fmt.Fprintf(&sb, "|%v|%c|inc=%v|cmp=%v|wrap=%v|", cs.C.Pipeline, cs.SplitMode, cs.Include, cs.Compiled, cs.Wrapper)
	for i, p := range cs.C.Ins {
		sb.WriteString(p.T.skeleton())
		if cs.Split[i] {
			sb.WriteString("*")
		}
		sb.WriteByte('=')
		if cs.Args[i] == nil {
			sb.WriteByte('-')
		} else {
			cs.Args[i].shape(&sb)
		}
		sb.WriteByte(';')
	}
	return sb.String()
}

func (cs *c16Case) nontrivial() bool {
	for _, a := range cs.Args {
		if a != nil && a.K != 'n' {
			return true
		}
	}
	return false
}

// single returns the case reduced to argument i (others null / not given).
func (cs *c16Case) single(i int) *c16Case {
	c := cs.clone()
	for j := range c.Args {
		if j != i {
			c.Args[j] = nil
			c.Split[j] = false
		}
	}
	if !c.Split[i] {
		c.SplitMode = 0
	}
	return c
}

// ---------------------------------------------------------------------
// Shrinking and description of a failing single-argument case

func (v *c16Val) nodes(out *[]*c16Val) {
	*out = append(*out, v)
	for _, e := range v.Elems {
		e.nodes(out)
	}
}

func c16PlainLeaf(v *c16Val) *c16Val {
	n := *v
	n.Mro = ""
	n.Tag = "plain"
	switch v.K {
	case 'i':
		n.Raw, n.Tag = "1", "small"
		if v.T != nil && v.T.K == ckFloat {
			n.Raw, n.Tag = "1.5", "decimal"
		}
	case 's':
		n.Raw = `"x"`
	default:
		return nil
	}
	if n.Raw == v.Raw && v.Mro == "" {
		return nil
	}
	return &n
}

// c16Candidates lists smaller variants of a single-argument case.
func c16Candidates(cs *c16Case, i int, includeAllowed bool) []*c16Case {
	var out []*c16Case
	if !cs.Include && includeAllowed {
		c := cs.clone()
		c.Include = true
		out = append(out, c)
	}
	if cs.Spaced {
		c := cs.clone()
		c.Spaced = false
		out = append(out, c)
	}
	if cs.Wrapper {
		c := cs.clone()
		c.Wrapper = false
		out = append(out, c)
	}
	root := cs.Args[i]
	if root == nil {
		return out
	}
	if cs.Split[i] {
		// the same values, not split
		for _, e := range root.Elems {
			c := cs.clone()
			c.Args[i] = e.clone()
			c.Split[i] = false
			c.SplitMode = 0
			out = append(out, c)
		}
	}
	var nodes []*c16Val
	root.nodes(&nodes)
	for idx, n := range nodes {
		mk := func(f func(n *c16Val)) {
			c := cs.clone()
			var cn []*c16Val
			c.Args[i].nodes(&cn)
			f(cn[idx])
			out = append(out, c)
		}
		if n.K != 'n' && !(n == root && n.Synth) {
			mk(func(x *c16Val) { *x = c16Val{K: 'n', T: x.T} })
		}
		if (n.K == 'a' || n.K == 'o') && !n.Struct {
			min := 0
			if n.Synth {
				min = 1 // keep "split over nothing" a class of its own
			}
			if len(n.Elems) > min {
				for j := range n.Elems {
					j := j
					mk(func(x *c16Val) {
						x.Elems = append(append([]*c16Val(nil), x.Elems[:j]...), x.Elems[j+1:]...)
						if x.K == 'o' {
							x.Keys = append(append([]c16Key(nil), x.Keys[:j]...), x.Keys[j+1:]...)
						}
					})
				}
			}
			if n.K == 'o' {
				for j, k := range n.Keys {
					if k.Tag != "plain" {
						j := j
						dup := false
						for _, o := range n.Keys {
							dup = dup || o.Dec == "pk"
						}
						if !dup {
							mk(func(x *c16Val) { x.Keys[j] = c16Key{Raw: `"pk"`, Dec: "pk", Tag: "plain"} })
						}
					}
				}
			}
		}
		if p := c16PlainLeaf(n); p != nil {
			mk(func(x *c16Val) { *x = *p })
		}
	}
	return out
}

// c16Shrink greedily minimises a failing single-argument case keeping the
// failure category.
func c16Shrink(cs *c16Case, i int, cat string, eval func(*c16Case) c16Outcome) (*c16Case, int) {
	evals := 0
	// phase 1: descend towards a single child which alone keeps the failure
	focus := 0 // index of the focus node in pre-order
	for evals < 300 {
		var nodes []*c16Val
		if cs.Args[i] == nil {
			break
		}
		cs.Args[i].nodes(&nodes)
		if focus >= len(nodes) {
			break
		}
		n := nodes[focus]
		next := -1
		for j := range n.Elems {
			if n.Elems[j].K == 'n' {
				continue
			}
			cand := cs.clone()
			var cn []*c16Val
			cand.Args[i].nodes(&cn)
			f := cn[focus]
			if f.Struct || f.Synth {
				for k := range f.Elems {
					if k != j {
						f.Elems[k] = &c16Val{K: 'n', T: f.Elems[k].T}
					}
				}
			} else {
				f.Elems = []*c16Val{f.Elems[j]}
				if f.K == 'o' {
					f.Keys = []c16Key{f.Keys[j]}
				}
			}
			evals++
			if o := eval(cand); o.sameAs(cat) {
				cs = cand
				var cn2 []*c16Val
				cs.Args[i].nodes(&cn2)
				for idx, x := range cn2 {
					if f.Struct || f.Synth {
						if x == f.Elems[j] {
							next = idx
						}
					} else if x == f.Elems[0] {
						next = idx
					}
				}
				break
			}
		}
		if next < 0 {
			break
		}
		focus = next
	}
	for evals < 600 {
		progress := false
		for _, cand := range c16Candidates(cs, i, true) {
			evals++
			if o := eval(cand); o.sameAs(cat) {
				cs = cand
				progress = true
				break
			}
			if evals >= 600 {
				break
			}
		}
		if !progress {
			break
		}
	}
	return cs, evals
}

// c16Describe gives (type class, tags) of the minimal witness: the class of
// the deepest non-null node plus the value / key classes left on the way.
func c16Describe(cs *c16Case, i int, jsonDir bool) (string, []string) {
	root := cs.Args[i]
	pt := cs.C.Ins[i].T
	class := pt.class()
	var tags []string
	if root != nil {
		var deepest *c16Val
		best := -1
		var walk func(v *c16Val, depth int)
		walk = func(v *c16Val, depth int) {
			if v.K != 'n' && depth > best {
				best, deepest = depth, v
			}
			if v.K == 'o' && !v.Struct {
				for _, k := range v.Keys {
					if k.Tag != "plain" {
						tags = append(tags, k.Tag)
					}
				}
			}
			for _, e := range v.Elems {
				walk(e, depth+1)
			}
		}
		walk(root, 0)
		if root.Synth && (deepest == nil || deepest.Synth) {
			// nothing of the per-fork values is left: the split itself fails
			class = "split"
		}
		if deepest != nil && !deepest.Synth {
			class = deepest.T.class()
			if (deepest.K == 'i' || deepest.K == 's') && deepest.Tag != "plain" && deepest.Tag != "small" {
				tags = append(tags, deepest.Tag)
			}
		}
		if cs.Split[i] {
			switch {
			case root.K == 'n' || len(root.Elems) == 0:
				tags = append(tags, "split-over-nothing")
			case cs.SplitMode == 'a':
				tags = append(tags, "split-array")
			default:
				tags = append(tags, "split-map")
			}
		}
	}
	if jsonDir && !cs.Include {
		tags = append(tags, "no-mro_file")
	}
	sort.Strings(tags)
	var uniq []string
	for j, t := range tags {
		if j == 0 || t != tags[j-1] {
			uniq = append(uniq, t)
		}
	}
	return class, uniq
}
