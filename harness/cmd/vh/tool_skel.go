package main

import (
	"fmt"
	"os"

	"verif/harness/internal/pgen"
)

func init() {
	tools["skel"] = func(args []string) {
		cfg := pgen.DefaultConfig()
		cfg.MultiFile = true
		for seed := int64(1); seed <= 5; seed++ {
			p := pgen.RefactorSkeleton(seed, cfg)
			dir, _ := os.MkdirTemp("", "skel")
			_, _, err := compileProgram(p, dir)
			os.RemoveAll(dir)
			fmt.Println("seed", seed, "err:", err)
			if err != nil && seed == 1 {
				for k, v := range p.Print() {
					fmt.Println("====", k)
					fmt.Println(v)
				}
			}
		}
	}
}
