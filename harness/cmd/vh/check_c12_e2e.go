package main

import (
	"encoding/json"
	"fmt"
	"os"
	"path/filepath"
	"sort"
	"sync"
	"time"

	"verif/harness/internal/pgen"
	"verif/harness/internal/vf"
	"verif/harness/internal/vmon"
	"verif/harness/internal/vrun"
)

// C12 end-to-end monitor: the summed reservations (as recorded in each
// job's _jobinfo) of jobs whose probe intervals overlap never exceed the
// configured local limits; in cluster mode the number of overlapping jobs
// never exceeds --maxjobs; pipestances whose jobs each fit finish.

type c12Interval struct {
	job          string
	start, end   int64
	threads, mem float64
}

func c12EndToEnd(c *vf.Ctx) {
	n := c.Pick(12, 300)
	var mu sync.Mutex
	sem := make(chan struct{}, 12)
	var wg sync.WaitGroup
	for i := 0; i < n; i++ {
		i := i
		wg.Add(1)
		sem <- struct{}{}
		go func() {
			defer wg.Done()
			defer func() { <-sem }()
			c12E2ECase(c, i, &mu)
		}()
	}
	wg.Wait()
}

func c12E2ECase(c *vf.Ctx, i int, mu *sync.Mutex) {
	type cfgT struct {
		cores, mem int
		remote     bool
		maxjobs    int
	}
	{
		seed := c.Seed*6151 + int64(i)
		lc := cfgT{cores: []int{1, 2, 3, 4}[i%4], mem: []int{2, 3, 5, 8}[(i/4)%4]}
		if i%6 == 5 {
			lc.remote = true
			lc.maxjobs = 1 + i%3
		}
		// cluster mode with a saturated --maxjobs: a splitting stage mapped over a
		// run-time collection (skeleton 4) whose joins are slow, so that joins
		// are still running while chunks of the other forks wait for a slot
		slowJoin := i%6 == 2
		if slowJoin {
			lc.remote = true
			lc.maxjobs = 2
		}
		cfg := pgen.DefaultConfig()
		cfg.PFileTypes = 5
		cfg.PMapCall = 60
		cfg.PSplitStage = 60
		cfg.MaxPipelines = 2
		cfg.MaxCalls = 3
		cfg.PResources = 90
		cfg.PDisabled = 10
		cfg.SrcFor = vrun.ProbeSrc(c.BuildDir)
		p := pgen.Generate(seed, cfg)
		if slowJoin {
			cfg.ForceSplit = true
			p = pgen.Template(4, seed, cfg)
		}
		// hungry and fractional requests, some above the limit (clamped)
		reqs := []float64{0.5, 1, 1.5, 2, 3, 8, -1}
		for k, st := range p.Stages {
			st.Res = &pgen.Resources{HasThreads: true, Threads: reqs[(k+i)%len(reqs)], HasMem: true, MemGB: reqs[(k+2*i+1)%len(reqs)]}
			if st.Res.Threads < 0 {
				st.Res.Threads = 1
			}
			if st.Res.MemGB < 0 {
				st.Res.MemGB = 1
			}
		}
		dir := filepath.Join(c.WorkDir, fmt.Sprintf("c12e2e-%d", i))
		if _, _, err := compileProgram(p, filepath.Join(dir, "compile")); err != nil {
			os.RemoveAll(dir)
			return
		}
		os.RemoveAll(filepath.Join(dir, "compile"))
		cs, err := vrun.NewCase(c.BuildDir, dir, p, func(s *pgen.Spec) {
			s.KeyPool = cfg.KeyPool
			s.Seed = seed
			s.DelayMaxMs = 60
			s.ChunkChoices = []int{1, 2, 3, 5}
			// chunks ask for their own resources
			s.Rules = []pgen.Rule{{Phase: "split", Threads: reqs[i%5], MemGB: reqs[(i+2)%5]}}
			if slowJoin {
				s.LenChoices = []int{3}
				s.ChunkChoices = []int{3, 4}
				s.Rules = append(s.Rules, pgen.Rule{Phase: "join", DelayBeforeMs: 4500}, pgen.Rule{Phase: "main", DelayBeforeMs: 300})
			}
		})
		if err != nil {
			return
		}
		args := []string{"--vdrmode=disable", fmt.Sprintf("--localcores=%d", lc.cores), fmt.Sprintf("--localmem=%d", lc.mem)}
		if lc.remote {
			args = append(args, "--jobmode=fake_remote", fmt.Sprintf("--maxjobs=%d", lc.maxjobs), "--jobinterval=1")
		}
		restarted := false
		if slowJoin && i%12 == 2 {
			restarted = true
			// cluster mode, mrp killed after its fifth submission and restarted at once: the
			// jobs already submitted keep running, and the restarted mrp has to count them
			// against --maxjobs when it re-attaches
			r0 := cs.Run(vrun.RunOpts{Args: args, Seed: seed, Timeout: 150 * time.Second, Crash: "remote:send#5:KILL"})
			if r0.TimedOut {
				cs.KillAll()
			}
			os.Remove(filepath.Join(cs.PsDir, "_lock"))
			mu.Lock()
			c.Count("e2e_cluster_mode_restarts", 1)
			mu.Unlock()
		}
		r := cs.Run(vrun.RunOpts{Args: args, Seed: seed, Timeout: 150 * time.Second, Race: i%3 == 0,
			Delays: "local:*=20@0.5;remote:*=20@0.5"})
		mu.Lock()
		defer mu.Unlock()
		c.Eval(1)
		replay := map[string]interface{}{"program_seed": seed, "mro": p.Print(), "args": args}
		if r.TimedOut {
			cs.KillAll()
			if nIdle := idleLoops(cs.Trace(), 0); nIdle >= 20 {
				c.Violate(fmt.Sprintf("C12:e2e:stall:remote=%v", lc.remote), fmt.Sprintf("pipestance whose jobs each fit the limits made no progress for %d loop iterations (args %v); log tail: %s", nIdle, args, tail(stripDump(r.Output), 600)), replay)
			} else {
				c.Inconclusive("watchdog")
			}
			os.RemoveAll(dir)
			return
		}
		if r.Exit != 0 {
			c.Inconclusive("pipestance failed: " + normalizeFail(failureLine(r.Output)))
			os.RemoveAll(dir)
			return
		}
		obs := vmon.Collect(cs, vmon.StageCallPaths(p))
		var ivs []c12Interval
		for _, j := range obs.JobOrder {
			s, e := j.FirstStart(), j.LastEnd()
			if s == nil || e == nil {
				continue
			}
			iv := c12Interval{job: j.ID, start: s.T, end: e.T}
			if b, err := os.ReadFile(filepath.Join(s.Meta, "_jobinfo")); err == nil {
				var ji struct {
					Threads float64 `json:"threads"`
					MemGB   float64 `json:"memGB"`
					Type    string  `json:"type"`
				}
				if json.Unmarshal(b, &ji) == nil {
					iv.threads, iv.mem = ji.Threads, ji.MemGB
					if lc.remote && ji.Type == "local" {
						// local-modifier stages in cluster mode use the local manager
						iv.threads, iv.mem = 0, 0
						iv.job = ""
					}
				}
			}
			ivs = append(ivs, iv)
		}
		c.Count("e2e_jobs_with_reservations", int64(len(ivs)))
		c.Distinct(fmt.Sprintf("c12e2e|%d|%v", seed, lc))
		// sweep
		type pt struct {
			t     int64
			delta int
			iv    *c12Interval
		}
		var pts []pt
		for k := range ivs {
			pts = append(pts, pt{ivs[k].start, +1, &ivs[k]}, pt{ivs[k].end, -1, &ivs[k]})
		}
		sort.Slice(pts, func(a, b int) bool {
			if pts[a].t != pts[b].t {
				return pts[a].t < pts[b].t
			}
			return pts[a].delta < pts[b].delta
		})
		var thr, mem float64
		cnt, maxCnt := 0, 0
		var maxThr, maxMem float64
		for _, q := range pts {
			if lc.remote && q.iv.job == "" {
				continue
			}
			thr += float64(q.delta) * q.iv.threads
			mem += float64(q.delta) * q.iv.mem
			cnt += q.delta
			if thr > maxThr {
				maxThr = thr
			}
			if mem > maxMem {
				maxMem = mem
			}
			if cnt > maxCnt {
				maxCnt = cnt
			}
		}
		if !lc.remote {
			if maxThr > float64(lc.cores)+1e-6 {
				c.Violate("C12:e2e:threads-over-limit", fmt.Sprintf("jobs running at the same instant reserve %.2f threads in total with --localcores=%d", maxThr, lc.cores), replay)
			}
			if maxMem > float64(lc.mem)+1e-6 {
				c.Violate("C12:e2e:mem-over-limit", fmt.Sprintf("jobs running at the same instant reserve %.2f GB in total with --localmem=%d", maxMem, lc.mem), replay)
			}
		} else if maxCnt > lc.maxjobs {
			sig, how := "C12:e2e:maxjobs-exceeded", ""
			if restarted {
				sig += ":after-restart"
				how = " (mrp had been killed after its fifth submission and restarted while the submitted jobs kept running)"
			}
			c.Violate(sig, fmt.Sprintf("%d cluster jobs were running at the same instant with --maxjobs=%d%s", maxCnt, lc.maxjobs, how), replay)
		}
		if i < 3 {
			c.Sample(map[string]interface{}{"e2e": true, "localcores": lc.cores, "localmem": lc.mem, "remote": lc.remote, "maxjobs": lc.maxjobs,
				"jobs": len(ivs), "max_threads_observed": maxThr, "max_mem_observed": maxMem, "max_concurrent_jobs": maxCnt})
		}
		c.Count("e2e_pipestances_completed", 1)
		os.RemoveAll(dir)
	}
}

func init() {
	orig := checks["C12"]
	register("C12", "exploration", func(c *vf.Ctx) {
		orig.fn(c)
		c12EndToEnd(c)
	})
}
