// probe is the universal stage executable used by the /verif runtime
// checks.  Its outputs are a pure function of (stage id, phase, canonical
// arguments); it records what it observed into an event log.
package main

import (
	"bytes"
	"encoding/json"
	"fmt"
	"os"
	"os/exec"
	"path/filepath"
	"regexp"
	"strconv"
	"strings"
	"syscall"
	"time"

	"golang.org/x/sys/unix"
	"verif/harness/internal/pgen"
)

type fcheck struct {
	Path  string `json:"path"`
	State string `json:"state"` // ok, missing, dir, other
	Tok   string `json:"tok,omitempty"`
	Size  int64  `json:"size,omitempty"`
}

type written struct {
	Path string `json:"path"`
	Size int64  `json:"size"`
	Tok  string `json:"tok,omitempty"`
	Dir  bool   `json:"dir,omitempty"`
	Kind string `json:"kind"` // out, extra, tmp, outside
}

type event struct {
	Ev        string            `json:"ev"`
	T         int64             `json:"t"`
	Pid       int               `json:"pid"`
	Mrp       int               `json:"mrp,omitempty"`
	Stage     string            `json:"stage"`
	Phase     string            `json:"phase"`
	Job       string            `json:"job"`
	Meta      string            `json:"meta,omitempty"`
	Files     string            `json:"files,omitempty"`
	Attempt   int               `json:"attempt,omitempty"`
	Args      json.RawMessage   `json:"args,omitempty"`
	ChunkDefs json.RawMessage   `json:"chunk_defs,omitempty"`
	ChunkOuts json.RawMessage   `json:"chunk_outs,omitempty"`
	Outs      json.RawMessage   `json:"outs,omitempty"`
	StageDefs json.RawMessage   `json:"stage_defs,omitempty"`
	FChecks   []fcheck          `json:"fchecks,omitempty"`
	Written   []written         `json:"written,omitempty"`
	Missing   []string          `json:"declared_missing,omitempty"`
	Env       map[string]string `json:"env,omitempty"`
	Fault     string            `json:"fault,omitempty"`
	Cwd       string            `json:"cwd,omitempty"`
	Note      string            `json:"note,omitempty"`
}

func mono() int64 {
	var ts unix.Timespec
	unix.ClockGettime(unix.CLOCK_MONOTONIC, &ts)
	return ts.Sec*1e9 + ts.Nsec
}

var eventsPath string

func emit(e *event) {
	if eventsPath == "" {
		return
	}
	e.T = mono()
	e.Pid = os.Getpid()
	b, err := json.Marshal(e)
	if err != nil {
		return
	}
	b = append(b, '\n')
	f, err := os.OpenFile(eventsPath, os.O_APPEND|os.O_CREATE|os.O_WRONLY, 0644)
	if err != nil {
		return
	}
	f.Write(b)
	f.Close()
}

var uniqRe = regexp.MustCompile(`-u[0-9a-f]{10}`)

func ppidOf(pid int) int {
	b, err := os.ReadFile(fmt.Sprintf("/proc/%d/stat", pid))
	if err != nil {
		return 0
	}
	// pid (comm) state ppid
	s := string(b)
	i := strings.LastIndexByte(s, ')')
	if i < 0 {
		return 0
	}
	f := strings.Fields(s[i+1:])
	if len(f) < 2 {
		return 0
	}
	n, _ := strconv.Atoi(f[1])
	return n
}

func commOf(pid int) string {
	b, _ := os.ReadFile(fmt.Sprintf("/proc/%d/comm", pid))
	return strings.TrimSpace(string(b))
}

func findMrp() int {
	pid := os.Getppid()
	for i := 0; i < 6 && pid > 1; i++ {
		if c := commOf(pid); c == "mrp" {
			return pid
		}
		pid = ppidOf(pid)
	}
	return 0
}

func collectPaths(v interface{}, out *[]string) {
	switch x := v.(type) {
	case string:
		if strings.HasPrefix(x, "/") {
			*out = append(*out, x)
		}
	case []interface{}:
		for _, e := range x {
			collectPaths(e, out)
		}
	case map[string]interface{}:
		for _, e := range x {
			collectPaths(e, out)
		}
	}
}

func checkFile(p string) fcheck {
	fc := fcheck{Path: p}
	st, err := os.Stat(p)
	if err != nil {
		fc.State = "missing"
		return fc
	}
	if st.IsDir() {
		fc.State = "dir"
		// token of directory = token of its "content" file
		if b, err := os.ReadFile(filepath.Join(p, "content")); err == nil {
			fc.Tok = tokOf(b)
		} else {
			fc.State = "dir-nocontent"
		}
		return fc
	}
	fc.Size = st.Size()
	f, err := os.Open(p)
	if err != nil {
		fc.State = "unreadable"
		return fc
	}
	defer f.Close()
	buf := make([]byte, 64)
	n, _ := f.Read(buf)
	fc.Tok = tokOf(buf[:n])
	fc.State = "ok"
	return fc
}

func tokOf(b []byte) string {
	if bytes.HasPrefix(b, []byte("tok:")) {
		e := bytes.IndexByte(b, '\n')
		if e < 0 {
			e = len(b)
		}
		return string(b[4:e])
	}
	return ""
}

func readRaw(dir, name string) json.RawMessage {
	b, err := os.ReadFile(filepath.Join(dir, name))
	if err != nil {
		return nil
	}
	if !json.Valid(b) {
		q, _ := json.Marshal("INVALID JSON: " + string(b))
		return q
	}
	return b
}

// execMode: the probe is the stage code of a bare `src exec` stage: mrp runs
// it directly, without the job monitor, so it has to record errors and its
// completion itself (metadata file plus journal entry), as the protocol asks.
var (
	execMode    bool
	execMeta    string
	execJournal string // journal prefix incl. the phase prefix
)

func execNote(name, content string) {
	os.WriteFile(filepath.Join(execMeta, "_"+name), []byte(content), 0644)
	os.WriteFile(execJournal+name, []byte(content), 0644)
}

func errPipe(msg string) {
	if execMode {
		execNote("errors", msg)
		return
	}
	f := os.NewFile(4, "errpipe")
	if f != nil {
		f.WriteString(msg)
		f.Close()
	}
}

// libMode: the probe is called by a stage written in another language (the
// Python stub pyprobe_<STAGE>): it observes, applies delays and computes the
// outputs, but leaves writing _outs / _stage_defs - and failing - to the
// caller, to which it reports through <meta>/_probe_result.
var libMode bool

func main() {
	if len(os.Args) > 1 && os.Args[1] == "--lib" {
		libMode = true
		os.Args = append(os.Args[:1], os.Args[2:]...)
	}
	if len(os.Args) > 1 && os.Args[1] == "--exec" {
		execMode = true
		os.Args = append(os.Args[:1], os.Args[2:]...)
	}
	if len(os.Args) < 6 {
		fmt.Fprintln(os.Stderr, "probe: usage: probe STAGE [spec] <phase> <meta> <files> <journal>")
		os.Exit(2)
	}
	tail := os.Args[len(os.Args)-4:]
	stage := os.Args[1]
	phase, meta, files := tail[0], tail[1], tail[2]
	if execMode {
		execMeta = meta
		execJournal = tail[3] + "." + map[string]string{"main": "", "split": "split_", "join": "join_"}[phase]
	}
	specPath := os.Getenv("VERIF_SPEC")
	if len(os.Args) >= 7 {
		specPath = os.Args[2]
	}
	eventsPath = os.Getenv("VERIF_EVENTS")
	var spec pgen.Spec
	if b, err := os.ReadFile(specPath); err != nil {
		errPipe("probe: cannot read spec " + specPath + ": " + err.Error())
		os.Exit(1)
	} else if err := json.Unmarshal(b, &spec); err != nil {
		errPipe("probe: bad spec: " + err.Error())
		os.Exit(1)
	}
	if eventsPath == "" {
		eventsPath = filepath.Join(filepath.Dir(specPath), "events.jsonl")
	}
	st := spec.Stages[stage]
	if st == nil {
		errPipe("probe: unknown stage " + stage)
		os.Exit(1)
	}
	psroot := spec.PsRoot
	canon := func(s string) string {
		if psroot != "" {
			s = strings.ReplaceAll(s, psroot, "$PS")
		}
		return uniqRe.ReplaceAllString(s, "")
	}
	job := canon(meta)
	job = strings.TrimPrefix(job, "$PS/")

	argsRaw := readRaw(meta, "_args")
	var chunkDefs, chunkOuts json.RawMessage
	if phase == "join" {
		chunkDefs = readRaw(meta, "_chunk_defs")
		chunkOuts = readRaw(meta, "_chunk_outs")
	}
	// attempt number
	attempt := 1
	if b, err := os.ReadFile(eventsPath); err == nil {
		needle := []byte(`"ev":"start"`)
		jn, _ := json.Marshal(job)
		jneedle := append([]byte(`"job":`), jn...)
		for _, line := range bytes.Split(b, []byte{'\n'}) {
			if bytes.Contains(line, needle) && bytes.Contains(line, jneedle) {
				attempt++
			}
		}
	}
	var args interface{}
	dec := json.NewDecoder(bytes.NewReader(argsRaw))
	dec.UseNumber()
	dec.Decode(&args)
	var paths []string
	collectPaths(args, &paths)
	if chunkDefs != nil {
		var v interface{}
		json.Unmarshal(chunkDefs, &v)
		collectPaths(v, &paths)
		json.Unmarshal(chunkOuts, &v)
		collectPaths(v, &paths)
	}
	seen := map[string]bool{}
	var fchecks []fcheck
	for _, p := range paths {
		if !seen[p] {
			seen[p] = true
			fchecks = append(fchecks, checkFile(p))
		}
	}
	mrp := findMrp()
	cwd, _ := os.Getwd()
	envs := map[string]string{"TMPDIR": os.Getenv("TMPDIR")}
	for _, k := range strings.Split(os.Getenv("VERIF_RECORD_ENV"), ",") {
		if k != "" {
			envs[k] = os.Getenv(k)
		}
	}
	emit(&event{Ev: "start", Mrp: mrp, Stage: stage, Phase: phase, Job: job, Meta: meta,
		Files: files, Attempt: attempt, Args: argsRaw, ChunkDefs: chunkDefs,
		ChunkOuts: chunkOuts, FChecks: fchecks, Env: envs, Cwd: cwd})

	// Behaviour rules.
	var rule pgen.Rule
	matched := false
	for _, r := range spec.Rules {
		if (r.Stage == "" || r.Stage == stage) && (r.Phase == "" || r.Phase == phase) &&
			(r.Job == "" || r.Job == job) && (r.Attempt == 0 || r.Attempt == attempt) &&
			(r.JobPrefix == "" || strings.HasPrefix(job, r.JobPrefix)) {
			if !matched {
				rule, matched = r, true
				continue
			}
			// later matching rules only supply what the first one leaves
			// open, so a fault / kill rule for one job does not switch off
			// the program-wide shape rules (chunk count, resources, delays)
			if rule.Chunks == 0 {
				rule.Chunks = r.Chunks
			}
			if rule.Bools == "" {
				rule.Bools = r.Bools
			}
			if rule.EmptyPct == 0 {
				rule.EmptyPct = r.EmptyPct
			}
			if rule.Len == 0 {
				rule.Len = r.Len
			}
			if rule.LastRow == "" {
				rule.LastRow = r.LastRow
			}
			if rule.Threads == 0 {
				rule.Threads = r.Threads
			}
			if rule.MemGB == 0 {
				rule.MemGB = r.MemGB
			}
			if rule.DelayBeforeMs == 0 {
				rule.DelayBeforeMs = r.DelayBeforeMs
			}
			if rule.DelayAfterMs == 0 {
				rule.DelayAfterMs = r.DelayAfterMs
			}
		}
	}
	spec.EmptyPct = rule.EmptyPct
	spec.ForceLen = rule.Len
	spec.LastRow = rule.LastRow
	if rule.Bools != "" {
		b := rule.Bools == "true"
		spec.ForceBool = &b
	}
	drng := pgen.NewHashRng("delay", fmt.Sprint(spec.Seed), job, fmt.Sprint(attempt))
	sleepMs := func(ms int) {
		if ms > 0 {
			time.Sleep(time.Duration(ms) * time.Millisecond)
		}
	}
	if spec.DelayMaxMs > 0 {
		sleepMs(drng.Intn(spec.DelayMaxMs + 1))
	}
	sleepMs(rule.DelayBeforeMs)
	killMrp := func(at string) {
		if rule.KillMrp != "" && rule.KillMrpAt == at && mrp > 0 {
			sig := syscall.SIGKILL
			if rule.KillMrp == "TERM" {
				sig = syscall.SIGTERM
			} else if rule.KillMrp == "INT" {
				sig = syscall.SIGINT
			}
			emit(&event{Ev: "fault", Stage: stage, Phase: phase, Job: job, Fault: "kill_mrp:" + rule.KillMrp + "@" + at, Mrp: mrp})
			syscall.Kill(mrp, sig)
			// Give the signal time to land so that the crash point is
			// really "job at <at>".
			time.Sleep(300 * time.Millisecond)
		}
	}
	killMrp("start")
	fault := rule.Fail
	if (fault == "missing_key" || fault == "wrong_type") && phase != "split" {
		owed := st.Outs
		if phase == "main" && st.Split {
			owed = st.ChunkOuts
		}
		if len(owed) == 0 {
			fault = "" // nothing this phase must produce: the fault does not exist here
		}
	}
	if (fault == "trunc_outs" || fault == "no_outs" || fault == "null_outs") && phase != "split" {
		// a stage that declares no outputs owes no readable _outs: mrp never
		// looks at the file, so a damaged one is not a failure of the job
		n := len(st.Outs)
		if phase == "main" && st.Split {
			n += len(st.ChunkOuts)
		}
		if n == 0 {
			fault = ""
		}
	}
	if (fault == "missing_key" || fault == "wrong_type") && phase == "split" {
		fault = "bad_stage_defs"
	}
	pyFault := ""
	if strings.HasPrefix(fault, "py_") {
		if libMode {
			pyFault = fault
		} else {
			fault = "" // only a Python stage can fail that way
		}
	} else if libMode && fault != "" {
		switch fault {
		case "trunc_outs", "no_outs", "null_outs", "missing_key", "wrong_type", "bad_stage_defs", "bad_resource_type", "exit_after_outs":
			fault = "" // the adapter, not the stage code, writes the outputs
		}
	}
	if fault != "" {
		emit(&event{Ev: "fault", Stage: stage, Phase: phase, Job: job, Fault: fault, Attempt: attempt})
	}
	if pyFault != "" {
		// the caller fails in its own way
		b, _ := json.Marshal(map[string]interface{}{"job": job, "py_fault": pyFault})
		os.WriteFile(filepath.Join(meta, "_probe_result"), b, 0644)
		os.Exit(0)
	}
	switch fault {
	case "errpipe":
		errPipe("probe injected failure in " + job)
		os.Exit(1)
	case "errpipe_exit0":
		errPipe("probe injected failure in " + job)
		os.Exit(0)
	case "assert":
		errPipe("ASSERT:probe injected assertion in " + job)
		os.Exit(1)
	case "exit":
		os.Exit(3)
	case "segv":
		syscall.Kill(os.Getpid(), syscall.SIGSEGV)
		time.Sleep(time.Second)
	case "kill9":
		syscall.Kill(os.Getpid(), syscall.SIGKILL)
		time.Sleep(time.Second)
	case "straggler":
		// a lost-but-alive job: this attempt dies from a signal (mrp retries
		// it under a new uniquifier) and a detached leftover of it reports
		// completion through this attempt's journal name later on
		jf := tail[3] + "." + map[string]string{"main": "", "split": "split_", "join": "join_"}[phase] + "complete"
		d := rule.DelayAfterMs
		if d == 0 {
			d = 2500
		}
		cmd := exec.Command("/bin/sh", "-c", fmt.Sprintf("exec 3>&- 4>&- 5>&- 6>&- 7>&-; sleep %d.%03d; echo stale > '%s'", d/1000, d%1000, strings.ReplaceAll(jf, "'", "'\\''")))
		cmd.SysProcAttr = &syscall.SysProcAttr{Setsid: true}
		cmd.Start()
		syscall.Kill(os.Getpid(), syscall.SIGKILL)
		time.Sleep(time.Second)
	case "kill_mrjob":
		if execMode {
			// there is no monitor: the parent is mrp
			syscall.Kill(os.Getpid(), syscall.SIGKILL)
			time.Sleep(time.Second)
		}
		syscall.Kill(os.Getppid(), syscall.SIGKILL)
		time.Sleep(200 * time.Millisecond)
		os.Exit(0)
	}

	// Compute outputs.
	var cargs bytes.Buffer
	{
		var v interface{}
		d := json.NewDecoder(bytes.NewReader(argsRaw))
		d.UseNumber()
		d.Decode(&v)
		v = tokenizePaths(stripResources(v))
		b, _ := json.Marshal(v) // sorted keys
		cargs.WriteString(canon(string(b)))
		if chunkOuts != nil {
			var co interface{}
			d2 := json.NewDecoder(bytes.NewReader(chunkOuts))
			d2.UseNumber()
			d2.Decode(&co)
			cb, _ := json.Marshal(tokenizePaths(co))
			cargs.WriteString(canon(string(cb)))
		}
	}
	var wr []written
	var missing []string
	sink := func(leaf string, t *pgen.Type, r *pgen.HashRng) interface{} {
		name := strings.NewReplacer("/", "_", " ", "_", "\"", "_", "\\", "_").Replace(leaf)
		if len(name) > 120 {
			name = name[:100] + r.Hex(8)
		}
		p := filepath.Join(files, phase+"_"+name+".dat")
		if spec.NestFilesPct > 0 && r.Pct(spec.NestFilesPct) {
			// the file lives in a sub-directory of the files directory: one of
			// its own with a one-character file name, or a shared deeper one
			if r.Pct(60) {
				p = filepath.Join(files, phase+"_"+name+".d", []string{"f", "0", "x"}[r.Intn(3)])
			} else {
				p = filepath.Join(files, "n1", "n2", phase+"_"+name+".dat")
			}
			os.MkdirAll(filepath.Dir(p), 0755)
		}
		tok := r.Hex(16)
		if spec.OutsideDir != "" && t.Kind != pgen.KPath && r.Pct(25) {
			// a file output lying outside the pipestance (or a symlink to one)
			content := "tok:" + tok + "\n" + strings.Repeat("o", r.Intn(300))
			op := filepath.Join(spec.OutsideDir, strings.ReplaceAll(job, "/", "_")+"_"+phase+"_"+name+".dat")
			os.MkdirAll(spec.OutsideDir, 0755)
			if os.WriteFile(op, []byte(content), 0644) == nil {
				if r.Pct(50) {
					wr = append(wr, written{Path: op, Size: int64(len(content)), Tok: tok, Kind: "outside"})
					return op
				}
				if os.Symlink(op, p) == nil {
					wr = append(wr, written{Path: p, Size: int64(len(content)), Tok: tok, Kind: "out-symlink"})
					return p
				}
			}
		}
		if spec.PassThroughPct > 0 && t.Kind != pgen.KPath && r.Pct(spec.PassThroughPct) {
			// the common "pass an input file through" idiom: the output is a
			// relative symlink, in this job's files directory, to an input file
			for _, fc := range fchecks {
				if fc.State != "ok" || fc.Tok == "" {
					continue
				}
				if rel, err := filepath.Rel(filepath.Dir(p), fc.Path); err == nil && os.Symlink(rel, p) == nil {
					wr = append(wr, written{Path: p, Size: fc.Size, Tok: fc.Tok, Kind: "out-symlink"})
					return p
				}
			}
		}
		if r.Pct(spec.PMissingFile) {
			missing = append(missing, p)
			return p
		}
		content := "tok:" + tok + "\n" + strings.Repeat("x", r.Intn(1500))
		if t.Kind == pgen.KPath && r.Pct(30) {
			os.MkdirAll(p, 0755)
			os.WriteFile(filepath.Join(p, "content"), []byte(content), 0644)
			os.WriteFile(filepath.Join(p, "other"), []byte("o"), 0644)
			wr = append(wr, written{Path: p, Size: int64(len(content)), Tok: tok, Dir: true, Kind: "out"})
			return p
		}
		if err := os.WriteFile(p, []byte(content), 0644); err != nil {
			emit(&event{Ev: "note", Stage: stage, Phase: phase, Job: job, Note: "write failed: " + err.Error()})
		}
		wr = append(wr, written{Path: p, Size: int64(len(content)), Tok: tok, Kind: "out"})
		if spec.ExtraFiles && r.Pct(30) {
			// undeclared sibling whose name extends the output's path
			sib := p + []string{".idx", "~old", "2"}[r.Intn(3)]
			c2 := strings.Repeat("s", 3+r.Intn(300))
			if os.WriteFile(sib, []byte(c2), 0644) == nil {
				wr = append(wr, written{Path: sib, Size: int64(len(c2)), Kind: "extra"})
			}
		}
		if spec.PhysicalPathsPct > 0 && r.Pct(spec.PhysicalPathsPct) {
			// the stage names its own file by the physical path
			if phys, err := filepath.EvalSymlinks(p); err == nil {
				return phys
			}
		}
		return p
	}
	gen := func(ps []pgen.ParamJSON, r *pgen.HashRng, prefix string, into map[string]interface{}) {
		for _, p := range ps {
			into[p.Name] = spec.GenValue(p.Type.ToType(), r, prefix+p.Name, sink, 0)
		}
	}
	rng := pgen.NewHashRng("out", stage, phase, cargs.String())
	var outBytes []byte
	outName := "_outs"
	if phase == "split" {
		outName = "_stage_defs"
		n := rng.Intn(spec.MaxChunks + 1)
		if len(spec.ChunkChoices) > 0 {
			n = spec.ChunkChoices[rng.Intn(len(spec.ChunkChoices))]
		}
		if rule.Chunks > 0 {
			n = rule.Chunks - 1
		}
		chunks := make([]map[string]interface{}, 0, n)
		for i := 0; i < n; i++ {
			c := map[string]interface{}{}
			gen(st.ChunkIns, rng, fmt.Sprintf("c%d_", i), c)
			if rule.Threads != 0 {
				c["__threads"] = rule.Threads
			}
			if rule.MemGB != 0 {
				c["__mem_gb"] = rule.MemGB
			}
			chunks = append(chunks, c)
		}
		sd := map[string]interface{}{"chunks": chunks, "join": map[string]interface{}{}}
		if rule.MemGB != 0 {
			sd["join"] = map[string]interface{}{"__mem_gb": rule.MemGB}
		}
		outBytes, _ = json.MarshalIndent(sd, "", " ")
		switch fault {
		case "bad_stage_defs":
			outBytes = []byte(`{"chunks": 5, "join": {}}`)
		case "bad_resource_type":
			// a reserved resource key of the wrong JSON type, followed by a valid one
			// (in the first chunk, or in the join definition if there are no chunks)
			bad := map[string]interface{}{"__threads": "two", "__mem_gb": 1, "__vmem_gb": 2}
			if len(chunks) > 0 {
				for k, v := range bad {
					chunks[0][k] = v
				}
			} else {
				sd["join"] = bad
			}
			outBytes, _ = json.MarshalIndent(sd, "", " ")
		case "trunc_outs":
			outBytes = outBytes[:len(outBytes)/2]
		case "no_outs":
			outBytes = nil
		case "null_outs":
			outBytes = []byte("null")
		}
	} else {
		outs := map[string]interface{}{}
		if phase == "main" && st.Split {
			gen(st.ChunkOuts, rng, "", outs)
		}
		gen(st.Outs, rng, "", outs)
		// The outputs this phase is obliged to produce: a chunk of a
		// splitting stage owes the chunk outs, not the stage outs.
		owed := st.Outs
		if phase == "main" && st.Split {
			owed = st.ChunkOuts
		}
		switch fault {
		case "missing_key":
			for _, p := range owed {
				delete(outs, p.Name)
				break
			}
		case "wrong_type":
			for _, p := range owed {
				switch p.Type.K {
				case "int", "float", "bool":
					outs[p.Name] = "not a number"
				case "array":
					outs[p.Name] = map[string]interface{}{"x": 1}
				default:
					outs[p.Name] = []interface{}{1, 2}
				}
				break
			}
		}
		outBytes, _ = json.MarshalIndent(outs, "", " ")
		switch fault {
		case "trunc_outs":
			outBytes = outBytes[:len(outBytes)/2]
			if len(outBytes) == 0 {
				outBytes = []byte("{")
			}
		case "no_outs":
			outBytes = nil
		case "null_outs":
			outBytes = []byte("null")
		}
	}
	if spec.ExtraFiles {
		p := filepath.Join(files, "extra_"+phase+".bin")
		content := strings.Repeat("e", 10+rng.Intn(800))
		if os.WriteFile(p, []byte(content), 0644) == nil {
			wr = append(wr, written{Path: p, Size: int64(len(content)), Kind: "extra"})
		}
		sub := filepath.Join(files, "sub_"+phase)
		if rng.Pct(40) && os.MkdirAll(sub, 0755) == nil {
			wr = append(wr, written{Path: sub, Dir: true, Kind: "extra"})
			p := filepath.Join(sub, "nested.bin")
			os.WriteFile(p, []byte(content), 0644)
			wr = append(wr, written{Path: p, Size: int64(len(content)), Kind: "extra"})
		}
		if td := os.Getenv("TMPDIR"); td != "" {
			p := filepath.Join(td, "probe_"+rng.Hex(8)+".tmp")
			c2 := strings.Repeat("t", 5+rng.Intn(500))
			if os.WriteFile(p, []byte(c2), 0644) == nil {
				wr = append(wr, written{Path: p, Size: int64(len(c2)), Kind: "tmp"})
			}
		}
	}
	if libMode {
		key := "outs"
		if phase == "split" {
			key = "stage_defs"
		}
		b, _ := json.Marshal(map[string]interface{}{"job": job, key: json.RawMessage(outBytes)})
		os.WriteFile(filepath.Join(meta, "_probe_result"), b, 0644)
	} else if outBytes == nil {
		os.Remove(filepath.Join(meta, outName))
	} else {
		tmp := filepath.Join(meta, outName+".probe_tmp")
		os.WriteFile(tmp, outBytes, 0644)
		os.Rename(tmp, filepath.Join(meta, outName))
	}
	killMrp("outs")
	if fault == "exit_after_outs" {
		os.Exit(3)
	}
	if spec.DelayMaxMs > 0 {
		sleepMs(drng.Intn(spec.DelayMaxMs + 1))
	}
	sleepMs(rule.DelayAfterMs)
	e := &event{Ev: "end", Stage: stage, Phase: phase, Job: job, Written: wr, Missing: missing, Attempt: attempt}
	if json.Valid(outBytes) {
		if phase == "split" {
			e.StageDefs = outBytes
		} else {
			e.Outs = outBytes
		}
	}
	emit(e)
	if execMode {
		execNote("complete", time.Now().Format("2006-01-02 15:04:05"))
		switch fault {
		case "complete_then_exit":
			// completion recorded, and then the process fails after all
			os.Exit(3)
		case "complete_then_kill":
			syscall.Kill(os.Getpid(), syscall.SIGKILL)
			time.Sleep(time.Second)
		}
	}
	killMrp("end")
	os.Exit(0)
}

// tokenizePaths replaces every path to a token-carrying file by its content
// token, so that the hash-derived outputs depend on values and file
// contents only, never on directory names.
func tokenizePaths(v interface{}) interface{} {
	switch x := v.(type) {
	case string:
		if strings.HasPrefix(x, "/") {
			fc := checkFile(x)
			if fc.Tok != "" {
				return "tok:" + fc.Tok
			}
		}
		return x
	case []interface{}:
		out := make([]interface{}, len(x))
		for i, e := range x {
			out[i] = tokenizePaths(e)
		}
		return out
	case map[string]interface{}:
		out := make(map[string]interface{}, len(x))
		for k, e := range x {
			out[k] = tokenizePaths(e)
		}
		return out
	}
	return v
}

func compact(b []byte) []byte {
	var v interface{}
	d := json.NewDecoder(bytes.NewReader(b))
	d.UseNumber()
	if d.Decode(&v) != nil {
		return b
	}
	out, _ := json.Marshal(v)
	return out
}

// stripResources removes the "__threads"-style resource keys (which may
// differ between incarnations) from the top level of the args.
func stripResources(v interface{}) interface{} {
	m, ok := v.(map[string]interface{})
	if !ok {
		return v
	}
	out := map[string]interface{}{}
	for k, x := range m {
		if k == "__threads" || k == "__mem_gb" || k == "__vmem_gb" || k == "__special" {
			continue
		}
		out[k] = x
	}
	return out
}
