package pgen

import (
	"fmt"
	"math/rand"
	"strings"
)

// Skeleton programs for dependency / fork shapes that the purely random
// generator reaches rarely.  Types and literal values are still random.

const NTemplates = 22

// NFileTemplates file-passing skeletons follow the NTemplates dataflow ones.
const NFileTemplates = 12

func ref(call string, path ...string) *Exp { return &Exp{Kind: ERefCall, Id: call, Path: path} }
func self(id string, path ...string) *Exp  { return &Exp{Kind: ERefSelf, Id: id, Path: path} }
func lit(i int64) *Exp                     { return &Exp{Kind: EInt, I: i} }

// Template builds skeleton number kind (0..NTemplates-1).
func Template(kind int, seed int64, cfg *Config) *Program {
	g := &gen{r: rand.New(rand.NewSource(seed)), cfg: cfg, p: &Program{Seed: seed}, info: map[string]*pipeInfo{}}
	p := g.p
	src := func(st *Stage) *Stage {
		st.SrcLang, st.Src = cfg.SrcFor(st.Name)
		return st
	}
	// element type
	var T *Type
	switch g.r.Intn(5) {
	case 0:
		T = TInt
	case 1:
		T = TString
	case 2:
		T = TFile
	case 3:
		p.Structs = append(p.Structs, &Struct{Name: "SX", Fields: []Param{{Name: "a", Type: TInt}, {Name: "b", Type: TString}}})
		T = &Type{Kind: KStruct, Name: "SX"}
	default:
		T = TFloat
	}
	coll := ArrayOf(T)
	mapMode := false
	if T.CanBeTMapElem() && g.pct(30) {
		coll = TMapOf(T)
		mapMode = true
	}
	wrap := func(t *Type) *Type {
		if mapMode {
			return TMapOf(t)
		}
		return ArrayOf(t)
	}
	gen := src(&Stage{Name: "GEN", Ins: []Param{{Name: "seed", Type: TInt}}, Outs: []Param{{Name: "arr", Type: coll}, {Name: "flag", Type: TBool}, {Name: "one", Type: T}}})
	use := src(&Stage{Name: "USE", Ins: []Param{{Name: "x", Type: T}}, Outs: []Param{{Name: "y", Type: TInt}, {Name: "z", Type: T}}})
	use2 := src(&Stage{Name: "USE2", Ins: []Param{{Name: "x", Type: T}, {Name: "w", Type: TInt}}, Outs: []Param{{Name: "y", Type: TInt}},
		Split: g.pct(50) || cfg.ForceSplit, ChunkIns: []Param{{Name: "ci", Type: TInt}}, ChunkOuts: []Param{{Name: "co", Type: TInt}}})
	nop := src(&Stage{Name: "NOP", Outs: []Param{{Name: "n", Type: TInt}}})
	chk := src(&Stage{Name: "CHK", Ins: []Param{{Name: "v", Type: TInt}}, Outs: []Param{}})
	p.Stages = []*Stage{gen, use, use2, nop, chk}
	s1, s2 := int64(g.r.Intn(1000)), int64(g.r.Intn(1000))
	switch kind {
	case 0:
		// sub-pipeline map-called over two run-time collections from twin stages
		inner := &Pipeline{Name: "INNER", Ins: []Param{{Name: "a", Type: T}, {Name: "b", Type: T}},
			Outs: []Param{{Name: "ya", Type: TInt}, {Name: "yb", Type: TInt}},
			Calls: []*Call{
				{Callee: "USE", Alias: "UA", Binds: []Binding{{Id: "x", Exp: self("a")}}},
				{Callee: "USE", Alias: "UB", Binds: []Binding{{Id: "x", Exp: self("b")}}},
			},
			Ret: []Binding{{Id: "ya", Exp: ref("UA", "y")}, {Id: "yb", Exp: ref("UB", "y")}}}
		top := &Pipeline{Name: "TOP", Outs: []Param{{Name: "ya", Type: wrap(TInt)}, {Name: "yb", Type: wrap(TInt)}},
			Calls: []*Call{
				{Callee: "GEN", Alias: "G1", Binds: []Binding{{Id: "seed", Exp: lit(s1)}}},
				{Callee: "GEN", Alias: "G2", Binds: []Binding{{Id: "seed", Exp: lit(s1)}}},
				{Callee: "INNER", Map: true, Binds: []Binding{{Id: "a", Exp: ref("G1", "arr"), Split: true}, {Id: "b", Exp: ref("G2", "arr"), Split: true}}},
			},
			Ret: []Binding{{Id: "ya", Exp: ref("INNER", "ya")}, {Id: "yb", Exp: ref("INNER", "yb")}}}
		p.Pipelines = []*Pipeline{inner, top}
	case 1:
		// disabled flag from one producer, data from another, also inside a sub-pipeline
		inner := &Pipeline{Name: "INNER", Ins: []Param{{Name: "a", Type: T}},
			Outs: []Param{{Name: "y", Type: TInt}},
			Calls: []*Call{
				{Callee: "USE", Binds: []Binding{{Id: "x", Exp: self("a")}}},
				{Callee: "USE2", Binds: []Binding{{Id: "x", Exp: ref("USE", "z")}, {Id: "w", Exp: ref("USE", "y")}}},
			},
			Ret: []Binding{{Id: "y", Exp: ref("USE2", "y")}}}
		top := &Pipeline{Name: "TOP", Outs: []Param{{Name: "y1", Type: TInt}, {Name: "y2", Type: TInt}, {Name: "y3", Type: TInt}},
			Calls: []*Call{
				{Callee: "GEN", Alias: "FLAG", Binds: []Binding{{Id: "seed", Exp: lit(s1)}}},
				{Callee: "GEN", Alias: "DATA", Binds: []Binding{{Id: "seed", Exp: lit(s2)}}},
				{Callee: "USE", Alias: "WORK", Disabled: ref("FLAG", "flag"), Binds: []Binding{{Id: "x", Exp: ref("DATA", "one")}}},
				{Callee: "INNER", Alias: "SUB", Disabled: ref("FLAG", "flag"), Binds: []Binding{{Id: "a", Exp: ref("DATA", "one")}}},
				{Callee: "USE2", Alias: "AFTER", Binds: []Binding{{Id: "x", Exp: ref("DATA", "one")}, {Id: "w", Exp: ref("WORK", "y")}}},
			},
			Ret: []Binding{{Id: "y1", Exp: ref("WORK", "y")}, {Id: "y2", Exp: ref("SUB", "y")}, {Id: "y3", Exp: ref("AFTER", "y")}}}
		p.Pipelines = []*Pipeline{inner, top}
	case 2:
		// consumption through nested pipeline inputs and return values, two levels
		leaf := &Pipeline{Name: "LEAF", Ins: []Param{{Name: "a", Type: T}}, Outs: []Param{{Name: "z", Type: T}, {Name: "y", Type: TInt}},
			Calls: []*Call{{Callee: "USE", Binds: []Binding{{Id: "x", Exp: self("a")}}}, {Callee: "NOP"}},
			Ret:   []Binding{{Id: "z", Exp: ref("USE", "z")}, {Id: "y", Exp: ref("NOP", "n")}}}
		mid := &Pipeline{Name: "MID", Ins: []Param{{Name: "a", Type: T}}, Outs: []Param{{Name: "z", Type: T}, {Name: "y", Type: TInt}},
			Calls: []*Call{{Callee: "LEAF", Alias: "L1", Binds: []Binding{{Id: "a", Exp: self("a")}}},
				{Callee: "LEAF", Alias: "L2", Binds: []Binding{{Id: "a", Exp: ref("L1", "z")}}}},
			Ret: []Binding{{Id: "z", Exp: ref("L2", "z")}, {Id: "y", Exp: ref("L1", "y")}}}
		top := &Pipeline{Name: "TOP", Outs: []Param{{Name: "y", Type: TInt}, {Name: "z", Type: wrap(T)}},
			Calls: []*Call{
				{Callee: "GEN", Binds: []Binding{{Id: "seed", Exp: lit(s1)}}},
				{Callee: "MID", Alias: "M1", Binds: []Binding{{Id: "a", Exp: ref("GEN", "one")}}},
				{Callee: "MID", Alias: "M2", Map: true, Binds: []Binding{{Id: "a", Exp: ref("GEN", "arr"), Split: true}}},
				{Callee: "USE2", Binds: []Binding{{Id: "x", Exp: ref("M1", "z")}, {Id: "w", Exp: ref("M1", "y")}}},
			},
			Ret: []Binding{{Id: "y", Exp: ref("USE2", "y")}, {Id: "z", Exp: ref("M2", "z")}}}
		p.Pipelines = []*Pipeline{leaf, mid, top}
	case 3:
		// preflights in outer and inner pipelines
		// (FREE has no data dependency at all: only the enclosing pipelines'
		// preflights hold it back)
		inner := &Pipeline{Name: "INNER", Ins: []Param{{Name: "a", Type: T}}, Outs: []Param{{Name: "y", Type: TInt}, {Name: "n", Type: TInt}},
			Calls: []*Call{
				{Callee: "CHK", Alias: "PRE_IN", Preflight: true, Binds: []Binding{{Id: "v", Exp: lit(s2)}}},
				{Callee: "USE", Binds: []Binding{{Id: "x", Exp: self("a")}}},
				{Callee: "NOP", Alias: "FREE"},
			},
			Ret: []Binding{{Id: "y", Exp: ref("USE", "y")}, {Id: "n", Exp: ref("FREE", "n")}}}
		top := &Pipeline{Name: "TOP", Ins: []Param{{Name: "v", Type: TInt}}, Outs: []Param{{Name: "y", Type: TInt}, {Name: "n", Type: TInt}, {Name: "m", Type: TInt}},
			Calls: []*Call{
				{Callee: "CHK", Alias: "PRE_OUT", Preflight: true, Local: g.pct(50), Binds: []Binding{{Id: "v", Exp: self("v")}}},
				{Callee: "CHK", Alias: "PRE_B", Preflight: true, Binds: []Binding{{Id: "v", Exp: lit(s1)}}},
				{Callee: "NOP"},
				{Callee: "GEN", Binds: []Binding{{Id: "seed", Exp: lit(s1)}}},
				{Callee: "INNER", Binds: []Binding{{Id: "a", Exp: ref("GEN", "one")}}},
			},
			Ret: []Binding{{Id: "y", Exp: ref("INNER", "y")}, {Id: "n", Exp: ref("NOP", "n")}, {Id: "m", Exp: ref("INNER", "n")}}}
		p.Pipelines = []*Pipeline{inner, top}
		p.Top = &Call{Callee: "TOP", Binds: []Binding{{Id: "v", Exp: lit(7)}}}
	case 4:
		// mapped split stage over a run-time collection, consumed via projection by a second map call
		top := &Pipeline{Name: "TOP", Outs: []Param{{Name: "y", Type: wrap(TInt)}, {Name: "z", Type: wrap(T)}},
			Calls: []*Call{
				{Callee: "GEN", Binds: []Binding{{Id: "seed", Exp: lit(s1)}}},
				{Callee: "USE", Alias: "M1", Map: true, Binds: []Binding{{Id: "x", Exp: ref("GEN", "arr"), Split: true}}},
				{Callee: "USE2", Alias: "M2", Map: true, Binds: []Binding{{Id: "x", Exp: ref("M1", "z"), Split: true}, {Id: "w", Exp: ref("M1", "y"), Split: true}}},
			},
			Ret: []Binding{{Id: "y", Exp: ref("M2", "y")}, {Id: "z", Exp: ref("M1", "z")}}}
		p.Pipelines = []*Pipeline{top}
	case 5:
		// map call disabled by a run-time flag; empty/null source; stage independent of the mapped dimension
		inner := &Pipeline{Name: "INNER", Ins: []Param{{Name: "a", Type: T}}, Outs: []Param{{Name: "y", Type: TInt}, {Name: "n", Type: TInt}},
			Calls: []*Call{{Callee: "USE", Binds: []Binding{{Id: "x", Exp: self("a")}}}, {Callee: "NOP"}},
			Ret:   []Binding{{Id: "y", Exp: ref("USE", "y")}, {Id: "n", Exp: ref("NOP", "n")}}}
		top := &Pipeline{Name: "TOP", Outs: []Param{{Name: "y", Type: wrap(TInt)}, {Name: "y2", Type: wrap(TInt)}},
			Calls: []*Call{
				{Callee: "GEN", Binds: []Binding{{Id: "seed", Exp: lit(s1)}}},
				{Callee: "GEN", Alias: "FLAG", Binds: []Binding{{Id: "seed", Exp: lit(s2)}}},
				{Callee: "INNER", Alias: "M1", Map: true, Disabled: ref("FLAG", "flag"), Binds: []Binding{{Id: "a", Exp: ref("GEN", "arr"), Split: true}}},
				{Callee: "INNER", Alias: "M2", Map: true, Binds: []Binding{{Id: "a", Exp: ref("GEN", "arr"), Split: true}}},
			},
			Ret: []Binding{{Id: "y", Exp: ref("M1", "y")}, {Id: "y2", Exp: ref("M2", "y")}}}
		p.Pipelines = []*Pipeline{inner, top}
	case 6:
		// map calls over the output of a call that is disabled at run time by
		// another call's flag: with the same condition on the map call, without
		// one, and a plain consumer of the disabled call for comparison
		top := &Pipeline{Name: "TOP", Outs: []Param{{Name: "y1", Type: wrap(TInt)}, {Name: "y2", Type: wrap(TInt)}, {Name: "y3", Type: TInt}, {Name: "arr", Type: coll}},
			Calls: []*Call{
				{Callee: "GEN", Alias: "FLAG", Binds: []Binding{{Id: "seed", Exp: lit(s1)}}},
				{Callee: "GEN", Alias: "DATA", Disabled: ref("FLAG", "flag"), Binds: []Binding{{Id: "seed", Exp: lit(s2)}}},
				{Callee: "USE", Alias: "M1", Map: true, Disabled: ref("FLAG", "flag"), Binds: []Binding{{Id: "x", Exp: ref("DATA", "arr"), Split: true}}},
				{Callee: "USE", Alias: "M2", Map: true, Binds: []Binding{{Id: "x", Exp: ref("DATA", "arr"), Split: true}}},
				{Callee: "USE", Alias: "ONE", Binds: []Binding{{Id: "x", Exp: ref("DATA", "one")}}},
			},
			Ret: []Binding{{Id: "y1", Exp: ref("M1", "y")}, {Id: "y2", Exp: ref("M2", "y")}, {Id: "y3", Exp: ref("ONE", "y")}, {Id: "arr", Exp: ref("DATA", "arr")}}}
		p.Pipelines = []*Pipeline{top}
	case 7:
		// a map-called sub-pipeline returns the output of a stage that does not
		// depend on the mapped input (GEN first: the schedules slow it down, so
		// the independent stage is done long before the map source is known),
		// and one of its own non-split inputs unchanged; both reach the top
		// level and a consumer stage
		collI := src(&Stage{Name: "COLL", Ins: []Param{{Name: "xs", Type: wrap(TInt)}, {Name: "ys", Type: wrap(TInt)}}, Outs: []Param{{Name: "n", Type: TInt}}})
		p.Stages = append(p.Stages, collI)
		inner := &Pipeline{Name: "INNER", Ins: []Param{{Name: "a", Type: T}, {Name: "k", Type: TInt}},
			Outs: []Param{{Name: "y", Type: TInt}, {Name: "yi", Type: TInt}, {Name: "kk", Type: TInt}},
			Calls: []*Call{
				{Callee: "USE", Alias: "DEP", Binds: []Binding{{Id: "x", Exp: self("a")}}},
				{Callee: "USE2", Alias: "IND", Binds: []Binding{{Id: "x", Exp: &Exp{Kind: ENull}}, {Id: "w", Exp: self("k")}}},
			},
			Ret: []Binding{{Id: "y", Exp: ref("DEP", "y")}, {Id: "yi", Exp: ref("IND", "y")}, {Id: "kk", Exp: self("k")}}}
		top := &Pipeline{Name: "TOP", Outs: []Param{{Name: "yi", Type: wrap(TInt)}, {Name: "kk", Type: wrap(TInt)}, {Name: "n", Type: TInt}},
			Calls: []*Call{
				{Callee: "GEN", Binds: []Binding{{Id: "seed", Exp: lit(s1)}}},
				{Callee: "INNER", Alias: "M1", Map: true, Binds: []Binding{{Id: "a", Exp: ref("GEN", "arr"), Split: true}, {Id: "k", Exp: lit(s2)}}},
				{Callee: "COLL", Binds: []Binding{{Id: "xs", Exp: ref("M1", "kk")}, {Id: "ys", Exp: ref("M1", "yi")}}},
			},
			Ret: []Binding{{Id: "yi", Exp: ref("M1", "yi")}, {Id: "kk", Exp: ref("M1", "kk")}, {Id: "n", Exp: ref("COLL", "n")}}}
		p.Pipelines = []*Pipeline{inner, top}
	case 8:
		// the same pipeline definition (containing a map call) instantiated
		// twice, the second instance consuming the first one's merged output;
		// map source: a literal (static forks) or a run-time collection
		static := g.pct(50)
		xT, ysT := T, wrap(TInt)
		var srcExp *Exp
		if static {
			xT, ysT = TInt, ArrayOf(TInt)
			srcExp = &Exp{Kind: EArray, Elems: []*Exp{lit(s1), lit(s2)}}
		} else {
			srcExp = self("arr")
		}
		sub := &Pipeline{Name: "INNER", Ins: []Param{{Name: "c", Type: ysT}, {Name: "k", Type: TInt}},
			Outs: []Param{{Name: "ys", Type: ysT}},
			Calls: []*Call{
				{Callee: "CHAIN", Map: true, Binds: []Binding{{Id: "x", Exp: srcExp, Split: true}, {Id: "c", Exp: self("c")}, {Id: "k", Exp: self("k")}}},
			},
			Ret: []Binding{{Id: "ys", Exp: ref("CHAIN", "y")}}}
		p.Stages = append(p.Stages, src(&Stage{Name: "CHAIN", Ins: []Param{{Name: "x", Type: xT}, {Name: "c", Type: ysT}, {Name: "k", Type: TInt}}, Outs: []Param{{Name: "y", Type: TInt}}}))
		empty := &Exp{Kind: EArray}
		if !static {
			sub.Ins = append(sub.Ins, Param{Name: "arr", Type: coll})
			empty = &Exp{Kind: ENull}
		}
		top := &Pipeline{Name: "TOP", Outs: []Param{{Name: "ys", Type: ysT}},
			Calls: []*Call{
				{Callee: "GEN", Binds: []Binding{{Id: "seed", Exp: lit(s1)}}},
				{Callee: "INNER", Alias: "FIRST", Binds: []Binding{{Id: "c", Exp: empty}, {Id: "k", Exp: lit(1)}}},
				{Callee: "INNER", Alias: "SECOND", Binds: []Binding{{Id: "c", Exp: ref("FIRST", "ys")}, {Id: "k", Exp: lit(2)}}},
				{Callee: "CHK", Binds: []Binding{{Id: "v", Exp: ref("GEN", "one")}}},
			},
			Ret: []Binding{{Id: "ys", Exp: ref("SECOND", "ys")}}}
		if !static {
			top.Calls[1].Binds = append(top.Calls[1].Binds, Binding{Id: "arr", Exp: ref("GEN", "arr")})
			top.Calls[2].Binds = append(top.Calls[2].Binds, Binding{Id: "arr", Exp: ref("GEN", "arr")})
		}
		if T.Kind != KInt {
			top.Calls = top.Calls[:3] // CHK takes an int
		}
		p.Pipelines = []*Pipeline{sub, top}
	case 9:
		// array literals of a wide struct narrowed to a smaller struct on
		// their way through a sub-pipeline input: uniform, null first / last,
		// a reference last, a 2-d literal with an empty last row, a typed map
		p.Structs = append(p.Structs,
			&Struct{Name: "SMALL", Fields: []Param{{Name: "a", Type: TInt}}},
			&Struct{Name: "BIG", Fields: []Param{{Name: "a", Type: TInt}, {Name: "b", Type: TString}, {Name: "c", Type: ArrayOf(TInt)}}})
		tsmall, tbig := &Type{Kind: KStruct, Name: "SMALL"}, &Type{Kind: KStruct, Name: "BIG"}
		big := func() *Exp {
			return &Exp{Kind: EStruct, Keys: []string{"a", "b", "c"}, Elems: []*Exp{lit(int64(g.r.Intn(1000))),
				{Kind: EString, S: fmt.Sprintf("s%d", g.r.Intn(1000))}, {Kind: EArray, Elems: []*Exp{lit(int64(g.r.Intn(9)))}}}}
		}
		null := func() *Exp { return &Exp{Kind: ENull} }
		arr := func(es ...*Exp) *Exp { return &Exp{Kind: EArray, Elems: es} }
		p.Stages = append(p.Stages,
			src(&Stage{Name: "PRODUCE", Ins: []Param{{Name: "a", Type: TInt}}, Outs: []Param{{Name: "big", Type: tbig}}}),
			src(&Stage{Name: "CONSUME", Ins: []Param{{Name: "smalls", Type: ArrayOf(tsmall)}, {Name: "grid", Type: ArrayOf(ArrayOf(tsmall))}, {Name: "bykey", Type: TMapOf(tsmall)}}, Outs: []Param{{Name: "n", Type: TInt}}}))
		narrow := &Pipeline{Name: "INNER", Ins: []Param{{Name: "bigs", Type: ArrayOf(tbig)}, {Name: "grid", Type: ArrayOf(ArrayOf(tbig))}, {Name: "bykey", Type: TMapOf(tbig)}},
			Outs:  []Param{{Name: "n", Type: TInt}, {Name: "smalls", Type: ArrayOf(tsmall)}, {Name: "grid", Type: ArrayOf(ArrayOf(tsmall))}},
			Calls: []*Call{{Callee: "CONSUME", Binds: []Binding{{Id: "smalls", Exp: self("bigs")}, {Id: "grid", Exp: self("grid")}, {Id: "bykey", Exp: self("bykey")}}}},
			Ret:   []Binding{{Id: "n", Exp: ref("CONSUME", "n")}, {Id: "smalls", Exp: self("bigs")}, {Id: "grid", Exp: self("grid")}}}
		top := &Pipeline{Name: "TOP"}
		top.Calls = append(top.Calls, &Call{Callee: "PRODUCE", Binds: []Binding{{Id: "a", Exp: lit(s1)}}})
		variants := []struct {
			name       string
			bigs, grid *Exp
		}{
			{"UNIFORM", arr(big(), big()), arr(arr(big()), arr(big()))},
			{"NULLFIRST", arr(null(), big()), arr(arr(), arr(big()))},
			{"NULLLAST", arr(big(), null()), arr(arr(big()), arr())},
			{"REFLAST", arr(big(), ref("PRODUCE", "big")), arr(arr(big(), big()), null())},
		}
		for _, v := range variants {
			bykey := &Exp{Kind: EMap, Keys: []string{"a", "b"}, Elems: []*Exp{big(), null()}}
			top.Calls = append(top.Calls, &Call{Callee: "INNER", Alias: v.name, Binds: []Binding{{Id: "bigs", Exp: v.bigs}, {Id: "grid", Exp: v.grid}, {Id: "bykey", Exp: bykey}}})
			top.Outs = append(top.Outs, Param{Name: "s_" + strings.ToLower(v.name), Type: ArrayOf(tsmall)}, Param{Name: "g_" + strings.ToLower(v.name), Type: ArrayOf(ArrayOf(tsmall))})
			top.Ret = append(top.Ret, Binding{Id: "s_" + strings.ToLower(v.name), Exp: ref(v.name, "smalls")}, Binding{Id: "g_" + strings.ToLower(v.name), Exp: ref(v.name, "grid")})
		}
		p.Stages = p.Stages[len(p.Stages)-2:]
		p.Pipelines = []*Pipeline{narrow, top}
	case 10:
		// inside a map-called pipeline a call whose inputs do not depend on
		// the mapped element but whose disabled modifier does (run-time and
		// literal flag collections)
		flags := src(&Stage{Name: "FLAGS", Ins: []Param{{Name: "seed", Type: TInt}}, Outs: []Param{{Name: "flags", Type: wrap(TBool)}}})
		p.Stages = append(p.Stages, flags)
		inner := &Pipeline{Name: "INNER", Ins: []Param{{Name: "skip", Type: TBool}, {Name: "k", Type: TInt}},
			Outs: []Param{{Name: "y", Type: TInt}, {Name: "n", Type: TInt}},
			Calls: []*Call{
				{Callee: "USE2", Alias: "WORK", Disabled: self("skip"), Binds: []Binding{{Id: "x", Exp: &Exp{Kind: ENull}}, {Id: "w", Exp: self("k")}}},
				{Callee: "NOP"},
			},
			Ret: []Binding{{Id: "y", Exp: ref("WORK", "y")}, {Id: "n", Exp: ref("NOP", "n")}}}
		lits := &Exp{Kind: EArray}
		// mixed on purpose (martian folds an all-equal literal control into a
		// constant, and the call then - by design - no longer forks along it):
		// four elements, exactly one of them disabled
		skipAt := g.r.Intn(4)
		for k := 0; k < 4; k++ {
			lits.Elems = append(lits.Elems, &Exp{Kind: EBool, B: k == skipAt})
		}
		top := &Pipeline{Name: "TOP", Outs: []Param{{Name: "y", Type: wrap(TInt)}, {Name: "y2", Type: ArrayOf(TInt)}},
			Calls: []*Call{
				{Callee: "FLAGS", Binds: []Binding{{Id: "seed", Exp: lit(s1)}}},
				{Callee: "INNER", Alias: "M1", Map: true, Binds: []Binding{{Id: "skip", Exp: ref("FLAGS", "flags"), Split: true}, {Id: "k", Exp: lit(s2)}}},
				{Callee: "INNER", Alias: "M2", Map: true, Binds: []Binding{{Id: "skip", Exp: lits, Split: true}, {Id: "k", Exp: lit(s2)}}},
			},
			Ret: []Binding{{Id: "y", Exp: ref("M1", "y")}, {Id: "y2", Exp: ref("M2", "y")}}}
		p.Pipelines = []*Pipeline{inner, top}
	case 11:
		// nested map calls over literals whose inner collections are all empty
		// (and a variant with one non-empty element)
		inner := &Pipeline{Name: "INNER", Ins: []Param{{Name: "m", Type: TMapOf(TInt)}, {Name: "a", Type: ArrayOf(TInt)}},
			Outs: []Param{{Name: "ym", Type: TMapOf(TInt)}, {Name: "ya", Type: ArrayOf(TInt)}},
			Calls: []*Call{
				{Callee: "CHAIN", Alias: "BYKEY", Map: true, Binds: []Binding{{Id: "x", Exp: self("m"), Split: true}}},
				{Callee: "CHAIN", Alias: "BYIDX", Map: true, Binds: []Binding{{Id: "x", Exp: self("a"), Split: true}}},
			},
			Ret: []Binding{{Id: "ym", Exp: ref("BYKEY", "y")}, {Id: "ya", Exp: ref("BYIDX", "y")}}}
		p.Stages = append(p.Stages, src(&Stage{Name: "CHAIN", Ins: []Param{{Name: "x", Type: TInt}}, Outs: []Param{{Name: "y", Type: TInt}}}))
		emptyM := func() *Exp { return &Exp{Kind: EMap} }
		emptyA := func() *Exp { return &Exp{Kind: EArray} }
		oneM := &Exp{Kind: EMap, Keys: []string{"a"}, Elems: []*Exp{lit(s1)}}
		oneA := &Exp{Kind: EArray, Elems: []*Exp{lit(s2)}}
		top := &Pipeline{Name: "TOP", Outs: []Param{{Name: "e", Type: ArrayOf(TMapOf(TInt))}, {Name: "f", Type: ArrayOf(ArrayOf(TInt))}, {Name: "g", Type: ArrayOf(TMapOf(TInt))}},
			Calls: []*Call{
				{Callee: "INNER", Alias: "ALLEMPTY", Map: true, Binds: []Binding{
					{Id: "m", Exp: &Exp{Kind: EArray, Elems: []*Exp{emptyM(), emptyM()}}, Split: true},
					{Id: "a", Exp: &Exp{Kind: EArray, Elems: []*Exp{emptyA(), emptyA()}}, Split: true}}},
				{Callee: "INNER", Alias: "SOMEEMPTY", Map: true, Binds: []Binding{
					{Id: "m", Exp: &Exp{Kind: EArray, Elems: []*Exp{emptyM(), oneM}}, Split: true},
					{Id: "a", Exp: &Exp{Kind: EArray, Elems: []*Exp{oneA, emptyA()}}, Split: true}}},
			},
			Ret: []Binding{{Id: "e", Exp: ref("ALLEMPTY", "ym")}, {Id: "f", Exp: ref("ALLEMPTY", "ya")}, {Id: "g", Exp: ref("SOMEEMPTY", "ym")}}}
		p.Stages = p.Stages[len(p.Stages)-1:]
		p.Pipelines = []*Pipeline{inner, top}
	case 12:
		// nested map calls where one level has a run-time size: the inner call
		// maps over a collection from a stage while the outer one maps over a
		// literal (SD), and the other way round (DS); the merged result goes to
		// a consumer stage and to the top level
		one := src(&Stage{Name: "ONE", Ins: []Param{{Name: "x", Type: TInt}, {Name: "y", Type: TInt}}, Outs: []Param{{Name: "xo", Type: TInt}}})
		grid := src(&Stage{Name: "GRID", Ins: []Param{{Name: "v", Type: ArrayOf(ArrayOf(TInt))}}, Outs: []Param{{Name: "n", Type: TInt}}})
		geni := src(&Stage{Name: "GENI", Ins: []Param{{Name: "seed", Type: TInt}}, Outs: []Param{{Name: "arr", Type: ArrayOf(TInt)}}})
		p.Stages = []*Stage{geni, one, grid}
		inner := &Pipeline{Name: "INNER", Ins: []Param{{Name: "xs", Type: ArrayOf(TInt)}, {Name: "y", Type: TInt}},
			Outs:  []Param{{Name: "xo", Type: ArrayOf(TInt)}},
			Calls: []*Call{{Callee: "ONE", Map: true, Binds: []Binding{{Id: "x", Exp: self("xs"), Split: true}, {Id: "y", Exp: self("y")}}}},
			Ret:   []Binding{{Id: "xo", Exp: ref("ONE", "xo")}}}
		lit2 := func() *Exp {
			return &Exp{Kind: EArray, Elems: []*Exp{lit(int64(g.r.Intn(100))), lit(int64(100 + g.r.Intn(100)))}}
		}
		top := &Pipeline{Name: "TOP", Outs: []Param{{Name: "sd", Type: ArrayOf(ArrayOf(TInt))}, {Name: "ds", Type: ArrayOf(ArrayOf(TInt))}},
			Calls: []*Call{
				{Callee: "GENI", Binds: []Binding{{Id: "seed", Exp: lit(s1)}}},
				{Callee: "INNER", Alias: "SD", Map: true, Binds: []Binding{{Id: "xs", Exp: ref("GENI", "arr")}, {Id: "y", Exp: lit2(), Split: true}}},
				{Callee: "INNER", Alias: "DS", Map: true, Binds: []Binding{{Id: "xs", Exp: lit2()}, {Id: "y", Exp: ref("GENI", "arr"), Split: true}}},
				{Callee: "GRID", Alias: "SEE_SD", Binds: []Binding{{Id: "v", Exp: ref("SD", "xo")}}},
				{Callee: "GRID", Alias: "SEE_DS", Binds: []Binding{{Id: "v", Exp: ref("DS", "xo")}}},
			},
			Ret: []Binding{{Id: "sd", Exp: ref("SD", "xo")}, {Id: "ds", Exp: ref("DS", "xo")}}}
		p.Pipelines = []*Pipeline{inner, top}
	case 14:
		// map calls nested three deep, every level sized at run time by one
		// jagged collection from a stage (v[a][b] has its own length)
		one := src(&Stage{Name: "ONE", Ins: []Param{{Name: "x", Type: TInt}, {Name: "y", Type: TInt}}, Outs: []Param{{Name: "xo", Type: TInt}}})
		a3 := ArrayOf(ArrayOf(ArrayOf(TInt)))
		cube := src(&Stage{Name: "CUBE", Ins: []Param{{Name: "v", Type: a3}}, Outs: []Param{{Name: "n", Type: TInt}}})
		gen3 := src(&Stage{Name: "GEN3", Ins: []Param{{Name: "seed", Type: TInt}}, Outs: []Param{{Name: "v", Type: a3}}})
		p.Stages = []*Stage{gen3, one, cube}
		l3 := &Pipeline{Name: "L3", Ins: []Param{{Name: "xs", Type: ArrayOf(TInt)}}, Outs: []Param{{Name: "xo", Type: ArrayOf(TInt)}},
			Calls: []*Call{{Callee: "ONE", Map: true, Binds: []Binding{{Id: "x", Exp: self("xs"), Split: true}, {Id: "y", Exp: lit(s2)}}}},
			Ret:   []Binding{{Id: "xo", Exp: ref("ONE", "xo")}}}
		l2 := &Pipeline{Name: "L2", Ins: []Param{{Name: "xss", Type: ArrayOf(ArrayOf(TInt))}}, Outs: []Param{{Name: "xo", Type: ArrayOf(ArrayOf(TInt))}},
			Calls: []*Call{{Callee: "L3", Map: true, Binds: []Binding{{Id: "xs", Exp: self("xss"), Split: true}}}},
			Ret:   []Binding{{Id: "xo", Exp: ref("L3", "xo")}}}
		top := &Pipeline{Name: "TOP", Outs: []Param{{Name: "ddd", Type: a3}},
			Calls: []*Call{
				{Callee: "GEN3", Binds: []Binding{{Id: "seed", Exp: lit(s1)}}},
				{Callee: "L2", Map: true, Binds: []Binding{{Id: "xss", Exp: ref("GEN3", "v"), Split: true}}},
				{Callee: "CUBE", Alias: "SEE", Binds: []Binding{{Id: "v", Exp: ref("L2", "xo")}}},
			},
			Ret: []Binding{{Id: "ddd", Exp: ref("L2", "xo")}}}
		p.Pipelines = []*Pipeline{l3, l2, top}
	case 13:
		// nested run-time disable controls: a value produced by a call disabled
		// by one flag passes through a pipeline disabled by another flag (the
		// checks force the flag values so that all four combinations occur)
		pass := &Pipeline{Name: "INNER", Ins: []Param{{Name: "v", Type: TInt}}, Outs: []Param{{Name: "w", Type: TInt}, {Name: "n", Type: TInt}},
			Calls: []*Call{{Callee: "NOP"}},
			Ret:   []Binding{{Id: "w", Exp: self("v")}, {Id: "n", Exp: ref("NOP", "n")}}}
		top := &Pipeline{Name: "TOP"}
		for k, combo := range []string{"FT", "TF", "FF", "TT"} {
			c1, c2 := fmt.Sprintf("C1%s", combo), fmt.Sprintf("C2%s", combo)
			s0, ps, see := fmt.Sprintf("S0%s", combo), fmt.Sprintf("PASS%s", combo), fmt.Sprintf("SEE%s", combo)
			top.Calls = append(top.Calls,
				&Call{Callee: "GEN", Alias: c1, Binds: []Binding{{Id: "seed", Exp: lit(s1 + int64(k))}}},
				&Call{Callee: "GEN", Alias: c2, Binds: []Binding{{Id: "seed", Exp: lit(s2 + int64(k))}}},
				&Call{Callee: "USE2", Alias: s0, Disabled: ref(c1, "flag"), Binds: []Binding{{Id: "x", Exp: &Exp{Kind: ENull}}, {Id: "w", Exp: lit(s1)}}},
				&Call{Callee: "INNER", Alias: ps, Disabled: ref(c2, "flag"), Binds: []Binding{{Id: "v", Exp: ref(s0, "y")}}},
				&Call{Callee: "CHK", Alias: see, Binds: []Binding{{Id: "v", Exp: ref(ps, "w")}}})
			top.Outs = append(top.Outs, Param{Name: "w" + strings.ToLower(combo), Type: TInt})
			top.Ret = append(top.Ret, Binding{Id: "w" + strings.ToLower(combo), Exp: ref(ps, "w")})
		}
		p.Pipelines = []*Pipeline{pass, top}
	case 15:
		// members of a struct literal come from different producers (SLOW is
		// the first call: the scheduling checks slow it down): a consumer of
		// one member - through a sub-pipeline's input, through a pipeline's
		// return value, through an array of such literals - consumes only what
		// that member is built from
		p.Structs = append(p.Structs, &Struct{Name: "PAIR", Fields: []Param{{Name: "a", Type: T}, {Name: "b", Type: T}}})
		pair := &Type{Kind: KStruct, Name: "PAIR"}
		seep := src(&Stage{Name: "SEEP", Ins: []Param{{Name: "p", Type: pair}}, Outs: []Param{{Name: "n", Type: TInt}}})
		seeps := src(&Stage{Name: "SEEPS", Ins: []Param{{Name: "bs", Type: ArrayOf(T)}}, Outs: []Param{{Name: "n", Type: TInt}}})
		p.Stages = append(p.Stages, seep, seeps)
		pairOf := func(a, b *Exp) *Exp { return &Exp{Kind: EStruct, Keys: []string{"a", "b"}, Elems: []*Exp{a, b}} }
		inner := &Pipeline{Name: "INNER", Ins: []Param{{Name: "s", Type: pair}, {Name: "ps", Type: ArrayOf(pair)}},
			Outs: []Param{{Name: "ya", Type: TInt}, {Name: "yb", Type: TInt}, {Name: "n", Type: TInt}, {Name: "nb", Type: TInt}},
			Calls: []*Call{
				{Callee: "USE", Alias: "UA", Binds: []Binding{{Id: "x", Exp: self("s", "a")}}},
				{Callee: "USE", Alias: "UB", Binds: []Binding{{Id: "x", Exp: self("s", "b")}}},
				{Callee: "SEEP", Alias: "UALL", Binds: []Binding{{Id: "p", Exp: self("s")}}},
				{Callee: "SEEPS", Alias: "UBS", Binds: []Binding{{Id: "bs", Exp: self("ps", "b")}}},
			},
			Ret: []Binding{{Id: "ya", Exp: ref("UA", "y")}, {Id: "yb", Exp: ref("UB", "y")}, {Id: "n", Exp: ref("UALL", "n")}, {Id: "nb", Exp: ref("UBS", "n")}}}
		mkp := &Pipeline{Name: "MKP", Ins: []Param{{Name: "a", Type: T}, {Name: "b", Type: T}}, Outs: []Param{{Name: "o", Type: pair}, {Name: "n", Type: TInt}},
			Calls: []*Call{{Callee: "NOP"}},
			Ret:   []Binding{{Id: "o", Exp: pairOf(self("a"), self("b"))}, {Id: "n", Exp: ref("NOP", "n")}}}
		top := &Pipeline{Name: "TOP", Outs: []Param{{Name: "ya", Type: TInt}, {Name: "yb", Type: TInt}, {Name: "n", Type: TInt}, {Name: "nb", Type: TInt}, {Name: "va", Type: TInt}, {Name: "vb", Type: TInt}},
			Calls: []*Call{
				{Callee: "GEN", Alias: "SLOW", Binds: []Binding{{Id: "seed", Exp: lit(s1)}}},
				{Callee: "GEN", Alias: "FAST", Binds: []Binding{{Id: "seed", Exp: lit(s2)}}},
				{Callee: "INNER", Binds: []Binding{{Id: "s", Exp: pairOf(ref("SLOW", "one"), ref("FAST", "one"))},
					{Id: "ps", Exp: &Exp{Kind: EArray, Elems: []*Exp{pairOf(ref("SLOW", "one"), ref("FAST", "one")), pairOf(ref("SLOW", "one"), ref("FAST", "one"))}}}}},
				{Callee: "MKP", Binds: []Binding{{Id: "a", Exp: ref("SLOW", "one")}, {Id: "b", Exp: ref("FAST", "one")}}},
				{Callee: "USE", Alias: "VIA_A", Binds: []Binding{{Id: "x", Exp: ref("MKP", "o", "a")}}},
				{Callee: "USE", Alias: "VIA_B", Binds: []Binding{{Id: "x", Exp: ref("MKP", "o", "b")}}},
			},
			Ret: []Binding{{Id: "ya", Exp: ref("INNER", "ya")}, {Id: "yb", Exp: ref("INNER", "yb")}, {Id: "n", Exp: ref("INNER", "n")}, {Id: "nb", Exp: ref("INNER", "nb")},
				{Id: "va", Exp: ref("VIA_A", "y")}, {Id: "vb", Exp: ref("VIA_B", "y")}}}
		p.Pipelines = []*Pipeline{inner, mkp, top}
	case 16:
		// a pipeline mapped over an outer collection; inside it a stage produces
		// the collection (its length depends on the outer element) that an inner
		// map call runs over, and a consumer takes the merged inner result. The
		// outer collection is a stage's output (MID) or a two-element literal
		// (MIDL); the checks force jagged inner lengths per outer fork.
		geni := src(&Stage{Name: "GENI", Ins: []Param{{Name: "seed", Type: TInt}}, Outs: []Param{{Name: "arr", Type: ArrayOf(TInt)}}})
		one := src(&Stage{Name: "ONE", Ins: []Param{{Name: "x", Type: TInt}, {Name: "y", Type: TInt}}, Outs: []Param{{Name: "xo", Type: TInt}}})
		row := src(&Stage{Name: "ROW", Ins: []Param{{Name: "v", Type: ArrayOf(TInt)}}, Outs: []Param{{Name: "n", Type: TInt}}})
		grid := src(&Stage{Name: "GRID", Ins: []Param{{Name: "v", Type: ArrayOf(ArrayOf(TInt))}}, Outs: []Param{{Name: "n", Type: TInt}}})
		p.Stages = []*Stage{geni, one, row, grid}
		mid := &Pipeline{Name: "MIDP", Ins: []Param{{Name: "n", Type: TInt}}, Outs: []Param{{Name: "ys", Type: ArrayOf(TInt)}, {Name: "s", Type: TInt}},
			Calls: []*Call{
				{Callee: "GENI", Binds: []Binding{{Id: "seed", Exp: self("n")}}},
				{Callee: "ONE", Map: true, Binds: []Binding{{Id: "x", Exp: ref("GENI", "arr"), Split: true}, {Id: "y", Exp: self("n")}}},
				{Callee: "ROW", Alias: "SUM", Binds: []Binding{{Id: "v", Exp: ref("ONE", "xo")}}},
			},
			Ret: []Binding{{Id: "ys", Exp: ref("ONE", "xo")}, {Id: "s", Exp: ref("SUM", "n")}}}
		top := &Pipeline{Name: "TOP", Outs: []Param{{Name: "yss", Type: ArrayOf(ArrayOf(TInt))}},
			Calls: []*Call{
				{Callee: "GENI", Alias: "SRC", Binds: []Binding{{Id: "seed", Exp: lit(s1)}}},
				{Callee: "MIDP", Alias: "MID", Map: true, Binds: []Binding{{Id: "n", Exp: ref("SRC", "arr"), Split: true}}},
				{Callee: "GRID", Alias: "SEE", Binds: []Binding{{Id: "v", Exp: ref("MID", "ys")}}},
			},
			Ret: []Binding{{Id: "yss", Exp: ref("MID", "ys")}}}
		for k := 0; k < 4; k++ {
			// four instances over a two-element literal, each with its own
			// forced pair of inner lengths
			ml, see := fmt.Sprintf("MIDL%d", k), fmt.Sprintf("SEEL%d", k)
			top.Calls = append(top.Calls,
				&Call{Callee: "MIDP", Alias: ml, Map: true, Binds: []Binding{{Id: "n", Exp: &Exp{Kind: EArray, Elems: []*Exp{lit(s1 + int64(k)), lit(s2 + 1000 + int64(k))}}, Split: true}}},
				&Call{Callee: "GRID", Alias: see, Binds: []Binding{{Id: "v", Exp: ref(ml, "ys")}}})
			top.Outs = append(top.Outs, Param{Name: fmt.Sprintf("yl%d", k), Type: ArrayOf(ArrayOf(TInt))}, Param{Name: fmt.Sprintf("sl%d", k), Type: ArrayOf(TInt)})
			top.Ret = append(top.Ret, Binding{Id: fmt.Sprintf("yl%d", k), Exp: ref(ml, "ys")}, Binding{Id: fmt.Sprintf("sl%d", k), Exp: ref(ml, "s")})
		}
		p.Pipelines = []*Pipeline{mid, top}
	case 17:
		// chains of pipelines nested 3 and 5 deep, every level disabled by its
		// own run-time flag (all forced false by the checks), the innermost with
		// two sibling calls that each have a disable flag of their own (one
		// forced true, one false): every call is governed by its own
		// condition, not by a sibling's
		top := &Pipeline{Name: "TOP"}
		var pls []*Pipeline
		for ci, depth := range []int{3, 5} {
			pre := []string{"K", "M"}[ci]
			fa, fb := pre+"FA", pre+"FB"
			top.Calls = append(top.Calls,
				&Call{Callee: "GEN", Alias: fa, Binds: []Binding{{Id: "seed", Exp: lit(s1 + int64(ci))}}},
				&Call{Callee: "GEN", Alias: fb, Binds: []Binding{{Id: "seed", Exp: lit(s2 + int64(ci))}}})
			// innermost
			leaf := &Pipeline{Name: pre + "LEAF", Ins: []Param{{Name: "a", Type: TBool}, {Name: "b", Type: TBool}, {Name: "v", Type: TInt}},
				Outs: []Param{{Name: "ya", Type: TInt}, {Name: "yb", Type: TInt}},
				Calls: []*Call{
					{Callee: "USE2", Alias: "WA", Disabled: self("a"), Binds: []Binding{{Id: "x", Exp: &Exp{Kind: ENull}}, {Id: "w", Exp: self("v")}}},
					{Callee: "USE2", Alias: "WB", Disabled: self("b"), Binds: []Binding{{Id: "x", Exp: &Exp{Kind: ENull}}, {Id: "w", Exp: self("v")}}},
				},
				Ret: []Binding{{Id: "ya", Exp: ref("WA", "y")}, {Id: "yb", Exp: ref("WB", "y")}}}
			pls = append(pls, leaf)
			inner := leaf
			// levels depth-1 .. 1: level k calls level k+1 disabled by flag k+1
			for lvl := depth - 1; lvl >= 1; lvl-- {
				pl := &Pipeline{Name: fmt.Sprintf("%sL%d", pre, lvl), Ins: []Param{{Name: "a", Type: TBool}, {Name: "b", Type: TBool}, {Name: "v", Type: TInt}},
					Outs: []Param{{Name: "ya", Type: TInt}, {Name: "yb", Type: TInt}}}
				binds := []Binding{{Id: "a", Exp: self("a")}, {Id: "b", Exp: self("b")}, {Id: "v", Exp: self("v")}}
				for f := lvl + 1; f <= depth; f++ {
					pl.Ins = append(pl.Ins, Param{Name: fmt.Sprintf("f%d", f), Type: TBool})
					if f > lvl+1 {
						binds = append(binds, Binding{Id: fmt.Sprintf("f%d", f), Exp: self(fmt.Sprintf("f%d", f))})
					}
				}
				pl.Calls = []*Call{{Callee: inner.Name, Alias: "IN", Disabled: self(fmt.Sprintf("f%d", lvl+1)), Binds: binds}}
				pl.Ret = []Binding{{Id: "ya", Exp: ref("IN", "ya")}, {Id: "yb", Exp: ref("IN", "yb")}}
				pls = append(pls, pl)
				inner = pl
			}
			binds := []Binding{{Id: "a", Exp: ref(fa, "flag")}, {Id: "b", Exp: ref(fb, "flag")}, {Id: "v", Exp: lit(s1)}}
			for f := 1; f <= depth; f++ {
				fl := fmt.Sprintf("%sF%d", pre, f)
				top.Calls = append(top.Calls, &Call{Callee: "GEN", Alias: fl, Binds: []Binding{{Id: "seed", Exp: lit(s1 + int64(10*ci+f))}}})
				if f > 1 {
					binds = append(binds, Binding{Id: fmt.Sprintf("f%d", f), Exp: ref(fl, "flag")})
				}
			}
			top.Calls = append(top.Calls, &Call{Callee: inner.Name, Alias: pre + "CHAIN", Disabled: ref(pre+"F1", "flag"), Binds: binds})
			top.Outs = append(top.Outs, Param{Name: strings.ToLower(pre) + "ya", Type: TInt}, Param{Name: strings.ToLower(pre) + "yb", Type: TInt})
			top.Ret = append(top.Ret, Binding{Id: strings.ToLower(pre) + "ya", Exp: ref(pre+"CHAIN", "ya")}, Binding{Id: strings.ToLower(pre) + "yb", Exp: ref(pre+"CHAIN", "yb")})
		}
		p.Pipelines = append(pls, top)
	case 18:
		// a pipeline mapped over a run-time sized collection (array or typed
		// map) returns a struct literal and a map literal whose members are
		// bound directly to outputs of six different child calls: the merged
		// value has six equally good fork nodes to hang on
		p.Structs = append(p.Structs, &Struct{Name: "SIX", Fields: []Param{{Name: "a", Type: TInt}, {Name: "b", Type: TInt}, {Name: "c", Type: TInt},
			{Name: "d", Type: TInt}, {Name: "e", Type: TInt}, {Name: "f", Type: TInt}}})
		six := &Type{Kind: KStruct, Name: "SIX"}
		wrapI, arrayMode := ArrayOf, true
		if g.pct(50) {
			wrapI, arrayMode = TMapOf, false
		}
		geni := src(&Stage{Name: "GENI", Ins: []Param{{Name: "seed", Type: TInt}}, Outs: []Param{{Name: "arr", Type: wrapI(TInt)}}})
		one := src(&Stage{Name: "ONE", Ins: []Param{{Name: "x", Type: TInt}, {Name: "y", Type: TInt}}, Outs: []Param{{Name: "xo", Type: TInt}}})
		sees := src(&Stage{Name: "SEES", Ins: []Param{{Name: "v", Type: wrapI(six)}}, Outs: []Param{{Name: "n", Type: TInt}}})
		p.Stages = []*Stage{geni, one, sees}
		sub := &Pipeline{Name: "SUBP", Ins: []Param{{Name: "x", Type: TInt}}, Outs: []Param{{Name: "s", Type: six}, {Name: "m", Type: TMapOf(TInt)}}}
		lits, litm := &Exp{Kind: EStruct}, &Exp{Kind: EMap}
		for k, f := range []string{"a", "b", "c", "d", "e", "f"} {
			cn := "C" + strings.ToUpper(f)
			sub.Calls = append(sub.Calls, &Call{Callee: "ONE", Alias: cn, Binds: []Binding{{Id: "x", Exp: self("x")}, {Id: "y", Exp: lit(int64(k))}}})
			lits.Keys, lits.Elems = append(lits.Keys, f), append(lits.Elems, ref(cn, "xo"))
			litm.Keys, litm.Elems = append(litm.Keys, "k"+f), append(litm.Elems, ref(cn, "xo"))
		}
		sub.Ret = []Binding{{Id: "s", Exp: lits}, {Id: "m", Exp: litm}}
		top := &Pipeline{Name: "TOP", Outs: []Param{{Name: "ss", Type: wrapI(six)}, {Name: "n", Type: TInt}},
			Calls: []*Call{
				{Callee: "GENI", Binds: []Binding{{Id: "seed", Exp: lit(s1)}}},
				{Callee: "SUBP", Map: true, Binds: []Binding{{Id: "x", Exp: ref("GENI", "arr"), Split: true}}},
				{Callee: "SEES", Binds: []Binding{{Id: "v", Exp: ref("SUBP", "s")}}},
			},
			Ret: []Binding{{Id: "ss", Exp: ref("SUBP", "s")}, {Id: "n", Exp: ref("SEES", "n")}}}
		if arrayMode {
			top.Outs = append(top.Outs, Param{Name: "mm", Type: ArrayOf(TMapOf(TInt))})
			top.Ret = append(top.Ret, Binding{Id: "mm", Exp: ref("SUBP", "m")})
		}
		p.Pipelines = []*Pipeline{sub, top}
	case 19:
		// member projections through multi-dimensional arrays and typed maps of
		// arrays of structs coming from a stage: grid.a is int[][], cube.b is
		// string[][][], mg.a is map<int[]>
		p.Structs = append(p.Structs, &Struct{Name: "CELL", Fields: []Param{{Name: "a", Type: TInt}, {Name: "b", Type: TString}}})
		cell := &Type{Kind: KStruct, Name: "CELL"}
		mkg := src(&Stage{Name: "MKGRID", Ins: []Param{{Name: "seed", Type: TInt}},
			Outs: []Param{{Name: "grid", Type: ArrayOf(ArrayOf(cell))}, {Name: "cube", Type: ArrayOf(ArrayOf(ArrayOf(cell)))}, {Name: "mg", Type: TMapOf(ArrayOf(cell))}, {Name: "row", Type: ArrayOf(cell)}}})
		see := src(&Stage{Name: "SEEG", Ins: []Param{{Name: "xas", Type: ArrayOf(ArrayOf(TInt))}, {Name: "bs", Type: ArrayOf(ArrayOf(ArrayOf(TString)))}, {Name: "ms", Type: TMapOf(ArrayOf(TInt))}, {Name: "rs", Type: ArrayOf(TString)}},
			Outs: []Param{{Name: "n", Type: TInt}}})
		p.Stages = []*Stage{mkg, see}
		inner := &Pipeline{Name: "INNERG", Ins: []Param{{Name: "g", Type: ArrayOf(ArrayOf(cell))}}, Outs: []Param{{Name: "xas", Type: ArrayOf(ArrayOf(TInt))}},
			Calls: []*Call{{Callee: "SEEG", Alias: "SEE_IN", Binds: []Binding{{Id: "xas", Exp: self("g", "a")}, {Id: "bs", Exp: &Exp{Kind: ENull}}, {Id: "ms", Exp: &Exp{Kind: ENull}}, {Id: "rs", Exp: &Exp{Kind: ENull}}}}},
			Ret:   []Binding{{Id: "xas", Exp: self("g", "a")}}}
		top := &Pipeline{Name: "TOP", Outs: []Param{{Name: "xas", Type: ArrayOf(ArrayOf(TInt))}, {Name: "bs", Type: ArrayOf(ArrayOf(ArrayOf(TString)))}, {Name: "ms", Type: TMapOf(ArrayOf(TInt))}, {Name: "ias", Type: ArrayOf(ArrayOf(TInt))}},
			Calls: []*Call{
				{Callee: "MKGRID", Binds: []Binding{{Id: "seed", Exp: lit(s1)}}},
				{Callee: "SEEG", Binds: []Binding{{Id: "xas", Exp: ref("MKGRID", "grid", "a")}, {Id: "bs", Exp: ref("MKGRID", "cube", "b")}, {Id: "ms", Exp: ref("MKGRID", "mg", "a")}, {Id: "rs", Exp: ref("MKGRID", "row", "b")}}},
				{Callee: "INNERG", Binds: []Binding{{Id: "g", Exp: ref("MKGRID", "grid")}}},
			},
			Ret: []Binding{{Id: "xas", Exp: ref("MKGRID", "grid", "a")}, {Id: "bs", Exp: ref("MKGRID", "cube", "b")}, {Id: "ms", Exp: ref("MKGRID", "mg", "a")}, {Id: "ias", Exp: ref("INNERG", "xas")}}}
		p.Pipelines = []*Pipeline{inner, top}
	case 20:
		// map calls over the keys of a run-time typed map: taken whole
		// (MAKE.vals) and through a member projection of a map of structs
		// (MAKE.items.value); the forks are keyed and ordered by the map's keys
		p.Structs = append(p.Structs, &Struct{Name: "ITEM", Fields: []Param{{Name: "value", Type: TInt}, {Name: "name", Type: TString}}})
		item := &Type{Kind: KStruct, Name: "ITEM"}
		mk := src(&Stage{Name: "MAKE", Ins: []Param{{Name: "seed", Type: TInt}}, Outs: []Param{{Name: "items", Type: TMapOf(item)}, {Name: "vals", Type: TMapOf(TInt)}}})
		work := src(&Stage{Name: "WORK", Ins: []Param{{Name: "x", Type: TInt}}, Outs: []Param{{Name: "y", Type: TInt}}})
		seem := src(&Stage{Name: "SEEM", Ins: []Param{{Name: "a", Type: TMapOf(TInt)}, {Name: "b", Type: TMapOf(TInt)}}, Outs: []Param{{Name: "n", Type: TInt}}})
		p.Stages = []*Stage{mk, work, seem}
		top := &Pipeline{Name: "TOP", Outs: []Param{{Name: "proj", Type: TMapOf(TInt)}, {Name: "plain", Type: TMapOf(TInt)}, {Name: "n", Type: TInt}},
			Calls: []*Call{
				{Callee: "MAKE", Binds: []Binding{{Id: "seed", Exp: lit(s1)}}},
				{Callee: "WORK", Alias: "WORK_PROJ", Map: true, Binds: []Binding{{Id: "x", Exp: ref("MAKE", "items", "value"), Split: true}}},
				{Callee: "WORK", Alias: "WORK_PLAIN", Map: true, Binds: []Binding{{Id: "x", Exp: ref("MAKE", "vals"), Split: true}}},
				{Callee: "SEEM", Binds: []Binding{{Id: "a", Exp: ref("WORK_PROJ", "y")}, {Id: "b", Exp: ref("WORK_PLAIN", "y")}}},
			},
			Ret: []Binding{{Id: "proj", Exp: ref("WORK_PROJ", "y")}, {Id: "plain", Exp: ref("WORK_PLAIN", "y")}, {Id: "n", Exp: ref("SEEM", "n")}}}
		p.Pipelines = []*Pipeline{top}
	case 21:
		// run-time values of a wide struct in two-dimensional arrays, arrays and
		// typed maps of arrays, bound to parameters and outputs of a narrower
		// struct (the extra member must be dropped everywhere); two producers,
		// whose last rows the checks force to be empty resp. null
		p.Structs = append(p.Structs, &Struct{Name: "WIDE", Fields: []Param{{Name: "a", Type: TInt}, {Name: "b", Type: TString}, {Name: "extra", Type: TInt}}},
			&Struct{Name: "SMALL", Fields: []Param{{Name: "a", Type: TInt}, {Name: "b", Type: TString}}})
		wide, small := &Type{Kind: KStruct, Name: "WIDE"}, &Type{Kind: KStruct, Name: "SMALL"}
		mkw := src(&Stage{Name: "MKW", Ins: []Param{{Name: "seed", Type: TInt}},
			Outs: []Param{{Name: "grid", Type: ArrayOf(ArrayOf(wide))}, {Name: "rows", Type: ArrayOf(wide)}, {Name: "mg", Type: TMapOf(ArrayOf(wide))}, {Name: "cube", Type: ArrayOf(ArrayOf(ArrayOf(wide)))}}})
		seen := src(&Stage{Name: "SEEN", Ins: []Param{{Name: "g", Type: ArrayOf(ArrayOf(small))}, {Name: "r", Type: ArrayOf(small)}, {Name: "m", Type: TMapOf(ArrayOf(small))}, {Name: "c", Type: ArrayOf(ArrayOf(ArrayOf(small)))}},
			Outs: []Param{{Name: "n", Type: TInt}}})
		p.Stages = []*Stage{mkw, seen}
		top := &Pipeline{Name: "TOP"}
		for k, nm := range []string{"E", "N"} {
			mk, se := "MKW_"+nm, "SEEN_"+nm
			top.Calls = append(top.Calls,
				&Call{Callee: "MKW", Alias: mk, Binds: []Binding{{Id: "seed", Exp: lit(s1 + int64(k))}}},
				&Call{Callee: "SEEN", Alias: se, Binds: []Binding{{Id: "g", Exp: ref(mk, "grid")}, {Id: "r", Exp: ref(mk, "rows")}, {Id: "m", Exp: ref(mk, "mg")}, {Id: "c", Exp: ref(mk, "cube")}}})
			lo := strings.ToLower(nm)
			top.Outs = append(top.Outs, Param{Name: "g" + lo, Type: ArrayOf(ArrayOf(small))}, Param{Name: "m" + lo, Type: TMapOf(ArrayOf(small))})
			top.Ret = append(top.Ret, Binding{Id: "g" + lo, Exp: ref(mk, "grid")}, Binding{Id: "m" + lo, Exp: ref(mk, "mg")})
		}
		p.Pipelines = []*Pipeline{top}
	default:
		fk := kind - NTemplates // file-passing skeleton number
		// file-passing skeletons: a stage mapped over a run-time sized
		// collection writes files;
		//  0: the files are only returned from the top level (no stage consumes them)
		//  1: the files are only named by a pipeline retain
		//  2: the files are consumed by a second mapped stage and returned
		//  3: an unmapped stage returns a collection of structs; only the file
		//     member, projected through the collection, is returned
		sf := &Struct{Name: "SF", Fields: []Param{{Name: "f", Type: TFile}, {Name: "n", Type: TInt}}}
		p.Structs = append(p.Structs, sf)
		tsf := &Type{Kind: KStruct, Name: "SF"}
		geni := src(&Stage{Name: "GENI", Ins: []Param{{Name: "seed", Type: TInt}}, Outs: []Param{{Name: "arr", Type: wrap(TInt)}}})
		mk := src(&Stage{Name: "MK", Ins: []Param{{Name: "x", Type: TInt}}, Outs: []Param{{Name: "f", Type: TFile}, {Name: "s", Type: tsf}, {Name: "fs", Type: ArrayOf(TFile)}}})
		cons := src(&Stage{Name: "CONS", Ins: []Param{{Name: "f", Type: TFile}, {Name: "s", Type: tsf}}, Outs: []Param{{Name: "y", Type: TInt}}})
		p.Stages = []*Stage{geni, mk, cons}
		top := &Pipeline{Name: "TOP",
			Calls: []*Call{
				{Callee: "GENI", Binds: []Binding{{Id: "seed", Exp: lit(s1)}}},
				{Callee: "MK", Map: true, Volatile: g.pct(50), Binds: []Binding{{Id: "x", Exp: ref("GENI", "arr"), Split: true}}},
			}}
		switch fk {
		case 12:
			// (outside the rotation of NFileTemplates; C04 asks for it by number)
			// files whose paths travel in plain strings: MKP's outputs are a
			// string, a string array, a typed map of strings and a struct of
			// strings, no file-typed output at all; two successive readers, the
			// second one starting only after the first has finished
			ls := &Struct{Name: "LABELS", Fields: []Param{{Name: "where", Type: TString}, {Name: "also", Type: ArrayOf(TString)}, {Name: "bykey", Type: TMapOf(TString)}}}
			p.Structs = append(p.Structs, ls)
			tls := &Type{Kind: KStruct, Name: "LABELS"}
			mkp := src(&Stage{Name: "MKP", Ins: []Param{{Name: "x", Type: TInt}},
				Outs: []Param{{Name: "sp", Type: TString}, {Name: "sps", Type: ArrayOf(TString)}, {Name: "ls", Type: tls}}})
			consp := src(&Stage{Name: "CONSP", Ins: []Param{{Name: "sp", Type: TString}, {Name: "sps", Type: ArrayOf(TString)}, {Name: "ls", Type: tls}, {Name: "w", Type: TInt}},
				Outs: []Param{{Name: "y", Type: TInt}}})
			p.Stages = []*Stage{geni, mkp, consp}
			binds := func(w *Exp, split bool) []Binding {
				return []Binding{{Id: "sp", Exp: ref("MKP", "sp"), Split: true}, {Id: "sps", Exp: ref("MKP", "sps"), Split: true},
					{Id: "ls", Exp: ref("MKP", "ls"), Split: true}, {Id: "w", Exp: w, Split: split}}
			}
			top.Calls = []*Call{top.Calls[0],
				{Callee: "MKP", Map: true, Volatile: true, Binds: []Binding{{Id: "x", Exp: ref("GENI", "arr"), Split: true}}},
				{Callee: "CONSP", Alias: "FIRST", Map: true, Binds: binds(lit(s2), false)},
				{Callee: "CONSP", Alias: "SECOND", Map: true, Binds: binds(ref("FIRST", "y"), true)},
			}
			top.Outs = []Param{{Name: "y", Type: wrap(TInt)}}
			top.Ret = []Binding{{Id: "y", Exp: ref("SECOND", "y")}}
		case 11:
			// structs whose string / untyped map members come before their first
			// file member (and the same members the other way round), returned at
			// top level alone, in an array, in a typed map and inside another struct
			lf := &Struct{Name: "LABEL_FIRST", Fields: []Param{{Name: "label", Type: TString}, {Name: "meta", Type: TMap}, {Name: "notes", Type: TFile}, {Name: "n", Type: TInt}}}
			ff := &Struct{Name: "FILE_FIRST", Fields: []Param{{Name: "notes", Type: TFile}, {Name: "label", Type: TString}}}
			tlf, tff := &Type{Kind: KStruct, Name: "LABEL_FIRST"}, &Type{Kind: KStruct, Name: "FILE_FIRST"}
			wrapS := &Struct{Name: "WRAPS", Fields: []Param{{Name: "tag", Type: TString}, {Name: "inner", Type: tlf}}}
			p.Structs = append(p.Structs, lf, ff, wrapS)
			twr := &Type{Kind: KStruct, Name: "WRAPS"}
			mks := src(&Stage{Name: "MKS", Ins: []Param{{Name: "x", Type: TInt}},
				Outs: []Param{{Name: "lf", Type: tlf}, {Name: "ff", Type: tff}, {Name: "lfs", Type: ArrayOf(tlf)}, {Name: "lfm", Type: TMapOf(tlf)}, {Name: "wr", Type: twr}}})
			p.Stages = []*Stage{geni, mks}
			top.Calls = []*Call{top.Calls[0],
				{Callee: "MKS", Volatile: g.pct(50), Binds: []Binding{{Id: "x", Exp: lit(s2)}}},
			}
			top.Outs = []Param{{Name: "lf", Type: tlf}, {Name: "ff", Type: tff}, {Name: "lfs", Type: ArrayOf(tlf)}, {Name: "lfm", Type: TMapOf(tlf)}, {Name: "wr", Type: twr}}
			top.Ret = []Binding{{Id: "lf", Exp: ref("MKS", "lf")}, {Id: "ff", Exp: ref("MKS", "ff")}, {Id: "lfs", Exp: ref("MKS", "lfs")}, {Id: "lfm", Exp: ref("MKS", "lfm")}, {Id: "wr", Exp: ref("MKS", "wr")}}
		case 10:
			// a stage-level retain: MKR declares `retain (f, fs)`; its files are
			// read by one consumer and, only after that one has finished, by a
			// second one; they are neither returned nor retained by a pipeline
			mkr := src(&Stage{Name: "MKR", Ins: []Param{{Name: "x", Type: TInt}}, Outs: []Param{{Name: "f", Type: TFile}, {Name: "fs", Type: ArrayOf(TFile)}, {Name: "g", Type: TFile}},
				Retain: []string{"f", "fs"}})
			consa := src(&Stage{Name: "CONSR", Ins: []Param{{Name: "f", Type: TFile}, {Name: "fs", Type: ArrayOf(TFile)}, {Name: "g", Type: TFile}, {Name: "w", Type: TInt}}, Outs: []Param{{Name: "y", Type: TInt}}})
			p.Stages = []*Stage{geni, mkr, consa}
			top.Calls = []*Call{top.Calls[0],
				{Callee: "MKR", Map: true, Volatile: g.pct(50), Binds: []Binding{{Id: "x", Exp: ref("GENI", "arr"), Split: true}}},
				{Callee: "CONSR", Alias: "FIRST", Map: true, Binds: []Binding{{Id: "f", Exp: ref("MKR", "f"), Split: true}, {Id: "fs", Exp: ref("MKR", "fs"), Split: true}, {Id: "g", Exp: ref("MKR", "g"), Split: true}, {Id: "w", Exp: lit(s2)}}},
				{Callee: "CONSR", Alias: "SECOND", Map: true, Binds: []Binding{{Id: "f", Exp: ref("MKR", "f"), Split: true}, {Id: "fs", Exp: ref("MKR", "fs"), Split: true}, {Id: "g", Exp: ref("MKR", "g"), Split: true}, {Id: "w", Exp: ref("FIRST", "y"), Split: true}}},
			}
			top.Outs = []Param{{Name: "y", Type: wrap(TInt)}}
			top.Ret = []Binding{{Id: "y", Exp: ref("SECOND", "y")}}
		case 9:
			// fk 4 with forks made at run time: the mapped pipeline (and a
			// directly mapped producer/consumer pair) is split over GENI's output;
			// the checks make MK2's collections empty in some forks only
			mk2 := src(&Stage{Name: "MK2", Ins: []Param{{Name: "x", Type: TInt}}, Outs: []Param{{Name: "om", Type: TMapOf(TFile)}, {Name: "af", Type: ArrayOf(TFile)}, {Name: "om2", Type: TMapOf(TFile)}, {Name: "n", Type: TInt}}})
			cons2 := src(&Stage{Name: "CONS2", Ins: []Param{{Name: "om", Type: TMapOf(TFile)}, {Name: "af", Type: ArrayOf(TFile)}, {Name: "om2", Type: TMapOf(TFile)}}, Outs: []Param{{Name: "y", Type: TInt}}})
			cons3 := src(&Stage{Name: "CONS3", Ins: []Param{{Name: "af", Type: ArrayOf(TFile)}}, Outs: []Param{{Name: "y", Type: TInt}}})
			p.Stages = append(p.Stages, mk2, cons2, cons3)
			inner := &Pipeline{Name: "INNERF", Ins: []Param{{Name: "x", Type: TInt}}, Outs: []Param{{Name: "y", Type: TInt}},
				Calls: []*Call{
					{Callee: "MK2", Volatile: true, Binds: []Binding{{Id: "x", Exp: self("x")}}},
					{Callee: "CONS2", Binds: []Binding{{Id: "om", Exp: ref("MK2", "om")}, {Id: "af", Exp: ref("MK2", "af")}, {Id: "om2", Exp: ref("MK2", "om2")}}},
				},
				Ret: []Binding{{Id: "y", Exp: ref("CONS2", "y")}}}
			top.Calls = []*Call{top.Calls[0],
				{Callee: "INNERF", Map: true, Binds: []Binding{{Id: "x", Exp: ref("GENI", "arr"), Split: true}}},
				{Callee: "MK2", Alias: "MKD", Map: true, Volatile: true, Binds: []Binding{{Id: "x", Exp: ref("GENI", "arr"), Split: true}}},
				{Callee: "CONS3", Alias: "CONSD", Map: true, Binds: []Binding{{Id: "af", Exp: ref("MKD", "af"), Split: true}}},
			}
			top.Outs = []Param{{Name: "y", Type: wrap(TInt)}, {Name: "yd", Type: wrap(TInt)}}
			top.Ret = []Binding{{Id: "y", Exp: ref("INNERF", "y")}, {Id: "yd", Exp: ref("CONSD", "y")}}
			p.Stages = append(p.Stages[:1], p.Stages[3:]...) // MK, CONS unused here
			p.Pipelines = []*Pipeline{inner}
		case 8:
			// explicit output file names at top level and in a struct; with
			// cfg.POutClash some of them equal a sibling's default file name,
			// which the compiler must reject
			p.FileTypes = append(p.FileTypes, "txt")
			p.FileTypeOf = append(p.FileTypeOf, 0)
			ttxt := &Type{Kind: KUserFile, Name: "txt"}
			name := func(clash, other string) string {
				if g.pct(cfg.POutClash) {
					return clash
				}
				return other
			}
			fsn := &Struct{Name: "FSN", Fields: []Param{{Name: "f1", Type: TFile}, {Name: "f2", Type: ttxt, Help: "h", OutName: name("f1", "f2x.out")}, {Name: "fl", Type: ArrayOf(TFile)}}}
			p.Structs = append(p.Structs, fsn)
			tfsn := &Type{Kind: KStruct, Name: "FSN"}
			mkn := src(&Stage{Name: "MKN", Ins: []Param{{Name: "x", Type: TInt}}, Outs: []Param{{Name: "a", Type: TFile}, {Name: "b", Type: TFile}, {Name: "t", Type: ttxt}, {Name: "u", Type: TFile}, {Name: "s", Type: tfsn}}})
			p.Stages = []*Stage{mkn}
			top.Calls = []*Call{{Callee: "MKN", Binds: []Binding{{Id: "x", Exp: lit(s1)}}}}
			top.Outs = []Param{{Name: "a", Type: TFile}, {Name: "b2", Type: TFile, Help: "h", OutName: name("a", "b2_named.dat")},
				{Name: "t", Type: ttxt}, {Name: "u", Type: TFile, Help: "h", OutName: name("t.txt", "u.bin")}, {Name: "s", Type: tfsn}}
			if g.pct(50) {
				// the explicitly named one first
				top.Outs[0], top.Outs[1] = top.Outs[1], top.Outs[0]
			}
			top.Ret = []Binding{{Id: "a", Exp: ref("MKN", "a")}, {Id: "b2", Exp: ref("MKN", "b")}, {Id: "t", Exp: ref("MKN", "t")}, {Id: "u", Exp: ref("MKN", "u")}, {Id: "s", Exp: ref("MKN", "s")}}
		case 7:
			// one volatile producer, two consumers of its files: the checks give
			// CKILL a transient failure (its monitor is killed on the first
			// attempt, mrp retries it) while COK completes a moment later
			top.Calls = []*Call{
				{Callee: "MK", Volatile: true, Binds: []Binding{{Id: "x", Exp: lit(s1)}}},
				{Callee: "CONS", Alias: "COK", Binds: []Binding{{Id: "f", Exp: ref("MK", "f")}, {Id: "s", Exp: ref("MK", "s")}}},
				{Callee: "CONS", Alias: "CKILL", Binds: []Binding{{Id: "f", Exp: ref("MK", "f")}, {Id: "s", Exp: ref("MK", "s")}}},
			}
			top.Outs = []Param{{Name: "y1", Type: TInt}, {Name: "y2", Type: TInt}}
			top.Ret = []Binding{{Id: "y1", Exp: ref("COK", "y")}, {Id: "y2", Exp: ref("CKILL", "y")}}
			p.Stages = p.Stages[1:] // GENI unused
		case 6:
			// pass-through: a file made by a stage nested in a sub-pipeline and
			// a stage at top level that hands it on (the probe makes LINK's
			// outputs relative symlinks to its input when the spec says so);
			// both are returned, in both declaration orders
			link := src(&Stage{Name: "LINK", Ins: []Param{{Name: "f", Type: TFile}}, Outs: []Param{{Name: "g", Type: TFile}, {Name: "h", Type: TFile}}})
			p.Stages = append(p.Stages, link)
			inner := &Pipeline{Name: "INNERF", Ins: []Param{{Name: "x", Type: TInt}}, Outs: []Param{{Name: "f", Type: TFile}, {Name: "f2", Type: TFile}},
				Calls: []*Call{{Callee: "MK", Binds: []Binding{{Id: "x", Exp: self("x")}}}, {Callee: "MK", Alias: "MKB", Binds: []Binding{{Id: "x", Exp: self("x")}}}},
				Ret:   []Binding{{Id: "f", Exp: ref("MK", "f")}, {Id: "f2", Exp: ref("MKB", "f")}}}
			top.Calls = []*Call{
				{Callee: "INNERF", Binds: []Binding{{Id: "x", Exp: lit(s1)}}},
				{Callee: "LINK", Binds: []Binding{{Id: "f", Exp: ref("INNERF", "f")}}},
				{Callee: "LINK", Alias: "LINK2", Binds: []Binding{{Id: "f", Exp: ref("INNERF", "f2")}}},
			}
			top.Outs = []Param{{Name: "x", Type: TFile}, {Name: "y", Type: TFile}, {Name: "y2", Type: TFile}, {Name: "x2", Type: TFile}}
			top.Ret = []Binding{{Id: "x", Exp: ref("INNERF", "f")}, {Id: "y", Exp: ref("LINK", "g")}, {Id: "y2", Exp: ref("LINK2", "g")}, {Id: "x2", Exp: ref("INNERF", "f2")}}
			p.Stages = p.Stages[1:] // GENI unused
			p.Pipelines = []*Pipeline{inner}
		case 5:
			// volatile producers whose only consumer is disabled at run time by
			// another call's flag (three pairs, flags vary with the seed)
			top.Calls = nil
			top.Outs = nil
			p.Stages = append(p.Stages, gen)
			for k := 0; k < 3; k++ {
				fl, mkn, cn := fmt.Sprintf("FL%d", k), fmt.Sprintf("MK%d", k), fmt.Sprintf("CN%d", k)
				top.Calls = append(top.Calls,
					&Call{Callee: "GEN", Alias: fl, Binds: []Binding{{Id: "seed", Exp: lit(s1 + int64(k))}}},
					&Call{Callee: "MK", Alias: mkn, Volatile: true, Binds: []Binding{{Id: "x", Exp: lit(s2 + int64(k))}}},
					&Call{Callee: "CONS", Alias: cn, Disabled: ref(fl, "flag"), Binds: []Binding{{Id: "f", Exp: ref(mkn, "f")}, {Id: "s", Exp: ref(mkn, "s")}}})
				top.Outs = append(top.Outs, Param{Name: fmt.Sprintf("y%d", k), Type: TInt})
				top.Ret = append(top.Ret, Binding{Id: fmt.Sprintf("y%d", k), Exp: ref(cn, "y")})
			}
			p.Stages = p.Stages[1:] // GENI unused
		case 4:
			// statically forked producer (literal map source) whose collection-
			// typed file outputs are empty in some forks and not in others,
			// consumed inside the same fork of the enclosing pipeline
			mk2 := src(&Stage{Name: "MK2", Ins: []Param{{Name: "x", Type: TInt}}, Outs: []Param{{Name: "om", Type: TMapOf(TFile)}, {Name: "af", Type: ArrayOf(TFile)}, {Name: "om2", Type: TMapOf(TFile)}, {Name: "n", Type: TInt}}})
			cons2 := src(&Stage{Name: "CONS2", Ins: []Param{{Name: "om", Type: TMapOf(TFile)}, {Name: "af", Type: ArrayOf(TFile)}, {Name: "om2", Type: TMapOf(TFile)}}, Outs: []Param{{Name: "y", Type: TInt}}})
			p.Stages = append(p.Stages, mk2, cons2)
			inner := &Pipeline{Name: "INNERF", Ins: []Param{{Name: "x", Type: TInt}}, Outs: []Param{{Name: "y", Type: TInt}},
				Calls: []*Call{
					{Callee: "MK2", Volatile: true, Binds: []Binding{{Id: "x", Exp: self("x")}}},
					{Callee: "CONS2", Binds: []Binding{{Id: "om", Exp: ref("MK2", "om")}, {Id: "af", Exp: ref("MK2", "af")}, {Id: "om2", Exp: ref("MK2", "om2")}}},
				},
				Ret: []Binding{{Id: "y", Exp: ref("CONS2", "y")}}}
			arr := &Exp{Kind: EArray}
			for k := 0; k < 4; k++ {
				arr.Elems = append(arr.Elems, lit(int64(g.r.Intn(1000))))
			}
			top.Calls = []*Call{{Callee: "INNERF", Map: true, Binds: []Binding{{Id: "x", Exp: arr, Split: true}}}}
			top.Outs = []Param{{Name: "y", Type: ArrayOf(TInt)}}
			top.Ret = []Binding{{Id: "y", Exp: ref("INNERF", "y")}}
			p.Stages = p.Stages[3:] // GENI, MK, CONS unused here
			p.Pipelines = []*Pipeline{inner}
		case 3:
			mks := src(&Stage{Name: "MKS", Ins: []Param{{Name: "x", Type: wrap(TInt)}}, Outs: []Param{{Name: "ms", Type: TMapOf(tsf)}, {Name: "arrs", Type: ArrayOf(tsf)}, {Name: "g", Type: TFile}, {Name: "one", Type: tsf}}})
			p.Stages = append(p.Stages, mks)
			top.Calls = []*Call{top.Calls[0],
				{Callee: "MKS", Binds: []Binding{{Id: "x", Exp: ref("GENI", "arr")}}},
				{Callee: "CONS", Binds: []Binding{{Id: "f", Exp: ref("MKS", "g")}, {Id: "s", Exp: ref("MKS", "one")}}}}
			top.Outs = []Param{{Name: "fs", Type: TMapOf(TFile)}, {Name: "fa", Type: ArrayOf(TFile)}, {Name: "f1", Type: TFile}, {Name: "y", Type: TInt}}
			top.Ret = []Binding{{Id: "fs", Exp: ref("MKS", "ms", "f")}, {Id: "fa", Exp: ref("MKS", "arrs", "f")}, {Id: "f1", Exp: ref("MKS", "one", "f")}, {Id: "y", Exp: ref("CONS", "y")}}
		case 0:
			top.Outs = []Param{{Name: "f", Type: wrap(TFile)}, {Name: "s", Type: wrap(tsf)}, {Name: "fs", Type: wrap(ArrayOf(TFile))}}
			top.Ret = []Binding{{Id: "f", Exp: ref("MK", "f")}, {Id: "s", Exp: ref("MK", "s")}, {Id: "fs", Exp: ref("MK", "fs")}}
		case 1:
			top.Outs = []Param{{Name: "n", Type: wrap(TInt)}}
			top.Ret = []Binding{{Id: "n", Exp: ref("GENI", "arr")}}
			top.Retain = []*Exp{ref("MK", "f"), ref("MK", "fs")}
		case 2:
			top.Calls = append(top.Calls, &Call{Callee: "CONS", Map: true, Binds: []Binding{{Id: "f", Exp: ref("MK", "f"), Split: true}, {Id: "s", Exp: ref("MK", "s"), Split: true}}})
			top.Outs = []Param{{Name: "f", Type: wrap(TFile)}, {Name: "y", Type: wrap(TInt)}}
			top.Ret = []Binding{{Id: "f", Exp: ref("MK", "f")}, {Id: "y", Exp: ref("CONS", "y")}}
		}
		p.Pipelines = append(p.Pipelines, top)
	}
	if p.Top == nil {
		p.Top = &Call{Callee: "TOP"}
	}
	return p
}

// RefactorSkeleton builds a program whose callables have prefix-related
// parameter names (res / res_alt, v / v2) that are referenced through struct
// projections in bindings, disabled modifiers, returns and retains: the shapes
// a rename / remove edit must keep apart.
func RefactorSkeleton(seed int64, cfg *Config) *Program {
	g := &gen{r: rand.New(rand.NewSource(seed)), cfg: cfg, p: &Program{Seed: seed}, info: map[string]*pipeInfo{}}
	p := g.p
	src := func(st *Stage) *Stage {
		st.SrcLang, st.Src = cfg.SrcFor(st.Name)
		return st
	}
	base := []string{"res", "bam", "outp", "val"}[g.r.Intn(4)]
	ext := base + []string{"_alt", "2", "_index", "x"}[g.r.Intn(4)]
	inb := []string{"v", "arg", "in_a"}[g.r.Intn(3)]
	ine := inb + []string{"2", "_b", "s"}[g.r.Intn(3)]
	p.Structs = append(p.Structs, &Struct{Name: "SX", Fields: []Param{{Name: "a", Type: TInt}, {Name: "b", Type: TBool}, {Name: "f", Type: TFile}}})
	tsx := &Type{Kind: KStruct, Name: "SX"}
	outs := []Param{{Name: base, Type: tsx}, {Name: ext, Type: tsx}, {Name: "n", Type: TInt}}
	if g.pct(50) {
		outs[0], outs[1] = outs[1], outs[0]
	}
	mkr := src(&Stage{Name: "MKR", Ins: []Param{{Name: inb, Type: TInt}, {Name: ine, Type: TInt}}, Outs: outs})
	use := src(&Stage{Name: "USE", Ins: []Param{{Name: "x", Type: TInt}}, Outs: []Param{{Name: "y", Type: TInt}}})
	p.Stages = []*Stage{mkr, use}
	inner := &Pipeline{Name: "INNER", Ins: []Param{{Name: inb, Type: TInt}, {Name: ine, Type: TInt}},
		Outs: []Param{{Name: base, Type: tsx}, {Name: ext, Type: tsx}, {Name: "y", Type: TInt}},
		Calls: []*Call{
			{Callee: "MKR", Binds: []Binding{{Id: inb, Exp: self(inb)}, {Id: ine, Exp: self(ine)}}},
			{Callee: "USE", Alias: "U1", Binds: []Binding{{Id: "x", Exp: ref("MKR", ext, "a")}}},
			{Callee: "USE", Alias: "U2", Disabled: ref("MKR", ext, "b"), Binds: []Binding{{Id: "x", Exp: ref("MKR", base, "a")}}},
		},
		Ret:    []Binding{{Id: base, Exp: ref("MKR", base)}, {Id: ext, Exp: ref("MKR", ext)}, {Id: "y", Exp: ref("U1", "y")}},
		Retain: []*Exp{ref("MKR", base, "f"), ref("MKR", ext, "f")}}
	top := &Pipeline{Name: "TOP", Outs: []Param{{Name: "y", Type: TInt}, {Name: "a", Type: TInt}, {Name: "f", Type: TFile}},
		Calls: []*Call{
			{Callee: "INNER", Binds: []Binding{{Id: inb, Exp: lit(int64(g.r.Intn(100)))}, {Id: ine, Exp: lit(int64(g.r.Intn(100)))}}},
			{Callee: "USE", Alias: "U3", Disabled: ref("INNER", ext, "b"), Binds: []Binding{{Id: "x", Exp: ref("INNER", ext, "a")}}},
		},
		Ret: []Binding{{Id: "y", Exp: ref("U3", "y")}, {Id: "a", Exp: ref("INNER", base, "a")}, {Id: "f", Exp: ref("INNER", ext, "f")}}}
	// a call disabled by a pipeline input that nothing else uses, next to an
	// argument bound to a literal (removing that argument must leave the flag
	// and its bindings up the chain alone)
	work := src(&Stage{Name: "WORK", Ins: []Param{{Name: "x", Type: TInt}, {Name: "extra", Type: TInt}}, Outs: []Param{{Name: "y", Type: TInt}}})
	p.Stages = append(p.Stages, work)
	gated := &Pipeline{Name: "GATED", Ins: []Param{{Name: "x", Type: TInt}, {Name: "skipit", Type: TBool}, {Name: "skipit_other", Type: TBool}},
		Outs: []Param{{Name: "y", Type: TInt}, {Name: "z", Type: TInt}},
		Calls: []*Call{
			{Callee: "WORK", Disabled: self("skipit"), Binds: []Binding{{Id: "x", Exp: self("x")}, {Id: "extra", Exp: lit(3)}}},
			{Callee: "USE", Alias: "UG", Disabled: self("skipit_other"), Binds: []Binding{{Id: "x", Exp: self("x")}}},
		},
		Ret: []Binding{{Id: "y", Exp: ref("WORK", "y")}, {Id: "z", Exp: ref("UG", "y")}}}
	outerg := &Pipeline{Name: "OUTERG", Ins: []Param{{Name: "x", Type: TInt}, {Name: "skipit", Type: TBool}, {Name: "skipit_other", Type: TBool}},
		Outs:  []Param{{Name: "y", Type: TInt}, {Name: "z", Type: TInt}},
		Calls: []*Call{{Callee: "GATED", Binds: []Binding{{Id: "x", Exp: self("x")}, {Id: "skipit", Exp: self("skipit")}, {Id: "skipit_other", Exp: self("skipit_other")}}}},
		Ret:   []Binding{{Id: "y", Exp: ref("GATED", "y")}, {Id: "z", Exp: ref("GATED", "z")}}}
	top.Calls = append(top.Calls, &Call{Callee: "OUTERG", Binds: []Binding{{Id: "x", Exp: lit(int64(g.r.Intn(100)))},
		{Id: "skipit", Exp: &Exp{Kind: EBool, B: false}}, {Id: "skipit_other", Exp: &Exp{Kind: EBool, B: g.pct(50)}}}})
	top.Outs = append(top.Outs, Param{Name: "gy", Type: TInt}, Param{Name: "gz", Type: TInt})
	top.Ret = append(top.Ret, Binding{Id: "gy", Exp: ref("OUTERG", "y")}, Binding{Id: "gz", Exp: ref("OUTERG", "z")})
	// a pipeline that itself calls a pipeline (a candidate for trimming unused
	// outputs) whose struct outputs are used only through projections: two
	// members deep (rec.inner.a), one member deep (rec_one.label); `spare` is
	// not used at all
	p.Structs = append(p.Structs, &Struct{Name: "REC", Fields: []Param{{Name: "inner", Type: tsx}, {Name: "label", Type: TInt}}})
	trec := &Type{Kind: KStruct, Name: "REC"}
	mkrec := src(&Stage{Name: "MKREC", Ins: []Param{{Name: "v", Type: TInt}}, Outs: []Param{{Name: "rec", Type: trec}, {Name: "spare", Type: TInt}}})
	p.Stages = append(p.Stages, mkrec)
	leafr := &Pipeline{Name: "LEAFR", Ins: []Param{{Name: "v", Type: TInt}}, Outs: []Param{{Name: "rec", Type: trec}, {Name: "spare", Type: TInt}},
		Calls: []*Call{{Callee: "MKREC", Binds: []Binding{{Id: "v", Exp: self("v")}}}},
		Ret:   []Binding{{Id: "rec", Exp: ref("MKREC", "rec")}, {Id: "spare", Exp: ref("MKREC", "spare")}}}
	midr := &Pipeline{Name: "MIDR", Ins: []Param{{Name: "v", Type: TInt}},
		Outs:  []Param{{Name: "rec", Type: trec}, {Name: "rec_one", Type: trec}, {Name: "spare", Type: TInt}},
		Calls: []*Call{{Callee: "LEAFR", Binds: []Binding{{Id: "v", Exp: self("v")}}}},
		Ret:   []Binding{{Id: "rec", Exp: ref("LEAFR", "rec")}, {Id: "rec_one", Exp: ref("LEAFR", "rec")}, {Id: "spare", Exp: ref("LEAFR", "spare")}}}
	top.Calls = append(top.Calls,
		&Call{Callee: "MIDR", Binds: []Binding{{Id: "v", Exp: lit(int64(g.r.Intn(100)))}}},
		&Call{Callee: "USE", Alias: "UR", Binds: []Binding{{Id: "x", Exp: ref("MIDR", "rec", "inner", "a")}}},
		&Call{Callee: "USE", Alias: "UR1", Binds: []Binding{{Id: "x", Exp: ref("MIDR", "rec_one", "label")}}})
	top.Outs = append(top.Outs, Param{Name: "ur", Type: TInt}, Param{Name: "ur1", Type: TInt})
	top.Ret = append(top.Ret, Binding{Id: "ur", Exp: ref("UR", "y")}, Binding{Id: "ur1", Exp: ref("UR1", "y")})
	// a struct-typed pipeline input handed on member by member through a
	// wildcard (`* = self.sx_in`), one and two pipeline levels deep
	wsx := src(&Stage{Name: "WSX", Ins: []Param{{Name: "a", Type: TInt}, {Name: "b", Type: TBool}, {Name: "f", Type: TFile}}, Outs: []Param{{Name: "wy", Type: TInt}}})
	p.Stages = append(p.Stages, wsx)
	fwd := &Pipeline{Name: "FWD", Ins: []Param{{Name: "sx_in", Type: tsx}, {Name: "sx_in2", Type: tsx}}, Outs: []Param{{Name: "wy", Type: TInt}, {Name: "wy2", Type: TInt}},
		Calls: []*Call{
			{Callee: "WSX", Binds: []Binding{{Id: "*", Exp: self("sx_in")}}},
			{Callee: "WSX", Alias: "WSX2", Binds: []Binding{{Id: "*", Exp: self("sx_in2")}}},
		},
		Ret: []Binding{{Id: "wy", Exp: ref("WSX", "wy")}, {Id: "wy2", Exp: ref("WSX2", "wy")}}}
	outerf := &Pipeline{Name: "OUTERF", Ins: []Param{{Name: "sx_in", Type: tsx}}, Outs: []Param{{Name: "wy", Type: TInt}, {Name: "wy2", Type: TInt}},
		Calls: []*Call{{Callee: "FWD", Binds: []Binding{{Id: "sx_in", Exp: self("sx_in")}, {Id: "sx_in2", Exp: self("sx_in")}}}},
		Ret:   []Binding{{Id: "*", Exp: ref("FWD")}}}
	sxLit := &Exp{Kind: EStruct, Keys: []string{"a", "b", "f"}, Elems: []*Exp{lit(int64(g.r.Intn(100))), {Kind: EBool, B: g.pct(50)}, {Kind: ENull}}}
	top.Calls = append(top.Calls, &Call{Callee: "OUTERF", Binds: []Binding{{Id: "sx_in", Exp: sxLit}}})
	top.Outs = append(top.Outs, Param{Name: "fwy", Type: TInt}, Param{Name: "fwy2", Type: TInt})
	top.Ret = append(top.Ret, Binding{Id: "fwy", Exp: ref("OUTERF", "wy")}, Binding{Id: "fwy2", Exp: ref("OUTERF", "wy2")})
	p.Pipelines = []*Pipeline{inner, gated, outerg, leafr, midr, fwd, outerf, top}
	p.Top = &Call{Callee: "TOP"}
	return p
}

// SplitIntoFiles moves every declaration out of main.mro into the named
// include files (in declaration order, so that includes stay acyclic).
func (p *Program) SplitIntoFiles(names ...string) {
	if len(names) == 0 {
		return
	}
	p.NFiles = len(names)
	p.FileNames = append([]string(nil), names...)
	total := len(p.Structs) + len(p.Stages) + len(p.Pipelines)
	if p.NFiles > total {
		p.NFiles = total
		p.FileNames = p.FileNames[:total]
	}
	k := 0
	assign := func() int {
		f := k * p.NFiles / total
		k++
		return f
	}
	for _, s := range p.Structs {
		s.File = assign()
	}
	for _, s := range p.Stages {
		s.File = assign()
	}
	for _, s := range p.Pipelines {
		s.File = assign()
	}
}
