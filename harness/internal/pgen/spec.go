package pgen

import (
	"encoding/json"
	"fmt"
)

// JSON form of types and stage signatures, shared between the harness and
// the probe stage executable.

type TypeJSON struct {
	K string    `json:"k"`
	N string    `json:"n,omitempty"`
	E *TypeJSON `json:"e,omitempty"`
}

func (t *Type) ToJSON() *TypeJSON {
	switch t.Kind {
	case KArray:
		return &TypeJSON{K: "array", E: t.Elem.ToJSON()}
	case KTMap:
		return &TypeJSON{K: "tmap", E: t.Elem.ToJSON()}
	case KStruct:
		return &TypeJSON{K: "struct", N: t.Name}
	case KUserFile:
		return &TypeJSON{K: "userfile", N: t.Name}
	}
	return &TypeJSON{K: t.String()}
}

func (j *TypeJSON) ToType() *Type {
	switch j.K {
	case "array":
		return ArrayOf(j.E.ToType())
	case "tmap":
		return TMapOf(j.E.ToType())
	case "struct":
		return &Type{Kind: KStruct, Name: j.N}
	case "userfile":
		return &Type{Kind: KUserFile, Name: j.N}
	case "int":
		return TInt
	case "float":
		return TFloat
	case "string":
		return TString
	case "bool":
		return TBool
	case "path":
		return TPath
	case "file":
		return TFile
	case "map":
		return TMap
	}
	panic("bad type json " + j.K)
}

type ParamJSON struct {
	Name string    `json:"name"`
	Type *TypeJSON `json:"type"`
}

type StageSpec struct {
	Ins       []ParamJSON `json:"ins"`
	Outs      []ParamJSON `json:"outs"`
	Split     bool        `json:"split"`
	ChunkIns  []ParamJSON `json:"chunk_ins"`
	ChunkOuts []ParamJSON `json:"chunk_outs"`
}

// Rule modifies the behaviour of matching jobs.
type Rule struct {
	// Match: all non-empty fields must match.
	Stage     string `json:"stage,omitempty"`
	Phase     string `json:"phase,omitempty"`      // split|main|join
	Job       string `json:"job,omitempty"`        // logical job id (canonical relative metadata path), exact
	Attempt   int    `json:"attempt,omitempty"`    // 1-based; 0 = any
	JobPrefix string `json:"job_prefix,omitempty"` // logical job id starts with this
	// Effects.
	DelayBeforeMs int     `json:"delay_before_ms,omitempty"`
	DelayAfterMs  int     `json:"delay_after_ms,omitempty"`
	Fail          string  `json:"fail,omitempty"`     // see probe
	KillMrp       string  `json:"kill_mrp,omitempty"` // KILL|TERM at: "start" or "outs"
	KillMrpAt     string  `json:"kill_mrp_at,omitempty"`
	Threads       float64 `json:"threads,omitempty"` // split: request for chunks
	MemGB         float64 `json:"mem_gb,omitempty"`
	Chunks        int     `json:"chunks,omitempty"`    // split: force chunk count (+1; 0 = hash)
	EmptyPct      int     `json:"empty_pct,omitempty"` // chance that a collection-typed output (top nesting level) is empty
	Bools         string  `json:"bools,omitempty"`     // "true" / "false": every bool output leaf of the job has this value
	LastRow       string  `json:"last_row,omitempty"`  // "empty" / "null": the last element of every collection of collections produced by the job is [] / {} resp. null
	Len           int     `json:"len,omitempty"`       // force the length of every collection-typed output (top nesting level) (+1; 0 = hash)
}

type Spec struct {
	Structs map[string][]ParamJSON `json:"structs"`
	Stages  map[string]*StageSpec  `json:"stages"`
	KeyPool []string               `json:"key_pool"`
	// Random delays: each job sleeps up to this many ms (hash/seed derived)
	// before working and before finishing.
	DelayMaxMs int    `json:"delay_max_ms"`
	Seed       int64  `json:"seed"`
	Rules      []Rule `json:"rules"`
	PsRoot     string `json:"ps_root"`
	// Probability (percent) knobs for generated outputs.
	PNull        int `json:"p_null"`
	PMissingFile int `json:"p_missing_file"`
	MaxLen       int `json:"max_len"`
	MaxChunks    int `json:"max_chunks"`
	// If set, collection lengths / chunk counts are drawn from these
	// (boundary values) instead of 0..Max.
	LenChoices   []int `json:"len_choices,omitempty"`
	Len1Choices  []int `json:"len1_choices,omitempty"` // lengths of collections nested directly in a collection
	ChunkChoices []int `json:"chunk_choices,omitempty"`
	// Write extra unreferenced files, tmp files.
	ExtraFiles bool `json:"extra_files"`
	// Percentage of file outputs that are relative symlinks to an input file
	// of the job (only used with VDR off: martian does not track such links).
	PassThroughPct int `json:"pass_through_pct,omitempty"`
	// NestFilesPct: chance that an output file is written in a sub-directory
	// of the job's files directory (its own directory with a one-character
	// file name, or files/n1/n2/).
	NestFilesPct int `json:"nest_files_pct,omitempty"`
	// PhysicalPathsPct: chance that a stage names an output file by its physical
	// path (symlinks in the directory part resolved, as `pwd -P` / realpath
	// would) instead of the path it was handed.
	PhysicalPathsPct int `json:"physical_paths_pct,omitempty"`
	// PathInStringPct: chance that a string-typed output leaf holds the path of a
	// file the stage wrote.
	PathInStringPct int `json:"path_in_string_pct,omitempty"`
	// SymlinkedParent: the pipestance directory is reached through a symlinked
	// parent directory (<case>/link -> <case>/real).
	SymlinkedParent bool `json:"symlinked_parent,omitempty"`
	// Set by the probe from a matching rule: value of every bool leaf.
	ForceBool *bool  `json:"-"`
	EmptyPct  int    `json:"-"`
	ForceLen  int    `json:"-"` // +1; 0 = not forced
	LastRow   string `json:"-"` // "empty" / "null" (from a matching rule)
	// Side directory for files created outside the pipestance.
	OutsideDir string `json:"outside_dir,omitempty"`
	// Arrays produced have distinct elements by construction.
}

func params(ps []Param) []ParamJSON {
	out := make([]ParamJSON, 0, len(ps))
	for _, p := range ps {
		out = append(out, ParamJSON{Name: p.Name, Type: p.Type.ToJSON()})
	}
	return out
}

// MakeSpec derives the probe spec from a program.
func (p *Program) MakeSpec() *Spec {
	s := &Spec{Structs: map[string][]ParamJSON{}, Stages: map[string]*StageSpec{},
		PNull: 4, PMissingFile: 0, MaxLen: 3, MaxChunks: 3}
	for _, st := range p.Structs {
		s.Structs[st.Name] = params(st.Fields)
	}
	for _, st := range p.Stages {
		s.Stages[st.Name] = &StageSpec{
			Ins: params(st.Ins), Outs: params(st.Outs), Split: st.Split,
			ChunkIns: params(st.ChunkIns), ChunkOuts: params(st.ChunkOuts),
		}
	}
	return s
}

func (s *Spec) Marshal() []byte {
	b, err := json.MarshalIndent(s, "", " ")
	if err != nil {
		panic(fmt.Sprint(err))
	}
	return b
}
