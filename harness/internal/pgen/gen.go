package pgen

import (
	"fmt"
	"math/rand"
	"strings"
)

// Config steers the generator.  Probabilities are in percent.
type Config struct {
	MaxStructs    int
	MaxStages     int
	MaxPipelines  int
	MaxCalls      int
	MaxParams     int
	MaxTypeDepth  int
	PMapCall      int
	PDisabled     int
	PSplitStage   int
	PRefInLiteral int
	PLiteral      int // use a literal even when a ref is available
	PNullLit      int
	PFileTypes    int  // bias towards file-like leaf types
	ForceSplit    bool // skeletons: USE2 always splits
	POutClash     int  // explicit out name equal to a sibling's default output file name (the compiler must reject it)
	PPreflight    int
	PVolatile     int
	PRetain       int
	PResources    int
	PAlias        int
	PWildcard     int
	PNarrow       int // struct narrowing
	PFlowTypes    int // stage ins typed after what other stages produce
	PTwin         int // twin calls (same callee and bindings) giving same-shaped sources
	PTopMap       int // the top-level call is a map call over a literal collection
	PyStagePct    int // used by the harness when choosing SrcFor: share of stages written in Python
	PProject      int
	// Allow map calls of pipelines which themselves contain map calls
	// where one of the dimensions is only known at run time.
	AllowNestedDynamic bool
	// Allow map calls nested in mapped pipelines at all.
	AllowNestedMap bool
	// Allow `disabled` bound to a value that is per-fork in a mapped
	// pipeline over a run-time collection.
	AllowDynamicDisabledInMap bool
	// Allow map calls over typed maps to be nested with other map calls
	// (array-outer x map-inner fork ids are broken in the unchanged tree:
	// C11 finding).
	AllowMixedNestedMap bool
	MultiFile           bool
	HostileStrings      bool
	KeyPool             []string
	SrcFor              func(stage string) (lang, src string)
	// Only types whose literals the probe can shape.
	// Wide map literals (9..WideMaps keys) to expose unsorted traversals.
	WideMaps     int
	NoUntypedMap bool
	BigInts      bool
}

func DefaultConfig() *Config {
	return &Config{
		MaxStructs: 3, MaxStages: 5, MaxPipelines: 3, MaxCalls: 4, MaxParams: 3,
		MaxTypeDepth: 2, PMapCall: 35, PDisabled: 20, PSplitStage: 35,
		PRefInLiteral: 15, PLiteral: 15, PNullLit: 6, PFileTypes: 25,
		PPreflight: 8, PVolatile: 25, PRetain: 15, PResources: 30, PAlias: 25,
		PWildcard: 10, PNarrow: 30, PProject: 40, PFlowTypes: 60, PTwin: 15, AllowNestedMap: true,
		KeyPool: []string{"a", "b", "k1", "key two", "z9"},
		SrcFor:  func(s string) (string, string) { return "comp", "/bin/true " + s },
	}
}

type envEntry struct {
	exp *Exp
	typ *Type
	// dyn: the value's collection sizes are only known at run time.
	dyn bool
	// from a call (not pipeline input)
	fromCall string
	// twin group: calls with the same callee and bindings produce
	// identical values, hence collections of identical size
	twin string
}

type gen struct {
	pool     []*Type
	inTypes  []*Type
	outTypes []*Type
	curPipe  *Pipeline
	curUsed  map[string]bool
	curLevel int
	curEnv   *[]envEntry
	r        *rand.Rand
	cfg      *Config
	p        *Program
	nid      int
	info     map[string]*pipeInfo
}

type pipeInfo struct {
	hasMapMode    bool // contains (transitively) a map call over a typed map
	hasMap        bool
	hasDynamicMap bool
	hasDisabled   bool
}

func (g *gen) pct(n int) bool { return g.r.Intn(100) < n }

var idPool = []string{"alpha", "beta", "gamma", "delta", "eps", "zeta", "eta", "theta",
	"iota", "kappa", "lam", "mu", "nu", "xi", "omi", "pi", "rho", "sigma", "tau", "ups",
	"phi", "chi", "psi", "omega", "threads", "special", "strict", "retain", "local", "volatile", "struct", "split", "using", "mem_gb", "vmem_gb", "disabled", "preflight", "exec", "comp", "filetype"}

func (g *gen) id(prefix string, used map[string]bool) string {
	for {
		var s string
		if g.pct(70) {
			s = idPool[g.r.Intn(len(idPool))]
			if g.pct(40) {
				s += fmt.Sprint(g.r.Intn(10))
			}
		} else {
			g.nid++
			s = fmt.Sprintf("%s%d", prefix, g.nid)
		}
		if !used[s] {
			used[s] = true
			return s
		}
	}
}

func (g *gen) upperName(prefix string) string {
	g.nid++
	return fmt.Sprintf("%s%d", prefix, g.nid)
}

// structName: one struct name in eight is long (25-60 characters), so that
// type spellings such as map<NAME[]>[] exceed any column-width assumption.
func (g *gen) structName() string {
	n := g.upperName("S")
	if g.pct(12) {
		n += "_" + strings.Repeat("LONG_STRUCT_TYPE_NAME_", 3)[:20+g.r.Intn(38)]
		n = strings.TrimRight(n, "_")
	}
	return n
}

func (g *gen) leafType() *Type {
	if g.pct(g.cfg.PFileTypes) {
		switch g.r.Intn(3) {
		case 0:
			return TFile
		case 1:
			return TPath
		default:
			if len(g.p.FileTypes) > 0 {
				return &Type{Kind: KUserFile, Name: g.p.FileTypes[g.r.Intn(len(g.p.FileTypes))]}
			}
			return TFile
		}
	}
	switch g.r.Intn(9) {
	case 0, 1:
		return TInt
	case 2:
		return TFloat
	case 3, 4:
		return TString
	case 5:
		return TBool
	case 6:
		if !g.cfg.NoUntypedMap && g.pct(30) {
			return TMap
		}
		return TInt
	default:
		if len(g.p.Structs) > 0 {
			s := g.p.Structs[g.r.Intn(len(g.p.Structs))]
			return &Type{Kind: KStruct, Name: s.Name}
		}
		return TString
	}
}

func (g *gen) genType(depth int) *Type {
	if len(g.pool) > 0 && g.pct(80) {
		return g.pool[g.r.Intn(len(g.pool))]
	}
	t := g.genType0(depth)
	g.pool = append(g.pool, t)
	if g.pct(60) {
		if g.pct(65) || !t.CanBeTMapElem() {
			g.pool = append(g.pool, ArrayOf(t))
		} else {
			g.pool = append(g.pool, TMapOf(t))
		}
	}
	return t
}

func (g *gen) genType0(depth int) *Type {
	t := g.leafType()
	for d := 0; d < depth; d++ {
		switch g.r.Intn(4) {
		case 0:
			t = ArrayOf(t)
		case 1:
			if t.CanBeTMapElem() {
				t = TMapOf(t)
			}
		}
	}
	return t
}

var hostileStrings = []string{"", " ", "a b", "q\"uote", "back\\slash", "new\nline", "tab\t", "é", "日本", "$HOME", "`x`", "%2E", "a.b", "a/b", "\u0001", "'", "{}", "null"}

func (g *gen) genString() string {
	if g.cfg.HostileStrings && g.pct(40) {
		return hostileStrings[g.r.Intn(len(hostileStrings))]
	}
	return fmt.Sprintf("s%d", g.r.Intn(1000))
}

func (g *gen) genKeys() []string {
	n := g.r.Intn(4)
	if g.cfg.WideMaps > 9 && g.pct(60) {
		n = 9 + g.r.Intn(g.cfg.WideMaps-8)
	}
	if n > len(g.cfg.KeyPool) {
		n = len(g.cfg.KeyPool)
	}
	perm := g.r.Perm(len(g.cfg.KeyPool))[:n]
	ks := make([]string, n)
	for i, j := range perm {
		ks[i] = g.cfg.KeyPool[j]
	}
	return ks
}

// genLit generates a literal of type t.  env (may be nil) supplies refs for
// literal-embedded references.
func (g *gen) genLit(t *Type, env []envEntry, depth int) *Exp {
	if g.pct(g.cfg.PNullLit) {
		return &Exp{Kind: ENull}
	}
	if env != nil && depth > 0 && g.pct(g.cfg.PRefInLiteral) {
		if e := g.pickRef(t, env, false); e != nil {
			return e.exp
		}
	}
	switch t.Kind {
	case KInt:
		switch g.r.Intn(8) {
		case 0:
			return &Exp{Kind: EInt, I: 0}
		case 1:
			return &Exp{Kind: EInt, I: -int64(g.r.Intn(1000))}
		case 2:
			if g.cfg.BigInts {
				return &Exp{Kind: EInt, I: int64(1)<<53 + int64(g.r.Intn(100))}
			}
		}
		return &Exp{Kind: EInt, I: int64(g.r.Intn(100000))}
	case KFloat:
		switch g.r.Intn(4) {
		case 0:
			return &Exp{Kind: EInt, I: int64(g.r.Intn(100))}
		case 1:
			return &Exp{Kind: EFloat, F: float64(g.r.Intn(1000)) / 8}
		case 2:
			return &Exp{Kind: EFloat, F: -float64(g.r.Intn(1000)) / 16}
		}
		return &Exp{Kind: EFloat, F: float64(g.r.Intn(100000)) / 1024 * 1e3}
	case KString:
		return &Exp{Kind: EString, S: g.genString()}
	case KBool:
		return &Exp{Kind: EBool, B: g.pct(50)}
	case KPath, KFile, KUserFile:
		if g.pct(30) {
			return &Exp{Kind: ENull}
		}
		return &Exp{Kind: EString, S: fmt.Sprintf("/nonexistent/lit%d", g.r.Intn(1000))}
	case KMap:
		e := &Exp{Kind: EMap}
		for _, k := range g.genKeys() {
			e.Keys = append(e.Keys, k)
			var v *Exp
			switch g.r.Intn(4) {
			case 0:
				v = &Exp{Kind: EInt, I: int64(g.r.Intn(100))}
			case 1:
				v = &Exp{Kind: EString, S: g.genString()}
			case 2:
				v = &Exp{Kind: EArray, Elems: []*Exp{{Kind: EInt, I: 1}, {Kind: EString, S: "x"}}}
			default:
				v = &Exp{Kind: EBool, B: true}
			}
			e.Elems = append(e.Elems, v)
		}
		return e
	case KStruct:
		s := g.p.Struct(t.Name)
		e := &Exp{Kind: EStruct}
		for _, f := range s.Fields {
			e.Keys = append(e.Keys, f.Name)
			e.Elems = append(e.Elems, g.genLit(f.Type, env, depth+1))
		}
		return e
	case KArray:
		n := g.r.Intn(4)
		e := &Exp{Kind: EArray, Elems: []*Exp{}}
		for i := 0; i < n; i++ {
			e.Elems = append(e.Elems, g.genLit(t.Elem, env, depth+1))
		}
		return e
	case KTMap:
		e := &Exp{Kind: EMap}
		for _, k := range g.genKeys() {
			e.Keys = append(e.Keys, k)
			e.Elems = append(e.Elems, g.genLit(t.Elem, env, depth+1))
		}
		return e
	}
	return &Exp{Kind: ENull}
}

// Assignable: can a value of type src be bound to a parameter of type dst?
func (g *gen) assignable(dst, src *Type) bool {
	return Assignable(g.p, dst, src, g.cfg.PNarrow > 0)
}

func Assignable(p *Program, dst, src *Type, narrow bool) bool {
	switch dst.Kind {
	case KInt, KBool:
		return src.Kind == dst.Kind
	case KFloat:
		return src.Kind == KFloat || src.Kind == KInt
	case KString, KPath, KFile:
		return src.Kind == dst.Kind
	case KUserFile:
		return src.Kind == KUserFile && src.Name == dst.Name
	case KMap:
		return src.Kind == KMap
	case KArray:
		return src.Kind == KArray && Assignable(p, dst.Elem, src.Elem, narrow)
	case KTMap:
		return src.Kind == KTMap && Assignable(p, dst.Elem, src.Elem, narrow)
	case KStruct:
		if src.Kind != KStruct {
			return false
		}
		if src.Name == dst.Name {
			return true
		}
		if !narrow {
			return false
		}
		ss, ds := p.Struct(src.Name), p.Struct(dst.Name)
		for _, df := range ds.Fields {
			found := false
			for _, sf := range ss.Fields {
				if sf.Name == df.Name {
					if !Assignable(p, df.Type, sf.Type, narrow) {
						return false
					}
					found = true
				}
			}
			if !found {
				return false
			}
		}
		return true
	}
	return false
}

// expandEnv adds struct-field projections of entries.
func (g *gen) expandEnv(env []envEntry) []envEntry {
	out := append([]envEntry(nil), env...)
	var rec func(e envEntry, depth int)
	rec = func(e envEntry, depth int) {
		if depth > 2 {
			return
		}
		// Find the struct under arrays/maps.
		t := e.typ
		var wrap []Kind
		for t.Kind == KArray || t.Kind == KTMap {
			wrap = append(wrap, t.Kind)
			t = t.Elem
		}
		if t.Kind != KStruct {
			return
		}
		for _, f := range g.p.Struct(t.Name).Fields {
			ft := f.Type
			ok := true
			for i := len(wrap) - 1; i >= 0; i-- {
				if wrap[i] == KArray {
					ft = ArrayOf(ft)
				} else {
					if !ft.CanBeTMapElem() {
						ok = false
						break
					}
					ft = TMapOf(ft)
				}
			}
			if !ok {
				continue
			}
			ne := envEntry{
				exp: &Exp{Kind: e.exp.Kind, Id: e.exp.Id,
					Path: append(append([]string(nil), e.exp.Path...), f.Name)},
				typ: ft, dyn: e.dyn, fromCall: e.fromCall, twin: e.twin,
			}
			out = append(out, ne)
			rec(ne, depth+1)
		}
	}
	if g.cfg.PProject > 0 {
		for _, e := range env {
			rec(e, 0)
		}
	}
	return out
}

func (g *gen) pickRef(t *Type, env []envEntry, exactOnly bool) *envEntry {
	var cands []int
	for i := range env {
		if exactOnly {
			if env[i].typ.Equal(t) {
				cands = append(cands, i)
			}
		} else if g.assignable(t, env[i].typ) {
			cands = append(cands, i)
		}
	}
	if len(cands) == 0 {
		return nil
	}
	// Prefer refs from calls and (by PProject) projections.
	var fromCalls []int
	for _, k := range cands {
		if env[k].fromCall != "" {
			fromCalls = append(fromCalls, k)
		}
	}
	if len(fromCalls) > 0 && g.pct(80) {
		cands = fromCalls
	}
	i := cands[g.r.Intn(len(cands))]
	if len(env[i].exp.Path) > 1 && !g.pct(g.cfg.PProject) {
		i = cands[g.r.Intn(len(cands))]
	}
	return &env[i]
}

func (g *gen) genExp(t *Type, env []envEntry) *Exp {
	if !g.pct(g.cfg.PLiteral) {
		if e := g.pickRef(t, env, false); e != nil && (e.fromCall != "" || !g.pct(25)) {
			return e.exp
		}
		if e := g.newInput(t); e != nil {
			return e
		}
		if e := g.pickRef(t, env, false); e != nil {
			return e.exp
		}
	}
	return g.genLit(t, env, 0)
}

// newInput adds an input parameter of type t to the pipeline being
// generated and returns a reference to it.
func (g *gen) newInput(t *Type) *Exp {
	pl := g.curPipe
	if pl == nil || len(pl.Ins) >= g.cfg.MaxParams+2 {
		return nil
	}
	in := Param{Name: g.id("pin", g.curUsed), Type: t}
	if g.pct(15) {
		in.Help = "input " + in.Name
	}
	pl.Ins = append(pl.Ins, in)
	e := &Exp{Kind: ERefSelf, Id: in.Name}
	*g.curEnv = append(*g.curEnv, envEntry{exp: e, typ: t, dyn: g.curLevel > 0})
	return e
}

func (g *gen) genParams(n int, used map[string]bool, prefix string, out bool) []Param {
	ps := make([]Param, 0, n)
	for i := 0; i < n; i++ {
		p := Param{Name: g.id(prefix, used), Type: g.genType(g.r.Intn(g.cfg.MaxTypeDepth + 1))}
		if i > 0 && g.pct(25) {
			// a name extending a sibling's name (prefix-related identifiers)
			n2 := ps[i-1].Name + []string{"_alt", "2", "_x"}[g.r.Intn(3)]
			if !used[n2] {
				delete(used, p.Name)
				used[n2] = true
				p.Name = n2
			}
		}
		if prefix == "in" && len(g.outTypes) > 0 && g.pct(g.cfg.PFlowTypes) {
			// consume what some stage produces: the type itself or the
			// element type of a collection it produces
			t := g.outTypes[g.r.Intn(len(g.outTypes))]
			if (t.Kind == KArray || t.Kind == KTMap) && g.pct(60) {
				t = t.Elem
			}
			p.Type = t
		} else if prefix == "out" && g.pct(g.cfg.PFlowTypes/2) {
			// produce a collection of something a stage consumes
			var t *Type
			if len(g.inTypes) > 0 && g.pct(70) {
				t = g.inTypes[g.r.Intn(len(g.inTypes))]
			} else {
				t = p.Type
			}
			if g.pct(70) || !t.CanBeTMapElem() {
				p.Type = ArrayOf(t)
			} else {
				p.Type = TMapOf(t)
			}
		} else if prefix == "out" && g.cfg.PDisabled > 0 && g.pct(g.cfg.PDisabled/2) {
			p.Type = TBool
		}
		if prefix == "in" {
			g.inTypes = append(g.inTypes, p.Type)
		} else if prefix == "out" {
			g.outTypes = append(g.outTypes, p.Type)
		}
		if g.pct(15) {
			p.Help = "help for " + p.Name
		}
		if out && p.Type.IsFileLike() && g.pct(25) {
			if p.Help == "" {
				p.Help = "h"
			}
			p.OutName = "named_" + p.Name + ".dat"
		}
		ps = append(ps, p)
	}
	return ps
}

func (g *gen) genStage() *Stage {
	s := &Stage{Name: g.upperName("ST")}
	used := map[string]bool{}
	s.Ins = g.genParams(g.r.Intn(g.cfg.MaxParams+1), used, "in", false)
	s.Outs = g.genParams(1+g.r.Intn(g.cfg.MaxParams), used, "out", true)
	if g.pct(g.cfg.PSplitStage) {
		s.Split = true
		s.SplitUsing = g.pct(50)
		s.ChunkIns = g.genParams(g.r.Intn(3), used, "cin", false)
		s.ChunkOuts = g.genParams(g.r.Intn(3), used, "cout", true)
	}
	s.SrcLang, s.Src = g.cfg.SrcFor(s.Name)
	if g.pct(g.cfg.PResources) {
		r := &Resources{}
		if g.pct(50) {
			r.HasThreads = true
			r.Threads = float64(1 + g.r.Intn(2))
		}
		if g.pct(50) {
			r.HasMem = true
			r.MemGB = float64(1 + g.r.Intn(2))
		}
		if g.pct(30) {
			if g.pct(50) {
				r.Volatile = "strict"
			} else {
				r.Volatile = "false"
			}
		}
		if r.HasThreads || r.HasMem || r.Volatile != "" {
			s.Res = r
		}
	}
	if g.pct(g.cfg.PRetain) {
		for _, o := range s.Outs {
			if o.Type.ContainsFile(g.p) && g.pct(60) {
				s.Retain = append(s.Retain, o.Name)
			}
		}
	}
	return s
}

// wrapOut returns the type of a mapped call's output.
func wrapOut(t *Type, mode Kind) (*Type, bool) {
	if mode == KArray {
		return ArrayOf(t), true
	}
	if !t.CanBeTMapElem() {
		return nil, false
	}
	return TMapOf(t), true
}

func (g *gen) genCall(pl *Pipeline, env []envEntry, usedNames map[string]bool, inMapped bool) (*Call, []envEntry) {
	// choose callee
	var names []string
	for _, s := range g.p.Stages {
		names = append(names, s.Name)
	}
	for _, s := range g.p.Pipelines {
		names = append(names, s.Name)
		names = append(names, s.Name) // bias towards nesting
	}
	callee := names[g.r.Intn(len(names))]
	ins, outs, isStage, _ := g.p.Callable(callee)
	c := &Call{Callee: callee}
	if usedNames[callee] || g.pct(g.cfg.PAlias) {
		c.Alias = g.upperName("AL")
		if len(usedNames) > 0 && g.pct(35) {
			// the id of a sibling call is a proper prefix of this call's id
			// (X and X_AL7): name-based lookups must respect id boundaries
			sib := SortedKeys(usedNames)
			c.Alias = sib[g.r.Intn(len(sib))] + "_" + c.Alias
		}
	}
	usedNames[c.Name()] = true
	xenv := g.expandEnv(env)

	// map call?
	var mode Kind = -1
	dynMap := false
	if g.pct(g.cfg.PMapCall) && len(ins) > 0 {
		pi := g.info[callee]
		nestedOK := true
		if pi != nil && pi.hasMap && !g.cfg.AllowNestedMap {
			nestedOK = false
		}
		if pi != nil && pi.hasMapMode && !g.cfg.AllowMixedNestedMap {
			nestedOK = false
		}
		if nestedOK {
			c.Map = true
		}
	}
	binds := make([]Binding, 0, len(ins))
	if c.Map {
		var ok bool
		binds, mode, dynMap, ok = g.chooseSplit(callee, ins, outs, xenv, inMapped)
		if !ok {
			c.Map = false
			binds = binds[:0]
		}
	}
	if c.Map && mode == KTMap && !g.cfg.AllowMixedNestedMap {
		if ci := g.info[callee]; ci != nil && ci.hasMap {
			c.Map = false
			binds = binds[:0]
		}
	}
	bound := map[string]bool{}
	for _, b := range binds {
		bound[b.Id] = true
	}
	for _, prm := range ins {
		if !bound[prm.Name] {
			binds = append(binds, Binding{Id: prm.Name, Exp: g.genExp(prm.Type, xenv)})
		}
	}
	// Order bindings as declared (split ones may be anywhere but grammar
	// needs at least one split in a map call, any order is fine).
	ordered := make([]Binding, 0, len(binds))
	for _, prm := range ins {
		for _, b := range binds {
			if b.Id == prm.Name {
				ordered = append(ordered, b)
			}
		}
	}
	c.Binds = ordered

	if isStage {
		if g.pct(g.cfg.PVolatile) {
			c.Volatile = true
		}
		if g.pct(10) {
			c.Local = true
		}
		c.ModsInUsing = g.pct(40)
	}
	if g.pct(g.cfg.PDisabled) {
		var cands []envEntry
		for _, e := range xenv {
			if e.typ.Kind == KBool {
				if e.dyn && inMapped && !g.cfg.AllowDynamicDisabledInMap {
					continue
				}
				cands = append(cands, e)
			}
		}
		if len(cands) > 0 {
			c.Disabled = cands[g.r.Intn(len(cands))].exp
		}
	}
	// New env entries.
	var add []envEntry
	for _, o := range outs {
		t := o.Type
		if c.Map {
			w, ok := wrapOut(t, mode)
			if !ok {
				continue
			}
			t = w
		}
		add = append(add, envEntry{
			exp: &Exp{Kind: ERefCall, Id: c.Name(), Path: []string{o.Name}},
			typ: t, dyn: true, fromCall: c.Name(),
		})
	}
	pi := g.info[pl.Name]
	if c.Map {
		pi.hasMap = true
		if mode == KTMap {
			pi.hasMapMode = true
		}
		if dynMap {
			pi.hasDynamicMap = true
		}
	}
	if ci := g.info[callee]; ci != nil {
		pi.hasMapMode = pi.hasMapMode || ci.hasMapMode
		pi.hasMap = pi.hasMap || ci.hasMap
		pi.hasDynamicMap = pi.hasDynamicMap || ci.hasDynamicMap
	}
	_ = isStage
	return c, add
}

// chooseSplit selects the split bindings of a map call.
func (g *gen) chooseSplit(callee string, ins, outs []Param, xenv []envEntry, inMapped bool) ([]Binding, Kind, bool, bool) {
	ci := g.info[callee]
	outsOK := func(mode Kind) bool {
		for _, o := range outs {
			if _, ok := wrapOut(o.Type, mode); !ok {
				return false
			}
		}
		return true
	}
	perm := g.r.Perm(len(ins))
	// A: run-time sized source from the environment.
	if !g.pct(35) {
		for _, pi := range perm {
			prm := ins[pi]
			var cands []envEntry
			for _, e := range xenv {
				if (e.typ.Kind == KArray || e.typ.Kind == KTMap) && g.assignable(prm.Type, e.typ.Elem) && outsOK(e.typ.Kind) {
					if !g.cfg.AllowNestedDynamic {
						if e.dyn && ((ci != nil && ci.hasMap) || inMapped) {
							continue
						}
						if ci != nil && ci.hasDynamicMap {
							continue
						}
					}
					cands = append(cands, e)
				}
			}
			if len(cands) == 0 {
				continue
			}
			e := cands[g.r.Intn(len(cands))]
			mode := e.typ.Kind
			binds := []Binding{{Id: prm.Name, Exp: e.exp, Split: true}}
			for _, pj := range perm {
				if pj == pi || !g.pct(60) {
					continue
				}
				for _, e2 := range xenv {
					if e2.typ.Kind != mode || !g.assignable(ins[pj].Type, e2.typ.Elem) {
						continue
					}
					sameRoot := e2.exp.Id == e.exp.Id && e2.exp.Kind == e.exp.Kind && len(e2.exp.Path) > 0 && len(e.exp.Path) > 0 &&
						e2.exp.Path[0] == e.exp.Path[0] && e2.exp.String() != e.exp.String()
					twin := e.twin != "" && e2.twin == e.twin && e2.fromCall != e.fromCall &&
						strings.Join(e2.exp.Path, ".") == strings.Join(e.exp.Path, ".")
					if sameRoot || twin {
						binds = append(binds, Binding{Id: ins[pj].Name, Exp: e2.exp, Split: true})
						break
					}
				}
			}
			return binds, mode, e.dyn, true
		}
	}
	// B: literal sources.
	if ci != nil && ci.hasDynamicMap && !g.cfg.AllowNestedDynamic {
		return nil, -1, false, false
	}
	pi := perm[0]
	prm := ins[pi]
	mode := KArray
	if g.pct(35) && outsOK(KTMap) && prm.Type.CanBeTMapElem() {
		mode = KTMap
	}
	n := 1 + g.r.Intn(3)
	keys := g.genKeys()
	if len(keys) == 0 {
		keys = []string{g.cfg.KeyPool[0]}
	}
	mk := func(t *Type) *Exp {
		if mode == KArray {
			e := &Exp{Kind: EArray, Elems: []*Exp{}}
			for i := 0; i < n; i++ {
				e.Elems = append(e.Elems, g.genLit(t, nil, 1))
			}
			return e
		}
		e := &Exp{Kind: EMap}
		for _, k := range keys {
			e.Keys = append(e.Keys, k)
			e.Elems = append(e.Elems, g.genLit(t, nil, 1))
		}
		return e
	}
	binds := []Binding{{Id: prm.Name, Exp: mk(prm.Type), Split: true}}
	for _, pj := range perm[1:] {
		if g.pct(30) && (mode == KArray || ins[pj].Type.CanBeTMapElem()) {
			binds = append(binds, Binding{Id: ins[pj].Name, Exp: mk(ins[pj].Type), Split: true})
		}
	}
	return binds, mode, false, true
}

// sameSpine: two projections of the same root pass through the same
// sequence of array/map wrappers up to the collection being split.
func sameSpine(p *Program, a, b envEntry) bool {
	return a.typ.Kind == b.typ.Kind
}

func (g *gen) genPipeline(level int) *Pipeline {
	pl := &Pipeline{Name: g.upperName("PL")}
	g.info[pl.Name] = &pipeInfo{}
	used := map[string]bool{}
	var env []envEntry
	g.curPipe, g.curUsed, g.curLevel, g.curEnv = pl, used, level, &env
	defer func() { g.curPipe = nil }()
	names := map[string]bool{}
	n := 1 + g.r.Intn(g.cfg.MaxCalls)
	for i := 0; i < n; i++ {
		c, add := g.genCall(pl, env, names, false)
		pl.Calls = append(pl.Calls, c)
		env = append(env, add...)
		if !c.Map && c.Disabled == nil && g.p.Stage(c.Callee) != nil && g.pct(g.cfg.PTwin) {
			hasColl := false
			for _, a := range add {
				if a.typ.Kind == KArray || a.typ.Kind == KTMap {
					hasColl = true
				}
			}
			if hasColl {
				tw := *c
				tw.Alias = g.upperName("TW")
				names[tw.Alias] = true
				pl.Calls = append(pl.Calls, &tw)
				for k := range env {
					if env[k].fromCall == c.Name() {
						env[k].twin = c.Name()
					}
				}
				for _, a := range add {
					a2 := a
					a2.exp = &Exp{Kind: ERefCall, Id: tw.Alias, Path: append([]string{}, a.exp.Path...)}
					a2.fromCall = tw.Alias
					a2.twin = c.Name()
					env = append(env, a2)
				}
			}
		}
	}
	// Wildcard bindings: a consumer stage whose inputs are exactly the
	// outputs of an earlier (unmapped) call takes them all through `* = CALL`;
	// now and then the pipeline returns a call's outputs through `* = CALL`.
	wildRet := false
	if g.pct(g.cfg.PWildcard) {
		var cands []*Call
		for _, c := range pl.Calls {
			if _, outs, _, ok := g.p.Callable(c.Callee); ok && !c.Map && len(outs) > 0 {
				cands = append(cands, c)
			}
		}
		// ... or a struct-typed pipeline input is handed on member by member
		// through `* = self.<input>`
		var structIns []Param
		for _, in := range pl.Ins {
			if in.Type.Kind == KStruct && g.p.Struct(in.Type.Name) != nil {
				structIns = append(structIns, in)
			}
		}
		if len(structIns) > 0 && g.pct(50) {
			in := structIns[g.r.Intn(len(structIns))]
			w := &Stage{Name: g.upperName("WILD")}
			for _, f := range g.p.Struct(in.Type.Name).Fields {
				w.Ins = append(w.Ins, Param{Name: f.Name, Type: f.Type})
			}
			w.Outs = []Param{{Name: "wy", Type: TInt}}
			w.SrcLang, w.Src = g.cfg.SrcFor(w.Name)
			g.p.Stages = append(g.p.Stages, w)
			wc := &Call{Callee: w.Name, Binds: []Binding{{Id: "*", Exp: &Exp{Kind: ERefSelf, Id: in.Name}}}}
			pl.Calls = append(pl.Calls, wc)
			names[wc.Name()] = true
			env = append(env, envEntry{exp: &Exp{Kind: ERefCall, Id: wc.Name(), Path: []string{"wy"}}, typ: TInt, fromCall: wc.Name()})
		} else if len(cands) > 0 {
			c := cands[g.r.Intn(len(cands))]
			_, outs, _, _ := g.p.Callable(c.Callee)
			if g.pct(60) {
				w := &Stage{Name: g.upperName("WILD")}
				for _, o := range outs {
					w.Ins = append(w.Ins, Param{Name: o.Name, Type: o.Type})
				}
				w.Outs = []Param{{Name: "wy", Type: TInt}}
				w.SrcLang, w.Src = g.cfg.SrcFor(w.Name)
				g.p.Stages = append(g.p.Stages, w)
				wc := &Call{Callee: w.Name, Binds: []Binding{{Id: "*", Exp: &Exp{Kind: ERefCall, Id: c.Name()}}}}
				pl.Calls = append(pl.Calls, wc)
				names[wc.Name()] = true
				env = append(env, envEntry{exp: &Exp{Kind: ERefCall, Id: wc.Name(), Path: []string{"wy"}}, typ: TInt, fromCall: wc.Name()})
			} else {
				for _, o := range outs {
					pl.Outs = append(pl.Outs, Param{Name: o.Name, Type: o.Type})
					used[o.Name] = true
				}
				pl.Ret = append(pl.Ret, Binding{Id: "*", Exp: &Exp{Kind: ERefCall, Id: c.Name()}})
				wildRet = true
			}
		}
	}
	xenv := g.expandEnv(env)
	nout := 1 + g.r.Intn(g.cfg.MaxParams)
	if wildRet {
		nout = 0 // a wildcard return supplies every output
	}
	for i := 0; i < nout; i++ {
		// Prefer returning call outputs.
		var callOuts []envEntry
		for _, e := range xenv {
			if e.fromCall != "" {
				callOuts = append(callOuts, e)
			}
		}
		if len(callOuts) > 0 && g.pct(85) {
			e := callOuts[g.r.Intn(len(callOuts))]
			t := e.typ
			// Possibly narrow: return a struct as a narrower struct is
			// exercised through param types elsewhere.
			p := Param{Name: g.id("pout", used), Type: t}
			if t.IsFileLike() && g.pct(20) {
				p.Help = "h"
				p.OutName = "o_" + p.Name + ".bin"
			}
			if t.IsFileLike() && g.pct(g.cfg.POutClash) {
				g.clashOutName(&p, pl.Outs)
			}
			pl.Outs = append(pl.Outs, p)
			pl.Ret = append(pl.Ret, Binding{Id: p.Name, Exp: e.exp})
		} else {
			p := Param{Name: g.id("pout", used), Type: g.genType(g.r.Intn(g.cfg.MaxTypeDepth + 1))}
			pl.Outs = append(pl.Outs, p)
			pl.Ret = append(pl.Ret, Binding{Id: p.Name, Exp: g.genExp(p.Type, xenv)})
		}
	}
	if g.pct(g.cfg.PRetain) {
		for _, e := range env {
			if e.fromCall != "" && e.typ.ContainsFile(g.p) && g.pct(40) {
				pl.Retain = append(pl.Retain, e.exp)
			}
		}
	}
	return pl
}

// DefaultOutName is the file name under outs/ of an output without an
// explicit out name.
func DefaultOutName(id string, t *Type) string {
	if t.Kind == KUserFile {
		return id + "." + t.Name
	}
	return id
}

// clashOutName gives p (or an earlier sibling) an explicit out name equal to
// the default output file name of the other.
func (g *gen) clashOutName(p *Param, sibs []Param) {
	var cand []int
	for i, o := range sibs {
		if o.OutName == "" && o.Type.ContainsFile(g.p) {
			cand = append(cand, i)
		}
	}
	if len(cand) == 0 {
		return
	}
	o := &sibs[cand[g.r.Intn(len(cand))]]
	if g.pct(50) && o.Type.IsFileLike() {
		o.Help, o.OutName = "clash", DefaultOutName(p.Name, p.Type)
		p.OutName = ""
	} else {
		p.Help, p.OutName = "clash", DefaultOutName(o.Name, o.Type)
	}
}

// Generate builds a random program.
func Generate(seed int64, cfg *Config) *Program {
	g := &gen{r: rand.New(rand.NewSource(seed)), cfg: cfg, p: &Program{Seed: seed}, info: map[string]*pipeInfo{}}
	p := g.p
	nft := g.r.Intn(3)
	fts := []string{"txt", "bam", "json", "bam.bai", "csv"}
	for _, i := range g.r.Perm(len(fts))[:nft] {
		p.FileTypes = append(p.FileTypes, fts[i])
		p.FileTypeOf = append(p.FileTypeOf, 0)
	}
	ns := g.r.Intn(cfg.MaxStructs + 1)
	for i := 0; i < ns; i++ {
		s := &Struct{Name: g.structName()}
		used := map[string]bool{}
		nf := 1 + g.r.Intn(3)
		for j := 0; j < nf; j++ {
			f := Param{Name: g.id("f", used), Type: g.genType(g.r.Intn(cfg.MaxTypeDepth + 1))}
			if f.Type.IsFileLike() && g.pct(20) {
				f.Help = "fh"
				f.OutName = "sf_" + f.Name + ".out"
			}
			if f.Type.IsFileLike() && g.pct(cfg.POutClash) {
				g.clashOutName(&f, s.Fields)
			}
			s.Fields = append(s.Fields, f)
		}
		p.Structs = append(p.Structs, s)
		// A narrower sibling with a subset of the fields.
		if len(s.Fields) > 1 && g.pct(cfg.PNarrow) {
			nsib := &Struct{Name: g.structName()}
			for _, f := range s.Fields {
				if g.pct(60) || len(nsib.Fields) == 0 {
					nsib.Fields = append(nsib.Fields, f)
				}
			}
			if len(nsib.Fields) < len(s.Fields) {
				p.Structs = append(p.Structs, nsib)
			}
		}
	}
	nst := 2 + g.r.Intn(cfg.MaxStages-1)
	for i := 0; i < nst; i++ {
		p.Stages = append(p.Stages, g.genStage())
	}
	npl := 1 + g.r.Intn(cfg.MaxPipelines)
	for i := 0; i < npl; i++ {
		p.Pipelines = append(p.Pipelines, g.genPipeline(npl-1-i))
	}
	top := p.Pipelines[len(p.Pipelines)-1]
	tc := &Call{Callee: top.Name}
	for _, in := range top.Ins {
		tc.Binds = append(tc.Binds, Binding{Id: in.Name, Exp: g.genLit(in.Type, nil, 0)})
	}
	if len(tc.Binds) > 0 && g.pct(cfg.PTopMap) {
		// mapped top-level call: one argument split over a literal array or
		// typed map of 1..3 values of the parameter's type
		k := g.r.Intn(len(tc.Binds))
		t := top.Ins[k].Type
		n := 1 + g.r.Intn(3)
		coll := &Exp{Kind: EArray}
		if t.CanBeTMapElem() && g.pct(40) {
			coll.Kind = EMap
			keys := g.genKeys()
			if len(keys) > n {
				keys = keys[:n]
			}
			coll.Keys = keys
			n = len(keys)
		}
		for i := 0; i < n; i++ {
			coll.Elems = append(coll.Elems, g.genLit(t, nil, 1))
		}
		if n > 0 {
			tc.Binds[k].Exp = coll
			tc.Binds[k].Split = true
			tc.Map = true
		}
	}
	p.Top = tc
	if cfg.MultiFile && g.pct(60) {
		p.NFiles = 1 + g.r.Intn(3)
		dirs := []string{"", "sub/", "sub/deep/"}
		for i := 0; i < p.NFiles; i++ {
			p.FileNames = append(p.FileNames, fmt.Sprintf("%sinc%d.mro", dirs[g.r.Intn(len(dirs))], i))
		}
		// assign in dependency order: monotone file index
		total := len(p.Structs) + len(p.Stages) + len(p.Pipelines)
		if p.NFiles > total {
			p.NFiles = total
			p.FileNames = p.FileNames[:total]
		}
		k := 0
		assign := func() int {
			// every file gets at least one declaration
			f := k * p.NFiles / total
			k++
			return f
		}
		for _, s := range p.Structs {
			s.File = assign()
		}
		for _, s := range p.Stages {
			s.File = assign()
		}
		for _, s := range p.Pipelines {
			s.File = assign()
		}
	}
	return p
}

// ShapeClasses tags structural classes of the program.
func (p *Program) ShapeClasses() []string {
	set := map[string]bool{}
	var visit func(pl *Pipeline, mapped bool)
	for _, pl := range p.Pipelines {
		for _, c := range pl.Calls {
			if c.Map {
				set["map-call"] = true
				for _, b := range c.Binds {
					if b.Split {
						switch b.Exp.Kind {
						case EArray:
							set["map-over-literal-array"] = true
						case EMap:
							set["map-over-literal-map"] = true
						case ERefSelf:
							set["map-over-pipeline-input"] = true
						case ERefCall:
							set["map-over-call-output"] = true
						}
					}
				}
				if p.Pipeline(c.Callee) != nil {
					set["map-call-of-pipeline"] = true
				}
				if s := p.Stage(c.Callee); s != nil && s.Split {
					set["split-stage-in-map-call"] = true
				}
			}
			if c.Disabled != nil {
				set["disabled"] = true
			}
			if c.Preflight {
				set["preflight"] = true
			}
			for _, b := range c.Binds {
				if len(b.Exp.Path) > 1 || (b.Exp.Kind == ERefSelf && len(b.Exp.Path) > 0) {
					set["projection"] = true
				}
			}
			if s := p.Stage(c.Callee); s != nil && s.Split {
				set["split-stage"] = true
			}
		}
	}
	_ = visit
	if p.NFiles > 0 {
		set["multi-file"] = true
	}
	var out []string
	for k := range set {
		out = append(out, k)
	}
	sortStrings(out)
	return out
}

func sortStrings(s []string) {
	for i := 1; i < len(s); i++ {
		for j := i; j > 0 && s[j] < s[j-1]; j-- {
			s[j], s[j-1] = s[j-1], s[j]
		}
	}
}

// ShapeHash summarises the structure of the program ignoring identifiers'
// numbering and literal values.
func (p *Program) ShapeHash() string {
	var b strings.Builder
	for _, st := range p.Stages {
		fmt.Fprintf(&b, "S%d.%d.%v;", len(st.Ins), len(st.Outs), st.Split)
		for _, x := range st.Ins {
			b.WriteString(x.Type.String() + ",")
		}
		for _, x := range st.Outs {
			b.WriteString(x.Type.String() + ",")
		}
	}
	for _, pl := range p.Pipelines {
		fmt.Fprintf(&b, "P%d.%d;", len(pl.Ins), len(pl.Outs))
		for _, c := range pl.Calls {
			fmt.Fprintf(&b, "c%v%v%v%v(", c.Map, c.Disabled != nil, c.Volatile, p.Stage(c.Callee) != nil)
			for _, bd := range c.Binds {
				fmt.Fprintf(&b, "%d%v%d,", bd.Exp.Kind, bd.Split, len(bd.Exp.Path))
			}
			b.WriteString(")")
		}
	}
	return b.String()
}
