package pgen

import (
	"encoding/json"
	"fmt"
	"math/big"
	"sort"
	"strings"
)

// Reference evaluator of the IR ("what the bindings denote"), written from
// the language semantics.  Stage outputs are not predicted: they are looked
// up from the outputs the stages actually recorded (Oracle), so each verdict
// is local to one consumer.

// Unknown marks a value that cannot be determined because an upstream
// expectation already failed; anything compared with it is skipped.
type Unknown struct{ Why string }

// Alt is a value with permitted alternatives (disabled / empty mapped call).
type Alt struct{ Options []interface{} }

// StageInvocation is one expected execution of a stage call.
type StageInvocation struct {
	Path    string // call path, e.g. TOP/INNER/STAGE
	Stage   *Stage
	Args    map[string]interface{} // expected input arguments
	Context string                 // human-readable fork context
	// Stage invocations whose completion this one must wait for: producers
	// of its argument data, of its own / enclosing disable conditions, of
	// its own / enclosing map sources, and preflights.
	Deps      []*StageInvocation
	DepKinds  []string
	Preflight bool
	// Filled by the oracle.
	Outs    map[string]interface{}
	Matched bool
	Token   interface{} // oracle's handle on the matched execution
}

// DepSet is a set of producer invocations with the kind of dependency.
type DepSet map[*StageInvocation]string

func (d DepSet) addAll(o DepSet, kind string) DepSet {
	if len(o) == 0 {
		return d
	}
	if d == nil {
		d = DepSet{}
	}
	for k, v := range o {
		if kind != "" {
			v = kind
		}
		if _, ok := d[k]; !ok {
			d[k] = v
		}
	}
	return d
}

// Oracle supplies recorded stage outputs.
type Oracle interface {
	// StageOuts returns the outputs recorded by the execution of the stage
	// call at path whose arguments equal args, or ok=false.
	StageOuts(inv *StageInvocation) (outs map[string]interface{}, ok bool)
}

type Model struct {
	P        *Program
	Oracle   Oracle
	Invs     []*StageInvocation
	Disabled []string // call paths (with context) that were disabled
	Problems []string
	TopOuts  map[string]interface{}
	TopDeps  map[string]DepSet // per top-level output: the stage invocations it flows from
	// TopMapped: the top-level call is a map call; each TopOuts value is the
	// collection (array / keyed map) of the forks' values of that output.
	TopMapped bool
	invByKey  map[string]*StageInvocation
	// Stage call paths inside a mapped pipeline call with an empty / null
	// source whose bindings do not depend on that dimension (the runtime
	// executes them once; the property says nothing of such a call runs).
	IndepOfEmpty map[string]int
	// Values named by pipeline-level retain declarations.
	Retained []interface{}
	// Number of (path, fork context) combinations that were merged into an
	// existing invocation because the stage does not depend on the
	// differing map dimensions.
	Merged int
}

func NewModel(p *Program, o Oracle) *Model { return &Model{P: p, Oracle: o} }

func (m *Model) problem(f string, a ...interface{}) {
	m.Problems = append(m.Problems, fmt.Sprintf(f, a...))
}

// LitValue evaluates a literal / reference expression.
func (m *Model) evalExp(e *Exp, self map[string]interface{}, selfTypes map[string]*Type,
	calls map[string]map[string]interface{}, callTypes map[string]map[string]*Type) (interface{}, *Type) {
	switch e.Kind {
	case ENull:
		return nil, nil
	case EInt:
		return json.Number(fmt.Sprint(e.I)), TInt
	case EFloat:
		return json.Number(FormatFloat(e.F)), TFloat
	case EString:
		return e.S, TString
	case EBool:
		return e.B, TBool
	case EArray:
		out := make([]interface{}, 0, len(e.Elems))
		var et *Type
		for _, x := range e.Elems {
			v, t := m.evalExp(x, self, selfTypes, calls, callTypes)
			out = append(out, v)
			if t != nil {
				et = t
			}
		}
		if et == nil {
			return out, nil
		}
		return out, ArrayOf(et)
	case EMap, EStruct:
		out := map[string]interface{}{}
		for i, x := range e.Elems {
			v, _ := m.evalExp(x, self, selfTypes, calls, callTypes)
			out[e.Keys[i]] = v
		}
		return out, nil
	case ERefSelf:
		v, ok := self[e.Id]
		if !ok {
			return Unknown{"no input " + e.Id}, nil
		}
		t := selfTypes[e.Id]
		return m.project(v, t, e.Path)
	case ERefCall:
		outs, ok := calls[e.Id]
		if !ok {
			return Unknown{"no call " + e.Id}, nil
		}
		if len(e.Path) == 0 {
			// whole-call reference: struct of outputs
			return map[string]interface{}(outs), nil
		}
		v, ok := outs[e.Path[0]]
		if !ok {
			return Unknown{"no output " + e.Path[0]}, nil
		}
		t := callTypes[e.Id][e.Path[0]]
		return m.project(v, t, e.Path[1:])
	}
	return nil, nil
}

// project applies a struct field path through arrays and typed maps.
func (m *Model) project(v interface{}, t *Type, path []string) (interface{}, *Type) {
	if len(path) == 0 {
		return v, t
	}
	if t == nil {
		return Unknown{"untyped projection"}, nil
	}
	switch t.Kind {
	case KArray:
		var et *Type
		if v == nil {
			_, et = m.project(nil, t.Elem, path)
			if et == nil {
				return nil, nil
			}
			return nil, ArrayOf(et)
		}
		switch a := v.(type) {
		case []interface{}:
			out := make([]interface{}, len(a))
			for i, x := range a {
				out[i], et = m.project(x, t.Elem, path)
			}
			if et == nil {
				_, et = m.project(nil, t.Elem, path)
			}
			if et == nil {
				return out, nil
			}
			return out, ArrayOf(et)
		case Unknown:
			return a, nil
		case Alt:
			var opts []interface{}
			var rt *Type
			for _, o := range a.Options {
				pv, pt := m.project(o, t, path)
				opts = append(opts, pv)
				rt = pt
			}
			return Alt{opts}, rt
		}
		return Unknown{"array expected"}, nil
	case KTMap:
		var et *Type
		if v == nil {
			_, et = m.project(nil, t.Elem, path)
			if et == nil {
				return nil, nil
			}
			return nil, TMapOf(et)
		}
		switch a := v.(type) {
		case map[string]interface{}:
			out := make(map[string]interface{}, len(a))
			for k, x := range a {
				out[k], et = m.project(x, t.Elem, path)
			}
			if et == nil {
				_, et = m.project(nil, t.Elem, path)
			}
			if et == nil {
				return out, nil
			}
			return out, TMapOf(et)
		case Unknown:
			return a, nil
		case Alt:
			var opts []interface{}
			var rt *Type
			for _, o := range a.Options {
				pv, pt := m.project(o, t, path)
				opts = append(opts, pv)
				rt = pt
			}
			return Alt{opts}, rt
		}
		return Unknown{"map expected"}, nil
	case KStruct:
		s := m.P.Struct(t.Name)
		var ft *Type
		for _, f := range s.Fields {
			if f.Name == path[0] {
				ft = f.Type
			}
		}
		if ft == nil {
			return Unknown{"no field " + path[0]}, nil
		}
		if v == nil {
			return m.project(nil, ft, path[1:])
		}
		switch a := v.(type) {
		case map[string]interface{}:
			return m.project(a[path[0]], ft, path[1:])
		case Unknown:
			return a, nil
		case Alt:
			var opts []interface{}
			var rt *Type
			for _, o := range a.Options {
				pv, pt := m.project(o, t, path)
				opts = append(opts, pv)
				rt = pt
			}
			return Alt{opts}, rt
		}
		return Unknown{"struct expected"}, nil
	}
	return Unknown{"cannot project through " + t.String()}, nil
}

// Conv converts a value to the shape of the destination type: struct
// fields not declared by dst are dropped.
func (m *Model) Conv(v interface{}, dst *Type) interface{} {
	if v == nil || dst == nil {
		return v
	}
	switch a := v.(type) {
	case Unknown:
		return a
	case Alt:
		opts := make([]interface{}, len(a.Options))
		for i, o := range a.Options {
			opts[i] = m.Conv(o, dst)
		}
		return Alt{opts}
	}
	switch dst.Kind {
	case KArray:
		if a, ok := v.([]interface{}); ok {
			out := make([]interface{}, len(a))
			for i, x := range a {
				out[i] = m.Conv(x, dst.Elem)
			}
			return out
		}
	case KTMap:
		if a, ok := v.(map[string]interface{}); ok {
			out := make(map[string]interface{}, len(a))
			for k, x := range a {
				out[k] = m.Conv(x, dst.Elem)
			}
			return out
		}
	case KStruct:
		if a, ok := v.(map[string]interface{}); ok {
			s := m.P.Struct(dst.Name)
			out := make(map[string]interface{}, len(s.Fields))
			for _, f := range s.Fields {
				if x, ok := a[f.Name]; ok {
					out[f.Name] = m.Conv(x, f.Type)
				} else {
					out[f.Name] = nil
				}
			}
			return out
		}
	}
	return v
}

type callCtx struct {
	path     string // directory-style path of the enclosing pipeline instance
	context  string // fork context description
	disabled bool
	deps     DepSet // context dependencies (enclosing disable conditions / map sources / preflights)
	dims     DimSet // map dimensions the enclosing disable conditions depend on
	coords   []coord
	// phantom: evaluating the body of a mapped call that has no forks, to
	// find the stages that do not depend on the (empty) dimension.
	phantom DimSet
}

// coord is the position of a pipeline instance along one map dimension.
type coord struct {
	dim   string
	label string
}

// DimSet is a set of map-call dimensions (identified by the map call's path
// and enclosing fork context) a value depends on.
type DimSet map[string]bool

func (d DimSet) addAll(o DimSet) DimSet {
	if len(o) == 0 {
		return d
	}
	if d == nil {
		d = DimSet{}
	}
	for k := range o {
		d[k] = true
	}
	return d
}

// allEqualBoolLiteral: a literal array / map of bool literals that are all equal.
func allEqualBoolLiteral(e *Exp) bool {
	if e == nil || (e.Kind != EArray && e.Kind != EMap) || len(e.Elems) == 0 {
		return false
	}
	for _, x := range e.Elems {
		if x == nil || x.Kind != EBool || x.B != e.Elems[0].B {
			return false
		}
	}
	return true
}

func expDims(e *Exp, selfDims map[string]DimSet, callDims map[string]map[string]DimSet) DimSet {
	var d DimSet
	var walk func(e *Exp)
	walk = func(e *Exp) {
		if e == nil {
			return
		}
		switch e.Kind {
		case ERefSelf:
			d = d.addAll(selfDims[e.Id])
		case ERefCall:
			if len(e.Path) == 0 {
				for _, x := range callDims[e.Id] {
					d = d.addAll(x)
				}
			} else {
				d = d.addAll(callDims[e.Id][e.Path[0]])
			}
		}
		for _, x := range e.Elems {
			walk(x)
		}
	}
	walk(e)
	return d
}

// expDeps computes the producer invocations an expression's value flows from.
func expDeps(e *Exp, selfDeps map[string]DepSet, callDeps map[string]map[string]DepSet) DepSet {
	return fieldDeps(e, selfDeps, callDeps)[""]
}

// lookupFieldDeps finds, in a table keyed by "id", "id.f", "id.f.g", ..., the
// dependencies of id projected along path: the entry of the most specific
// known prefix is the value's own dependency set; entries below the full path
// are returned relative to it.
func lookupFieldDeps(tab map[string]DepSet, id string, path []string) map[string]DepSet {
	res := map[string]DepSet{"": nil}
	full := id
	if len(path) > 0 {
		full = id + "." + strings.Join(path, ".")
	}
	for n := len(path); n >= 0; n-- {
		key := id
		if n > 0 {
			key = id + "." + strings.Join(path[:n], ".")
		}
		if d, ok := tab[key]; ok {
			res[""] = DepSet{}.addAll(d, "")
			break
		}
	}
	for k, d := range tab {
		if strings.HasPrefix(k, full+".") {
			res[k[len(full)+1:]] = DepSet{}.addAll(d, "")
		}
	}
	return res
}

// fieldDeps computes the producer invocations an expression's value flows
// from, per member: "" is the whole value, "f" / "f.g" the member reached
// through those struct fields (projecting through arrays and typed maps, as
// MRO projection does). A consumer of x.f where x is bound to a struct
// literal consumes only what that member is built from, not the producers of
// its sibling members.
func fieldDeps(e *Exp, selfDeps map[string]DepSet, callDeps map[string]map[string]DepSet) map[string]DepSet {
	res := map[string]DepSet{"": nil}
	if e == nil {
		return res
	}
	switch e.Kind {
	case ERefSelf:
		if e.Id == "" {
			return res
		}
		return lookupFieldDeps(selfDeps, e.Id, e.Path)
	case ERefCall:
		if len(e.Path) == 0 {
			for k, d := range callDeps[e.Id] {
				res[""] = res[""].addAll(d, "")
				res[k] = DepSet{}.addAll(d, "")
			}
			return res
		}
		return lookupFieldDeps(callDeps[e.Id], e.Path[0], e.Path[1:])
	case EStruct:
		for i, x := range e.Elems {
			if i >= len(e.Keys) {
				break
			}
			sub := fieldDeps(x, selfDeps, callDeps)
			for rel, d := range sub {
				key := e.Keys[i]
				if rel != "" {
					key += "." + rel
				}
				res[key] = res[key].addAll(d, "")
				if res[key] == nil {
					res[key] = DepSet{}
				}
			}
			res[""] = res[""].addAll(sub[""], "")
		}
		return res
	case EArray, EMap:
		subs := make([]map[string]DepSet, 0, len(e.Elems))
		rels := map[string]bool{}
		for _, x := range e.Elems {
			sub := fieldDeps(x, selfDeps, callDeps)
			subs = append(subs, sub)
			for rel := range sub {
				rels[rel] = true
			}
		}
		for rel := range rels {
			for _, sub := range subs {
				// an element that knows nothing about this member
				// contributes what its nearest known ancestor depends on
				k := rel
				for {
					if d, ok := sub[k]; ok {
						res[rel] = res[rel].addAll(d, "")
						break
					}
					i := strings.LastIndexByte(k, '.')
					if i < 0 {
						res[rel] = res[rel].addAll(sub[""], "")
						break
					}
					k = k[:i]
				}
			}
			if res[rel] == nil && rel != "" {
				res[rel] = DepSet{}
			}
		}
		return res
	}
	return res
}

// Run evaluates the whole program.
func (m *Model) Run() {
	top := m.P.Top
	pl := m.P.Pipeline(top.Callee)
	if pl == nil {
		m.problem("top call is not a pipeline")
		return
	}
	if top.Map {
		// A mapped top-level call: evaluate it as the only call of a
		// nameless enclosing pipeline.  TopOuts then holds, per output, the
		// collection of the forks' values.
		m.invByKey = map[string]*StageInvocation{}
		m.IndepOfEmpty = map[string]int{}
		root := &Pipeline{Name: "", Calls: []*Call{top}}
		outs, _, _, _ := m.evalCall(root, top, map[string]interface{}{}, nil, nil, map[string]*Type{},
			map[string]map[string]interface{}{}, map[string]map[string]*Type{}, map[string]map[string]DepSet{}, map[string]map[string]DimSet{},
			callCtx{path: ""})
		m.TopOuts = outs
		m.TopMapped = true
		return
	}
	inputs := map[string]interface{}{}
	for _, b := range top.Binds {
		v, _ := m.evalExp(b.Exp, nil, nil, nil, nil)
		for _, in := range pl.Ins {
			if in.Name == b.Id {
				inputs[b.Id] = m.Conv(v, in.Type)
			}
		}
	}
	for _, in := range pl.Ins {
		if _, ok := inputs[in.Name]; !ok {
			inputs[in.Name] = nil
		}
	}
	m.invByKey = map[string]*StageInvocation{}
	m.IndepOfEmpty = map[string]int{}
	m.TopOuts, m.TopDeps, _ = m.evalPipeline(pl, inputs, nil, nil, callCtx{path: pl.Name})
}

func paramTypes(ps []Param) map[string]*Type {
	out := map[string]*Type{}
	for _, p := range ps {
		out[p.Name] = p.Type
	}
	return out
}

func isTrue(v interface{}) (val bool, known bool) {
	switch b := v.(type) {
	case bool:
		return b, true
	case nil:
		return false, false
	}
	return false, false
}

// evalPipeline evaluates one instance of a pipeline.
func (m *Model) evalPipeline(pl *Pipeline, inputs map[string]interface{}, inputDeps map[string]DepSet,
	inputDims map[string]DimSet, ctx callCtx) (map[string]interface{}, map[string]DepSet, map[string]DimSet) {
	selfTypes := paramTypes(pl.Ins)
	calls := map[string]map[string]interface{}{}
	callTypes := map[string]map[string]*Type{}
	callDeps := map[string]map[string]DepSet{}
	callDims := map[string]map[string]DimSet{}
	// Preflight calls of this pipeline precede every other call in it
	// (and in nested pipelines).
	var pre DepSet
	for _, c := range pl.Calls {
		if !c.Preflight {
			continue
		}
		n0 := len(m.Invs)
		outs, types, deps, dims := m.evalCall(pl, c, inputs, inputDeps, inputDims, selfTypes, calls, callTypes, callDeps, callDims, ctx)
		calls[c.Name()], callTypes[c.Name()], callDeps[c.Name()], callDims[c.Name()] = outs, types, deps, dims
		for _, inv := range m.Invs[n0:] {
			inv.Preflight = true
			if pre == nil {
				pre = DepSet{}
			}
			pre[inv] = "preflight"
		}
	}
	sub := ctx
	sub.deps = DepSet{}.addAll(ctx.deps, "").addAll(pre, "preflight")
	for _, c := range pl.Calls {
		if c.Preflight {
			continue
		}
		outs, types, deps, dims := m.evalCall(pl, c, inputs, inputDeps, inputDims, selfTypes, calls, callTypes, callDeps, callDims, sub)
		calls[c.Name()], callTypes[c.Name()], callDeps[c.Name()], callDims[c.Name()] = outs, types, deps, dims
	}
	result := map[string]interface{}{}
	resDeps := map[string]DepSet{}
	resDims := map[string]DimSet{}
	for _, o := range pl.Outs {
		var exp *Exp
		for _, b := range pl.Ret {
			if b.Id == o.Name {
				exp = b.Exp
			}
		}
		if exp == nil {
			// wildcard return
			for _, b := range pl.Ret {
				if b.Id == "*" {
					exp = &Exp{Kind: b.Exp.Kind, Id: b.Exp.Id, Path: append(append([]string{}, b.Exp.Path...), o.Name)}
				}
			}
		}
		if exp == nil {
			result[o.Name] = Unknown{"no return binding"}
			continue
		}
		v, _ := m.evalExp(exp, inputs, selfTypes, calls, callTypes)
		result[o.Name] = m.Conv(v, o.Type)
		for rel, fd := range fieldDeps(exp, inputDeps, callDeps) {
			if rel == "" {
				resDeps[o.Name] = fd
			} else {
				resDeps[o.Name+"."+rel] = fd
			}
		}
		resDims[o.Name] = DimSet{}.addAll(expDims(exp, inputDims, callDims)).addAll(ctx.dims)
	}
	if ctx.disabled {
		for k := range result {
			result[k] = nil
		}
	}
	if len(ctx.phantom) == 0 && !ctx.disabled {
		for _, re := range pl.Retain {
			v, _ := m.evalExp(re, inputs, selfTypes, calls, callTypes)
			m.Retained = append(m.Retained, v)
		}
	}
	return result, resDeps, resDims
}

func nullOuts(outs []Param) map[string]interface{} {
	r := map[string]interface{}{}
	for _, o := range outs {
		r[o.Name] = nil
	}
	return r
}

func (m *Model) evalCall(pl *Pipeline, c *Call, inputs map[string]interface{}, inputDeps map[string]DepSet,
	inputDims map[string]DimSet, selfTypes map[string]*Type,
	calls map[string]map[string]interface{}, callTypes map[string]map[string]*Type,
	callDeps map[string]map[string]DepSet, callDims map[string]map[string]DimSet,
	ctx callCtx) (map[string]interface{}, map[string]*Type, map[string]DepSet, map[string]DimSet) {
	ins, outs, isStage, ok := m.P.Callable(c.Callee)
	if !ok {
		m.problem("unknown callable %s", c.Callee)
		return nil, nil, nil, nil
	}
	path := ctx.path + "/" + c.Name()
	if ctx.path == "" {
		path = c.Name() // the top-level call itself
	}

	ctxDeps := DepSet{}.addAll(ctx.deps, "")
	ctxDims := DimSet{}.addAll(ctx.dims)
	thisDim := path
	disabled := ctx.disabled
	disabledUnknown := false
	condVaries := false
	if c.Disabled != nil {
		ctxDeps = ctxDeps.addAll(expDeps(c.Disabled, inputDeps, callDeps), "disabled")
		dd := DimSet{}.addAll(expDims(c.Disabled, inputDims, callDims))
		if c.Disabled.Kind == ERefSelf && len(c.Disabled.Path) == 0 {
			// The compiler folds a control that is split over a literal with
			// all elements equal into a constant: the call then does not
			// depend on (and is not forked along) that dimension.
			for k := range dd {
				if strings.HasPrefix(k, "fold:") {
					delete(dd, k[len("fold:"):])
				}
			}
		}
		for k := range dd {
			if strings.HasPrefix(k, "fold:") {
				delete(dd, k)
			}
		}
		ctxDims = ctxDims.addAll(dd)
		// a condition that is the same literal for every fork is folded by the
		// compiler; one that varies with a map dimension or comes from a stage is
		// only known per fork / at run time
		condVaries = len(dd) > 0 || len(expDeps(c.Disabled, inputDeps, callDeps)) > 0
		if !disabled {
			v, _ := m.evalExp(c.Disabled, inputs, selfTypes, calls, callTypes)
			if b, known := isTrue(v); known {
				disabled = b
			} else {
				// Unknown upstream, or null (a run-time error in martian).
				disabledUnknown = true
			}
		}
	}
	// Evaluate bindings.
	inTypes := paramTypes(ins)
	args := map[string]interface{}{}
	argDeps := map[string]DepSet{}
	argDims := map[string]DimSet{}
	var srcDims DimSet
	var splitIds []string
	bound := map[string]bool{}
	for _, b := range c.Binds {
		if b.Id == "*" {
			continue
		}
		v, _ := m.evalExp(b.Exp, inputs, selfTypes, calls, callTypes)
		t := inTypes[b.Id]
		d := expDeps(b.Exp, inputDeps, callDeps)
		dm := expDims(b.Exp, inputDims, callDims)
		if b.Split {
			splitIds = append(splitIds, b.Id)
			// converted per element below
			args[b.Id] = v
			if len(splitIds) == 1 {
				// Only the first ("master") split source determines the
				// forks of nested calls which do not consume the others.
				ctxDeps = ctxDeps.addAll(d, "mapsrc@"+thisDim)
			}
			srcDims = srcDims.addAll(dm)
			dm = DimSet{thisDim: true}.addAll(dm)
			if allEqualBoolLiteral(b.Exp) {
				dm["fold:"+thisDim] = true
			}
		} else {
			args[b.Id] = m.Conv(v, t)
		}
		argDeps[b.Id] = d
		for rel, fd := range fieldDeps(b.Exp, inputDeps, callDeps) {
			if rel != "" {
				argDeps[b.Id+"."+rel] = fd
			}
		}
		argDims[b.Id] = dm
		bound[b.Id] = true
	}
	for _, b := range c.Binds {
		if b.Id != "*" {
			continue
		}
		for _, in := range ins {
			if !bound[in.Name] {
				e := &Exp{Kind: b.Exp.Kind, Id: b.Exp.Id}
				if b.Exp.Kind == ERefSelf && b.Exp.Id == "" {
					e.Id = in.Name
				} else {
					e.Path = append(append([]string{}, b.Exp.Path...), in.Name)
				}
				v, _ := m.evalExp(e, inputs, selfTypes, calls, callTypes)
				args[in.Name] = m.Conv(v, inTypes[in.Name])
				for rel, fd := range fieldDeps(e, inputDeps, callDeps) {
					if rel == "" {
						argDeps[in.Name] = fd
					} else {
						argDeps[in.Name+"."+rel] = fd
					}
				}
				argDims[in.Name] = expDims(e, inputDims, callDims)
				bound[in.Name] = true
			}
		}
	}
	for _, in := range ins {
		if !bound[in.Name] {
			args[in.Name] = nil
		}
	}
	outTypes := map[string]*Type{}
	outDeps := map[string]DepSet{}
	outDims := map[string]DimSet{}

	invoke := func(a map[string]interface{}, sub callCtx) (map[string]interface{}, map[string]DepSet, map[string]DimSet) {
		if disabledUnknown {
			r := map[string]interface{}{}
			for _, o := range outs {
				r[o.Name] = Unknown{"disabled state unknown"}
			}
			return r, nil, nil
		}
		if isStage {
			if sub.disabled {
				m.Disabled = append(m.Disabled, path+" "+sub.context)
				// A disabled call's (null) outputs are still only
				// available once its disabling condition is known.
				// ... and they are forked along every map dimension the call
				// depends on (through its condition or through its arguments):
				// the runtime decides the forks of a node before it knows
				// which of them will turn out disabled
				dd := map[string]DepSet{}
				dm := map[string]DimSet{}
				allDims := DimSet{}.addAll(ctxDims)
				if condVaries && !ctx.disabled {
					for _, d := range argDims {
						allDims = allDims.addAll(d)
					}
				}
				for _, o := range outs {
					dd[o.Name] = ctxDeps
					dm[o.Name] = allDims
				}
				return nullOuts(outs), dd, dm
			}
			st := m.P.Stage(c.Callee)
			// The stage forks only along the map dimensions it depends on.
			invDims := DimSet{}.addAll(ctxDims)
			for _, d := range argDims {
				invDims = invDims.addAll(d)
			}
			key := path
			for _, co := range sub.coords {
				if invDims[co.dim] {
					key += "|" + co.dim + "=" + co.label
				}
			}
			dmOut := map[string]DimSet{}
			for _, o := range outs {
				dmOut[o.Name] = invDims
			}
			if len(sub.phantom) > 0 {
				indep := true
				for d := range sub.phantom {
					if invDims[d] {
						indep = false
					}
				}
				if indep {
					m.IndepOfEmpty[path]++
				}
				r := map[string]interface{}{}
				for _, o := range outs {
					r[o.Name] = Unknown{"inside a mapped call without forks"}
				}
				return r, nil, dmOut
			}
			if prev := m.invByKey[key]; prev != nil {
				m.Merged++
				if prev.Args != nil && Render(mapAny(prev.Args)) != Render(mapAny(a)) {
					m.problem("%s: invocations merged by dimension analysis have different args: %s vs %s", key, Render(mapAny(prev.Args)), Render(mapAny(a)))
				}
				dd := map[string]DepSet{}
				r := map[string]interface{}{}
				for _, o := range outs {
					dd[o.Name] = DepSet{prev: "data"}
					if prev.Outs != nil {
						r[o.Name] = prev.Outs[o.Name]
					} else {
						r[o.Name] = Unknown{"upstream unknown"}
					}
				}
				return r, dd, dmOut
			}
			inv := &StageInvocation{Path: path, Stage: st, Args: a, Context: sub.context}
			m.invByKey[key] = inv
			all := DepSet{}.addAll(ctxDeps, "")
			for _, d := range argDeps {
				all = all.addAll(d, "data")
			}
			for p, k := range all {
				if strings.HasPrefix(k, "mapsrc@") {
					// Does this stage depend on that map dimension at all?
					if invDims[k[len("mapsrc@"):]] {
						k = "mapsrc"
					} else {
						k = "mapsrc-indep"
					}
				}
				inv.Deps = append(inv.Deps, p)
				inv.DepKinds = append(inv.DepKinds, k)
			}
			m.Invs = append(m.Invs, inv)
			dd := map[string]DepSet{}
			for _, o := range outs {
				dd[o.Name] = DepSet{inv: "data"}
			}
			for _, x := range a {
				if ContainsUnknown(x) {
					r := map[string]interface{}{}
					for _, o := range outs {
						r[o.Name] = Unknown{"upstream unknown"}
					}
					inv.Args = nil
					return r, dd, dmOut
				}
			}
			got, ok := m.Oracle.StageOuts(inv)
			if !ok {
				r := map[string]interface{}{}
				for _, o := range outs {
					r[o.Name] = Unknown{"no recorded execution of " + path}
				}
				return r, dd, dmOut
			}
			inv.Matched = true
			r := map[string]interface{}{}
			for _, o := range outs {
				r[o.Name] = m.Conv(got[o.Name], o.Type)
			}
			inv.Outs = r
			return r, dd, dmOut
		}
		sp := m.P.Pipeline(c.Callee)
		sub.path = path
		sub.deps = ctxDeps
		sub.dims = ctxDims
		if len(sub.phantom) == 0 {
			sub.phantom = ctx.phantom
		}
		return m.evalPipeline(sp, a, argDeps, argDims, sub)
	}

	if !c.Map {
		for _, o := range outs {
			outTypes[o.Name] = o.Type
		}
		r, d, dm := invoke(args, callCtx{context: ctx.context, disabled: disabled, coords: ctx.coords, phantom: ctx.phantom})
		return r, outTypes, d, dm
	}
	// Map call.
	var keys []string
	mode := Kind(-1)
	n := -1
	srcNull := false
	srcUnknown := false
	for _, id := range splitIds {
		switch a := args[id].(type) {
		case []interface{}:
			if mode == KTMap || (n >= 0 && n != len(a)) {
				m.problem("%s: inconsistent split sources", path)
				srcUnknown = true
			}
			mode = KArray
			n = len(a)
		case map[string]interface{}:
			ks := make([]string, 0, len(a))
			for k := range a {
				ks = append(ks, k)
			}
			sort.Strings(ks)
			if mode == KArray || (keys != nil && strings.Join(keys, "\x00") != strings.Join(ks, "\x00")) {
				m.problem("%s: inconsistent split sources", path)
				srcUnknown = true
			}
			mode = KTMap
			keys = ks
			n = len(ks)
		case nil:
			srcNull = true
		default:
			srcUnknown = true
		}
	}
	// Static mode from the binding expression types.
	if mode == -1 {
		for _, b := range c.Binds {
			if b.Split {
				_, t := m.evalExp(b.Exp, inputs, selfTypes, calls, callTypes)
				if t != nil {
					mode = t.Kind
				} else if b.Exp.Kind == EMap {
					mode = KTMap
				} else if b.Exp.Kind == EArray {
					mode = KArray
				}
			}
		}
	}
	for _, o := range outs {
		if mode == KTMap {
			outTypes[o.Name] = TMapOf(o.Type)
		} else {
			outTypes[o.Name] = ArrayOf(o.Type)
		}
	}
	result := map[string]interface{}{}
	if len(ctx.phantom) > 0 || ((srcNull || n <= 0) && !disabled && !srcUnknown && !disabledUnknown && !isStage) {
		// Evaluate the body once with unknown elements to classify the
		// stages in it.
		ph := DimSet{thisDim: true}.addAll(ctx.phantom)
		a := map[string]interface{}{}
		for k, v := range args {
			a[k] = v
		}
		for _, id := range splitIds {
			a[id] = Unknown{"element of an empty collection"}
		}
		invoke(a, callCtx{context: ctx.context + c.Name() + "[]", coords: ctx.coords, phantom: ph})
		if len(ctx.phantom) > 0 {
			for _, o := range outs {
				result[o.Name] = Unknown{"inside a mapped call without forks"}
			}
			return result, outTypes, nil, nil
		}
	}
	if srcUnknown || disabledUnknown {
		for _, o := range outs {
			result[o.Name] = Unknown{"split source unknown"}
		}
		return result, outTypes, nil, nil
	}
	if srcNull || n <= 0 || disabled {
		// No forks (or disabled): null, empty collection, or collection of nulls.
		if disabled {
			m.Disabled = append(m.Disabled, path+" "+ctx.context+" (mapped)")
		}
		for _, o := range outs {
			var opts []interface{}
			opts = append(opts, nil)
			if mode == KTMap {
				opts = append(opts, map[string]interface{}{})
				if disabled && n > 0 {
					mm := map[string]interface{}{}
					for _, k := range keys {
						mm[k] = nil
					}
					opts = append(opts, mm)
				}
			} else {
				opts = append(opts, []interface{}{})
				if disabled && n > 0 {
					opts = append(opts, make([]interface{}, n))
				}
			}
			result[o.Name] = Alt{opts}
			outDeps[o.Name] = ctxDeps
			outDims[o.Name] = DimSet{}.addAll(ctxDims).addAll(srcDims)
		}
		return result, outTypes, outDeps, outDims
	}
	forkOuts := make([]map[string]interface{}, n)
	for i := 0; i < n; i++ {
		a := map[string]interface{}{}
		for k, v := range args {
			a[k] = v
		}
		var label string
		for _, id := range splitIds {
			if mode == KArray {
				a[id] = m.Conv(args[id].([]interface{})[i], inTypes[id])
				label = fmt.Sprintf("[%d]", i)
			} else {
				a[id] = m.Conv(args[id].(map[string]interface{})[keys[i]], inTypes[id])
				label = fmt.Sprintf("[%q]", keys[i])
			}
		}
		var d map[string]DepSet
		var dm map[string]DimSet
		coords := append(append([]coord{}, ctx.coords...), coord{thisDim, label})
		forkOuts[i], d, dm = invoke(a, callCtx{context: ctx.context + c.Name() + label, disabled: false, coords: coords})
		for k, x := range d {
			outDeps[k] = outDeps[k].addAll(x, "")
		}
		for k, x := range dm {
			nd := DimSet{}.addAll(srcDims)
			for dim := range x {
				if dim != thisDim {
					nd[dim] = true
				}
			}
			outDims[k] = outDims[k].addAll(nd)
		}
	}
	for _, o := range outs {
		if mode == KArray {
			arr := make([]interface{}, n)
			for i := range arr {
				arr[i] = forkOuts[i][o.Name]
			}
			result[o.Name] = arr
		} else {
			mm := map[string]interface{}{}
			for i, k := range keys {
				mm[k] = forkOuts[i][o.Name]
			}
			result[o.Name] = mm
		}
	}
	return result, outTypes, outDeps, outDims
}

func mapAny(m map[string]interface{}) interface{} { return map[string]interface{}(m) }

func ContainsUnknown(v interface{}) bool {
	switch a := v.(type) {
	case Unknown:
		return true
	case Alt:
		for _, o := range a.Options {
			if ContainsUnknown(o) {
				return true
			}
		}
	case []interface{}:
		for _, x := range a {
			if ContainsUnknown(x) {
				return true
			}
		}
	case map[string]interface{}:
		for _, x := range a {
			if ContainsUnknown(x) {
				return true
			}
		}
	}
	return false
}

// Match compares an expected value (which may contain Alt) with an observed
// JSON value.  Numbers are compared numerically.
func Match(exp, got interface{}) bool {
	switch e := exp.(type) {
	case Unknown:
		return true
	case Alt:
		for _, o := range e.Options {
			if Match(o, got) {
				return true
			}
		}
		return false
	case nil:
		return got == nil
	case bool:
		g, ok := got.(bool)
		return ok && g == e
	case string:
		g, ok := got.(string)
		return ok && g == e
	case json.Number:
		return numEq(e, got)
	case float64:
		return numEq(json.Number(fmt.Sprint(e)), got)
	case int64:
		return numEq(json.Number(fmt.Sprint(e)), got)
	case int:
		return numEq(json.Number(fmt.Sprint(e)), got)
	case []interface{}:
		g, ok := got.([]interface{})
		if !ok || len(g) != len(e) {
			return false
		}
		for i := range e {
			if !Match(e[i], g[i]) {
				return false
			}
		}
		return true
	case map[string]interface{}:
		g, ok := got.(map[string]interface{})
		if !ok || len(g) != len(e) {
			return false
		}
		for k, x := range e {
			y, ok := g[k]
			if !ok || !Match(x, y) {
				return false
			}
		}
		return true
	}
	return false
}

func numEq(e json.Number, got interface{}) bool {
	var gs string
	switch g := got.(type) {
	case json.Number:
		gs = string(g)
	case float64:
		gs = fmt.Sprint(g)
	case int64:
		gs = fmt.Sprint(g)
	case int:
		gs = fmt.Sprint(g)
	default:
		return false
	}
	if gs == string(e) {
		return true
	}
	a, _, err1 := big.ParseFloat(string(e), 10, 200, big.ToNearestEven)
	b, _, err2 := big.ParseFloat(gs, 10, 200, big.ToNearestEven)
	if err1 != nil || err2 != nil {
		return false
	}
	return a.Cmp(b) == 0
}

// Render prints a model value for diagnostics.
func Render(v interface{}) string {
	switch a := v.(type) {
	case Unknown:
		return "<unknown:" + a.Why + ">"
	case Alt:
		var parts []string
		for _, o := range a.Options {
			parts = append(parts, Render(o))
		}
		return "<one of " + strings.Join(parts, " | ") + ">"
	case []interface{}:
		var parts []string
		for _, o := range a {
			parts = append(parts, Render(o))
		}
		return "[" + strings.Join(parts, ",") + "]"
	case map[string]interface{}:
		ks := make([]string, 0, len(a))
		for k := range a {
			ks = append(ks, k)
		}
		sort.Strings(ks)
		var parts []string
		for _, k := range ks {
			parts = append(parts, fmt.Sprintf("%q:%s", k, Render(a[k])))
		}
		return "{" + strings.Join(parts, ",") + "}"
	}
	b, _ := json.Marshal(v)
	return string(b)
}
