// Package pgen is a generator of MRO programs (as an IR), a printer of the
// IR to MRO text, and an independent reference evaluator of the IR.  It
// shares no code with martian.
package pgen

import (
	"fmt"
	"math/rand"
	"sort"
	"strconv"
	"strings"
)

type Kind int

const (
	KInt Kind = iota
	KFloat
	KString
	KBool
	KPath
	KFile
	KMap // untyped map
	KUserFile
	KStruct
	KArray
	KTMap
)

type Type struct {
	Kind Kind
	Name string // user file type name or struct name
	Elem *Type  // array / typed map
}

var (
	TInt    = &Type{Kind: KInt}
	TFloat  = &Type{Kind: KFloat}
	TString = &Type{Kind: KString}
	TBool   = &Type{Kind: KBool}
	TPath   = &Type{Kind: KPath}
	TFile   = &Type{Kind: KFile}
	TMap    = &Type{Kind: KMap}
)

func ArrayOf(t *Type) *Type { return &Type{Kind: KArray, Elem: t} }
func TMapOf(t *Type) *Type  { return &Type{Kind: KTMap, Elem: t} }

// CanBeTMapElem reports whether map<t> is expressible: t must be a
// non-map base type with any number of array dimensions.
func (t *Type) CanBeTMapElem() bool {
	for t.Kind == KArray {
		t = t.Elem
	}
	return t.Kind != KTMap && t.Kind != KMap
}

func (t *Type) String() string {
	switch t.Kind {
	case KInt:
		return "int"
	case KFloat:
		return "float"
	case KString:
		return "string"
	case KBool:
		return "bool"
	case KPath:
		return "path"
	case KFile:
		return "file"
	case KMap:
		return "map"
	case KUserFile, KStruct:
		return t.Name
	case KArray:
		return t.Elem.String() + "[]"
	case KTMap:
		return "map<" + t.Elem.String() + ">"
	}
	return "?"
}

func (t *Type) Equal(o *Type) bool {
	if t.Kind != o.Kind || t.Name != o.Name {
		return false
	}
	if t.Elem != nil {
		return t.Elem.Equal(o.Elem)
	}
	return true
}

// IsFileLike: values of this type are paths which the runtime tracks.
func (t *Type) IsFileLike() bool {
	return t.Kind == KFile || t.Kind == KPath || t.Kind == KUserFile
}

// ContainsFile reports whether a value of the type may hold tracked files.
func (t *Type) ContainsFile(p *Program) bool {
	switch t.Kind {
	case KFile, KPath, KUserFile:
		return true
	case KArray, KTMap:
		return t.Elem.ContainsFile(p)
	case KStruct:
		for _, f := range p.Struct(t.Name).Fields {
			if f.Type.ContainsFile(p) {
				return true
			}
		}
	}
	return false
}

type Param struct {
	Name    string
	Type    *Type
	Help    string
	OutName string
}

type Struct struct {
	Name   string
	Fields []Param
	File   int // index of the include file defining it
}

type Resources struct {
	Threads                                 float64
	MemGB                                   float64
	VMemGB                                  float64
	Special                                 string
	Volatile                                string // "", "strict", "false"
	HasThreads, HasMem, HasVMem, HasSpecial bool
}

type Stage struct {
	Name      string
	Ins       []Param
	Outs      []Param
	Split     bool
	ChunkIns  []Param
	ChunkOuts []Param
	SrcLang   string
	Src       string
	Res       *Resources
	Retain    []string
	File      int
	// For surface-syntax variety.
	SplitUsing bool
}

type ExpKind int

const (
	ENull ExpKind = iota
	EInt
	EFloat
	EString
	EBool
	EArray
	EMap    // {"k": v}
	EStruct // {k: v}
	ERefSelf
	ERefCall
)

type Exp struct {
	Kind  ExpKind
	I     int64
	F     float64
	FText string // exact source text for floats, optional
	S     string
	B     bool
	Elems []*Exp
	Keys  []string // for EMap / EStruct, parallel to Elems
	Id    string   // ref: param name (self) or call name
	Path  []string // ref: output id then field path (call); field path (self)
}

type Binding struct {
	Id    string // "*" for wildcard
	Exp   *Exp
	Split bool
}

type Call struct {
	Callee    string
	Alias     string // "" if none
	Local     bool
	Preflight bool
	Volatile  bool
	Disabled  *Exp
	Map       bool
	Binds     []Binding
	// Surface syntax: put local/preflight/volatile in using(...) block.
	ModsInUsing bool
}

func (c *Call) Name() string {
	if c.Alias != "" {
		return c.Alias
	}
	return c.Callee
}

type Pipeline struct {
	Name   string
	Ins    []Param
	Outs   []Param
	Calls  []*Call
	Ret    []Binding
	Retain []*Exp
	File   int
	// PrintOrder, if it has one entry per call, is the order in which the
	// calls are written in the pipeline body.
	PrintOrder []int
}

type Program struct {
	FileTypes  []string
	FileTypeOf []int // file index per filetype
	Structs    []*Struct
	Stages     []*Stage
	Pipelines  []*Pipeline
	Top        *Call
	NFiles     int      // number of include files (0 => single file)
	FileNames  []string // names of include files
	Comments   bool
	Seed       int64
}

// ShuffleCallOrder makes every pipeline body list its calls in another order
// than the dependency order they were generated in (legal MRO: the compiler
// sorts calls by dependency): reversed, or a random permutation.
func (p *Program) ShuffleCallOrder(seed int64) {
	r := rand.New(rand.NewSource(seed))
	for _, pl := range p.Pipelines {
		n := len(pl.Calls)
		pl.PrintOrder = make([]int, n)
		if r.Intn(2) == 0 {
			for i := range pl.PrintOrder {
				pl.PrintOrder[i] = n - 1 - i
			}
		} else {
			copy(pl.PrintOrder, r.Perm(n))
		}
	}
}

func (p *Program) Struct(name string) *Struct {
	for _, s := range p.Structs {
		if s.Name == name {
			return s
		}
	}
	return nil
}

func (p *Program) Stage(name string) *Stage {
	for _, s := range p.Stages {
		if s.Name == name {
			return s
		}
	}
	return nil
}

func (p *Program) Pipeline(name string) *Pipeline {
	for _, s := range p.Pipelines {
		if s.Name == name {
			return s
		}
	}
	return nil
}

// Callable returns ins, outs for a callable name.
func (p *Program) Callable(name string) (ins, outs []Param, isStage bool, ok bool) {
	if s := p.Stage(name); s != nil {
		return s.Ins, s.Outs, true, true
	}
	if s := p.Pipeline(name); s != nil {
		return s.Ins, s.Outs, false, true
	}
	return nil, nil, false, false
}

// ---------------------------------------------------------------------
// Printer

func QuoteString(s string) string {
	var b strings.Builder
	b.WriteByte('"')
	for _, r := range s {
		switch r {
		case '"':
			b.WriteString(`\"`)
		case '\\':
			b.WriteString(`\\`)
		case '\n':
			b.WriteString(`\n`)
		case '\t':
			b.WriteString(`\t`)
		case '\r':
			b.WriteString(`\r`)
		case '\b':
			b.WriteString(`\b`)
		case '\f':
			b.WriteString(`\f`)
		default:
			if r < 0x20 || r == 0x7f {
				fmt.Fprintf(&b, `\u%04x`, r)
			} else {
				b.WriteRune(r)
			}
		}
	}
	b.WriteByte('"')
	return b.String()
}

func (e *Exp) String() string {
	var b strings.Builder
	e.write(&b)
	return b.String()
}

func FormatFloat(f float64) string {
	s := strconv.FormatFloat(f, 'g', -1, 64)
	if !strings.ContainsAny(s, ".e") {
		s += ".0"
	}
	return s
}

// MultiLinePct: percentage of array / map literals in call and return
// bindings printed one element per line (so that comments can precede
// collection elements).  Decided by a counter so that printing is
// deterministic.
var MultiLinePct = 0
var mlCounter uint32

func mlChoice() bool {
	if MultiLinePct <= 0 {
		return false
	}
	mlCounter = mlCounter*1664525 + 1013904223
	return int(mlCounter>>16)%100 < MultiLinePct
}

// writeIndented prints collection literals over several lines.
func (e *Exp) writeIndented(b *strings.Builder, indent string) {
	if (e.Kind == EArray || e.Kind == EMap || e.Kind == EStruct) && len(e.Elems) > 0 && mlChoice() {
		open, close := "[", "]"
		if e.Kind != EArray {
			open, close = "{", "}"
		}
		b.WriteString(open + "\n")
		for i, x := range e.Elems {
			b.WriteString(indent + "    ")
			if e.Kind == EMap {
				b.WriteString(QuoteString(e.Keys[i]) + ": ")
			} else if e.Kind == EStruct {
				b.WriteString(e.Keys[i] + ": ")
			}
			x.writeIndented(b, indent+"    ")
			b.WriteString(",\n")
		}
		b.WriteString(indent + close)
		return
	}
	e.write(b)
}

func (e *Exp) write(b *strings.Builder) {
	switch e.Kind {
	case ENull:
		b.WriteString("null")
	case EInt:
		b.WriteString(strconv.FormatInt(e.I, 10))
	case EFloat:
		if e.FText != "" {
			b.WriteString(e.FText)
		} else {
			b.WriteString(FormatFloat(e.F))
		}
	case EString:
		b.WriteString(QuoteString(e.S))
	case EBool:
		if e.B {
			b.WriteString("true")
		} else {
			b.WriteString("false")
		}
	case EArray:
		b.WriteByte('[')
		for i, x := range e.Elems {
			if i > 0 {
				b.WriteString(", ")
			}
			x.write(b)
		}
		b.WriteByte(']')
	case EMap, EStruct:
		b.WriteByte('{')
		for i, x := range e.Elems {
			if i > 0 {
				b.WriteString(", ")
			}
			if e.Kind == EMap {
				b.WriteString(QuoteString(e.Keys[i]))
			} else {
				b.WriteString(e.Keys[i])
			}
			b.WriteString(": ")
			x.write(b)
		}
		b.WriteByte('}')
	case ERefSelf:
		b.WriteString("self." + e.Id)
		for _, p := range e.Path {
			b.WriteString("." + p)
		}
	case ERefCall:
		b.WriteString(e.Id)
		for _, p := range e.Path {
			b.WriteString("." + p)
		}
	}
}

func writeParam(b *strings.Builder, dir string, p Param, indent string) {
	b.WriteString(indent)
	if dir != "" {
		b.WriteString(dir + " ")
	}
	if dir == "out" && p.Name == "default" {
		// the legacy unnamed output: `out T,` declares an output called "default"
		b.WriteString(p.Type.String())
	} else {
		b.WriteString(p.Type.String() + " " + p.Name)
	}
	if p.Help != "" || p.OutName != "" {
		b.WriteString(" " + QuoteString(p.Help))
	}
	if p.OutName != "" {
		b.WriteString(" " + QuoteString(p.OutName))
	}
	b.WriteString(",\n")
}

func (s *Struct) Print(b *strings.Builder) {
	b.WriteString("struct " + s.Name + "(\n")
	for _, f := range s.Fields {
		writeParam(b, "", f, "    ")
	}
	b.WriteString(")\n\n")
}

func fmtNum(f float64) string {
	return strconv.FormatFloat(f, 'g', -1, 64)
}

func (s *Stage) Print(b *strings.Builder) {
	b.WriteString("stage " + s.Name + "(\n")
	for _, p := range s.Ins {
		writeParam(b, "in ", p, "    ")
	}
	for _, p := range s.Outs {
		writeParam(b, "out", p, "    ")
	}
	b.WriteString("    src " + s.SrcLang + " " + QuoteString(s.Src) + ",\n")
	if s.Split {
		if s.SplitUsing {
			b.WriteString(") split using (\n")
		} else {
			b.WriteString(") split (\n")
		}
		for _, p := range s.ChunkIns {
			writeParam(b, "in ", p, "    ")
		}
		for _, p := range s.ChunkOuts {
			writeParam(b, "out", p, "    ")
		}
	}
	if r := s.Res; r != nil {
		b.WriteString(") using (\n")
		if r.HasMem {
			b.WriteString("    mem_gb = " + fmtNum(r.MemGB) + ",\n")
		}
		if r.HasThreads {
			b.WriteString("    threads = " + fmtNum(r.Threads) + ",\n")
		}
		if r.HasVMem {
			b.WriteString("    vmem_gb = " + fmtNum(r.VMemGB) + ",\n")
		}
		if r.HasSpecial {
			b.WriteString("    special = " + QuoteString(r.Special) + ",\n")
		}
		if r.Volatile != "" {
			b.WriteString("    volatile = " + r.Volatile + ",\n")
		}
	}
	if len(s.Retain) > 0 {
		b.WriteString(") retain (\n")
		for _, r := range s.Retain {
			b.WriteString("    " + r + ",\n")
		}
	}
	b.WriteString(")\n\n")
}

func (c *Call) Print(b *strings.Builder, indent string) {
	b.WriteString(indent)
	if c.Map {
		b.WriteString("map ")
	}
	b.WriteString("call ")
	if !c.ModsInUsing {
		if c.Local {
			b.WriteString("local ")
		}
		if c.Preflight {
			b.WriteString("preflight ")
		}
		if c.Volatile {
			b.WriteString("volatile ")
		}
	}
	b.WriteString(c.Callee)
	if c.Alias != "" {
		b.WriteString(" as " + c.Alias)
	}
	b.WriteString("(\n")
	w := 0
	for _, bd := range c.Binds {
		if len(bd.Id) > w {
			w = len(bd.Id)
		}
	}
	for _, bd := range c.Binds {
		b.WriteString(indent + "    " + bd.Id + strings.Repeat(" ", w-len(bd.Id)) + " = ")
		if bd.Split {
			b.WriteString("split ")
		}
		bd.Exp.writeIndented(b, indent+"    ")
		b.WriteString(",\n")
	}
	b.WriteString(indent + ")")
	var mods []string
	if c.ModsInUsing {
		if c.Local {
			mods = append(mods, "local = true")
		}
		if c.Preflight {
			mods = append(mods, "preflight = true")
		}
		if c.Volatile {
			mods = append(mods, "volatile = true")
		}
	}
	if c.Disabled != nil {
		mods = append(mods, "disabled = "+c.Disabled.String())
	}
	if len(mods) > 0 {
		b.WriteString(" using (\n")
		for _, m := range mods {
			b.WriteString(indent + "    " + m + ",\n")
		}
		b.WriteString(indent + ")")
	}
	b.WriteString("\n")
}

func (p *Pipeline) Print(b *strings.Builder) {
	b.WriteString("pipeline " + p.Name + "(\n")
	for _, x := range p.Ins {
		writeParam(b, "in ", x, "    ")
	}
	for _, x := range p.Outs {
		writeParam(b, "out", x, "    ")
	}
	b.WriteString(")\n{\n")
	if len(p.PrintOrder) == len(p.Calls) {
		for _, i := range p.PrintOrder {
			p.Calls[i].Print(b, "    ")
			b.WriteString("\n")
		}
	} else {
		for _, c := range p.Calls {
			c.Print(b, "    ")
			b.WriteString("\n")
		}
	}
	b.WriteString("    return (\n")
	w := 0
	for _, bd := range p.Ret {
		if len(bd.Id) > w {
			w = len(bd.Id)
		}
	}
	for _, bd := range p.Ret {
		b.WriteString("        " + bd.Id + strings.Repeat(" ", w-len(bd.Id)) + " = ")
		bd.Exp.writeIndented(b, "        ")
		b.WriteString(",\n")
	}
	b.WriteString("    )\n")
	if len(p.Retain) > 0 {
		b.WriteString("\n    retain (\n")
		for _, r := range p.Retain {
			b.WriteString("        " + r.String() + ",\n")
		}
		b.WriteString("    )\n")
	}
	b.WriteString("}\n\n")
}

// Print renders the program as a set of files: name -> text.  The main file
// is "main.mro".  With NFiles == 0 everything is in main.mro.
func (p *Program) Print() map[string]string {
	files := map[string]*strings.Builder{}
	get := func(i int) *strings.Builder {
		name := "main.mro"
		if p.NFiles > 0 && i >= 0 && i < p.NFiles {
			name = p.FileNames[i]
		}
		if files[name] == nil {
			files[name] = &strings.Builder{}
		}
		return files[name]
	}
	main := get(-1)
	if p.NFiles > 0 {
		// Each include file includes all lower-numbered files (so
		// diamonds arise); main includes all.
		for i := 0; i < p.NFiles; i++ {
			b := get(i)
			for j := 0; j < i; j++ {
				if (i+j)%2 == 1 || j == i-1 {
					b.WriteString("@include " + QuoteString(p.FileNames[j]) + "\n")
				}
			}
			if i > 0 {
				b.WriteString("\n")
			}
		}
		for i := 0; i < p.NFiles; i++ {
			main.WriteString("@include " + QuoteString(p.FileNames[i]) + "\n")
		}
		main.WriteString("\n")
	}
	fileOf := func(i int) int {
		if p.NFiles == 0 {
			return -1
		}
		return i
	}
	for i, ft := range p.FileTypes {
		fi := -1
		if p.NFiles > 0 && i < len(p.FileTypeOf) {
			fi = 0 // file types must precede their users: put in first file
		}
		get(fi).WriteString("filetype " + ft + ";\n")
	}
	if len(p.FileTypes) > 0 {
		get(func() int {
			if p.NFiles > 0 {
				return 0
			}
			return -1
		}()).WriteString("\n")
	}
	for _, s := range p.Structs {
		s.Print(get(fileOf(s.File)))
	}
	for _, s := range p.Stages {
		s.Print(get(fileOf(s.File)))
	}
	for _, s := range p.Pipelines {
		s.Print(get(fileOf(s.File)))
	}
	if p.Top != nil {
		p.Top.Print(main, "")
	}
	out := map[string]string{}
	for k, v := range files {
		out[k] = v.String()
	}
	return out
}

// SingleFile prints everything into one text.
func (p *Program) SingleFile() string {
	q := *p
	q.NFiles = 0
	return q.Print()["main.mro"]
}

func SortedKeys[V any](m map[string]V) []string {
	ks := make([]string, 0, len(m))
	for k := range m {
		ks = append(ks, k)
	}
	sort.Strings(ks)
	return ks
}
