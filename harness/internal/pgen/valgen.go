package pgen

import (
	"crypto/sha256"
	"encoding/binary"
	"fmt"
	"sort"
)

// Hash-derived, type-shaped value generation used by the probe stage.

type HashRng struct {
	seed [32]byte
	ctr  uint64
	buf  [32]byte
	pos  int
}

func NewHashRng(parts ...string) *HashRng {
	h := sha256.New()
	for _, p := range parts {
		h.Write([]byte(p))
		h.Write([]byte{0})
	}
	r := &HashRng{pos: 32}
	copy(r.seed[:], h.Sum(nil))
	return r
}

func (r *HashRng) Uint64() uint64 {
	if r.pos+8 > 32 {
		h := sha256.New()
		h.Write(r.seed[:])
		var c [8]byte
		binary.LittleEndian.PutUint64(c[:], r.ctr)
		r.ctr++
		h.Write(c[:])
		copy(r.buf[:], h.Sum(nil))
		r.pos = 0
	}
	v := binary.LittleEndian.Uint64(r.buf[r.pos:])
	r.pos += 8
	return v
}

func (r *HashRng) Intn(n int) int {
	if n <= 0 {
		return 0
	}
	return int(r.Uint64() % uint64(n))
}

func (r *HashRng) Pct(p int) bool { return r.Intn(100) < p }

func (r *HashRng) Hex(n int) string {
	return fmt.Sprintf("%016x", r.Uint64())[:n]
}

// FileSink receives requests to materialise a file for a file-typed leaf.
// It returns the path to put into the outputs.
type FileSink func(leafPath string, t *Type, r *HashRng) interface{}

// GenValue produces a JSON-encodable value of type t.
func (s *Spec) GenValue(t *Type, r *HashRng, leafPath string, sink FileSink, depth int) interface{} {
	if depth > 0 && t.Kind != KBool && r.Pct(s.PNull) { // bools are never null (a null control is not a defined condition)
		return nil
	}
	switch t.Kind {
	case KInt:
		return int64(r.Uint64() % 1000000007)
	case KFloat:
		return float64(r.Intn(1<<20)) / 64
	case KString:
		if s.PathInStringPct > 0 && sink != nil && r.Pct(s.PathInStringPct) {
			// a string that names a file the stage wrote (a path carried in a
			// plain string output, as stage code commonly does)
			if v, ok := sink(leafPath, TFile, r).(string); ok && v != "" {
				return v
			}
		}
		return "v-" + r.Hex(10)
	case KBool:
		v := r.Pct(50)
		if s.ForceBool != nil {
			return *s.ForceBool
		}
		return v
	case KPath, KFile, KUserFile:
		return sink(leafPath, t, r)
	case KMap:
		m := map[string]interface{}{}
		m["id"] = "u-" + r.Hex(8)
		if r.Pct(50) {
			m["n"] = r.Intn(100)
		}
		if r.Pct(30) {
			m["l"] = []interface{}{r.Intn(10), "x"}
		}
		return m
	case KStruct:
		m := map[string]interface{}{}
		for _, f := range s.Structs[t.Name] {
			m[f.Name] = s.GenValue(f.Type.ToType(), r, leafPath+"."+f.Name, sink, depth+1)
		}
		return m
	case KArray:
		n := r.Intn(s.MaxLen + 1)
		if len(s.LenChoices) > 0 && depth == 0 {
			n = s.LenChoices[r.Intn(len(s.LenChoices))]
		}
		if len(s.Len1Choices) > 0 && depth == 1 {
			n = s.Len1Choices[r.Intn(len(s.Len1Choices))]
		}
		if s.EmptyPct > 0 && depth == 0 && r.Pct(s.EmptyPct) {
			n = 0
		}
		if s.ForceLen > 0 && depth == 0 {
			n = s.ForceLen - 1
		}
		out := make([]interface{}, 0, n)
		for i := 0; i < n; i++ {
			if s.LastRow != "" && depth == 0 && i == n-1 && n > 1 && (t.Elem.Kind == KArray || t.Elem.Kind == KTMap) {
				// the last row is empty / null while earlier rows have content
				if s.LastRow == "null" {
					out = append(out, nil)
				} else if t.Elem.Kind == KArray {
					out = append(out, []interface{}{})
				} else {
					out = append(out, map[string]interface{}{})
				}
				continue
			}
			out = append(out, s.GenValue(t.Elem, r, fmt.Sprintf("%s.%d", leafPath, i), sink, depth+1))
		}
		return out
	case KTMap:
		n := r.Intn(s.MaxLen + 1)
		if len(s.LenChoices) > 0 && depth == 0 {
			n = s.LenChoices[r.Intn(len(s.LenChoices))]
		}
		if len(s.Len1Choices) > 0 && depth == 1 {
			n = s.Len1Choices[r.Intn(len(s.Len1Choices))]
		}
		if s.EmptyPct > 0 && depth == 0 && r.Pct(s.EmptyPct) {
			n = 0
		}
		if s.ForceLen > 0 && depth == 0 {
			n = s.ForceLen - 1
		}
		pool := s.KeyPool
		if len(pool) == 0 {
			pool = []string{"a", "b", "c", "d"}
		}
		if n > len(pool) {
			n = len(pool)
		}
		// choose n distinct keys
		idx := make([]int, len(pool))
		for i := range idx {
			idx[i] = i
		}
		for i := 0; i < n; i++ {
			j := i + r.Intn(len(pool)-i)
			idx[i], idx[j] = idx[j], idx[i]
		}
		keys := make([]string, 0, n)
		for i := 0; i < n; i++ {
			keys = append(keys, pool[idx[i]])
		}
		sort.Strings(keys)
		m := map[string]interface{}{}
		for _, k := range keys {
			m[k] = s.GenValue(t.Elem, r, leafPath+"."+k, sink, depth+1)
		}
		return m
	}
	return nil
}
