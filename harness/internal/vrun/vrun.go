// Package vrun runs real mrp pipestances of generated programs and collects
// what the probe stages and the verif hooks observed.
package vrun

import (
	"archive/zip"
	"bufio"
	"bytes"
	"encoding/json"
	"fmt"
	"io"
	"os"
	"os/exec"
	"path/filepath"
	"regexp"
	"sort"
	"strings"
	"syscall"
	"time"

	"verif/harness/internal/pgen"
)

type FCheck struct {
	Path  string `json:"path"`
	State string `json:"state"`
	Tok   string `json:"tok"`
	Size  int64  `json:"size"`
}

type Written struct {
	Path string `json:"path"`
	Size int64  `json:"size"`
	Tok  string `json:"tok"`
	Dir  bool   `json:"dir"`
	Kind string `json:"kind"`
}

type Event struct {
	Ev        string            `json:"ev"`
	T         int64             `json:"t"`
	Pid       int               `json:"pid"`
	Mrp       int               `json:"mrp"`
	Stage     string            `json:"stage"`
	Phase     string            `json:"phase"`
	Job       string            `json:"job"`
	Meta      string            `json:"meta"`
	Files     string            `json:"files"`
	Attempt   int               `json:"attempt"`
	Args      json.RawMessage   `json:"args"`
	ChunkDefs json.RawMessage   `json:"chunk_defs"`
	ChunkOuts json.RawMessage   `json:"chunk_outs"`
	Outs      json.RawMessage   `json:"outs"`
	StageDefs json.RawMessage   `json:"stage_defs"`
	FChecks   []FCheck          `json:"fchecks"`
	Written   []Written         `json:"written"`
	Missing   []string          `json:"declared_missing"`
	Env       map[string]string `json:"env"`
	Fault     string            `json:"fault"`
	Cwd       string            `json:"cwd"`
	Note      string            `json:"note"`
}

type TraceRec struct {
	T           int64    `json:"t"`
	Pid         int      `json:"pid"`
	Proc        string   `json:"proc"`
	Seq         int64    `json:"seq"`
	Name        string   `json:"name"`
	Hit         int64    `json:"hit"`
	Detail      []string `json:"detail"`
	Count       *int64   `json:"count"`
	Size        *int64   `json:"size"`
	Paths       []string `json:"paths"`
	Crash       string   `json:"crash"`
	RootDirSize *int64   `json:"root_dir_size"`
}

type Case struct {
	Dir        string
	MroDir     string
	PsDir      string
	physPsDir  string // the pipestance directory with symlinks resolved, if it differs from PsDir
	SpecPath   string
	EventsPath string
	TracePath  string
	Spec       *pgen.Spec
	Prog       *pgen.Program
	BuildDir   string
	Runs       int
	// MroPath is the MROPATH of the runs (nil: MroDir only).
	MroPath []string
}

// NewCase lays out a case directory: mro files, spec.
func NewCase(buildDir, dir string, p *pgen.Program, tweak func(*pgen.Spec)) (*Case, error) {
	c := &Case{Dir: dir, MroDir: filepath.Join(dir, "mro"), PsDir: filepath.Join(dir, "ps"),
		SpecPath: filepath.Join(dir, "spec.json"), EventsPath: filepath.Join(dir, "events.jsonl"),
		TracePath: filepath.Join(dir, "trace.jsonl"), Prog: p, BuildDir: buildDir}
	if err := os.MkdirAll(c.MroDir, 0755); err != nil {
		return nil, err
	}
	for name, text := range p.Print() {
		fp := filepath.Join(c.MroDir, name)
		os.MkdirAll(filepath.Dir(fp), 0755)
		if err := os.WriteFile(fp, []byte(text), 0644); err != nil {
			return nil, err
		}
	}
	// stages written in Python: a stub module per stage which calls the
	// probe in library mode (run through the real adapters/python/martian_shell.py)
	for _, st := range p.Stages {
		if st.SrcLang == "py" {
			md := filepath.Join(c.MroDir, st.Src)
			os.MkdirAll(md, 0755)
			text := strings.NewReplacer("@STAGE@", st.Name, "@PROBE@", filepath.Join(buildDir, "harness", "probe")).Replace(pyStub)
			if err := os.WriteFile(filepath.Join(md, "__init__.py"), []byte(text), 0644); err != nil {
				return nil, err
			}
		}
	}
	c.Spec = p.MakeSpec()
	c.Spec.PsRoot = c.PsDir
	if tweak != nil {
		tweak(c.Spec)
	}
	if c.Spec.SymlinkedParent {
		// <dir>/link -> <dir>/real; mrp is given <dir>/link/ps
		real := filepath.Join(dir, "real")
		if err := os.MkdirAll(real, 0755); err != nil {
			return nil, err
		}
		if err := os.Symlink(real, filepath.Join(dir, "link")); err != nil && !os.IsExist(err) {
			return nil, err
		}
		c.PsDir = filepath.Join(dir, "link", "ps")
		c.physPsDir = filepath.Join(real, "ps")
		c.Spec.PsRoot = c.PsDir
	}
	return c, c.WriteSpec()
}

// MroPaths: the MROPATH entries of the case.
func (c *Case) MroPaths() []string {
	if len(c.MroPath) > 0 {
		return c.MroPath
	}
	return []string{c.MroDir}
}

// RelocateIncludes moves the sub directory sub of MroDir (holding include
// files) into a sibling directory MroDir+suffix and makes MROPATH the two
// directories, in that order: the first entry is a string prefix - not a path
// prefix - of the directory the definitions now live in.
func (c *Case) RelocateIncludes(sub, suffix string) error {
	sib := c.MroDir + suffix
	if err := os.MkdirAll(sib, 0755); err != nil {
		return err
	}
	if err := os.Rename(filepath.Join(c.MroDir, sub), filepath.Join(sib, sub)); err != nil {
		return err
	}
	c.MroPath = []string{c.MroDir, sib}
	return nil
}

func (c *Case) WriteSpec() error {
	return os.WriteFile(c.SpecPath, c.Spec.Marshal(), 0644)
}

type RunOpts struct {
	Race      bool
	Args      []string // extra mrp args
	Env       []string // extra env
	Delays    string   // VERIF_DELAYS
	Crash     string   // VERIF_CRASH
	Inventory bool
	Seed      int64
	Timeout   time.Duration
	Strace    []string // if set, run under strace with these args
	MroFile   string   // default main.mro
	NoTrace   bool
	// If > 0: stop the run early once the hook trace shows this many
	// consecutive run-loop iterations without any state change (a logical
	// stall); reported as TimedOut + Stalled.
	StallLoops int
}

type RunResult struct {
	Exit     int
	Signaled bool
	TimedOut bool
	Stalled  bool
	Output   string
	Wall     time.Duration
	RaceLogs []string
	StartT   int64
	EndT     int64
}

// pyStub is the stage code of a Python probe stage.
const pyStub = `"""Probe stage @STAGE@ (generated): behaviour comes from the Go probe in library mode."""
import json
import os
import signal
import subprocess
import sys

import martian

STAGE = "@STAGE@"
PROBE = "@PROBE@"


def _probe(phase):
    meta, files, journal = sys.argv[3], sys.argv[4], sys.argv[5]
    subprocess.call([PROBE, "--lib", STAGE, phase, meta, files, journal])
    with open(os.path.join(meta, "_probe_result")) as handle:
        res = json.load(handle)
    os.remove(os.path.join(meta, "_probe_result"))
    fault = res.get("py_fault")
    if fault == "py_raise":
        raise RuntimeError("probe injected exception in " + res["job"])
    if fault == "py_exit":
        martian.exit("probe injected martian.exit in " + res["job"])
    if fault == "py_throw":
        martian.throw("probe injected martian.throw in " + res["job"])
    if fault == "py_sysexit":
        sys.exit(3)
    if fault == "py_osexit":
        os._exit(4)
    if fault == "py_kill":
        os.kill(os.getpid(), signal.SIGKILL)
    return res


def split(args):
    return _probe("split")["stage_defs"]


def main(args, outs):
    for key, value in _probe("main")["outs"].items():
        setattr(outs, key, value)


def join(args, outs, chunk_defs, chunk_outs):
    for key, value in _probe("join")["outs"].items():
        setattr(outs, key, value)
`

// PyProbeSrc is ProbeSrc with the stages selected by py written in Python.
func PyProbeSrc(buildDir string, py func(stage string) bool) func(string) (string, string) {
	comp := ProbeSrc(buildDir)
	return func(stage string) (string, string) {
		if py(stage) {
			return "py", "pyprobe_" + stage
		}
		return comp(stage)
	}
}

func ProbeSrc(buildDir string) func(string) (string, string) {
	probe := filepath.Join(buildDir, "harness", "probe")
	return func(stage string) (string, string) { return "comp", probe + " " + stage }
}

// Run executes mrp once on the case's pipestance directory.
func (c *Case) Run(o RunOpts) *RunResult {
	c.Runs++
	variant := "plain"
	if o.Race {
		variant = "race"
	}
	mrp := filepath.Join(c.BuildDir, variant, "bin", "mrp")
	if _, err := os.Stat(mrp); err != nil && o.Race {
		// no race build in this build directory: run the plain binary rather
		// than recording a run that never started
		mrp = filepath.Join(c.BuildDir, "plain", "bin", "mrp")
	}
	mro := o.MroFile
	if mro == "" {
		mro = "main.mro"
	}
	args := []string{filepath.Join(c.MroDir, mro), "psid", "--disable-ui", "--psdir=" + c.PsDir}
	args = append(args, o.Args...)
	var cmd *exec.Cmd
	if o.Strace != nil {
		sargs := append(append([]string{}, o.Strace...), mrp)
		cmd = exec.Command("strace", append(sargs, args...)...)
	} else {
		cmd = exec.Command(mrp, args...)
	}
	cmd.Dir = c.Dir
	raceLog := filepath.Join(c.Dir, fmt.Sprintf("race.%d", c.Runs))
	env := []string{}
	for _, e := range os.Environ() {
		if strings.HasPrefix(e, "VERIF_") || strings.HasPrefix(e, "GOFLAGS=") || strings.HasPrefix(e, "MROPATH=") ||
			strings.HasPrefix(e, "MROFLAGS=") || strings.HasPrefix(e, "GORACE=") {
			continue
		}
		env = append(env, e)
	}
	env = append(env,
		"MROPATH="+strings.Join(c.MroPaths(), ":"),
		"VERIF_SPEC="+c.SpecPath,
		"VERIF_EVENTS="+c.EventsPath,
		fmt.Sprintf("VERIF_SEED=%d", o.Seed),
		"GORACE=halt_on_error=0 exitcode=0 log_path="+raceLog,
	)
	if !o.NoTrace {
		env = append(env, "VERIF_TRACE="+c.TracePath)
	}
	os.MkdirAll(filepath.Join(c.Dir, "snap"), 0755)
	env = append(env, "VERIF_SNAPSHOT_DIR="+filepath.Join(c.Dir, "snap"))
	if o.Delays != "" {
		env = append(env, "VERIF_DELAYS="+o.Delays)
	}
	if o.Crash != "" {
		env = append(env, "VERIF_CRASH="+o.Crash)
	}
	if o.Inventory {
		env = append(env, "VERIF_INVENTORY=1")
	}
	env = append(env, o.Env...)
	cmd.Env = env
	var out bytes.Buffer
	cmd.Stdout = &out
	cmd.Stderr = &out
	cmd.SysProcAttr = &syscall.SysProcAttr{Setsid: true}
	// a leftover job process (own session, survives the kill of mrp's process
	// group) may keep the output pipe open: do not wait for it
	cmd.WaitDelay = 3 * time.Second
	res := &RunResult{StartT: Mono()}
	start := time.Now()
	if err := cmd.Start(); err != nil {
		res.Exit = -1
		res.Output = err.Error()
		return res
	}
	done := make(chan error, 1)
	finished := make(chan struct{}) // closed once the process has been waited for (never consumed)
	go func() { done <- cmd.Wait(); close(finished) }()
	timeout := o.Timeout
	if timeout == 0 {
		timeout = 120 * time.Second
	}
	var err error
	stall := make(chan struct{})
	if o.StallLoops > 0 && !o.NoTrace {
		go func() {
			for {
				time.Sleep(3 * time.Second)
				select {
				case <-finished:
					return
				default:
				}
				if IdleLoops(loadJSONL[TraceRec](c.TracePath)) >= o.StallLoops {
					close(stall)
					return
				}
			}
		}()
	}
	select {
	case err = <-done:
	case <-stall:
		res.TimedOut = true
		res.Stalled = true
		syscall.Kill(cmd.Process.Pid, syscall.SIGQUIT)
		time.Sleep(300 * time.Millisecond)
		syscall.Kill(-cmd.Process.Pid, syscall.SIGKILL)
		err = <-done
	case <-time.After(timeout):
		res.TimedOut = true
		// dump goroutines, then kill the whole session
		syscall.Kill(cmd.Process.Pid, syscall.SIGQUIT)
		time.Sleep(500 * time.Millisecond)
		syscall.Kill(-cmd.Process.Pid, syscall.SIGKILL)
		err = <-done
	}
	res.EndT = Mono()
	res.Wall = time.Since(start)
	res.Output = out.String()
	if err != nil {
		if ee, ok := err.(*exec.ExitError); ok {
			if ws, ok := ee.Sys().(syscall.WaitStatus); ok {
				if ws.Signaled() {
					res.Signaled = true
					res.Exit = 128 + int(ws.Signal())
				} else {
					res.Exit = ws.ExitStatus()
				}
			}
		} else {
			res.Exit = -1
		}
	}
	if m, _ := filepath.Glob(raceLog + ".*"); len(m) > 0 {
		res.RaceLogs = m
	}
	return res
}

// IdleLoops counts the run-loop iterations at the end of the trace (of the
// most recent mrp process) during which nothing changed state.
func IdleLoops(trace []TraceRec) int {
	idle := 0
	pid := 0
	for i := len(trace) - 1; i >= 0; i-- {
		t := trace[i]
		if t.Proc != "mrp" {
			continue
		}
		if pid == 0 {
			pid = t.Pid
		}
		if t.Pid != pid {
			break
		}
		switch {
		case t.Name == "loop:begin":
			idle++
		case strings.HasPrefix(t.Name, "meta:write") || strings.HasPrefix(t.Name, "runjob") ||
			strings.HasPrefix(t.Name, "refresh:file") || strings.HasPrefix(t.Name, "local:") ||
			strings.HasPrefix(t.Name, "remote:") || strings.HasPrefix(t.Name, "expand:"):
			return idle
		}
	}
	return idle
}

// WaitOrphans waits until no process has the pipestance dir in its cmdline
// (orphaned mrjob / probe processes after mrp was killed).
func (c *Case) WaitOrphans(max time.Duration) bool {
	deadline := time.Now().Add(max)
	for {
		if !c.anyProcess() {
			return true
		}
		if time.Now().After(deadline) {
			return false
		}
		time.Sleep(50 * time.Millisecond)
	}
}

func (c *Case) anyProcess() bool {
	ents, _ := os.ReadDir("/proc")
	needle := []byte(c.PsDir)
	for _, e := range ents {
		if n := e.Name(); n[0] >= '0' && n[0] <= '9' {
			b, err := os.ReadFile("/proc/" + n + "/cmdline")
			if err == nil && bytes.Contains(b, needle) {
				return true
			}
		}
	}
	return false
}

// KillAll kills every process mentioning the pipestance dir.
func (c *Case) KillAll() {
	ents, _ := os.ReadDir("/proc")
	needle := []byte(c.PsDir)
	for _, e := range ents {
		if n := e.Name(); n[0] >= '0' && n[0] <= '9' {
			b, err := os.ReadFile("/proc/" + n + "/cmdline")
			if err == nil && bytes.Contains(b, needle) {
				var pid int
				fmt.Sscan(n, &pid)
				if pid != os.Getpid() {
					syscall.Kill(pid, syscall.SIGKILL)
				}
			}
		}
	}
}

func Mono() int64 {
	var ts syscall.Timespec
	syscall.Syscall(syscall.SYS_CLOCK_GETTIME, 1, uintptr(ptr(&ts)), 0)
	return ts.Sec*1e9 + ts.Nsec
}

func (c *Case) Events() []Event {
	return loadJSONL[Event](c.EventsPath)
}

func (c *Case) Trace() []TraceRec {
	return loadJSONL[TraceRec](c.TracePath)
}

func loadJSONL[T any](p string) []T {
	f, err := os.Open(p)
	if err != nil {
		return nil
	}
	defer f.Close()
	var out []T
	sc := bufio.NewScanner(f)
	sc.Buffer(make([]byte, 1<<20), 64<<20)
	for sc.Scan() {
		var e T
		if json.Unmarshal(sc.Bytes(), &e) == nil {
			out = append(out, e)
		}
	}
	return out
}

type TreeEntry struct {
	Path   string // relative to ps dir
	Mode   os.FileMode
	Size   int64
	Target string
}

// UnzipMetadata restores, for the monitors, the metadata files that an mrp run
// with --zip moved into <psdir>/_metadata.zip on completion (files already
// present are left alone, the archive stays). Returns the number of entries
// restored.
func (c *Case) UnzipMetadata() (int, error) {
	zp := filepath.Join(c.PsDir, "_metadata.zip")
	zr, err := zip.OpenReader(zp)
	if err != nil {
		if os.IsNotExist(err) {
			return 0, nil
		}
		return 0, err
	}
	defer zr.Close()
	n := 0
	for _, f := range zr.File {
		dst := filepath.Join(c.PsDir, f.Name)
		if !strings.HasPrefix(dst, c.PsDir+string(os.PathSeparator)) {
			return n, fmt.Errorf("zip entry %q escapes the pipestance", f.Name)
		}
		if _, err := os.Lstat(dst); err == nil {
			continue
		}
		rc, err := f.Open()
		if err != nil {
			return n, err
		}
		b, err := io.ReadAll(rc)
		rc.Close()
		if err != nil {
			return n, err
		}
		os.MkdirAll(filepath.Dir(dst), 0755)
		if f.Mode()&os.ModeSymlink != 0 {
			err = os.Symlink(string(b), dst)
		} else {
			err = os.WriteFile(dst, b, 0644)
		}
		if err != nil {
			return n, err
		}
		n++
	}
	return n, nil
}

// Tree lists the pipestance directory.
func (c *Case) Tree() []TreeEntry {
	var out []TreeEntry
	filepath.Walk(c.PsDir, func(p string, info os.FileInfo, err error) error {
		if err != nil || info == nil {
			return nil
		}
		rel, _ := filepath.Rel(c.PsDir, p)
		te := TreeEntry{Path: rel, Mode: info.Mode(), Size: info.Size()}
		if info.Mode()&os.ModeSymlink != 0 {
			te.Target, _ = os.Readlink(p)
		}
		out = append(out, te)
		return nil
	})
	sort.Slice(out, func(i, j int) bool { return out[i].Path < out[j].Path })
	return out
}

var uniqRe = regexp.MustCompile(`-u[0-9a-f]{10}`)

// Canon replaces the pipestance root by $PS and strips uniquifiers.
func (c *Case) Canon(s string) string {
	s = strings.ReplaceAll(s, c.PsDir, "$PS")
	if c.physPsDir != "" {
		s = strings.ReplaceAll(s, c.physPsDir, "$PS")
	}
	return uniqRe.ReplaceAllString(s, "")
}

func StripUniq(s string) string { return uniqRe.ReplaceAllString(s, "") }

// PrePostprocessOuts returns the top-level _outs as it was just before
// post-processing (hook snapshot), or nil.
func (c *Case) PrePostprocessOuts() interface{} {
	m, _ := filepath.Glob(filepath.Join(c.Dir, "snap", "pre_postprocess.*"))
	if len(m) == 0 {
		return nil
	}
	sort.Strings(m)
	v, err := ReadJSON(m[len(m)-1])
	if err != nil {
		return nil
	}
	return v
}

// ReadJSON reads a JSON file with UseNumber.
func ReadJSON(p string) (interface{}, error) {
	b, err := os.ReadFile(p)
	if err != nil {
		return nil, err
	}
	return ParseJSON(b)
}

func ParseJSON(b []byte) (interface{}, error) {
	var v interface{}
	d := json.NewDecoder(bytes.NewReader(b))
	d.UseNumber()
	if err := d.Decode(&v); err != nil {
		return nil, err
	}
	return v, nil
}

// RaceReports parses race detector logs into de-duplicated reports.
type RaceReport struct {
	Key   string
	Text  string
	Files []string
}

func ParseRaceLogs(paths []string) []RaceReport {
	var out []RaceReport
	seen := map[string]bool{}
	fnRe := regexp.MustCompile(`^  ([^\s(]+)\(`)
	fileRe := regexp.MustCompile(`^\s+(/\S+\.go):\d+`)
	for _, p := range paths {
		b, err := os.ReadFile(p)
		if err != nil {
			continue
		}
		blocks := strings.Split(string(b), "==================")
		for _, blk := range blocks {
			if !strings.Contains(blk, "WARNING: DATA RACE") {
				continue
			}
			var fns []string
			files := map[string]bool{}
			for _, l := range strings.Split(blk, "\n") {
				if m := fnRe.FindStringSubmatch(l); m != nil {
					fns = append(fns, m[1])
				}
				if m := fileRe.FindStringSubmatch(l); m != nil {
					files[filepath.Base(m[1])] = true
				}
			}
			key := strings.Join(fns, "|")
			if seen[key] {
				continue
			}
			seen[key] = true
			r := RaceReport{Key: key, Text: blk}
			for f := range files {
				r.Files = append(r.Files, f)
			}
			sort.Strings(r.Files)
			out = append(out, r)
		}
	}
	return out
}
