package vrun

import "unsafe"

func ptr[T any](p *T) unsafe.Pointer { return unsafe.Pointer(p) }
