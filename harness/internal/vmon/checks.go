package vmon

import (
	"encoding/json"
	"fmt"
	"os"
	"path/filepath"
	"sort"
	"strings"

	"verif/harness/internal/pgen"
	"verif/harness/internal/vrun"
)

type Finding struct {
	Prop   string
	Sig    string // structural signature (known-finding matching)
	What   string
	Detail interface{}
}

type Report struct {
	Findings []Finding
	// coverage counters
	Jobs, Forks, Invocations, DepEdges, FileChecks, IntraForkEdges int
	DepKinds                                                       map[string]int
	Disabled                                                       int
	TopLeaves                                                      int
	ChunkChecks                                                    int
}

func (r *Report) add(prop, sig, what string, detail interface{}) {
	r.Findings = append(r.Findings, Finding{prop, sig, what, detail})
}

func (r *Report) For(prop string) []Finding {
	var out []Finding
	for _, f := range r.Findings {
		if f.Prop == prop {
			out = append(out, f)
		}
	}
	return out
}

func short(v interface{}) string {
	s := pgen.Render(v)
	if len(s) > 700 {
		s = s[:700] + "…"
	}
	return s
}

// Analyze runs the model against the observations and evaluates the
// dataflow (C01), ordering (C02), exactly-once (C03) and file liveness (C04)
// monitors for a failure-free completed run.
func Analyze(o *Obs, p *pgen.Program) (*pgen.Model, *Report) {
	r := &Report{DepKinds: map[string]int{}}
	m := pgen.NewModel(p, o)
	m.Run()
	r.Jobs = len(o.Jobs)
	r.Forks = len(o.Forks)
	r.Invocations = len(m.Invs)
	r.Disabled = len(m.Disabled)
	for _, pr := range m.Problems {
		r.add("MODEL", "model-problem", pr, nil)
	}

	// ---- C01 / C03: invocations vs observed forks
	for _, inv := range m.Invs {
		if inv.Args == nil {
			continue // upstream unknown: skipped, reported at the first consumer
		}
		if inv.Token == nil {
			var seen []string
			for _, f := range o.ByCall[inv.Path] {
				mark := ""
				if f.Claimed > 0 {
					mark = " (matched by another expected invocation)"
				}
				seen = append(seen, f.Dir+": "+short(f.Args)+mark)
			}
			sort.Strings(seen)
			what := fmt.Sprintf("stage call %s %s: bindings denote args %s but no recorded execution received them; recorded executions: %s",
				inv.Path, inv.Context, short(mapOf(inv.Args)), strings.Join(seen, " ; "))
			prop := "C01"
			if len(o.ByCall[inv.Path]) == 0 {
				prop = "C03"
				what = fmt.Sprintf("stage call %s %s is enabled (args %s) but no job of it was executed", inv.Path, inv.Context, short(mapOf(inv.Args)))
			}
			r.add(prop, "args:"+classify(p, inv.Path)+aliasSuffix(p, m, inv.Path)+nestedDynSuffix(p, inv.Deps), what, nil)
			if prop == "C01" {
				// also a count problem if the number of forks differs
				continue
			}
		} else if strings.Contains(inv.Context, "duplicate-args") {
			r.add("C03", "missing-exec:"+classify(p, inv.Path),
				fmt.Sprintf("stage call %s: more executions expected with args %s than recorded", inv.Path, short(mapOf(inv.Args))), nil)
		}
	}
	for _, f := range o.Forks {
		if f.Claimed == 0 {
			// an executed fork nobody expected
			expect := []string{}
			for _, inv := range m.Invs {
				if inv.Path == f.CallPath && inv.Args != nil {
					mark := ""
					if inv.Token != nil {
						mark = " (matched)"
					}
					expect = append(expect, inv.Context+": "+short(mapOf(inv.Args))+mark)
				}
			}
			anyUnknown := false
			for _, inv := range m.Invs {
				if inv.Path == f.CallPath && inv.Args == nil {
					anyUnknown = true
				}
			}
			if anyUnknown {
				continue // cannot attribute: an expected invocation has unknown args
			}
			prop := "C01"
			what := fmt.Sprintf("stage call %s fork %s executed with args %s which no binding evaluation denotes; expected: %s",
				f.CallPath, f.Dir, short(f.Args), strings.Join(expect, " ; "))
			sig := "unexpected-exec:" + classify(p, f.CallPath) + aliasSuffix(p, m, f.CallPath) + nestedDynSuffix(p, depsOfPath(m, f.CallPath))
			if len(expect) == 0 {
				prop = "C03"
				what = fmt.Sprintf("stage call %s fork %s executed (args %s) although the call is disabled or has no fork for it",
					f.CallPath, f.Dir, short(f.Args))
				if m.IndepOfEmpty[f.CallPath] > 0 {
					sig = "exec-in-empty-map:indep"
					what = fmt.Sprintf("stage call %s fork %s executed (args %s) although an enclosing pipeline call is mapped over an empty or null collection; the stage's bindings do not depend on that map dimension",
						f.CallPath, f.Dir, short(f.Args))
				}
			}
			r.add(prop, sig, what, nil)
		}
		// fork count mismatch = C03
	}
	// Count per call path.
	expCount := map[string]int{}
	unknownAt := map[string]bool{}
	for _, inv := range m.Invs {
		expCount[inv.Path]++
		if inv.Args == nil {
			unknownAt[inv.Path] = true
		}
	}
	for _, cp := range o.CallPaths {
		if unknownAt[cp] {
			continue
		}
		if got := len(o.ByCall[cp]); got != expCount[cp] {
			if got > expCount[cp] && got <= expCount[cp]+m.IndepOfEmpty[cp] {
				continue // reported as exec-in-empty-map:indep
			}
			r.add("C03", "fork-count:"+classify(p, cp),
				fmt.Sprintf("stage call %s: %d forks executed, %d expected (one per element/key/combination)", cp, got, expCount[cp]), nil)
		}
	}

	// ---- per-fork structure: C01 chunk args / join inputs, C02 phase order, C03 once
	for _, j := range o.JobOrder {
		if len(j.Starts) != 1 {
			r.add("C03", "multi-start:"+j.Phase,
				fmt.Sprintf("job %s was started %d times in a failure-free run", j.ID, len(j.Starts)), nil)
		}
		if len(j.Ends) != len(j.Starts) {
			r.add("HARNESS", "no-end", fmt.Sprintf("job %s has %d starts, %d ends", j.ID, len(j.Starts), len(j.Ends)), nil)
		}
	}
	for _, f := range o.Forks {
		st := stageOfCall(p, f.CallPath)
		if st == nil {
			r.add("C03", "unknown-call", "job recorded under unknown call path "+f.Key, nil)
			continue
		}
		if !st.Split {
			if f.Split != nil || f.Join != nil || len(f.Chunks) != 1 {
				r.add("C03", "phases:nosplit", fmt.Sprintf("non-splitting stage fork %s ran split=%v join=%v chunks=%d",
					f.Key, f.Split != nil, f.Join != nil, len(f.Chunks)), nil)
			}
			continue
		}
		if f.Split == nil || f.Split.LastEnd() == nil {
			r.add("C03", "phases:nosplitjob", "splitting stage fork "+f.Key+" ran without a (finished) split job", nil)
			continue
		}
		var sd struct {
			Chunks []map[string]interface{} `json:"chunks"`
		}
		sdv := o.CanonJSON(f.Split.LastEnd().StageDefs)
		b, _ := json.Marshal(sdv)
		json.Unmarshal(b, &sd)
		sdm, _ := sdv.(map[string]interface{})
		var chunkDefs []interface{}
		if sdm != nil {
			chunkDefs, _ = sdm["chunks"].([]interface{})
		}
		if len(chunkDefs) != len(f.Chunks) {
			r.add("C03", "chunk-count", fmt.Sprintf("fork %s: split defined %d chunks, %d chunk jobs executed",
				f.Key, len(chunkDefs), len(f.Chunks)), nil)
		}
		if f.Join == nil {
			r.add("C03", "phases:nojoin", "splitting stage fork "+f.Key+" ran no join job", nil)
		}
		splitEnd := f.Split.LastEnd().T
		for i, cj := range f.Chunks {
			if cj == nil || cj.FirstStart() == nil {
				r.add("C03", "chunk-missing", fmt.Sprintf("fork %s: chunk %d was not executed", f.Key, i), nil)
				continue
			}
			r.IntraForkEdges++
			if cj.FirstStart().T < splitEnd {
				r.add("C02", "chunk-before-split-end", fmt.Sprintf("fork %s: chunk %d started %d ns before the split job finished",
					f.Key, i, splitEnd-cj.FirstStart().T), nil)
			}
			if i < len(chunkDefs) {
				// chunk args = stage args overlaid with the chunk def
				exp := map[string]interface{}{}
				if am, ok := f.Args.(map[string]interface{}); ok {
					for k, v := range am {
						exp[k] = v
					}
				}
				if cd, ok := StripDunder(chunkDefs[i]).(map[string]interface{}); ok {
					for k, v := range cd {
						exp[k] = v
					}
				}
				got := StripDunder(o.CanonJSON(cj.LastStart().Args))
				r.ChunkChecks++
				if !pgen.Match(exp, got) {
					r.add("C01", "chunk-args", fmt.Sprintf("fork %s chunk %d: args %s, expected stage args overlaid with chunk def: %s",
						f.Key, i, short(got), short(exp)), nil)
				}
			}
			if f.Join != nil && f.Join.FirstStart() != nil && cj.LastEnd() != nil {
				r.IntraForkEdges++
				if f.Join.FirstStart().T < cj.LastEnd().T {
					r.add("C02", "join-before-chunk-end", fmt.Sprintf("fork %s: join started %d ns before chunk %d finished",
						f.Key, cj.LastEnd().T-f.Join.FirstStart().T, i), nil)
				}
			}
		}
		if f.Join != nil && f.Join.FirstStart() != nil {
			js := f.Join.LastStart()
			if js.T < splitEnd {
				r.add("C02", "join-before-split-end", "fork "+f.Key+": join started before split finished", nil)
			}
			gotArgs := StripDunder(o.CanonJSON(js.Args))
			r.ChunkChecks++
			if !pgen.Match(f.Args, gotArgs) {
				r.add("C01", "join-args", fmt.Sprintf("fork %s: join args %s differ from the stage args %s", f.Key, short(gotArgs), short(f.Args)), nil)
			}
			// _chunk_defs
			gotDefs, _ := o.CanonJSON(js.ChunkDefs).([]interface{})
			if len(gotDefs) != len(chunkDefs) {
				r.add("C01", "join-chunk-defs-len", fmt.Sprintf("fork %s: join got %d chunk defs, split defined %d", f.Key, len(gotDefs), len(chunkDefs)), nil)
			} else {
				for i := range gotDefs {
					if !pgen.Match(StripDunder(chunkDefs[i]), StripDunder(gotDefs[i])) {
						r.add("C01", "join-chunk-defs", fmt.Sprintf("fork %s: join chunk def %d = %s, split defined %s", f.Key, i, short(gotDefs[i]), short(chunkDefs[i])), nil)
					}
				}
			}
			gotOuts, _ := o.CanonJSON(js.ChunkOuts).([]interface{})
			if len(gotOuts) != len(f.Chunks) {
				r.add("C01", "join-chunk-outs-len", fmt.Sprintf("fork %s: join got %d chunk outs for %d chunks", f.Key, len(gotOuts), len(f.Chunks)), nil)
			} else {
				for i, cj := range f.Chunks {
					if cj == nil || cj.LastEnd() == nil {
						continue
					}
					exp, _ := o.CanonJSON(cj.LastEnd().Outs).(map[string]interface{})
					got, _ := gotOuts[i].(map[string]interface{})
					r.ChunkChecks++
					// every declared chunk/stage out the chunk wrote must arrive, in chunk order
					for _, prm := range append(append([]pgen.Param{}, st.ChunkOuts...), st.Outs...) {
						ev, ok := exp[prm.Name]
						if !ok {
							continue
						}
						if gv, ok := got[prm.Name]; !ok || !pgen.Match(ev, gv) {
							r.add("C01", "join-chunk-outs", fmt.Sprintf("fork %s: join's chunk_outs[%d].%s = %s but chunk %d wrote %s",
								f.Key, i, prm.Name, short(got[prm.Name]), i, short(ev)), nil)
							break
						}
					}
				}
			}
		}
	}

	// ---- C02: dependency ordering between invocations
	for _, inv := range m.Invs {
		fc, _ := inv.Token.(*Fork)
		if fc == nil {
			continue
		}
		cs, cj := firstStart(fc)
		if cj == nil {
			continue
		}
		for i, dep := range inv.Deps {
			fp, _ := dep.Token.(*Fork)
			if fp == nil {
				continue
			}
			kind := inv.DepKinds[i]
			r.DepEdges++
			r.DepKinds[kind]++
			pe, pj, unfinished := lastEnd(fp)
			if unfinished != nil {
				r.add("C02", "start-before-producer-end:"+kind,
					fmt.Sprintf("job %s started although producer job %s (%s dependency) never recorded completion", cj.ID, unfinished.ID, kind), nil)
				continue
			}
			if pj != nil && cs < pe {
				r.add("C02", "start-before-producer-end:"+kind,
					fmt.Sprintf("job %s started %.1f ms before job %s finished; %s consumes %s as %s",
						cj.ID, float64(pe-cs)/1e6, pj.ID, inv.Path, dep.Path, kind), nil)
			}
		}
	}

	// Executed forks that no expected invocation accounts for still belong to a
	// stage call: whatever every invocation of that call depends on, this job
	// depended on too.
	for _, f := range o.Forks {
		if f.Claimed != 0 {
			continue
		}
		type depk struct {
			d    *pgen.StageInvocation
			kind string
		}
		var common map[depk]bool
		for _, inv := range m.Invs {
			if inv.Path != f.CallPath {
				continue
			}
			mine := map[depk]bool{}
			for i, d := range inv.Deps {
				mine[depk{d, inv.DepKinds[i]}] = true
			}
			if common == nil {
				common = mine
			} else {
				for k := range common {
					if !mine[k] {
						delete(common, k)
					}
				}
			}
		}
		cs, cj := firstStart(f)
		if cj == nil {
			continue
		}
		var keys []depk
		for k := range common {
			keys = append(keys, k)
		}
		sort.Slice(keys, func(i, j int) bool {
			if keys[i].d.Path != keys[j].d.Path {
				return keys[i].d.Path < keys[j].d.Path
			}
			if keys[i].d.Context != keys[j].d.Context {
				return keys[i].d.Context < keys[j].d.Context
			}
			return keys[i].kind < keys[j].kind
		})
		for _, k := range keys {
			fp, _ := k.d.Token.(*Fork)
			if fp == nil {
				continue
			}
			r.DepEdges++
			r.DepKinds[k.kind]++
			pe, pj, unfinished := lastEnd(fp)
			if unfinished != nil {
				r.add("C02", "start-before-producer-end:"+k.kind,
					fmt.Sprintf("job %s (a fork no binding evaluation denotes) started although producer job %s (%s dependency of every fork of %s) never recorded completion", cj.ID, unfinished.ID, k.kind, f.CallPath), nil)
			} else if pj != nil && cs < pe {
				r.add("C02", "start-before-producer-end:"+k.kind,
					fmt.Sprintf("job %s (a fork no binding evaluation denotes) started %.1f ms before job %s finished; every fork of %s consumes %s as %s",
						cj.ID, float64(pe-cs)/1e6, pj.ID, f.CallPath, k.d.Path, k.kind), nil)
			}
		}
	}

	// ---- C04: file liveness as seen by consumers
	writtenBy := map[string]*vrun.Written{}
	for i := range o.Events {
		e := &o.Events[i]
		if e.Ev == "end" {
			for k := range e.Written {
				w := &e.Written[k]
				if w.Kind == "out" {
					// keyed by the name relative to the pipestance: a stage may name its
					// own file by its physical path when the pipestance is reached through
					// a symlink
					writtenBy[o.Case.Canon(w.Path)] = w
				}
			}
		}
		if e.Ev == "start" {
			for _, fc := range e.FChecks {
				w := writtenBy[o.Case.Canon(fc.Path)]
				if w == nil {
					continue
				}
				r.FileChecks++
				switch {
				case fc.State == "missing" || fc.State == "dir-nocontent" || fc.State == "unreadable":
					r.add("C04", "consumer-file-"+fc.State,
						fmt.Sprintf("job %s found file %s (named in its arguments, written by its producer) %s at start", e.Job, o.Case.Canon(fc.Path), fc.State), nil)
				case fc.Tok != w.Tok:
					r.add("C04", "consumer-file-content",
						fmt.Sprintf("job %s found file %s with content token %q, producer wrote %q", e.Job, o.Case.Canon(fc.Path), fc.Tok, w.Tok), nil)
				}
			}
		}
	}
	return m, r
}

func firstStart(f *Fork) (int64, *Job) {
	var best *Job
	var t int64
	for _, j := range forkJobs(f) {
		if s := j.FirstStart(); s != nil && (best == nil || s.T < t) {
			best, t = j, s.T
		}
	}
	return t, best
}

// lastEnd returns the latest end among the fork's jobs, or a job that has
// not finished.
func lastEnd(f *Fork) (int64, *Job, *Job) {
	var best *Job
	var t int64
	for _, j := range forkJobs(f) {
		// finished = the last attempt that started also ended (an earlier
		// attempt that died and was retried has a start without an end)
		e := j.LastEnd()
		if ls := j.LastStart(); e == nil || (ls != nil && e.T < ls.T) {
			return 0, nil, j
		}
		if best == nil || e.T > t {
			best, t = j, e.T
		}
	}
	return t, best, nil
}

func forkJobs(f *Fork) []*Job {
	var out []*Job
	if f.Split != nil {
		out = append(out, f.Split)
	}
	for _, c := range f.Chunks {
		if c != nil {
			out = append(out, c)
		}
	}
	if f.Join != nil {
		out = append(out, f.Join)
	}
	return out
}

func stageOfCall(p *pgen.Program, callPath string) *pgen.Stage {
	parts := strings.Split(callPath, "/")
	pl := p.Pipeline(parts[0])
	for i := 1; i < len(parts) && pl != nil; i++ {
		var call *pgen.Call
		for _, c := range pl.Calls {
			if c.Name() == parts[i] {
				call = c
			}
		}
		if call == nil {
			return nil
		}
		if i == len(parts)-1 {
			return p.Stage(call.Callee)
		}
		pl = p.Pipeline(call.Callee)
	}
	return nil
}

// classify describes the mapping structure around a stage call path:
// for each enclosing call (outermost first) S = single, L = map over
// literal, D = map over a run-time sized source (call output / pipeline
// input of a nested pipeline).
func classify(p *pgen.Program, callPath string) string {
	parts := strings.Split(callPath, "/")
	pl := p.Pipeline(parts[0])
	var sb strings.Builder
	for i := 1; i < len(parts) && pl != nil; i++ {
		var call *pgen.Call
		for _, c := range pl.Calls {
			if c.Name() == parts[i] {
				call = c
			}
		}
		if call == nil {
			break
		}
		switch {
		case !call.Map:
			sb.WriteByte('S')
		default:
			k := byte('L')
			for _, b := range call.Binds {
				if b.Split && (b.Exp.Kind == pgen.ERefCall || b.Exp.Kind == pgen.ERefSelf) {
					k = 'D'
				}
			}
			sb.WriteByte(k)
		}
		if call.Disabled != nil {
			sb.WriteByte('d')
		}
		pl = p.Pipeline(call.Callee)
	}
	return sb.String()
}

// mappedStms returns, for every map call statement on the static path of a
// stage call, the statement's identity (pipeline definition + call name)
// mapped to the instance path at which it occurs.
func mappedStms(p *pgen.Program, callPath string) map[string]string {
	out := map[string]string{}
	parts := strings.Split(callPath, "/")
	pl := p.Pipeline(parts[0])
	for i := 1; i < len(parts) && pl != nil; i++ {
		var call *pgen.Call
		for _, c := range pl.Calls {
			if c.Name() == parts[i] {
				call = c
			}
		}
		if call == nil {
			break
		}
		if call.Map {
			out[pl.Name+"::"+call.Name()] = strings.Join(parts[:i+1], "/")
		}
		pl = p.Pipeline(call.Callee)
	}
	return out
}

// aliasSuffix marks stage calls which consume data produced under another
// instance of one of their own enclosing map call statements (the same
// pipeline definition instantiated twice, one instance feeding the other).
func aliasSuffix(p *pgen.Program, m *pgen.Model, callPath string) string {
	mine := mappedStms(p, callPath)
	if len(mine) == 0 {
		return ""
	}
	for _, inv := range m.Invs {
		if inv.Path != callPath {
			continue
		}
		for _, d := range inv.Deps {
			for id, inst := range mappedStms(p, d.Path) {
				if other, ok := mine[id]; ok && other != inst {
					return ":fed-by-other-instance-of-own-map-call"
				}
			}
		}
	}
	return ""
}

// nestedDyn: a stage call sits under two or more map call levels at least one
// of which has a run-time size.
func nestedDyn(p *pgen.Program, callPath string) bool {
	c := classify(p, callPath)
	levels := strings.Count(c, "L") + strings.Count(c, "D")
	return levels >= 2 && strings.Contains(c, "D")
}

// nestedDynSuffix marks values that are merged from the forks of such a call.
func nestedDynSuffix(p *pgen.Program, deps []*pgen.StageInvocation) string {
	for _, d := range deps {
		if nestedDyn(p, d.Path) {
			return ":merged-from-nested-map-with-run-time-dimension"
		}
	}
	return ""
}

func depsOfPath(m *pgen.Model, callPath string) []*pgen.StageInvocation {
	var out []*pgen.StageInvocation
	for _, inv := range m.Invs {
		if inv.Path == callPath {
			out = append(out, inv.Deps...)
		}
	}
	return out
}

// AliasSuffix is aliasSuffix for other packages.
func AliasSuffix(p *pgen.Program, m *pgen.Model, callPath string) string {
	if m == nil {
		return ""
	}
	return aliasSuffix(p, m, callPath)
}

// CheckTopOuts compares the top-level outputs (C01 part 2, C04/C13 final
// files).  It reads the files named by the observed outs.
func CheckTopOuts(o *Obs, p *pgen.Program, m *pgen.Model, r *Report) {
	top := p.Pipeline(p.Top.Callee)
	// The outputs as recorded before post-processing rewrote file paths.
	got := o.Case.PrePostprocessOuts()
	if got == nil {
		outsPath := filepath.Join(o.Case.PsDir, top.Name, "fork0", "_outs")
		raw, err := os.ReadFile(outsPath)
		if err != nil {
			r.add("C01", "top-outs-missing", "top-level _outs not readable: "+err.Error(), nil)
			return
		}
		got, err = vrun.ParseJSON(raw)
		if err != nil {
			return // C13 reports invalid JSON
		}
	}
	tokOf := map[string]string{} // canonical producer value -> token
	for _, tok := range o.tokByPath {
		tokOf["tok:"+tok] = tok
	}
	if m.TopMapped {
		// mapped top-level call: _outs is the collection of the forks' output records
		for _, el := range topElements(m, top, got) {
			if el.problem != "" {
				r.add("C01", "top-out-value", el.problem, nil)
				continue
			}
			for _, out := range top.Outs {
				gv, ok := el.got[out.Name]
				if !ok {
					r.add("C01", "top-out-absent", "top-level output "+el.where+"."+out.Name+" absent from _outs", nil)
					continue
				}
				compareTop(o, p, r, el.where+"."+out.Name, out.Type, el.exp[out.Name], gv, tokOf)
			}
		}
		return
	}
	gm, _ := got.(map[string]interface{})
	for _, out := range top.Outs {
		exp := m.TopOuts[out.Name]
		gv, ok := gm[out.Name]
		if !ok {
			r.add("C01", "top-out-absent", "top-level output "+out.Name+" absent from _outs", nil)
			continue
		}
		n0 := len(r.Findings)
		compareTop(o, p, r, out.Name, out.Type, exp, gv, tokOf)
		var deps []*pgen.StageInvocation
		for d := range m.TopDeps[out.Name] {
			deps = append(deps, d)
		}
		if sfx := nestedDynSuffix(p, deps); sfx != "" {
			for i := n0; i < len(r.Findings); i++ {
				if r.Findings[i].Sig == "top-out-value" {
					r.Findings[i].Sig += sfx
				}
			}
		}
	}
}

// topElement is one fork of a mapped top-level call: the observed output
// record and the expected value of every output.
type topElement struct {
	where   string // [i] or ["key"]
	dir     string // directory name under outs/
	got     map[string]interface{}
	exp     map[string]interface{}
	problem string
}

// topElements transposes the model's per-output collections and pairs them
// with the records of the observed top-level _outs.
func topElements(m *pgen.Model, top *pgen.Pipeline, got interface{}) []topElement {
	var els []topElement
	expOf := func(sel func(coll interface{}) (interface{}, bool)) map[string]interface{} {
		e := map[string]interface{}{}
		for _, out := range top.Outs {
			if v, ok := sel(m.TopOuts[out.Name]); ok {
				e[out.Name] = v
			} else {
				e[out.Name] = pgen.Unknown{}
			}
		}
		return e
	}
	switch g := got.(type) {
	case []interface{}:
		for i, x := range g {
			i := i
			el := topElement{where: fmt.Sprintf("[%d]", i), dir: fmt.Sprintf("%0*d", widthFor(len(g)), i)}
			gm, ok := x.(map[string]interface{})
			if !ok {
				el.problem = fmt.Sprintf("top-level outputs %s is %s, not a record of the outputs", el.where, short(x))
			}
			el.got = gm
			el.exp = expOf(func(coll interface{}) (interface{}, bool) {
				a, ok := coll.([]interface{})
				if !ok || i >= len(a) {
					return nil, false
				}
				return a[i], true
			})
			els = append(els, el)
		}
		// the number of forks
		for _, out := range top.Outs {
			if a, ok := m.TopOuts[out.Name].([]interface{}); ok && len(a) != len(g) {
				els = append(els, topElement{problem: fmt.Sprintf("mapped top-level call recorded %d output records, bindings denote %d forks", len(g), len(a))})
				break
			}
		}
	case map[string]interface{}:
		var keys []string
		for k := range g {
			keys = append(keys, k)
		}
		sort.Strings(keys)
		for _, k := range keys {
			k := k
			el := topElement{where: fmt.Sprintf("[%q]", k), dir: k}
			gm, ok := g[k].(map[string]interface{})
			if !ok {
				el.problem = fmt.Sprintf("top-level outputs %s is %s, not a record of the outputs", el.where, short(g[k]))
			}
			el.got = gm
			el.exp = expOf(func(coll interface{}) (interface{}, bool) {
				mm, ok := coll.(map[string]interface{})
				if !ok {
					return nil, false
				}
				v, ok := mm[k]
				return v, ok
			})
			els = append(els, el)
		}
		for _, out := range top.Outs {
			if mm, ok := m.TopOuts[out.Name].(map[string]interface{}); ok && len(mm) != len(g) {
				els = append(els, topElement{problem: fmt.Sprintf("mapped top-level call recorded %d output records, bindings denote %d forks", len(g), len(mm))})
				break
			}
		}
	default:
		els = append(els, topElement{problem: fmt.Sprintf("top-level outputs of a mapped call are %s, not a collection of records", short(got))})
	}
	return els
}

func compareTop(o *Obs, p *pgen.Program, r *Report, where string, t *pgen.Type, exp, got interface{}, tokOf map[string]string) {
	if gm, ok := got.(map[string]interface{}); ok {
		_, a := gm["merge_over"]
		_, b := gm["merge_value"]
		if a && b {
			r.add("C01", "top-out-unresolved-merge-exp", fmt.Sprintf("top-level output %s was recorded as an unresolved merge expression %s; bindings denote %s", where, short(got), short(exp)), nil)
			return
		}
	}
	switch e := exp.(type) {
	case pgen.Unknown:
		return
	case pgen.Alt:
		for _, opt := range e.Options {
			if pgen.Match(opt, got) {
				return
			}
		}
		r.add("C01", "top-out-value", fmt.Sprintf("top-level output %s = %s, bindings denote %s", where, short(got), short(exp)), nil)
		return
	}
	if exp == nil {
		if got != nil {
			r.add("C01", "top-out-value", fmt.Sprintf("top-level output %s = %s, bindings denote null", where, short(got)), nil)
		}
		return
	}
	switch t.Kind {
	case pgen.KFile, pgen.KPath, pgen.KUserFile:
		r.TopLeaves++
		es, _ := exp.(string)
		tok, produced := tokOf[es]
		if !produced {
			// not a produced file (literal path): must be passed through or nulled
			if got != nil && !pgen.Match(exp, o.CanonValue(got)) {
				r.add("C01", "top-out-value", fmt.Sprintf("top-level output %s = %s, bindings denote %s", where, short(got), short(exp)), nil)
			}
			return
		}
		gs, ok := got.(string)
		if !ok {
			r.add("C01", "top-out-value", fmt.Sprintf("top-level file output %s is %s but the bindings denote the file %s", where, short(got), es), nil)
			return
		}
		if cs := o.CanonString(gs); cs != es {
			if fc := readTok(gs); fc != tok {
				r.add("C01", "top-out-value", fmt.Sprintf("top-level file output %s = %s (%s), bindings denote %s", where, gs, cs, es), nil)
			}
		}
	case pgen.KArray:
		ea, ok1 := exp.([]interface{})
		ga, ok2 := got.([]interface{})
		if !ok1 || !ok2 || len(ea) != len(ga) {
			r.add("C01", "top-out-value", fmt.Sprintf("top-level output %s = %s, bindings denote %s", where, short(got), short(exp)), nil)
			return
		}
		for i := range ea {
			compareTop(o, p, r, fmt.Sprintf("%s[%d]", where, i), t.Elem, ea[i], ga[i], tokOf)
		}
	case pgen.KTMap:
		em, ok1 := exp.(map[string]interface{})
		gm, ok2 := got.(map[string]interface{})
		if !ok1 || !ok2 || len(em) != len(gm) {
			r.add("C01", "top-out-value", fmt.Sprintf("top-level output %s = %s, bindings denote %s", where, short(got), short(exp)), nil)
			return
		}
		for k, ev := range em {
			gv, ok := gm[k]
			if !ok {
				r.add("C01", "top-out-value", fmt.Sprintf("top-level output %s lacks key %q", where, k), nil)
				continue
			}
			compareTop(o, p, r, fmt.Sprintf("%s[%q]", where, k), t.Elem, ev, gv, tokOf)
		}
	case pgen.KStruct:
		em, ok1 := exp.(map[string]interface{})
		gm, ok2 := got.(map[string]interface{})
		if !ok1 || !ok2 {
			r.add("C01", "top-out-value", fmt.Sprintf("top-level output %s = %s, bindings denote %s", where, short(got), short(exp)), nil)
			return
		}
		for _, f := range p.Struct(t.Name).Fields {
			compareTop(o, p, r, where+"."+f.Name, f.Type, em[f.Name], gm[f.Name], tokOf)
		}
	default:
		r.TopLeaves++
		if !pgen.Match(exp, o.CanonValue(got)) {
			r.add("C01", "top-out-value", fmt.Sprintf("top-level output %s = %s, bindings denote %s", where, short(got), short(exp)), nil)
		}
	}
}

func readTok(p string) string {
	st, err := os.Stat(p)
	if err != nil {
		return "<missing>"
	}
	if st.IsDir() {
		p = filepath.Join(p, "content")
	}
	b, err := os.ReadFile(p)
	if err != nil {
		return "<unreadable>"
	}
	if strings.HasPrefix(string(b), "tok:") {
		s := string(b[4:])
		if i := strings.IndexByte(s, '\n'); i >= 0 {
			s = s[:i]
		}
		return s
	}
	return "<no token>"
}
