package vmon

import (
	"fmt"
	"regexp"
	"strings"

	"verif/harness/internal/vrun"
)

// RouteStats counts what the journal-routing monitor saw.
type RouteStats struct {
	Routed, Unjudged, Unrouted, StaleAttempt, Misrouted int
}

var routeStateRe = regexp.MustCompile(`^[A-Za-z_]+$`)

// CheckJournalRouting is the C11 run-time monitor over the hook trace: for
// every journal file mrp processed (refresh:route records: file name as found
// on disk; journal base name, journal prefix and current uniquifier of the
// metadata object that received the notification; uniquifier parsed from the
// name), the file name must be one that the receiving object's own job writes:
//
//	<base>[.u<uniquifier>].<prefix><state>
//
// Anything else means the notification of one job was attributed to another
// node, fork, chunk or phase. refresh:unrouted records (mrp found no owner
// and dropped the file) are reported when flagUnrouted is set.
func CheckJournalRouting(trace []vrun.TraceRec, rep *Report, flagUnrouted bool) RouteStats {
	var st RouteStats
	seen := map[string]bool{}
	for _, t := range trace {
		switch t.Name {
		case "refresh:unrouted":
			st.Unrouted++
			if flagUnrouted && len(t.Detail) > 0 && !seen["u"+t.Detail[0]] {
				seen["u"+t.Detail[0]] = true
				rep.add("C11", "journal-notification-dropped", fmt.Sprintf("mrp found no owner for the journal file %q and dropped it", t.Detail[0]), nil)
			}
		case "refresh:route":
			if len(t.Detail) < 6 {
				continue
			}
			file, base, prefix, cur, parsed, fq := t.Detail[0], t.Detail[1], t.Detail[2], t.Detail[3], t.Detail[4], t.Detail[5]
			if base == "" {
				st.Unjudged++
				continue
			}
			st.Routed++
			ok := false
			if rest, found := strings.CutPrefix(file, base); found {
				if parsed != "" {
					rest, found = strings.CutPrefix(rest, ".u"+parsed)
				}
				if found {
					if rest, found = strings.CutPrefix(rest, "."+prefix); found && routeStateRe.MatchString(rest) {
						ok = true
					}
				}
			}
			if !ok {
				st.Misrouted++
				kind := "fork"
				if strings.Contains(base, ".chnk") {
					kind = "chunk"
				} else if prefix != "" {
					kind = strings.TrimSuffix(prefix, "_")
				}
				if !seen["m"+file+"|"+fq] {
					seen["m"+file+"|"+fq] = true
					rep.add("C11", "journal-misrouted-at-run-time:"+kind, fmt.Sprintf("mrp attributed the journal file %q to %s, whose own notifications are named %s[.u<id>].%s<state>", file, fq, base, prefix), nil)
				}
			} else if parsed != cur {
				st.StaleAttempt++
			}
		}
	}
	return st
}
