package vmon

import (
	"fmt"
	"os"
	"path/filepath"
	"strings"

	"verif/harness/internal/pgen"
	"verif/harness/internal/vrun"
)

// C13: final outputs materialised under outs/.
//
// The expected location of every file-typed leaf of the top-level outputs
// is re-derived here from the declared signature: parameter id (or explicit
// output name), "<id>.<type>" for user file types, a directory per
// struct / array / typed map with members named by field name, zero-padded
// index or key.

func widthFor(n int) int {
	w := 1
	for n >= 10 {
		n /= 10
		w++
	}
	return w
}

func leafName(id, outName string, t *pgen.Type) string {
	if outName != "" {
		return outName
	}
	if t.Kind == pgen.KUserFile {
		return id + "." + t.Name
	}
	return id
}

type outLeaf struct {
	where    string
	expected interface{} // model value (canonical): "tok:..." for produced files
	got      interface{}
	path     string // derived path under outs/
	t        *pgen.Type
	multiDim bool // reached through an array directly nested in an array
	how      string
}

func isLegalFilename(k string) bool {
	return k != "" && k != "." && k != ".." && !strings.ContainsAny(k, "/\x00") && len(k) <= 255
}

// CheckOutsDir verifies the outs/ tree and the post-processed _outs.
func CheckOutsDir(o *Obs, p *pgen.Program, m *pgen.Model, r *Report) {
	top := p.Pipeline(p.Top.Callee)
	outsPath := filepath.Join(o.Case.PsDir, top.Name, "fork0", "_outs")
	raw, err := os.ReadFile(outsPath)
	if err != nil {
		r.add("C13", "top-outs-missing", "top-level _outs not readable: "+err.Error(), nil)
		return
	}
	got, err := vrun.ParseJSON(raw)
	if err != nil {
		r.add("C13", "top-outs-invalid-json", "post-processed top-level _outs is not valid JSON: "+err.Error()+": "+string(raw), nil)
		return
	}
	gm, ok := got.(map[string]interface{})
	if !ok && !m.TopMapped {
		r.add("C13", "top-outs-shape", "post-processed top-level _outs is not an object", nil)
		return
	}
	missing := map[string]bool{}
	for i := range o.Events {
		e := &o.Events[i]
		if e.Ev == "end" {
			for _, mp := range e.Missing {
				missing[o.CanonString(mp)] = true
			}
		}
	}
	var leaves []outLeaf
	outsDir := filepath.Join(o.Case.PsDir, "outs")
	// Expected: the outputs as recorded just before post-processing.
	pre, _ := o.CanonValue(o.Case.PrePostprocessOuts()).(map[string]interface{})
	// one record per fork for a mapped top-level call (each fork's files
	// live under outs/<index or key>/), else the single record
	type record struct {
		where, dir string
		got, exp   map[string]interface{}
	}
	var records []record
	if m.TopMapped {
		preEls := map[string]map[string]interface{}{}
		for _, pe := range topElements(m, top, o.CanonValue(o.Case.PrePostprocessOuts())) {
			if pe.problem == "" {
				preEls[pe.where] = pe.got
			}
		}
		for _, el := range topElements(m, top, got) {
			if el.problem != "" {
				r.add("C13", "top-outs-shape", "post-processed "+el.problem, nil)
				continue
			}
			exp := el.exp
			if pm := preEls[el.where]; pm != nil {
				exp = pm
			}
			records = append(records, record{el.where + ".", el.dir, el.got, exp})
		}
	} else {
		exp := map[string]interface{}{}
		for _, out := range top.Outs {
			exp[out.Name] = m.TopOuts[out.Name]
			if pre != nil {
				if pv, ok := pre[out.Name]; ok {
					exp[out.Name] = pv
				}
			}
		}
		records = append(records, record{"", "", gm, exp})
	}
	for _, rec := range records {
		for _, out := range top.Outs {
			exp := rec.exp[out.Name]
			gv, ok := rec.got[out.Name]
			if !ok {
				r.add("C13", "top-out-absent", "top-level output "+rec.where+out.Name+" absent from post-processed _outs", nil)
				continue
			}
			n0 := len(leaves)
			collectLeaves(p, r, rec.where+out.Name, out.Type, exp, gv, filepath.Join(outsDir, rec.dir, leafName(out.Name, out.OutName, out.Type)), &leaves, false)
			how := "other"
			for _, b := range top.Ret {
				if b.Id == out.Name {
					switch {
					case b.Exp.Kind == pgen.ERefCall && len(b.Exp.Path) == 1:
						how = "direct-ref"
					case b.Exp.Kind == pgen.ERefCall && len(b.Exp.Path) > 1:
						how = "struct-field-projection"
					case b.Exp.Kind == pgen.ERefSelf:
						how = "pipeline-input"
					default:
						how = "literal"
					}
				}
			}
			for i := n0; i < len(leaves); i++ {
				leaves[i].how = how
			}
		}
	}
	// which derived paths share a source file
	bySource := map[string][]string{}
	for _, l := range leaves {
		if s, ok := l.expected.(string); ok && strings.HasPrefix(s, "tok:") {
			bySource[s] = append(bySource[s], l.path)
		}
	}
	for _, l := range leaves {
		r.TopLeaves++
		cls := ""
		if l.multiDim {
			cls = ":in-multidim-array"
		}
		es, isStr := l.expected.(string)
		switch {
		case l.expected == nil:
			if l.got != nil {
				r.add("C13", "file-leaf-value", fmt.Sprintf("output %s should be null, is %s", l.where, short(l.got)), nil)
			}
		case !isStr:
			// Unknown / Alt: skip
		case missing[es]:
			if l.got != nil {
				r.add("C13", "missing-file-not-null"+cls, fmt.Sprintf("output %s names a file the stage never wrote; expected null, got %s", l.where, short(l.got)), nil)
			}
		case strings.HasPrefix(es, "tok:"):
			tok := es[4:]
			gs, ok := l.got.(string)
			if !ok {
				why := ""
				if o.RemovedByVDR(tok) {
					why = ":removed-by-vdr"
				}
				r.add("C13", "file-leaf-lost"+cls+why, fmt.Sprintf("output %s: producer wrote a file (token %s) but the recorded value is %s", l.where, tok, short(l.got)), nil)
				r.add("C04", "final-file-lost"+why+":"+l.how, fmt.Sprintf("top-level file output %s (%s): the producer wrote a file (token %s) but at completion the value is %s", l.where, l.how, tok, short(l.got)), nil)
				continue
			}
			if ft := readTok(gs); ft != tok {
				r.add("C13", "file-leaf-json-content"+cls, fmt.Sprintf("output %s: recorded location %s has content token %q, producer wrote %q", l.where, gs, ft, tok), nil)
				r.add("C04", "final-file-content", fmt.Sprintf("top-level file output %s at %s has content token %q at completion, producer wrote %q", l.where, gs, ft, tok), nil)
			}
			if ft := readTok(l.path); ft != tok {
				r.add("C13", "file-leaf-outs-path"+cls, fmt.Sprintf("output %s: expected the file at %s (derived from parameter name/type/outname) with content token %q, found %q", l.where, o.Case.Canon(l.path), tok, ft), nil)
			}
			// The recorded value must be one of the derived locations of this source file
			// (a file outside the pipestance, or reached through a symlink the stage
			// made, may keep its own location).
			okLoc := !strings.HasPrefix(filepath.Clean(gs), o.Case.PsDir+"/") // outside file (content checked above)
			for rawPath, t2 := range o.tokByPath {
				if t2 == tok && filepath.Clean(gs) == filepath.Clean(rawPath) {
					if !strings.HasPrefix(rawPath, o.Case.PsDir+"/") || isSymlink(gs) {
						okLoc = true
					}
				}
			}
			for _, cand := range bySource[es] {
				if filepath.Clean(gs) == filepath.Clean(cand) {
					okLoc = true
				}
			}
			if !okLoc {
				r.add("C13", "file-leaf-json-location"+cls, fmt.Sprintf("output %s: recorded location %s is not the materialised location %s", l.where, o.Case.Canon(gs), o.Case.Canon(l.path)), nil)
			}
		default:
			// a path not produced by any stage (literal): passed through or nulled if absent
			if l.got != nil {
				if gs, ok := l.got.(string); !ok || o.CanonString(gs) != es {
					r.add("C13", "file-leaf-value", fmt.Sprintf("output %s = %s, expected %s or null", l.where, short(l.got), es), nil)
				}
			}
		}
	}
}

func collectLeaves(p *pgen.Program, r *Report, where string, t *pgen.Type, exp, got interface{}, path string, out *[]outLeaf, multi bool) {
	if !t.ContainsFile(p) {
		// non-file value: must be unchanged
		if _, unk := exp.(pgen.Unknown); unk {
			return
		}
		if !pgen.Match(exp, got) {
			r.add("C13", "non-file-value-changed", fmt.Sprintf("output %s = %s after post-processing, bindings denote %s", where, short(got), short(exp)), nil)
		}
		return
	}
	switch e := exp.(type) {
	case pgen.Unknown:
		return
	case pgen.Alt:
		for _, opt := range e.Options {
			if pgen.Match(opt, got) {
				return
			}
		}
		r.add("C13", "value-shape", fmt.Sprintf("output %s = %s, bindings denote %s", where, short(got), short(exp)), nil)
		return
	}
	if exp == nil {
		if got != nil {
			r.add("C13", "value-shape", fmt.Sprintf("output %s = %s, bindings denote null", where, short(got)), nil)
		}
		return
	}
	switch t.Kind {
	case pgen.KFile, pgen.KPath, pgen.KUserFile:
		*out = append(*out, outLeaf{where: where, expected: exp, got: got, path: path, t: t, multiDim: multi})
	case pgen.KArray:
		ea, ok1 := exp.([]interface{})
		ga, ok2 := got.([]interface{})
		if !ok1 || !ok2 || len(ea) != len(ga) {
			r.add("C13", "value-shape", fmt.Sprintf("output %s = %s, bindings denote %s", where, short(got), short(exp)), nil)
			return
		}
		w := widthFor(len(ea))
		for i := range ea {
			id := fmt.Sprintf("%0*d", w, i)
			collectLeaves(p, r, fmt.Sprintf("%s[%d]", where, i), t.Elem, ea[i], ga[i], filepath.Join(path, leafName(id, "", t.Elem)), out, multi || t.Elem.Kind == pgen.KArray)
		}
	case pgen.KTMap:
		em, ok1 := exp.(map[string]interface{})
		gm, ok2 := got.(map[string]interface{})
		if !ok1 || !ok2 {
			r.add("C13", "value-shape", fmt.Sprintf("output %s = %s, bindings denote %s", where, short(got), short(exp)), nil)
			return
		}
		for k, ev := range em {
			gv, ok := gm[k]
			if !ok {
				if !isLegalFilename(k) {
					// documented restriction: such a key cannot become a file name
					r.add("C13", "map-key-dropped-illegal-filename", fmt.Sprintf("output %s: key %q (not a legal file name) was dropped from the recorded outputs", where, k), nil)
					continue
				}
				r.add("C13", "value-shape", fmt.Sprintf("output %s lacks key %q after post-processing", where, k), nil)
				continue
			}
			collectLeaves(p, r, fmt.Sprintf("%s[%q]", where, k), t.Elem, ev, gv, filepath.Join(path, leafName(k, "", t.Elem)), out, multi)
		}
		for k := range gm {
			if _, ok := em[k]; !ok {
				r.add("C13", "value-shape", fmt.Sprintf("output %s has extra key %q after post-processing", where, k), nil)
			}
		}
	case pgen.KStruct:
		em, ok1 := exp.(map[string]interface{})
		gm, ok2 := got.(map[string]interface{})
		if !ok1 || !ok2 {
			r.add("C13", "value-shape", fmt.Sprintf("output %s = %s, bindings denote %s", where, short(got), short(exp)), nil)
			return
		}
		for _, f := range p.Struct(t.Name).Fields {
			gv, ok := gm[f.Name]
			if !ok {
				r.add("C13", "value-shape", fmt.Sprintf("output %s lacks field %q after post-processing", where, f.Name), nil)
				continue
			}
			collectLeaves(p, r, where+"."+f.Name, f.Type, em[f.Name], gv, filepath.Join(path, leafName(f.Name, f.OutName, f.Type)), out, multi)
		}
	}
}

func isSymlink(p string) bool {
	st, err := os.Lstat(p)
	return err == nil && st.Mode()&os.ModeSymlink != 0
}
