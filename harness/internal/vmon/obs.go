// Package vmon holds the offline monitors over recorded event logs of
// pipestance runs.
package vmon

import (
	"encoding/json"
	"fmt"
	"sort"
	"strings"

	"verif/harness/internal/pgen"
	"verif/harness/internal/vrun"
)

// Job is one logical job (a phase of a fork of a stage call) with all its
// recorded executions.
type Job struct {
	ID      string // logical id: <callpath>/<forkdir>/<phasedir>
	Stage   string
	Phase   string // split, main, join
	Starts  []*vrun.Event
	Ends    []*vrun.Event
	Faults  []*vrun.Event
	ForkKey string // <callpath>/<forkdir>
	Chunk   int    // chunk index for main jobs, else -1
}

func (j *Job) FirstStart() *vrun.Event {
	if len(j.Starts) == 0 {
		return nil
	}
	return j.Starts[0]
}
func (j *Job) LastStart() *vrun.Event {
	if len(j.Starts) == 0 {
		return nil
	}
	return j.Starts[len(j.Starts)-1]
}
func (j *Job) LastEnd() *vrun.Event {
	if len(j.Ends) == 0 {
		return nil
	}
	return j.Ends[len(j.Ends)-1]
}

// Fork groups the jobs of one fork of a stage call.
type Fork struct {
	Key      string // <callpath>/<forkdir>
	CallPath string
	Dir      string
	Split    *Job
	Join     *Job
	Chunks   []*Job // by chunk index
	Claimed  int
	// canonical forms
	Args interface{}
	Outs map[string]interface{}
}

type Obs struct {
	Case      *vrun.Case
	Events    []vrun.Event
	Jobs      map[string]*Job
	JobOrder  []*Job
	Forks     map[string]*Fork
	ByCall    map[string][]*Fork
	fileDirs  []fileDir         // canonical files dir -> token
	tokByPath map[string]string // uniquifier-stripped written path -> content token
	vdrRoots  []string          // roots removed by VDR (hook trace), loaded lazily
	vdrLoaded bool
	CallPaths []string
}

type fileDir struct {
	prefix string
	token  string
}

// Collect builds the observation structure.  callPaths are the stage call
// paths known from the program (needed to split a job id into call path and
// fork directory, because fork ids may contain '/').
func Collect(c *vrun.Case, callPaths []string) *Obs {
	o := &Obs{Case: c, Events: c.Events(), Jobs: map[string]*Job{}, Forks: map[string]*Fork{},
		ByCall: map[string][]*Fork{}, CallPaths: callPaths}
	sort.SliceStable(o.Events, func(i, j int) bool { return o.Events[i].T < o.Events[j].T })
	// longest call path first
	cps := append([]string(nil), callPaths...)
	sort.Slice(cps, func(i, j int) bool { return len(cps[i]) > len(cps[j]) })
	for i := range o.Events {
		e := &o.Events[i]
		if e.Job == "" {
			continue
		}
		j := o.Jobs[e.Job]
		if j == nil {
			j = &Job{ID: e.Job, Stage: e.Stage, Phase: e.Phase, Chunk: -1}
			// split id
			last := strings.LastIndexByte(e.Job, '/')
			if last > 0 {
				j.ForkKey = e.Job[:last]
				pd := e.Job[last+1:]
				if strings.HasPrefix(pd, "chnk") {
					fmt.Sscanf(pd[4:], "%d", &j.Chunk)
				}
			}
			o.Jobs[e.Job] = j
			o.JobOrder = append(o.JobOrder, j)
		}
		switch e.Ev {
		case "start":
			j.Starts = append(j.Starts, e)
		case "end":
			j.Ends = append(j.Ends, e)
		case "fault":
			j.Faults = append(j.Faults, e)
		}
	}
	for _, j := range o.JobOrder {
		f := o.Forks[j.ForkKey]
		if f == nil {
			f = &Fork{Key: j.ForkKey}
			for _, cp := range cps {
				if strings.HasPrefix(j.ForkKey, cp+"/") {
					f.CallPath = cp
					f.Dir = j.ForkKey[len(cp)+1:]
					break
				}
			}
			o.Forks[j.ForkKey] = f
			o.ByCall[f.CallPath] = append(o.ByCall[f.CallPath], f)
		}
		switch j.Phase {
		case "split":
			f.Split = j
		case "join":
			f.Join = j
		case "main":
			for len(f.Chunks) <= j.Chunk {
				f.Chunks = append(f.Chunks, nil)
			}
			if j.Chunk >= 0 {
				f.Chunks[j.Chunk] = j
			}
		}
	}
	o.tokByPath = map[string]string{}
	for i := range o.Events {
		e := &o.Events[i]
		if e.Ev == "end" {
			for _, w := range e.Written {
				if w.Tok != "" {
					o.tokByPath[vrun.StripUniq(w.Path)] = w.Tok
					if w.Path != vrun.StripUniq(w.Path) {
						o.tokByPath[w.Path] = w.Tok
					}
				}
			}
		}
	}
	o.canonicalize()
	return o
}

// canonicalize assigns file-identity tokens in job start order and computes
// canonical args / outs per fork.
func (o *Obs) canonicalize() {
	for _, j := range o.JobOrder {
		s := j.LastStart()
		if s == nil {
			continue
		}
		args := o.CanonJSON(s.Args)
		ab, _ := json.Marshal(StripDunder(args))
		tok := fmt.Sprintf("$F{%s|%s|%s}", o.callPathOf(j), j.Phase, hash(string(ab)))
		fd := o.Case.Canon(s.Files)
		// A later job with the same files dir (join vs main of an
		// unsplit stage) keeps the first token.
		found := false
		for _, x := range o.fileDirs {
			if x.prefix == fd {
				found = true
			}
		}
		if !found && fd != "" {
			o.fileDirs = append(o.fileDirs, fileDir{fd, tok})
			sort.Slice(o.fileDirs, func(a, b int) bool { return len(o.fileDirs[a].prefix) > len(o.fileDirs[b].prefix) })
		}
	}
	for _, f := range o.Forks {
		first := f.Split
		if first == nil && len(f.Chunks) > 0 {
			first = f.Chunks[0]
		}
		if first != nil && first.LastStart() != nil {
			f.Args = StripDunder(o.CanonJSON(first.LastStart().Args))
		}
		last := f.Join
		if last == nil && f.Split == nil && len(f.Chunks) == 1 {
			last = f.Chunks[0]
		}
		if last != nil && last.LastEnd() != nil {
			if m, ok := o.CanonJSON(last.LastEnd().Outs).(map[string]interface{}); ok {
				f.Outs = m
			}
		}
	}
}

func (o *Obs) callPathOf(j *Job) string {
	if f := o.Forks[j.ForkKey]; f != nil {
		return f.CallPath
	}
	best := ""
	for _, cp := range o.CallPaths {
		if strings.HasPrefix(j.ForkKey, cp+"/") && len(cp) > len(best) {
			best = cp
		}
	}
	return best
}

// CanonString maps a string value to its canonical form: paths under a known
// job files directory are replaced by that job's identity token.
func (o *Obs) CanonString(s string) string {
	if !strings.HasPrefix(s, "/") {
		return s
	}
	if tok, ok := o.tokByPath[vrun.StripUniq(s)]; ok {
		return "tok:" + tok
	}
	c := o.Case.Canon(s)
	for _, fd := range o.fileDirs {
		if strings.HasPrefix(c, fd.prefix+"/") || c == fd.prefix {
			return fd.token + c[len(fd.prefix):]
		}
	}
	return c
}

func (o *Obs) CanonValue(v interface{}) interface{} {
	switch a := v.(type) {
	case string:
		return o.CanonString(a)
	case []interface{}:
		out := make([]interface{}, len(a))
		for i, x := range a {
			out[i] = o.CanonValue(x)
		}
		return out
	case map[string]interface{}:
		out := make(map[string]interface{}, len(a))
		for k, x := range a {
			out[k] = o.CanonValue(x)
		}
		return out
	}
	return v
}

func (o *Obs) CanonJSON(raw json.RawMessage) interface{} {
	if len(raw) == 0 {
		return nil
	}
	v, err := vrun.ParseJSON(raw)
	if err != nil {
		return nil
	}
	return o.CanonValue(v)
}

// StripDunder removes top-level "__xxx" keys (resources, chunk ids).
func StripDunder(v interface{}) interface{} {
	m, ok := v.(map[string]interface{})
	if !ok {
		return v
	}
	out := make(map[string]interface{}, len(m))
	for k, x := range m {
		if !strings.HasPrefix(k, "__") {
			out[k] = x
		}
	}
	return out
}

func hash(s string) string {
	return pgen.NewHashRng(s).Hex(12)
}

// StageOuts implements pgen.Oracle.
func (o *Obs) StageOuts(inv *pgen.StageInvocation) (map[string]interface{}, bool) {
	var fallback *Fork
	for _, f := range o.ByCall[inv.Path] {
		if f.Args == nil || !pgen.Match(mapOf(inv.Args), f.Args) {
			continue
		}
		if f.Claimed == 0 {
			f.Claimed++
			inv.Token = f
			if f.Outs == nil {
				return nil, false
			}
			return f.Outs, true
		}
		fallback = f
	}
	if fallback != nil {
		// More expected executions with these args than observed.
		fallback.Claimed++
		inv.Token = fallback
		inv.Context += " (duplicate-args: expected more executions than observed)"
		if fallback.Outs == nil {
			return nil, false
		}
		return fallback.Outs, true
	}
	return nil, false
}

func mapOf(m map[string]interface{}) interface{} { return map[string]interface{}(m) }

// StageCallPaths enumerates the directory paths of all stage calls of the
// program (independent of fork structure).
func StageCallPaths(p *pgen.Program) []string {
	var out []string
	var walk func(pl *pgen.Pipeline, base string)
	walk = func(pl *pgen.Pipeline, base string) {
		for _, c := range pl.Calls {
			path := base + "/" + c.Name()
			if p.Stage(c.Callee) != nil {
				out = append(out, path)
			} else if sp := p.Pipeline(c.Callee); sp != nil {
				walk(sp, path)
			}
		}
	}
	if top := p.Pipeline(p.Top.Callee); top != nil {
		walk(top, top.Name)
	}
	return out
}

// RemovedByVDR reports whether the hook trace shows a VDR removal covering
// a file with the given content token.
func (o *Obs) RemovedByVDR(tok string) bool {
	if !o.vdrLoaded {
		o.vdrLoaded = true
		for _, t := range o.Case.Trace() {
			if strings.HasPrefix(t.Name, "vdr:remove") && len(t.Detail) > 0 {
				o.vdrRoots = append(o.vdrRoots, t.Detail[0])
			}
		}
	}
	for p, t := range o.tokByPath {
		if t != tok {
			continue
		}
		for _, root := range o.vdrRoots {
			rs := vrun.StripUniq(root)
			if p == root || p == rs || strings.HasPrefix(p, root+"/") || strings.HasPrefix(p, rs+"/") {
				return true
			}
		}
	}
	return false
}
