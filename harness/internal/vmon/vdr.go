package vmon

import (
	"encoding/json"
	"fmt"
	"os"
	"path/filepath"
	"regexp"
	"strings"

	"verif/harness/internal/pgen"
	"verif/harness/internal/vrun"
)

// C14: VDR reclaims what it may and reports exactly what it removed.

type killReport struct {
	Count  int64    `json:"count"`
	Size   int64    `json:"size"`
	Paths  []string `json:"paths"`
	Errors []string `json:"errors"`
}

var jobTmpRe = regexp.MustCompile(`/(split|join|chnk\d+)(-u[0-9a-f]{10})?/tmp$`)

func collectToks(v interface{}, into map[string]bool) {
	switch a := v.(type) {
	case string:
		if strings.HasPrefix(a, "tok:") {
			into[a[4:]] = true
		}
	case []interface{}:
		for _, x := range a {
			collectToks(x, into)
		}
	case map[string]interface{}:
		for _, x := range a {
			collectToks(x, into)
		}
	case pgen.Alt:
		for _, x := range a.Options {
			collectToks(x, into)
		}
	}
}

// callOfPath returns the call statement for a stage call path.
func callOfPath(p *pgen.Program, callPath string) *pgen.Call {
	parts := strings.Split(callPath, "/")
	pl := p.Pipeline(parts[0])
	for i := 1; i < len(parts) && pl != nil; i++ {
		var call *pgen.Call
		for _, c := range pl.Calls {
			if c.Name() == parts[i] {
				call = c
			}
		}
		if call == nil {
			return nil
		}
		if i == len(parts)-1 {
			return call
		}
		pl = p.Pipeline(call.Callee)
	}
	return nil
}

type VdrStats struct {
	ResetAttemptFiles                                              int // files of job attempts that mrp reset (restart / retry)
	InterruptedRemovals                                            int // removals by an interrupted mrp whose report was never written
	SurvivalNotJudged                                              int // files of executions the model only tolerates (stage independent of an empty mapped dimension)
	Removals, Reports, WrittenChecked, TmpDirsChecked, ListedPaths int
}

func CheckVDR(o *Obs, p *pgen.Program, m *pgen.Model, r *Report, mode string, trace []vrun.TraceRec) VdrStats {
	var st VdrStats
	ps := o.Case.PsDir
	keep := map[string]bool{}
	for _, v := range m.TopOuts {
		collectToks(v, keep)
	}
	for _, v := range m.Retained {
		collectToks(v, keep)
	}
	for _, f := range o.Forks {
		s := stageOfCall(p, f.CallPath)
		if s == nil {
			continue
		}
		for _, rn := range s.Retain {
			if f.Outs != nil {
				collectToks(f.Outs[rn], keep)
			}
		}
	}
	// inventories
	type inv struct {
		root        string
		fq          string
		count, size int64
		name        string
	}
	var invs []inv
	var unreported []string // roots removed by an interrupted process before it could report
	// An mrp process that was interrupted may have removed things in a
	// clean-up step whose report it never got to write; the property asks for
	// exact accounting across an interruption *between* clean-up steps only.
	// Removals of an interrupted process that no later report write of the
	// same process covers are therefore left out of the sums (they still
	// count for survival and coverage).
	lastPid := 0
	for _, t := range trace {
		if t.Proc == "mrp" {
			lastPid = t.Pid
		}
	}
	flushed := map[int]bool{} // index into trace -> a report write for its fork followed in the same process
	{
		pending := map[string][]int{} // pid|fq -> trace indexes
		for i, t := range trace {
			if t.Proc != "mrp" || len(t.Detail) == 0 {
				continue
			}
			if strings.HasPrefix(t.Name, "vdr:remove") && len(t.Detail) > 1 {
				k := fmt.Sprint(t.Pid, "|", t.Detail[1])
				pending[k] = append(pending[k], i)
			}
			switch t.Name {
			case "vdr:partial:write", "vdr:final:write", "meta:write:vdrkill", "meta:write:vdrkill.partial":
				k := fmt.Sprint(t.Pid, "|", t.Detail[0])
				for _, j := range pending[k] {
					flushed[j] = true
				}
				delete(pending, k)
			}
		}
	}
	for ti, t := range trace {
		if !strings.HasPrefix(t.Name, "vdr:remove") || t.Proc != "mrp" || len(t.Detail) == 0 || t.Count == nil {
			continue
		}
		if t.Pid != lastPid && !flushed[ti] {
			st.InterruptedRemovals++
			unreported = append(unreported, t.Detail[0])
			continue
		}
		x := inv{root: t.Detail[0], count: *t.Count, size: *t.Size, name: t.Name}
		if len(t.Detail) > 1 {
			x.fq = t.Detail[1]
		}
		if strings.HasSuffix(t.Name, ":some") || strings.HasSuffix(t.Name, ":kill") {
			// the entry itself was created by the job
			if t.RootDirSize != nil && *t.RootDirSize >= 0 {
				x.count++
				x.size += *t.RootDirSize
			}
		}
		invs = append(invs, x)
		st.Removals++
		if !strings.HasPrefix(filepath.Clean(x.root), ps+"/") {
			r.add("C14", "removal-outside-pipestance", "VDR removed "+x.root+" which is outside the pipestance directory "+ps, nil)
		}
	}
	// Jobs whose metadata and files mrp reset (on restart after an
	// interruption, or on retry): what an earlier attempt wrote is gone
	// without being a VDR removal.
	resetAt := map[string]int64{}
	for _, t := range trace {
		if t.Name == "meta:removeAll" && len(t.Detail) > 0 {
			if t.T > resetAt[t.Detail[0]] {
				resetAt[t.Detail[0]] = t.T
			}
		}
	}
	jobFq := func(job string) string {
		parts := strings.Split(job, "/")
		for i := range parts {
			parts[i] = strings.NewReplacer("%", "%25", ".", "%2E").Replace(parts[i])
		}
		return "ID.psid." + strings.Join(parts, ".")
	}
	covered := func(path string) bool {
		for _, root := range unreported {
			if path == root || strings.HasPrefix(path, root+"/") {
				return true
			}
		}
		for _, x := range invs {
			if path == x.root || strings.HasPrefix(path, x.root+"/") {
				return true
			}
		}
		return false
	}
	// Walk the final tree.
	var reports []string
	filepath.Walk(ps, func(path string, info os.FileInfo, err error) error {
		if err != nil || info == nil {
			return nil
		}
		if info.IsDir() && jobTmpRe.MatchString(path) {
			// only jobs that were actually executed have a temporary directory of their own
			rel, _ := filepath.Rel(ps, filepath.Dir(path))
			j, ran := o.Jobs[vrun.StripUniq(rel)]
			if !ran {
				return nil
			}
			// ... and only in the attempt directory in which the job was
			// started: a directory an interrupted mrp created for an attempt
			// that never ran belongs to no job
			startedHere := false
			for _, st := range j.Starts {
				if filepath.Clean(st.Meta) == filepath.Clean(filepath.Dir(path)) {
					startedHere = true
				}
			}
			if !startedHere {
				return nil
			}
			st.TmpDirsChecked++
			r.add("C14", "tmp-dir-survives", "per-job temporary directory still present after completion: "+o.Case.Canon(path), nil)
		}
		if strings.HasPrefix(info.Name(), "_vdrkill") && !info.IsDir() {
			reports = append(reports, path)
		}
		return nil
	})
	var total killReport
	haveTotal := false
	var forkSumC, forkSumS int64
	forkMismatch := false
	for _, rp := range reports {
		b, err := os.ReadFile(rp)
		if err != nil {
			continue
		}
		var kr killReport
		if err := json.Unmarshal(b, &kr); err != nil {
			r.add("C14", "report-invalid-json", "kill report "+o.Case.Canon(rp)+" is not valid JSON", nil)
			continue
		}
		st.Reports++
		for _, lp := range kr.Paths {
			st.ListedPaths++
			if _, err := os.Lstat(lp); err == nil {
				r.add("C14", "listed-path-exists", fmt.Sprintf("path %s is listed in kill report %s but still exists", o.Case.Canon(lp), o.Case.Canon(rp)), nil)
			}
		}
		rel, _ := filepath.Rel(ps, filepath.Dir(rp))
		if filepath.Base(rp) != "_vdrkill" {
			continue
		}
		if len(kr.Errors) > 0 {
			continue // accounting not asserted when a removal failed
		}
		if !strings.Contains(rel, "/") {
			// top-level pipestance report
			total = kr
			haveTotal = true
			continue
		}
		// fork-level: fq name = ID.psid.<rel with / -> .>
		fq := "ID.psid." + strings.ReplaceAll(vrun.StripUniq(rel), "/", ".")
		if strings.Contains(filepath.Base(rel), "%") {
			continue
		}
		var c, s int64
		n := 0
		for _, x := range invs {
			if x.fq == fq {
				c += x.count
				s += x.size
				n++
			}
		}
		if _, isFork := o.Forks[vrun.StripUniq(rel)]; !isFork {
			continue // pipeline-level fork or nested fork id: skip per-fork accounting
		}
		forkSumC += kr.Count
		forkSumS += kr.Size
		if c != kr.Count || s != kr.Size {
			forkMismatch = true
			r.add("C14", "fork-report-accounting", fmt.Sprintf("kill report %s says count=%d size=%d; the %d removals observed for %s total count=%d size=%d",
				o.Case.Canon(rp), kr.Count, kr.Size, n, fq, c, s), nil)
		}
	}
	if haveTotal {
		var c, s int64
		for _, x := range invs {
			c += x.count
			s += x.size
		}
		if c != total.Count || s != total.Size {
			sig := "total-report-accounting"
			if !forkMismatch && forkSumC == c && forkSumS == s && total.Count < c {
				sig = "total-report-omits-fork-reports"
			}
			r.add("C14", sig, fmt.Sprintf("pipestance kill report says count=%d size=%d; %d observed removals total count=%d size=%d (sum of the per-fork reports: count=%d size=%d)",
				total.Count, total.Size, len(invs), c, s, forkSumC, forkSumS), nil)
		}
	} else if mode != "disable" {
		r.add("C14", "no-total-report", "no pipestance-level _vdrkill report after completion with VDR enabled", nil)
	}
	// Survivors and disappearances.
	for i := range o.Events {
		e := &o.Events[i]
		if e.Ev != "end" {
			continue
		}
		j := o.Jobs[e.Job]
		f := o.Forks[j.ForkKey]
		call := callOfPath(p, f.CallPath)
		stg := stageOfCall(p, f.CallPath)
		if call == nil || stg == nil {
			continue
		}
		strictVol := (stg.Res != nil && stg.Res.Volatile == "strict") ||
			(mode == "strict" && (stg.Res == nil || stg.Res.Volatile == ""))
		volatile := call.Volatile || strictVol
		for _, w := range e.Written {
			st.WrittenChecked++
			_, err := os.Lstat(w.Path)
			exists := err == nil
			switch w.Kind {
			case "tmp":
				if exists {
					r.add("C14", "tmp-file-survives", "file in a job's TMPDIR still present after completion: "+o.Case.Canon(w.Path), nil)
				}
			case "out", "extra":
				chunkLevel := stg.Split && e.Phase == "main"
				if exists && chunkLevel {
					r.add("C14", "chunk-file-survives", fmt.Sprintf("chunk-level file of splitting stage %s still present after completion: %s", f.CallPath, o.Case.Canon(w.Path)), nil)
				} else if m.IndepOfEmpty[f.CallPath] > 0 {
					// a stage inside a pipeline mapped over an empty collection that ran all the same
					// (C03's known finding): the model did not evaluate the return / retain bindings
					// of that pipeline, so whether its files are named by one is not known here
					st.SurvivalNotJudged++
				} else if exists && volatile && !(w.Tok != "" && keep[w.Tok]) && !underKept(w.Path, e.Written, keep) {
					r.add("C14", "volatile-file-survives"+consumedHow(p, f.CallPath, w.Path), fmt.Sprintf("file %s written by volatile stage call %s (mode %s) survives although no top-level output or retain names it", o.Case.Canon(w.Path), f.CallPath, mode), nil)
				}
			}
			if !exists && resetAt[jobFq(e.Job)] > e.T {
				st.ResetAttemptFiles++
				continue
			}
			if !exists && !covered(w.Path) && !covered(vrun.StripUniq(w.Path)) {
				r.add("C14", "disappeared-unaccounted", fmt.Sprintf("file %s written by %s no longer exists but no observed removal covers it", o.Case.Canon(w.Path), e.Job), nil)
			}
		}
	}
	return st
}

// underKept: path lies inside a directory output that is kept.
func underKept(path string, ws []vrun.Written, keep map[string]bool) bool {
	for _, w := range ws {
		if w.Dir && w.Tok != "" && keep[w.Tok] && strings.HasPrefix(path, w.Path+"/") {
			return true
		}
	}
	return false
}

// consumedHow classifies how the output owning a surviving file is consumed
// by other calls of the same pipeline.
func consumedHow(p *pgen.Program, callPath, filePath string) string {
	base := filepath.Base(filePath)
	// probe file names: <phase>_<outparam>[.<index/key>...].dat
	i := strings.IndexByte(base, '_')
	if i < 0 {
		return ""
	}
	rest := base[i+1:]
	out := rest
	if j := strings.IndexByte(rest, '.'); j >= 0 {
		out = rest[:j]
	}
	parts := strings.Split(callPath, "/")
	if len(parts) < 2 {
		return ""
	}
	callName := parts[len(parts)-1]
	// enclosing pipeline
	pl := p.Pipeline(parts[0])
	for k := 1; k < len(parts)-1 && pl != nil; k++ {
		var next *pgen.Pipeline
		for _, c := range pl.Calls {
			if c.Name() == parts[k] {
				next = p.Pipeline(c.Callee)
			}
		}
		pl = next
	}
	if pl == nil {
		return ""
	}
	asSplit, asPlain := false, false
	for _, c := range pl.Calls {
		for _, b := range c.Binds {
			var walk func(e *pgen.Exp, split bool)
			walk = func(e *pgen.Exp, split bool) {
				if e == nil {
					return
				}
				if e.Kind == pgen.ERefCall && e.Id == callName && len(e.Path) > 0 && e.Path[0] == out {
					if split {
						asSplit = true
					} else {
						asPlain = true
					}
				}
				for _, x := range e.Elems {
					walk(x, split)
				}
			}
			walk(b.Exp, b.Split)
		}
	}
	switch {
	case asSplit:
		return ":output-consumed-as-map-source"
	case asPlain:
		return ":output-consumed-by-call"
	}
	return ":output-not-consumed"
}
