// Package vf is the shared verdict/evidence/known-findings framework of the
// /verif checks.
package vf

import (
	"bufio"
	"crypto/sha256"
	"encoding/hex"
	"encoding/json"
	"flag"
	"fmt"
	"os"
	"path/filepath"
	"regexp"
	"sort"
	"strconv"
	"strings"
	"sync"
	"time"
)

// VerifDir is where evidence, replays and known findings live.
var VerifDir = func() string {
	if d := os.Getenv("VERIF_DIR"); d != "" {
		return d
	}
	return "/verif"
}()

// Finding is one line of /verif/known_findings.jsonl.
type Finding struct {
	Status   string `json:"status"` // "known" or "fixed"
	Property string `json:"property"`
	// Regular expression matched against a violation's signature.
	Match  string `json:"match"`
	What   string `json:"what"`
	Commit string `json:"commit,omitempty"`
	re     *regexp.Regexp
}

type Violation struct {
	Signature string
	What      string
	Replay    string
	Known     *Finding
}

// Ctx is handed to each check.
type Ctx struct {
	ID       string
	Tier     string
	Seed     int64
	Level    string
	Replay   string
	Args     []string
	BuildDir string
	RepoDir  string
	WorkDir  string

	mu           sync.Mutex
	start        time.Time
	evaluations  int64
	distinct     map[string]struct{}
	samples      []interface{}
	maxSamples   int
	extra        map[string]interface{}
	counters     map[string]int64
	rule         string
	assumptions  []string
	violations   []*Violation
	sigSeen      map[string]bool
	inconclusive int64
	inconcWhy    map[string]int64
	findings     []*Finding
	exhaustive   bool
}

func (c *Ctx) Quick() bool { return c.Tier != "thorough" }

// Pick returns q in the quick tier and t in the thorough tier.
func (c *Ctx) Pick(q, t int) int {
	if c.Quick() {
		return q
	}
	return t
}

func (c *Ctx) SetRule(r string)       { c.rule = r }
func (c *Ctx) Assume(a string)        { c.mu.Lock(); c.assumptions = append(c.assumptions, a); c.mu.Unlock() }
func (c *Ctx) SetExhaustive(b bool)   { c.exhaustive = b }
func (c *Ctx) Evaluations() int64     { c.mu.Lock(); defer c.mu.Unlock(); return c.evaluations }
func (c *Ctx) ViolationCount() int    { c.mu.Lock(); defer c.mu.Unlock(); return len(c.violations) }
func (c *Ctx) DistinctCount() int     { c.mu.Lock(); defer c.mu.Unlock(); return len(c.distinct) }
func (c *Ctx) Counter(k string) int64 { c.mu.Lock(); defer c.mu.Unlock(); return c.counters[k] }

// Eval counts n evaluated cases.
func (c *Ctx) Eval(n int) {
	c.mu.Lock()
	c.evaluations += int64(n)
	c.mu.Unlock()
}

// Distinct records a non-trivial case by its structural key.
func (c *Ctx) Distinct(key string) {
	h := sha256.Sum256([]byte(key))
	k := string(h[:12])
	c.mu.Lock()
	c.distinct[k] = struct{}{}
	c.mu.Unlock()
}

// Sample stores an example case for the evidence file (bounded).
func (c *Ctx) Sample(v interface{}) {
	c.mu.Lock()
	if len(c.samples) < c.maxSamples {
		c.samples = append(c.samples, v)
	}
	c.mu.Unlock()
}

func (c *Ctx) Count(key string, n int64) {
	c.mu.Lock()
	c.counters[key] += n
	c.mu.Unlock()
}

func (c *Ctx) Set(key string, v interface{}) {
	c.mu.Lock()
	c.extra[key] = v
	c.mu.Unlock()
}

// Inconclusive records a case that could not be decided.
func (c *Ctx) Inconclusive(why string) {
	c.mu.Lock()
	c.inconclusive++
	c.inconcWhy[why]++
	c.mu.Unlock()
}

func Hash(parts ...string) string {
	h := sha256.New()
	for _, p := range parts {
		h.Write([]byte(p))
		h.Write([]byte{0})
	}
	return hex.EncodeToString(h.Sum(nil))[:16]
}

// Violate records a violation.  signature identifies the failing input /
// call site / history class; it is what known_findings.jsonl entries are
// matched against.  replay is any JSON-serialisable object; it is written
// under /verif/replays/<id>/ and its path is printed.
func (c *Ctx) Violate(signature, what string, replay interface{}) {
	c.mu.Lock()
	defer c.mu.Unlock()
	if c.sigSeen[signature] {
		c.counters["violations_duplicate_signature"]++
		return
	}
	c.sigSeen[signature] = true
	v := &Violation{Signature: signature, What: what}
	for _, f := range c.findings {
		if f.Status == "known" && f.Property == c.ID && f.re.MatchString(signature) {
			v.Known = f
			break
		}
	}
	dir := filepath.Join(VerifDir, "replays", c.ID)
	os.MkdirAll(dir, 0755)
	name := fmt.Sprintf("%d-%s.json", c.Seed, Hash(signature))
	p := filepath.Join(dir, name)
	b, err := json.MarshalIndent(map[string]interface{}{
		"property":  c.ID,
		"seed":      c.Seed,
		"tier":      c.Tier,
		"signature": signature,
		"what":      what,
		"case":      replay,
	}, "", " ")
	if err == nil {
		os.WriteFile(p, b, 0644)
	}
	v.Replay = p
	c.violations = append(c.violations, v)
	if v.Known == nil {
		fmt.Printf("VIOLATION property=%s replay=%s\n", c.ID, p)
		fmt.Printf("  signature: %s\n  what: %s\n", signature, truncate(what, 600))
	}
}

func truncate(s string, n int) string {
	if len(s) > n {
		return s[:n] + "…"
	}
	return s
}

func loadFindings() []*Finding {
	f, err := os.Open(filepath.Join(VerifDir, "known_findings.jsonl"))
	if err != nil {
		return nil
	}
	defer f.Close()
	var out []*Finding
	sc := bufio.NewScanner(f)
	sc.Buffer(make([]byte, 1<<20), 1<<20)
	for sc.Scan() {
		line := strings.TrimSpace(sc.Text())
		if line == "" || strings.HasPrefix(line, "#") || strings.HasPrefix(line, "fixed:") {
			// "fixed: property=<id> <commit> <what failed>" lines record
			// repaired defects; they suppress nothing.
			continue
		}
		var fd Finding
		if err := json.Unmarshal([]byte(line), &fd); err != nil {
			fmt.Fprintf(os.Stderr, "bad known_findings line: %v\n", err)
			continue
		}
		re, err := regexp.Compile(fd.Match)
		if err != nil {
			fmt.Fprintf(os.Stderr, "bad known_findings regexp %q: %v\n", fd.Match, err)
			continue
		}
		fd.re = re
		out = append(out, &fd)
	}
	return out
}

type CheckFunc func(c *Ctx)

// Main runs the named check and exits with the MANIFEST contract's status.
func Main(id string, level string, args []string, fn CheckFunc) {
	fs := flag.NewFlagSet(id, flag.ExitOnError)
	tier := fs.String("tier", os.Getenv("VERIF_TIER"), "quick|thorough")
	replay := fs.String("replay", "", "replay file")
	seedFlag := fs.String("seed", os.Getenv("VERIF_SEED"), "seed")
	fs.Parse(args)
	if *tier == "" {
		*tier = "quick"
	}
	seed := int64(20260924)
	if *seedFlag != "" {
		if s, err := strconv.ParseInt(*seedFlag, 10, 64); err == nil {
			seed = s
		}
	}
	c := &Ctx{
		ID: id, Tier: *tier, Seed: seed, Level: level, Replay: *replay,
		Args:       fs.Args(),
		BuildDir:   os.Getenv("VERIF_BUILD"),
		RepoDir:    os.Getenv("VERIF_REPO"),
		start:      time.Now(),
		distinct:   make(map[string]struct{}),
		extra:      make(map[string]interface{}),
		counters:   make(map[string]int64),
		sigSeen:    make(map[string]bool),
		inconcWhy:  make(map[string]int64),
		maxSamples: 8,
		findings:   loadFindings(),
	}
	if c.RepoDir == "" {
		c.RepoDir = "/repo"
	}
	base := os.Getenv("VERIF_WORK")
	if base == "" {
		base = "/tmp/verif-work"
	}
	c.WorkDir = filepath.Join(base, fmt.Sprintf("%s-%d", id, os.Getpid()))
	os.MkdirAll(c.WorkDir, 0755)
	keep := os.Getenv("VERIF_KEEP") != ""
	func() {
		defer func() {
			if !keep {
				os.RemoveAll(c.WorkDir)
			}
		}()
		fn(c)
	}()
	os.Exit(c.finish())
}

func (c *Ctx) finish() int {
	c.mu.Lock()
	defer c.mu.Unlock()
	wall := time.Since(c.start).Seconds()
	unknown := 0
	knownSeen := map[*Finding]int{}
	for _, v := range c.violations {
		if v.Known != nil {
			knownSeen[v.Known]++
		} else {
			unknown++
		}
	}
	var kf []*Finding
	for f := range knownSeen {
		kf = append(kf, f)
	}
	sort.Slice(kf, func(i, j int) bool { return kf[i].Match < kf[j].Match })
	for _, f := range kf {
		fmt.Printf("KNOWN-FINDING: property=%s %s (seen %d signature(s) this run)\n", c.ID, f.What, knownSeen[f])
	}
	cov := map[string]interface{}{
		"evaluations":         c.evaluations,
		"distinct_nontrivial": len(c.distinct),
		"rule":                c.rule,
		"samples":             c.samples,
		"inconclusive":        c.inconclusive,
	}
	if c.exhaustive {
		cov["exhaustive"] = true
	}
	if len(c.inconcWhy) > 0 {
		cov["inconclusive_reasons"] = c.inconcWhy
	}
	for k, v := range c.counters {
		cov[k] = v
	}
	for k, v := range c.extra {
		cov[k] = v
	}
	var vs []map[string]string
	for _, v := range c.violations {
		m := map[string]string{"signature": v.Signature, "replay": v.Replay, "what": truncate(v.What, 300)}
		if v.Known != nil {
			m["known_finding"] = v.Known.What
		}
		vs = append(vs, m)
		if len(vs) >= 50 {
			break
		}
	}
	if len(vs) > 0 {
		cov["violation_list"] = vs
	}
	if c.samples == nil {
		cov["samples"] = []interface{}{}
	}
	ev := map[string]interface{}{
		"property_id":              c.ID,
		"tier":                     c.Tier,
		"seed":                     c.Seed,
		"level":                    c.Level,
		"coverage":                 cov,
		"assumptions":              c.assumptions,
		"wall_s":                   wall,
		"violations":               unknown,
		"known_finding_violations": len(c.violations) - unknown,
	}
	if c.assumptions == nil {
		ev["assumptions"] = []string{}
	}
	if c.Replay == "" {
		// sweeps and runs against seeded changes set VERIF_EVIDENCE_DIR so that they never
		// overwrite the evidence of the registered commands
		evDir := filepath.Join(VerifDir, "evidence")
		if d := os.Getenv("VERIF_EVIDENCE_DIR"); d != "" {
			evDir = d
		}
		os.MkdirAll(evDir, 0755)
		b, _ := json.MarshalIndent(ev, "", " ")
		os.WriteFile(filepath.Join(evDir, c.ID+".json"), append(b, '\n'), 0644)
	}
	fmt.Printf("%s tier=%s seed=%d evaluations=%d distinct_nontrivial=%d violations=%d known=%d inconclusive=%d wall=%.1fs\n",
		c.ID, c.Tier, c.Seed, c.evaluations, len(c.distinct), unknown, len(c.violations)-unknown, c.inconclusive, wall)
	if unknown > 0 {
		return 1
	}
	if c.evaluations == 0 || (c.inconclusive > 0 && c.inconclusive*2 > c.evaluations) {
		fmt.Printf("INCONCLUSIVE property=%s evaluations=%d inconclusive=%d reasons=%v\n", c.ID, c.evaluations, c.inconclusive, c.inconcWhy)
		return 2
	}
	return 0
}
