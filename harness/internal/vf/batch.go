package vf

// Child-process batch execution: inputs which may crash the process (panic
// outside any recover, fatal error, stack overflow, OOM) are handed to child
// processes in batches.  Each input is on disk before it is processed, and
// the child records which input it is working on, so a crash identifies its
// input and does not stop the campaign.

import (
	"bytes"
	"encoding/binary"
	"encoding/json"
	"fmt"
	"io"
	"os"
	"os/exec"
	"path/filepath"
	"runtime"
	"strconv"
	"strings"
	"sync"
	"syscall"
	"time"
)

// Worker processes one input in the child and returns a JSON-serialisable
// result.
type Worker func(input []byte) interface{}

var workers = map[string]Worker{}

func RegisterWorker(name string, w Worker) { workers[name] = w }

// BatchResult is the outcome for one input.
type BatchResult struct {
	Index    int
	Crashed  bool   // process died while processing this input
	TimedOut bool   // watchdog fired (inconclusive)
	Stderr   string // tail of stderr for a crash
	Result   json.RawMessage
}

// ChildMain is called from main() when argv[1] == "__child".
func ChildMain(args []string) {
	// args: worker batchfile progressfile resultfile
	w := workers[args[0]]
	if w == nil {
		fmt.Fprintln(os.Stderr, "no such worker", args[0])
		os.Exit(3)
	}
	if sec, _ := strconv.Atoi(os.Getenv("VERIF_CHILD_CPU")); sec > 0 {
		// CPU-time budget (not wall-clock): the kernel ends the process
		lim := syscall.Rlimit{Cur: uint64(sec), Max: uint64(sec + 2)}
		syscall.Setrlimit(syscall.RLIMIT_CPU, &lim)
	}
	data, err := os.ReadFile(args[1])
	if err != nil {
		fmt.Fprintln(os.Stderr, err)
		os.Exit(3)
	}
	prog, err := os.OpenFile(args[2], os.O_CREATE|os.O_WRONLY, 0644)
	if err != nil {
		os.Exit(3)
	}
	res, err := os.OpenFile(args[3], os.O_CREATE|os.O_WRONLY|os.O_APPEND, 0644)
	if err != nil {
		os.Exit(3)
	}
	start := 0
	if len(args) > 4 {
		fmt.Sscanf(args[4], "%d", &start)
	}
	i := 0
	for len(data) >= 4 {
		n := int(binary.LittleEndian.Uint32(data))
		input := data[4 : 4+n]
		data = data[4+n:]
		if i >= start {
			var b [8]byte
			binary.LittleEndian.PutUint64(b[:], uint64(i))
			prog.WriteAt(b[:], 0)
			r := w(input)
			rb, _ := json.Marshal(r)
			line := fmt.Sprintf("%d\t%s\n", i, rb)
			res.WriteString(line)
		}
		i++
	}
	os.Exit(0)
}

// RunBatches runs worker over inputs in child processes.  perInputTimeout
// bounds a single input (the watchdog yields TimedOut, never a verdict).
func RunBatches(c *Ctx, worker string, inputs [][]byte, batchSize int,
	perInputTimeout time.Duration, memLimitMB int) []BatchResult {
	results := make([]BatchResult, len(inputs))
	for i := range results {
		results[i].Index = i
	}
	par := runtime.NumCPU()
	type job struct{ lo, hi int }
	jobs := make(chan job, (len(inputs)/batchSize)+2)
	for lo := 0; lo < len(inputs); lo += batchSize {
		hi := lo + batchSize
		if hi > len(inputs) {
			hi = len(inputs)
		}
		jobs <- job{lo, hi}
	}
	close(jobs)
	self, _ := os.Executable()
	var wg sync.WaitGroup
	for p := 0; p < par; p++ {
		wg.Add(1)
		go func(p int) {
			defer wg.Done()
			for j := range jobs {
				runOneBatch(c, self, worker, inputs, j.lo, j.hi, results, perInputTimeout, memLimitMB, p)
			}
		}(p)
	}
	wg.Wait()
	return results
}

func runOneBatch(c *Ctx, self, worker string, inputs [][]byte, lo, hi int,
	results []BatchResult, perInputTimeout time.Duration, memLimitMB int, p int) {
	dir := filepath.Join(c.WorkDir, fmt.Sprintf("batch-%d-%d", p, lo))
	os.MkdirAll(dir, 0755)
	defer os.RemoveAll(dir)
	var buf bytes.Buffer
	for _, in := range inputs[lo:hi] {
		var b [4]byte
		binary.LittleEndian.PutUint32(b[:], uint32(len(in)))
		buf.Write(b[:])
		buf.Write(in)
	}
	batchFile := filepath.Join(dir, "batch")
	os.WriteFile(batchFile, buf.Bytes(), 0644)
	progFile := filepath.Join(dir, "progress")
	resFile := filepath.Join(dir, "results")
	start := 0
	n := hi - lo
	for start < n {
		os.WriteFile(progFile, make([]byte, 8), 0644)
		stderrFile := filepath.Join(dir, "stderr")
		ef, _ := os.Create(stderrFile)
		cmd := exec.Command(self, "__child", worker, batchFile, progFile, resFile, fmt.Sprint(start))
		cmd.Stderr = ef
		cmd.Stdout = ef
		// scratch directories of a child that has to be killed go with the batch directory
		cmd.Env = append(os.Environ(), "GOTRACEBACK=single", "TMPDIR="+dir)
		if memLimitMB > 0 {
			cmd.Env = append(cmd.Env, fmt.Sprintf("GOMEMLIMIT=%dMiB", memLimitMB))
		}
		cmd.SysProcAttr = &syscall.SysProcAttr{Pdeathsig: syscall.SIGKILL}
		if err := cmd.Start(); err != nil {
			ef.Close()
			for i := start; i < n; i++ {
				results[lo+i].TimedOut = true
			}
			return
		}
		done := make(chan error, 1)
		go func() { done <- cmd.Wait() }()
		// Watchdog on lack of progress.
		var err error
		timedOut := false
		lastProg := int64(-1)
		lastChange := time.Now()
		tick := time.NewTicker(200 * time.Millisecond)
	loop:
		for {
			select {
			case err = <-done:
				break loop
			case <-tick.C:
				cur := readProgress(progFile)
				if cur != lastProg {
					lastProg = cur
					lastChange = time.Now()
				} else if time.Since(lastChange) > perInputTimeout {
					timedOut = true
					cmd.Process.Kill()
					err = <-done
					break loop
				}
			}
		}
		tick.Stop()
		ef.Close()
		if err == nil {
			break
		}
		// Died: find the input.
		cur := int(readProgress(progFile))
		if cur < start {
			cur = start
		}
		if cur >= n {
			break
		}
		if timedOut {
			results[lo+cur].TimedOut = true
		} else {
			results[lo+cur].Crashed = true
			results[lo+cur].Stderr = tailFile(stderrFile, 6000)
		}
		start = cur + 1
	}
	// Collect results.
	if f, err := os.Open(resFile); err == nil {
		defer f.Close()
		data, _ := io.ReadAll(f)
		for _, line := range bytes.Split(data, []byte{'\n'}) {
			tab := bytes.IndexByte(line, '\t')
			if tab < 0 {
				continue
			}
			var idx int
			fmt.Sscanf(string(line[:tab]), "%d", &idx)
			if idx >= 0 && idx < n {
				results[lo+idx].Result = append(json.RawMessage(nil), line[tab+1:]...)
			}
		}
	}
}

// ConfirmAlone re-runs one input that hit the progress watchdog, alone in a
// fresh child under a CPU-time limit.  cpuExceeded: the child used up cpuSec
// seconds of CPU on this one input (a logical budget, independent of machine
// load).  Otherwise the result is what the child produced (or TimedOut again
// if the generous wall-clock watchdog fired without the CPU budget being used:
// inconclusive).
func ConfirmAlone(c *Ctx, worker string, input []byte, cpuSec int, wall time.Duration) (r BatchResult, cpuExceeded bool) {
	dir, err := os.MkdirTemp(c.WorkDir, "confirm-")
	if err != nil {
		r.TimedOut = true
		return
	}
	defer os.RemoveAll(dir)
	var buf bytes.Buffer
	var b [4]byte
	binary.LittleEndian.PutUint32(b[:], uint32(len(input)))
	buf.Write(b[:])
	buf.Write(input)
	batchFile, progFile, resFile := filepath.Join(dir, "batch"), filepath.Join(dir, "progress"), filepath.Join(dir, "results")
	os.WriteFile(batchFile, buf.Bytes(), 0644)
	os.WriteFile(progFile, make([]byte, 8), 0644)
	self, _ := os.Executable()
	ef, _ := os.Create(filepath.Join(dir, "stderr"))
	cmd := exec.Command(self, "__child", worker, batchFile, progFile, resFile, "0")
	cmd.Stderr, cmd.Stdout = ef, ef
	cmd.Env = append(os.Environ(), "GOTRACEBACK=single", fmt.Sprintf("VERIF_CHILD_CPU=%d", cpuSec), "GOMEMLIMIT=4096MiB", "TMPDIR="+dir)
	cmd.SysProcAttr = &syscall.SysProcAttr{Pdeathsig: syscall.SIGKILL}
	if err := cmd.Start(); err != nil {
		ef.Close()
		r.TimedOut = true
		return
	}
	done := make(chan error, 1)
	go func() { done <- cmd.Wait() }()
	select {
	case err = <-done:
	case <-time.After(wall):
		cmd.Process.Kill()
		err = <-done
		r.TimedOut = true
	}
	ef.Close()
	if ps := cmd.ProcessState; ps != nil {
		used := ps.UserTime() + ps.SystemTime()
		if used >= time.Duration(cpuSec)*time.Second*9/10 {
			return BatchResult{TimedOut: true}, true
		}
	}
	if r.TimedOut {
		return
	}
	if err != nil {
		r.Crashed = true
		r.Stderr = tailFile(filepath.Join(dir, "stderr"), 6000)
		return
	}
	if data, e := os.ReadFile(resFile); e == nil {
		if tab := bytes.IndexByte(data, '\t'); tab >= 0 {
			r.Result = append(json.RawMessage(nil), bytes.TrimRight(data[tab+1:], "\n")...)
		}
	}
	return
}

func readProgress(p string) int64 {
	b, err := os.ReadFile(p)
	if err != nil || len(b) < 8 {
		return -1
	}
	return int64(binary.LittleEndian.Uint64(b))
}

func tailFile(p string, n int) string {
	b, err := os.ReadFile(p)
	if err != nil {
		return ""
	}
	// keep the head (panic message) and some of the stack
	if len(b) > n {
		b = b[:n]
	}
	return string(b)
}

// CrashSite extracts "message | top non-runtime function" from a Go crash
// dump, for use in violation signatures.
func CrashSite(stderr string) (msg string, site string) {
	lines := strings.Split(stderr, "\n")
	for i, l := range lines {
		if strings.HasPrefix(l, "panic: ") || strings.HasPrefix(l, "fatal error: ") ||
			strings.HasPrefix(l, "runtime: goroutine stack exceeds") {
			if msg == "" {
				msg = l
			}
			_ = i
		}
	}
	inStack := false
	for _, l := range lines {
		if strings.HasPrefix(l, "goroutine ") {
			inStack = true
			continue
		}
		if !inStack || strings.HasPrefix(l, "\t") || l == "" {
			continue
		}
		fn := l
		if k := strings.LastIndex(fn, "("); k > 0 {
			fn = fn[:k]
		}
		if strings.HasPrefix(fn, "runtime.") || strings.HasPrefix(fn, "panic(") ||
			strings.HasPrefix(fn, "runtime/") || strings.HasPrefix(fn, "strconv.") ||
			strings.HasPrefix(fn, "strings.") || strings.HasPrefix(fn, "regexp") {
			continue
		}
		fn = strings.TrimPrefix(fn, "github.com/martian-lang/martian/martian/")
		site = fn
		break
	}
	if len(msg) > 160 {
		msg = msg[:160]
	}
	return
}
