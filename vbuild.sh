#!/bin/bash
# Builds $VERIF_REPO (default /repo) working tree with -tags verif plus the
# harness into /verif/build/<treehash>/ and prints that directory.
# Usage: vbuild.sh [--race]    (race variants of mrp/mrjob/vh are built only on request)
set -e
export GOFLAGS=-mod=mod GOPROXY=off GOSUMDB=off GOTOOLCHAIN=local
VERIF=/verif
REPO="${VERIF_REPO:-/repo}"
WANT_RACE=0
[ "$1" = "--race" ] && WANT_RACE=1
mkdir -p $VERIF/build
cd "$REPO"
HASH=$( { echo "$REPO"; (git ls-files -co --exclude-standard 2>/dev/null || find . -type f) | grep -E '\.(go|y|mod|sum|py|json|template|sh|example)$|^adapters/|^jobmanagers/' | sort | xargs -d '\n' sha256sum 2>/dev/null; cd $VERIF/harness && find . -type f \( -name '*.go' -o -name '*.tmpl' \) | sort | xargs -d '\n' sha256sum; } | sha256sum | cut -c1-16)
B=$VERIF/build/$HASH
exec 9>$VERIF/build/.lock
flock 9
if [ ! -f $B/.ok ]; then
  rm -rf $B; mkdir -p $B/plain/bin $B/harness
  (cd "$REPO" && go build -tags verif -o $B/plain/bin/ ./cmd/mrp ./cmd/mrjob ./cmd/mro ./cmd/mrg) >&2
  cp -r "$REPO/jobmanagers" "$REPO/adapters" $B/plain/
  sed "s#@REPO@#$REPO#" $VERIF/harness/go.mod.tmpl > $B/harness.mod
  cp $VERIF/harness/go.sum $B/harness.sum
  (cd $VERIF/harness && go build -tags verif -modfile=$B/harness.mod -o $B/harness/ ./cmd/...) >&2
  touch $B/.ok
  # drop stale builds: keep the 3 most recent and anything used in the last 10 hours
  # (a long thorough run must not lose its binaries to later rebuilds)
  for d in $(ls -1dt $VERIF/build/*/ 2>/dev/null | tail -n +4); do
    [ -n "$(find "$d" -maxdepth 0 -mmin +600)" ] && rm -rf "$d"
  done
fi
if [ $WANT_RACE = 1 ] && [ ! -f $B/.ok-race ]; then
  mkdir -p $B/race/bin
  (cd "$REPO" && go build -race -tags verif -o $B/race/bin/ ./cmd/mrp ./cmd/mrjob) >&2
  cp -r "$REPO/jobmanagers" "$REPO/adapters" $B/race/
  (cd $VERIF/harness && go build -race -tags verif -modfile=$B/harness.mod -o $B/harness/vh-race ./cmd/vh) >&2
  touch $B/.ok-race
fi
touch $B
echo $B
