#!/bin/bash
# Runs the repository's pinned suite with the verif guard OFF.
export GOFLAGS=-mod=mod GOPROXY=off GOSUMDB=off GOTOOLCHAIN=local
cd "${VERIF_REPO:-/repo}" && go build ./... && go test -vet=off -count=1 -timeout 25m ./...
