#!/bin/bash
# Build the framework and the hooked repository binaries from files on disk.
cd /verif && ./vbuild.sh --race >/dev/null && echo setup ok
