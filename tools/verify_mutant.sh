#!/bin/bash
# verify_mutant.sh <agent_out_dir> <seed_id>
# Confirms: patch applies to /repo HEAD, builds, suite passes, demo fails with / passes without.
# On success stores /verif/seeded/<seed_id>/{patch.diff,demo/,notes.md}
export GOFLAGS=-mod=mod GOPROXY=off GOSUMDB=off GOTOOLCHAIN=local
OUT=$1; ID=$2
W=/tmp/mv/$ID
rm -rf $W; mkdir -p /tmp/mv
git -C /repo worktree add -q --detach $W HEAD || exit 2
cleanup() { git -C /repo worktree remove --force $W 2>/dev/null; rm -rf $W; }
trap cleanup EXIT
cd $W
git apply $OUT/patch.diff || { echo "FAIL: patch does not apply"; exit 1; }
go build ./... || { echo "FAIL: build"; exit 1; }
if ! go test -vet=off -count=1 ./... > $W/_suite.log 2>&1; then echo "FAIL: suite fails with patch"; tail -20 $W/_suite.log; exit 1; fi
echo "suite passes with patch"
( cd $OUT/demo && timeout 600 bash ./run.sh $W > $W/_demo_patched.log 2>&1 ); RP=$?
( cd $OUT/demo && timeout 600 bash ./run.sh /repo > $W/_demo_clean.log 2>&1 ); RC=$?
echo "demo: patched exit=$RP clean exit=$RC"
if [ $RP -ne 0 ] && [ $RC -eq 0 ]; then
  mkdir -p /verif/seeded/$ID
  cp $OUT/patch.diff /verif/seeded/$ID/
  rm -rf /verif/seeded/$ID/demo; cp -r $OUT/demo /verif/seeded/$ID/demo
  cp $OUT/notes.md /verif/seeded/$ID/ 2>/dev/null
  echo "OK $ID"
else
  echo "FAIL: demo does not discriminate"; tail -5 $W/_demo_patched.log; tail -5 $W/_demo_clean.log; exit 1
fi
