#!/usr/bin/env python3
"""Regenerates /verif/MANIFEST.json from the table below."""
import json, subprocess

FLOW_NOTE = ("Trusted base: the reference evaluator internal/pgen/model.go (what bindings denote, which stage "
             "invocations exist, which producers each depends on), the probe stage's own event log "
             "(CLOCK_MONOTONIC start/end, raw _args/_outs, file checks) and the -tags verif hook trace. "
             "Verdicts hold for the executions observed only.")

CHECKS = {
 "C01": dict(level="exploration", tech="runtime monitoring: offline checker of probe-stage event logs against a reference dataflow evaluator",
   text="Generated MRO programs are run by the real mrp with a universal probe stage; every recorded stage execution's arguments, every join's chunk_defs/chunk_outs and the top-level outputs (snapshotted just before post-processing) must equal the reference evaluation of the bindings over the outputs the producers actually recorded. Exploration is the right level: the claim quantifies over all programs x inputs x schedules, which can only be sampled; the oracle is local (one witness per wrong value) and exact.",
   ref="3 C01"),
 "C02": dict(level="exploration", tech="runtime monitoring: interval-order checker over monotonic start/end events with injected delays at scheduler hook points",
   text="Same runs, with slow producers and PRNG delays at refresh/step/expandForks/jobDone hooks: for every dataflow-derived dependency (data, disabling condition, map source, preflight) and for split<chunks<join inside a fork the consumer's start must follow the producer's end on the shared monotonic clock. Sampled schedules only.",
   ref="3 C02"),
 "C03": dict(level="exploration", tech="runtime monitoring: exactly-once / expected-set checker over recorded job executions",
   text="The multiset of executed (call, fork, phase, chunk) must equal the reference model's set: one recorded fork per expected invocation, each job started once, chunk jobs == chunks the split defined, nothing for disabled calls; boundary collection sizes (0,1,9,10,11).",
   ref="3 C03"),
 "C04": dict(level="exploration", tech="runtime monitoring: consumer-side file liveness checks under all VDR modes with delays at VDR hook points",
   text="File-passing programs under rolling/post/strict VDR: every consumer probe stats and reads every path named in its own arguments when it starts (content tokens identify the producer's file); at completion every top-level file output and retained file must carry the producer's token. Sampled programs/schedules.",
   ref="3 C04"),
 "C05": dict(level="fault_enumeration", tech="fault injection: crash (SIGKILL/SIGTERM/SIGINT) at enumerated hook points and job-side points, restart, compare with uninterrupted baseline",
   text="The baseline run of each program yields the ordered list of mrp hook hits between filesystem effects; crash specs (point, occurrence, signal) are enumerated (all points for small programs in the thorough tier, stratified by point class otherwise), plus job-side kills of mrp and double crashes. After restart(s): exit 0, outputs and outs/ tokens equal the baseline, no job with a completion marker older than the interruption starts again, no _lock after a handled signal.",
   ref="3 C05"),
 "C06": dict(level="fault_enumeration", tech="fault injection: every job x failure manifestation via the probe's behaviour file, then fault removal and restart",
   text="Every job of a program as failure site x manifestation (error pipe, ASSERT, exit codes, SIGSEGV/SIGKILL of stage or mrjob, truncated/missing/ill-typed outs, bad _stage_defs), one-shot or repeated, autoretry 0|2: mrp must fail without claiming success, name the stage, start no dependent job, and after fault removal complete with the baseline result without redoing completed work.",
   ref="3 C06"),
 "C13": dict(level="exploration", tech="runtime monitoring: end-state checker of outs/ and the post-processed _outs against a pre-post-processing snapshot",
   text="Top-level signatures of every container nesting with nulls, never-written files, explicit out names and duplicate references: the outs/ path of every file leaf is re-derived from name/type/outname and must carry the producer's content token; the post-processed _outs must be valid JSON of the same shape with non-file values unchanged.",
   ref="3 C13"),
 "C14": dict(level="exploration", tech="runtime monitoring: removal inventories taken by a hook just before each os.RemoveAll, compared with kill reports and the final tree",
   text="With VDR on: no executed job's tmp directory, no chunk-level file of a splitting stage and no unretained file of a volatile stage survives; listed paths are gone; per-fork and pipestance report count/size equal the sum of the hook's own lstat inventories; every vanished file is covered by a removal inside the pipestance; a canary beside it is untouched.",
   ref="3 C14"),
}

props = [json.loads(l) for l in open('/verif/properties.jsonl')]
hooks = subprocess.run(['git', '-C', '/repo', 'log', '--format=%h %s', 'e7a547a..HEAD'], capture_output=True, text=True).stdout.strip().split('\n')
hook_commits = [h.split()[0] for h in hooks if 'verif hooks' in h]

checks = []
na = []
for p in props:
    pid = p['id']
    if pid in CHECKS:
        c = CHECKS[pid]
        checks.append({
            "property_id": pid,
            "quick_cmd": f"./vcheck {pid} --tier quick",
            "thorough_cmd": f"./vcheck {pid} --tier thorough",
            "evidence_file": f"/verif/evidence/{pid}.json",
            "replay_cmd_template": "cat {path}",
            "engine": "vh",
            "level_claimed": {"category": c['level'], "text": c['text'], "design_ref": "DESIGN.md section " + c['ref']},
            "level_note": c.get('note', FLOW_NOTE),
            "technique": c['tech'],
        })
    else:
        na.append({"property_id": pid, "reason": "check not built yet (work in progress; see DESIGN.md section 3)"})

m = {
 "version": 1,
 "setup_cmd": "./setup.sh",
 "hooks": {
   "guard": "verif (Go build tag)",
   "enable": "go build -tags verif, done by ./vbuild.sh (called from ./vcheck) into /verif/build/<treehash>/ from $VERIF_REPO (default /repo) working tree",
   "baseline_off_cmd": "./baseline_off.sh",
   "source_commits": hook_commits,
   "add_only": True,
 },
 "engines": [
   {"name": "vh", "path": "/verif/harness/cmd/vh", "serves_properties": [c["property_id"] for c in checks],
    "kind_free_text": "Go driver: program generator + reference model (internal/pgen), pipestance runner (internal/vrun), event-log monitors (internal/vmon), verdict/evidence/known-findings framework (internal/vf)"},
   {"name": "probe", "path": "/verif/harness/cmd/probe", "serves_properties": ["C01","C02","C03","C04","C05","C06","C13","C14"],
    "kind_free_text": "universal stage executable run under the real mrjob; records start/end events, arguments, file checks; deterministic type-shaped outputs; fault/delay behaviour file"},
 ],
 "checks": checks,
 "notes": "Runtime monitoring and fault injection only; see DESIGN.md. Known genuine defects are listed in known_findings.jsonl and printed as KNOWN-FINDING lines.",
 "not_applicable": na,
}
json.dump(m, open('/verif/MANIFEST.json', 'w'), indent=1)
print("checks:", [c['property_id'] for c in checks], "not yet:", [n['property_id'] for n in na])
