#!/usr/bin/env python3
"""Regenerates /verif/MANIFEST.json from the table below."""
import json, subprocess

FLOW_NOTE = ("Trusted base: the reference evaluator internal/pgen/model.go (what bindings denote, which stage "
             "invocations exist, which producers each depends on), the probe stage's own event log "
             "(CLOCK_MONOTONIC start/end, raw _args/_outs, file checks) and the -tags verif hook trace. "
             "Verdicts hold for the executions observed only.")

CHECKS = {
 "C01": dict(level="exploration", tech="runtime monitoring: offline checker of probe-stage event logs against a reference dataflow evaluator",
   text="Generated MRO programs are run by the real mrp with a universal probe stage; every recorded stage execution's arguments, every join's chunk_defs/chunk_outs and the top-level outputs (snapshotted just before post-processing) must equal the reference evaluation of the bindings over the outputs the producers actually recorded. Exploration is the right level: the claim quantifies over all programs x inputs x schedules, which can only be sampled; the oracle is local (one witness per wrong value) and exact.",
   ref="3 C01"),
 "C02": dict(level="exploration", tech="runtime monitoring: interval-order checker over monotonic start/end events with injected delays at scheduler hook points",
   text="Same runs, with slow producers and PRNG delays at refresh/step/expandForks/jobDone hooks: for every dataflow-derived dependency (data, disabling condition, map source, preflight) and for split<chunks<join inside a fork the consumer's start must follow the producer's end on the shared monotonic clock. Sampled schedules only. A sixth of the runs is interrupted and restarted (mrp stopped when the first fork of a run-time sized map call has finished while its siblings are slow): the ordering must also hold for what the restarted mrp starts.",
   ref="3 C02"),
 "C03": dict(level="exploration", tech="runtime monitoring: exactly-once / expected-set checker over recorded job executions",
   text="The multiset of executed (call, fork, phase, chunk) must equal the reference model's set: one recorded fork per expected invocation, each job started once, chunk jobs == chunks the split defined, nothing for disabled calls; boundary collection sizes (0,1,9,10,11).",
   ref="3 C03"),
 "C04": dict(level="exploration", tech="runtime monitoring: consumer-side file liveness checks under all VDR modes with delays at VDR hook points",
   text="File-passing programs under rolling/post/strict VDR: every consumer probe stats and reads every path named in its own arguments when it starts (content tokens identify the producer's file); at completion every top-level file output and retained file must carry the producer's token. Sampled programs/schedules. A sixth of the cases reach the pipestance through a symlinked parent directory with half of the files named by physical path; a third carry the paths of written files in string-typed outputs, every twelfth is a volatile producer with string-typed outputs only and two successive readers.",
   ref="3 C04"),
 "C05": dict(level="fault_enumeration", tech="fault injection: crash (SIGKILL and the handled signals TERM/INT/HUP/USR1/USR2) at enumerated hook points and job-side points, restart, compare with uninterrupted baseline",
   text="The baseline run of each program yields the ordered list of mrp hook hits between filesystem effects; crash specs (point, occurrence, signal) are enumerated (all points for small programs in the thorough tier, stratified by point class otherwise), plus job-side kills of mrp and double crashes. After restart(s): exit 0, outputs and outs/ tokens equal the baseline, no job with a completion marker older than the interruption starts again, no _lock after a handled signal. The job monitor (mrjob) also signals mrp from its own hook points just before / just after it records a job's completion, so that the monitor itself is signalled by mrp's death inside that window. Every hook hit of the post-processing window is a crash point; every fourth program runs with --zip (crash points inside the metadata archiving); directed interruptions when the first fork of a run-time map call has ended; half of the programs take negative float / large integer invocation arguments.",
   ref="3 C05"),
 "C06": dict(level="fault_enumeration", tech="fault injection: every job x failure manifestation via the probe's behaviour file, then fault removal and restart",
   text="Every job of a program as failure site x manifestation (error pipe, ASSERT, exit codes, SIGSEGV/SIGKILL of stage or mrjob, truncated/missing/ill-typed outs, bad _stage_defs), one-shot or repeated, autoretry 0|2: mrp must fail without claiming success, name the stage, start no dependent job, and after fault removal complete with the baseline result without redoing completed work. Preflight calls get directed faults (everything else in the pipeline, nested at any depth, depends on them); a fraction of the stages run through the real Python adapter with Python-only failure modes. With --autoretry=N the failing job runs at most N+1 times, also when the fault looks transient on every attempt; directed bad outputs of non-last chunks; ill-typed resource requests in a split's chunk definitions; every fourth program runs 60% of its stages as bare executables (exec), with in-contract faults only.",
   ref="3 C06"),
 "C13": dict(level="exploration", tech="runtime monitoring: end-state checker of outs/ and the post-processed _outs against a pre-post-processing snapshot",
   text="Top-level signatures of every container nesting with nulls, never-written files, explicit out names and duplicate references: the outs/ path of every file leaf is re-derived from name/type/outname and must carry the producer's content token; the post-processed _outs must be valid JSON of the same shape with non-file values unchanged. Explicit out names that clash with a sibling's default file name must be rejected before anything runs or else be materialised faithfully. A sixth of the cases run with --zip (the record is read back from the metadata archive); run-time map keys with control characters, quotes and backslashes.",
   ref="3 C13"),
 "C14": dict(level="exploration", tech="runtime monitoring: removal inventories taken by a hook just before each os.RemoveAll, compared with kill reports and the final tree",
   text="With VDR on: no executed job's tmp directory, no chunk-level file of a splitting stage and no unretained file of a volatile stage survives; listed paths are gone; per-fork and pipestance report count/size equal the sum of the hook's own lstat inventories; every vanished file is covered by a removal inside the pipestance; a canary beside it is untouched. Every tenth case: interrupted run, top-level pipeline directory moved outside and replaced by a symlink, restart - the files of completed jobs lying there must survive. Every tenth case runs with --overrides (force_volatile on the top-level pipeline, resource-only entries on half of the stage calls): every stage call then counts as volatile.",
   ref="3 C14"),
}

SRC_NOTE = ("Trusted base: the harness's own generators and reference oracles (internal/pgen printer, reflection-based AST walker "
            "cmd/vh/astdump.go, per-check reference code); the real martian/syntax, martian/core packages and mro/mrg/mrp binaries are the "
            "system under observation, executed in child processes so that a crash identifies its input. Verdicts hold for the inputs explored only.")

CHECKS.update({
 "C07": dict(level="exploration", tech="runtime monitoring of pipestances under --strict=error + compile-time mutation testing with located-error oracle", note=FLOW_NOTE,
   text="Soundness: compiler-accepted generated programs over the whole type language run by the real mrp with --strict=error and type-conforming probe outputs; any run-time binding/validation error or crash, or any delivered argument failing the harness's own type validator, is a violation. Completeness: single-point ill-typed mutations of valid programs must be rejected by the real compiler with an error positioned inside the mutated call statement.",
   ref="3 C07"),
 "C08": dict(level="exploration", tech="hostile-input campaign in child processes (crash = violation with the input on disk), allocation-based proportionality monitor", note=SRC_NOTE,
   text="Token-level mutants of generated and repository MRO sources (numbers at/over int64/float32/float64 range, every escape form, empty strings, keywords as identifiers, truncations, invalid UTF-8), expression mutants, random bytes and scaling families are fed to ParseSourceBytes / UncheckedParse / FormatSrcBytes / ParseValExp in child processes: a crash, an error without source position, neither tree nor error, or super-linear allocation growth is a violation. An input that hits the progress watchdog is re-run alone under RLIMIT_CPU: using up 20 CPU-seconds on one input is a verdict (CPU time consumed, not wall clock).",
   ref="3 C08"),
 "C09": dict(level="exploration", tech="round-trip monitoring of the real formatter with an independent reflection-based AST comparison and tracked comments", note=SRC_NOTE,
   text="Generated multi-file programs with every literal form and optional clause, surface syntax randomised with tracked comments: Format output must re-parse to a structurally equal tree, lose no comment, be a fixed point when all comments precede elements, compile to the same callables/call graph, and the include-expanded rendering must compile standalone to the same.",
   ref="3 C09"),
 "C10": dict(level="exploration", tech="repetition monitor: byte equality of every artefact over R in-process repetitions x P fresh processes, plus paired mrp runs", note=SRC_NOTE,
   text="Programs with wide map/struct literals, typed-map map calls, retains and multi-error variants: formatted text, include-expanded source, error text, call-graph JSON/GoString and AST JSON must be byte-identical over R repetitions in P processes (an unsorted map traversal survives R*P draws with probability <= 2^-(RP-1)); two mrp runs of one program must give identical listings and per-fork _invocation bytes. Every dataflow skeleton is among the programs; the fork order recorded in _finalstate is compared over four runs of a program whose forks are keyed by run-time map keys.",
   ref="3 C10"),
 "C11": dict(level="exploration", tech="key-space exploration through tag-guarded wrappers around the real fork-name / journal-name / journal-parse code + adversarial-key pipestances", note=FLOW_NOTE,
   text="Random nestings of map/array dimensions with adversarial keys and boundary lengths: all forks of a call get pairwise distinct directory and journal names and every journal file name routes back to exactly its (fork, chunk, attempt, file); pipestances mapped over adversarial key pools complete without dataflow/exactly-once findings or journal warnings. Lost-but-alive jobs: a leftover of a killed first attempt reports completion under the superseded attempt's journal name while the retry is running; it must be dropped (nothing may consume the job's outputs before the replacing attempt has ended). In every pipestance the journal-routing monitor reads the hook trace and requires each processed journal file to carry the name the receiving metadata object's own job writes, and none to be dropped for want of an owner.",
   ref="3 C11"),
 "C12": dict(level="exploration", tech="race-detector build + porcupine linearizability checking of recorded client-boundary histories + sequential differential driver", note="Trusted base: porcupine v1.3.0, the sequential reference models in cmd/vh/check_c12.go, the Go race detector. The real core.ResourceSemaphore / MaxJobsSemaphore / job managers are driven through their exported API.",
   text="Concurrent random Acquire/Release/Update*/getter histories on the real ResourceSemaphore and MaxJobsSemaphore are recorded at the client boundary and checked against sequential models with porcupine (Unknown = inconclusive); a sequential driver checks FIFO grants, exact getters and no lost wake-up against a reference queue; request normalisation is checked against the configured limits; the check binary is built with -race and reports in the semaphore files are violations. End to end: reservations of jobs with overlapping run intervals never exceed --localcores / --localmem, at most --maxjobs cluster jobs overlap (including slow joins under a saturated limit), every such pipestance completes.",
   ref="3 C12"),
 "C15": dict(level="exploration", tech="labelled-edit differential monitoring of Ast.EquivalentCall and of real mrp re-attach / lock behaviour", note=SRC_NOTE,
   text="For generated programs, one labelled cosmetic or semantic edit in the closure of the top-level call: EquivalentCall (both directions) and the real mrp on an existing pipestance must accept cosmetic and refuse semantic edits; further mrp processes started while the first holds _lock must be refused. Also for the read-only re-attach (mrp --inspect) and for a re-pointed wildcard binding.",
   ref="3 C15"),
 "C17": dict(level="exploration", tech="differential monitoring of the real Type.IsValidJson / FilterJson / IsAssignableFrom against an independent reference validator/filter", note=SRC_NOTE,
   text="Random type universes compiled by the real compiler; conforming values and typed single-point near-miss mutants (wrong depth, numbers as strings, floats for ints, extra/missing/duplicate fields, nulls, odd whitespace): filter idempotence and conservativeness, validity after filtering to an assignable type, validation verdicts and componentwise assignability are compared with a reference that shares no code with martian.",
   ref="3 C17"),
 "C19": dict(level="exploration", tech="edit-and-recompile monitoring of the real refactoring package applied the way mro edit applies it", note=SRC_NOTE,
   text="Every applicable rename/remove edit on every callable and parameter of generated multi-file programs: edited files must compile, call-graph JSON must equal the original modulo the renamed identifier, removals keep nodes / resolved top-level outputs, and rename followed by its inverse restores the compiled program. The skeleton covers wildcard forwarding of struct inputs and outputs used only through nested projections.",
   ref="3 C19"),
})

CHECKS.update({
 "C16": dict(level="exploration", tech="round-trip monitoring of the real InvocationData / mrg conversions with an independent AST walker, plus recompilation of recorded per-fork _invocation files", note=SRC_NOTE,
   text="Random callable signatures and JSON argument values of every type (nulls, boundary integers, exponent floats, every string escape, non-ASCII, hostile keys) with any subset split: JSON -> BuildCallSource -> compile -> InvocationDataFromSource/BuildDataForAst must return equal args and split set, MRO -> JSON -> MRO must compile to an equal call, the mrg binary must agree with the API, and every <stage>/<fork>/_invocation of finished pipestances must compile as a call of that stage whose arguments equal the fork's _args.",
   ref="3 C16"),
 "C18": dict(level="exploration", tech="real dash/bash evaluating the real quoting / job-script output, with a recorder process reporting what arrived and canary files detecting injection", note="Trusted base: /bin/sh (dash) and bash as the POSIX shells, the recorder subcommand of the harness binary; the quoting and script assembly under observation are the real core functions reached through the -tags verif wrappers and the real mrp in fake_remote mode.",
   text="All 1- and 2-character combinations of shell-special characters in carriers, every ASCII byte, injection payloads, random Unicode, long and multi-line strings (invalid UTF-8 as a separately signed extension class) are quoted by the real appendShellSafeQuote and printed by dash and bash; real jobScript output for every template is evaluated with hostile program paths, arguments, environment values, stdout/stderr paths and working directories and the recorder's argv/env/cwd must equal the originals; real mrp runs in fake_remote mode with hostile --psdir / install paths.",
   ref="3 C18"),
})

props = [json.loads(l) for l in open('/verif/properties.jsonl')]
hooks = subprocess.run(['git', '-C', '/repo', 'log', '--format=%h %s', 'e7a547a..HEAD'], capture_output=True, text=True).stdout.strip().split('\n')
hook_commits = [h.split()[0] for h in hooks if 'verif hooks' in h]

checks = []
na = []
for p in props:
    pid = p['id']
    if pid in CHECKS:
        c = CHECKS[pid]
        checks.append({
            "property_id": pid,
            "quick_cmd": f"./vcheck {pid} --tier quick",
            "thorough_cmd": f"./vcheck {pid} --tier thorough",
            "evidence_file": f"/verif/evidence/{pid}.json",
            "replay_cmd_template": "cat {path}",
            "engine": "vh",
            "level_claimed": {"category": c['level'], "text": c['text'], "design_ref": "DESIGN.md section " + c['ref']},
            "level_note": c.get('note', FLOW_NOTE),
            "technique": c['tech'],
        })
    else:
        na.append({"property_id": pid, "reason": "no check registered"})

m = {
 "version": 1,
 "setup_cmd": "./setup.sh",
 "hooks": {
   "guard": "verif (Go build tag)",
   "enable": "go build -tags verif, done by ./vbuild.sh (called from ./vcheck) into /verif/build/<treehash>/ from $VERIF_REPO (default /repo) working tree",
   "baseline_off_cmd": "./baseline_off.sh",
   "source_commits": hook_commits,
   "add_only": True,
 },
 "engines": [
   {"name": "vh", "path": "/verif/harness/cmd/vh", "serves_properties": [c["property_id"] for c in checks],
    "kind_free_text": "Go driver: program generator + reference model (internal/pgen), pipestance runner (internal/vrun), event-log monitors (internal/vmon), verdict/evidence/known-findings framework (internal/vf)"},
   {"name": "probe", "path": "/verif/harness/cmd/probe", "serves_properties": ["C01","C02","C03","C04","C05","C06","C07","C10","C11","C13","C14","C15"],
    "kind_free_text": "universal stage executable run under the real mrjob; records start/end events, arguments, file checks; deterministic type-shaped outputs; fault/delay behaviour file"},
 ],
 "checks": checks,
 "notes": "Runtime monitoring and fault injection only; see DESIGN.md. Known genuine defects are listed in known_findings.jsonl and printed as KNOWN-FINDING lines.",
 "not_applicable": na,
}
json.dump(m, open('/verif/MANIFEST.json', 'w'), indent=1)
print("checks:", [c['property_id'] for c in checks], "not yet:", [n['property_id'] for n in na])
