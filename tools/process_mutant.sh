#!/bin/bash
# process_mutant.sh <id> [agent_out_dir]  -- verify an agent-made seeded change, store it, run its property's check on it
ID=$1; OUT=${2:-/tmp/mut2/$ID/_out}; P=${ID:0:3}
/verif/tools/verify_mutant.sh $OUT $ID > /tmp/mv/verify-$ID.log 2>&1 || { echo "$ID: VERIFY FAILED"; tail -8 /tmp/mv/verify-$ID.log; exit 1; }
tail -2 /tmp/mv/verify-$ID.log
/verif/tools/run_on_mutant.sh $ID $P 1 2 3 2>&1 | grep "^mutant\|signature" 
