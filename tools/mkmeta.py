#!/usr/bin/env python3
"""Writes /verif/seeded/<id>/meta.json and /verif/seeded/README.md from the hand-written table below,
the 'needs' section of each notes.md and the last mutant matrix run (seeded/matrix.jsonl)."""
import json, os, re, collections
ROOT = '/verif/seeded'
CHANGE = {
 'C01a': ("martian/core/stage.go Fork.doJoin", "the condition that gathers the chunks' _outs into the join's _chunk_outs lost a disjunct: stages whose split declares no chunk-level out parameter get empty chunk_outs entries"),
 'C02a': ("martian/syntax/split_expression.go SplitExp.FindRefs", "the *BoundReference master of a multi-source map call is no longer reported as a reference, so the producer of the master collection is not a prenode of inner calls that only consume a non-master split input"),
 'C03a': ("martian/core/node.go Node.makePrenodes", "references in disable bindings no longer become prenodes: a call disabled by a slow flag stage starts when its data inputs are ready"),
 'C04a': ("martian/core/node.go cloneFork", "fileArgs are not copied to dynamically cloned forks: files of run-time forks that are only returned / retained are removed by VDR"),
 'C05a': ("martian/core/stage.go Fork.updateId", "chunk directory width computed from n-1: with exactly 10 (100, ...) chunks a restarted mrp looks for chunk directories under a different zero padding and re-runs completed chunks"),
 'C06a': ("martian/core/stage.go Fork.doJoin", "ok = chunk.verifyOutput(outs) && ok became short-circuiting in the other order: a bad non-last chunk output followed by a good one is not noticed"),
 'C07a': ("martian/syntax/types.go isValidSplit", "element type of a split reference strips the map level before the array level: split over map<T>[] is checked against the wrong element type"),
 'C08a': ("martian/syntax/format_callable.go getWidths", "type names of 35+ characters are ignored when computing column width: the formatter panics with a negative repeat count"),
 'C09a': ("martian/syntax/format_exp.go ArrayExp.format", "single-line decision for one-element arrays looks at the array's comments instead of the element's: a comment above the only element is dropped"),
 'C10a': ("martian/syntax/formatter.go Ast.format", "top file search follows IncludedFrom only when there is exactly one includer: with a diamond include the combined source order depends on map iteration"),
 'C11a': ("martian/core/node.go Node.getFork", "journal files are attributed to a fork by suffix match: a map key that is a suffix of another key's fork name receives the other fork's notifications"),
 'C12a': ("martian/core/resource_semaphore.go Acquire", "fast path tests waiters == nil instead of len(waiters) == 0: after a drain that leaves an empty non-nil slice every request queues although the resource is idle"),
 'C13a': ("martian/core/post_process.go processStructOuts", "any per-output error discards all post-processed outputs: a second post-processing pass (re-attach) loses the outs"),
 'C14a': ("martian/core/storage.go anyOverlap", "retained path matched by plain string prefix: x.bam retained keeps x.bam.bai alive"),
 'C15a': ("martian/syntax/equivalence.go OutParams.Equals", "!= became <: removing an unreferenced stage output in an included file is accepted on re-attach"),
 'C16a': ("martian/core/runtime.go fixExpressionTypes", "element type of typed maps of arrays computed with the wrong dimension: map members of structs inside map<S[]> arrive as struct literals"),
 'C17a': ("martian/syntax/collection_types.go ArrayType.FilterJson", "for Dim>1 the 'changed' flag of an inner array is overwritten by the last entry: a filtered non-last entry is returned unfiltered"),
 'C18a': ("martian/core/jobmanager_remote.go jobScript", "template placeholders are substituted sequentially instead of in one pass: a value containing a later placeholder token is rewritten"),
 'C01b': ("martian/syntax/resolve_expression.go ArrayExp.filter", "the 'changed' flag of array-literal narrowing is overwritten per element: a literal of wide structs whose last element is null or a reference reaches a narrower struct[] parameter unfiltered"),
 'C02b': ("martian/core/node.go Node.setPrenode", "a preflight prerequisite is only recorded for nodes that have no prerequisite yet: with two preflights, or an inner pipeline's own preflight, jobs start while the later preflight is still running"),
 'C03b': ("martian/syntax/resolve_stage.go CallGraphStage.resolveForks", "fork roots no longer come from disable bindings: a call whose disabled modifier (but none of its inputs) depends on the mapped element gets a single fork"),
 'C04b': ("martian/core/storage.go Fork.partialVdrKill", "a Failed consumer counts as finished: the producer's files are removed while the consumer is waiting to be retried"),
 'C05b': ("martian/core/metadata.go Metadata.restartLocal", "a queued local job is only reset on reattach when _queued_locally exists: a job killed between that file's removal and mrjob's first write is waited on forever"),
 'C06b': ("martian/core/metadata.go Metadata.checkedReset", "per-job reset applies to every job that is not complete instead of failed jobs only: an in-process auto-retry wipes and re-runs jobs of independent calls that are still running"),
 'C11b': ("martian/core/metadata.go Metadata.uncheckedReset", "the uniquifier is not cleared before uniquify(): a reset job reuses the directory and journal name of the attempt it replaces, so a straggler's notification is credited to the new attempt"),
 'C12b': ("martian/core/resource_semaphore.go UpdateFreeUsed", "sign error in the over-use adjustment: observed usage above the reservation raises the reservable size above the configured limit"),
 'C13b': ("martian/core/post_process.go copyOutSymlink", "later hops of a relative symlink chain are resolved against the directory of the first link: the path recorded in the final _outs does not exist"),
 'C14b': ("martian/core/storage.go Fork.partialVdrKill", "a Disabled consumer no longer counts as finished: files of a volatile producer whose only consumer was disabled at run time are never reclaimed"),
 'C07b': ("martian/syntax/collection_types.go ArrayType.IsAssignableFrom", "array depth check != became <: a deeper array (map<T[][]> for map<T[]>, split T[][][] for T[]) is accepted and fails or mis-delivers at run time"),
 'C08b': ("martian/syntax/tokenizer.go tokStringRule", "1- and 2-digit octal escapes are lexed as strings; unquoteBytes then reads past the end of a string ending in such an escape and panics"),
 'C09b': ("martian/syntax/format_callable.go BindStms.format", "the synthetic bindings a wildcard expands to are printed after '*': the include-expanded rendering (_mrosource) no longer parses"),
 'C10b': ("martian/syntax/fix_includes.go fixIncludes", "the include comparator lost its antisymmetry branch: mro format --includes orders newly added includes from different directories by map iteration order"),
 'C15b': ("martian/syntax/equivalence.go Modifiers.EquivalentTo", "the 'old side had disabled' check only runs when the new call has no modifiers at all: deleting disabled= next to another modifier is accepted on re-attach"),
 'C16b': ("martian/core/runtime.go convertToExp", "an empty array assembled at run time (projection / merged map-call output) becomes null instead of [] in the per-fork _invocation"),
 'C17b': ("martian/syntax/collection_types.go TypedMapType.FilterJson", "map keys are re-serialised with strconv.Quote: keys with control characters give malformed JSON when a value is actually filtered"),
 'C18b': ("martian/core/shell_quote.go appendShellSafeQuote", "'!' is escaped as \\! although a backslash before ! is kept literally inside double quotes"),
 'C19b': ("martian/syntax/refactoring/rename_output_param.go updatePipelineRetain.update", "pipeline retain entries are matched by call id only: renaming an output that is not the first retained one of its call overwrites the first entry"),
 'C19a': ("martian/syntax/refactoring/rename_callable.go updateRef", "projection references are matched by name prefix: renaming output 'res' also rewrites CALL.res_alt.a"),
 'C01c': ("martian/syntax/disabled_exp.go DisabledExp.makeDisabledExp", "case *RefExp lost '&& id.Disabled == disable': a value already guarded by one run-time disable control does not get a second, different control, so a pass-through output of a disabled pipeline keeps the value of an enabled producer outside it"),
 'C02c': ("martian/core/stage.go Fork.getState", "the chunk-state fold assigns 'complete = state == Complete' instead of clearing it: the join starts as soon as the highest-index chunk is complete while a lower-index chunk is still running"),
 'C03c': ("martian/core/fork.go Fork.expandForkSplitInnerPart", "the recursive SplitExp case indexes with the outer fork index (id.Id) instead of the middle one: with three nested run-time map levels the innermost call of fork (a,b) is sized from v[a][a]"),
 'C04c': ("martian/core/storage.go anyOverlap", "off-by-one in the 'referenced file is inside the walked directory' guard: an output named <subdir>/<one-character name> no longer keeps its parent directory alive, which VDR then removes with the file in it"),
 'C05c': ("cmd/mrjob/mrjob.go runner.WaitLoop", "the critical section around the final Complete()/Fail() was removed: a SIGTERM from mrp's death between the job's _complete and the monitor's exit also writes _errors, and the restarted mrp re-runs the completed job"),
 'C06c': ("martian/core/node.go Node.setPrenode", "the preflight prerequisite is no longer propagated into sub-pipelines: a stage nested in a sub-pipeline starts although the enclosing pipeline's preflight fails"),
 'C12c': ("martian/core/jobmanager_local.go LocalJobManager.GetSystemReqs", "the clamp to --localcores compares whole cores with integer division: a request between maxCores and maxCores+1 threads is not clamped and the semaphore refuses it"),
 'C13c': ("martian/syntax/compile_types.go StructType.compile", "the duplicate output-file-name check uses GetOutName (explicit names only) instead of GetOutFilename: an explicit out name equal to a sibling's default file name compiles, and post-processing silently skips the second output"),
 'C14c': ("martian/core/node.go cloneFork", "forks created at run time share the template fork's inner filePostNodes maps: a fork whose output names no file removes the argument from all siblings' sets and their files are never released"),
 'C15c': ("martian/core/pipestance.go Pipestance.Lock", "the signal handler is registered before the 'already locked' check: a refused second attach that receives a signal deletes the live owner's _lock"),
 'C07c': ("martian/syntax/compile_pipelines.go Pipeline.topoSort", "the loop always advances after moving a call past its last dependency, so the call that slid into the vacated slot is never examined: with two consecutive consumers declared before a map call they depend on, the second is type-checked before the producer's mapping is known (output typed one collection level short)"),
 'C08c': ("martian/syntax/compile_pipelines.go Pipeline.addNextDeps", "a reference to an undefined call is recorded as a nil dependency that is never stored: the transitive-closure loop finds it missing on every round and mro check / format / mrp hang"),
 'C09c': ("martian/syntax/parsenum.go roundUpTo", "the negative branch (round away from zero) was dropped: a negative non-integral mem_gb / vmem_gb re-parses one 1/1024 step short after every formatting pass"),
 'C10c': ("martian/syntax/compile_stages.go RetainParams.compile", "the sort of the stage retain list runs before the list is rebuilt from the de-duplication map: with a repeated entry the compiled order is Go map iteration order"),
 'C11c': ("martian/core/stage.go Fork.updateState", "join_* notifications are cached under the current attempt's uniquifier instead of the one parsed from the journal file name: a late notification of a superseded join attempt is taken for the current attempt"),
 'C16c': ("martian/syntax/parser.go IncludeFilePath", "the path-component boundary check after a string-prefix match of an MROPATH entry was dropped: with entries /s/mro and /s/mro_v2 the include of a callable in /s/mro_v2/stages is written as v2/stages/...; per-fork _invocation files no longer compile"),
 'C17c': ("martian/syntax/builtin_types.go BuiltinType.FilterJson", "the integrality check of a float given for an int became Trunc(x) == x: integral floats beyond int64 are accepted and rewritten to MinInt64"),
 'C18c': ("martian/core/jobmanager_remote.go formatArgs", "a 'do not quote twice' shortcut writes values that start and end with a double quote verbatim into the job script: the shell strips the quotes and expands what is inside"),
 'C19c': ("martian/syntax/refactoring/remove_input_param.go removeInputParam", "the scan of using(...) modifier bindings is skipped for calls to the edited callable: a pipeline input used only as 'disabled = self.X' on such a call is treated as unused and removed up the chain while the modifier stays"),
 'C01d': ("martian/core/fork.go Fork.expandForkFromObj", "the copy-on-write guard of the one-element branch tests the part's position in the fork id instead of the fork's index: an outer fork whose inner collection has exactly one element writes index 0 into the part it shares with the next outer fork, whose inner call then runs once instead of once per element"),
 'C02d': ("martian/core/node.go Node.makePrenodes", "the disable conditions inherited from enclosing pipelines are dropped before prenodes are made: a stage inside a sub-pipeline gated by 'disabled = X.flag' starts while X is still running"),
 'C03d': ("martian/syntax/resolve_stage.go resolveDisableExp", "append to the parent's disable list without copying: with 3 (5-7) enclosing run-time disable conditions sibling calls share the spare slot of the backing array and all obey the last sibling's own condition"),
 'C04d': ("martian/core/node.go Node.attachToFileParents + martian/core/stage.go Fork.removeFilePostNodes", "two sites: a reader is not added to the holder set of an argument that already has the nil (retain / top level) holder, and the removal treats 'one holder left' as 'the node being removed': a stage-level retained file is deleted when its first reader finishes"),
 'C05d': ("martian/core/post_process.go copyOutSymlink", "the 'already moved to outs/' branch (the crash-recovery path) writes the stage-directory path instead of the outs/ path: after an interruption between moving files and rewriting _outs the resumed run records outputs that do not point into outs/"),
 'C06d': ("cmd/mrp/runloop.go attemptRetry", "attemptRetry calls reset() (which refills the retry budget) instead of restart(): a fault that is taken for transient on every attempt is retried forever, mrp never fails"),
 'C07d': ("martian/syntax/compile_params.go BindStm.rewriteToDefaultOutput", "receiver and argument of the assignability test swapped in the legacy 'x = CALL' -> CALL.default rewrite: a float default output is accepted for an int parameter (and fails at run time), legal widenings are rejected"),
 'C08d': ("martian/syntax/tokenizer.go tokIntRule", "fast path accepts every integer token of up to 19 characters without the range check: 9223372036854775808..9999999999999999999 reaches parseInt and panics"),
 'C09d': ("martian/syntax/format_callable.go InParams/OutParams.getWidths", "type spellings of 40+ characters are left out of the column width: paramFormat pads with a negative count and the formatter (and the include-expanded rendering) panics"),
 'C10d': ("martian/syntax/merge_exp.go findMergeForkExpNode", "early return inside 'range v.Value' of a map / struct literal: with several directly bound members the fork_node of the serialized call graph follows Go map iteration order"),
 'C11d': ("martian/core/node.go Node.find", "descends only into the child whose name is a string prefix of the target and commits to it: notifications for TALLY_ALL are sent into sibling TALLY, dropped as 'unknown node', and the pipestance hangs"),
 'C12d': ("martian/core/stage.go Fork.updateState", "the join branch tests the split's state before releasing the --maxjobs slot: the slot of a running join is released on its first journal update and more than maxjobs cluster jobs run"),
 'C13d': ("martian/core/post_process.go Fork.handleOuts", "an output is only recorded when moving it raised no error: on a second post-processing pass (EEXIST for an outside-the-pipestance file) the whole parameter disappears from the top-level _outs"),
 'C14d': ("martian/core/storage.go Node.vdrCheckSymlink", "recursion turned into a loop that keeps testing the node's own directory: a symlinked ancestor directory is no longer noticed and VDR deletes files that were moved outside the pipestance"),
 'C15d': ("martian/syntax/equivalence.go BindStms.Equals", "'continue' at the wildcard entry became 'break': the bindings a wildcard expands to are never compared, so re-pointing '* = A' to '* = B' is accepted on re-attach"),
 'C16d': ("martian/syntax/format_exp.go FloatExp.format", "floats printed with %f below 1e21: integral values between 2^63 and 1e21 come out as 19-21 digit integer tokens that the MRO lexer rejects"),
 'C17d': ("martian/syntax/collection_types.go ArrayType.IsValidJson", "recursive helper passes s.Dim-1 instead of dim-1: for 3+ dimensions the element type is never reached, valid values are rejected and arrays of arrays of nulls of any depth accepted"),
 'C18d': ("martian/core/shell_quote.go shellSafeQuote", "pre-scan skips the byte after every multi-byte character: 'é$x' takes the fast path and is written unescaped inside double quotes"),
 'C19d': ("martian/syntax/refactoring/remove_unused_outputs.go removeCallRef", "IndexByte became LastIndexByte: an output referenced only through a projection two members deep (MID.rec.inner.x) is taken for unused and removed, the edited files no longer compile"),
 'C01e': ("martian/core/resolve.go resolvePath", "the null guard of the run-time member projection also fires for two-byte values: an empty [] or {} on a projection path (STAGE.items.name) becomes null"),
 'C02e': ("martian/core/fork.go Fork.expandForkFromRef", "a 'source not complete yet' guard that is a no-op in a normal run: on re-attach RestoreForks runs before the metadata is loaded, the run-time forks are not restored, the mapped call counts as complete with its first fork and its consumers start while the other forks are still running"),
 'C03e': ("martian/core/jobdef.go StageDefs.UnmarshalJSON", "an explicit 'chunks: []' is treated like an absent key: a split that defines zero chunks gets the default single chunk and an undefined main job runs"),
 'C04e': ("martian/core/storage.go getLogicalFileNames", "early return skips EvalSymlinks unless the path itself is a symlink: with a symlinked parent directory in the pipestance path and outputs reported by physical path the output no longer matches its argument and VDR deletes it at once"),
 'C05e': ("martian/syntax/equivalence.go FloatExp.equal", "tolerance computed without math.Abs: two negative non-integral floats never compare equal, a restart with the same invocation is refused as 'different invocation'"),
 'C06e': ("martian/core/metadata.go Metadata._getStateNoLock", "_complete is tested before _errors / _assert: a directly executed (src exec) stage that records completion and then exits non-zero is taken for complete, mrp reports success and starts the dependents"),
 'C07e': ("martian/core/resolve.go resolvePath", "element type of an array taken as t.Elem instead of one dimension less: member projections through arrays of two or more dimensions of structs (grid.x for CELL[][]) fail at run time"),
 'C08e': ("martian/syntax/parser.go Parser.getIncludes", "an included file is registered as processed after it has been parsed instead of before: an include cycle that does not pass through the top-level file recurses until the process dies"),
 'C09e': ("martian/syntax/format_callable.go CallStm.format", "prefix-form modifiers (call volatile X) are only converted to bindings when the call has no using(...) block: mixed spellings lose the prefix-form modifiers on formatting"),
 'C10e': ("martian/core/fork.go getUnknownKeys / expandForkFromObj", "the key sort moved from the caller into the helper, where the MarshalerMap branch was missed: forks of a map call whose source is a member projection through a run-time map of structs come in Go map iteration order"),
 'C11e': ("martian/core/node.go Node.parseRunFilename", "chunk index parsed with base auto-detection: zero-padded chnk08/chnk09 fail to parse (notification dropped), chnk10/chnk11 are read as octal and credited to chunks 8/9; stages with 10+ chunks hang"),
 'C12e': ("martian/core/stage.go Fork.reattachJobs", "operands of || swapped around a call with a side effect: once one job of a fork is found queued locally the remaining already-submitted jobs are not re-counted against --maxjobs after a re-attach"),
 'C13e': ("martian/core/post_process.go moveOutDir", "object keys of the rewritten _outs quoted with strconv.Quote instead of JSON: a typed-map key with a control character gives invalid JSON and the top-level _outs is not rewritten at all"),
 'C14e': ("martian/core/storage.go Fork.vdrKillSome", "children collapsed into a removed directory stay in the fork's file table: a later clean-up pass counts their size and number again in the kill reports"),
 'C15e': ("martian/core/runtime.go Runtime.reattachToPipestance", "the error return of the invocation comparison is guarded by !readOnly together with the unlock: mrp --inspect attaches to a pipestance whose included sources changed semantically"),
 'C16e': ("martian/core/runtime.go BuildCallAst", "DecId set to the call's name instead of the callable's: the per-fork _invocation of an aliased call (call SCALE as RESCALE) reads 'call RESCALE(...)' and does not compile"),
 'C17e': ("martian/syntax/builtin_types.go BuiltinType.IsAssignableFrom", "lost parentheses in the string -> file/path coercion: a path destination accepts every builtin source, component-wise through arrays, maps and structs"),
 'C18e': ("martian/core/jobmanager_remote.go RemoteJobManager.sendJob", "CR LF pairs in the finished job script are normalised to LF: a value containing \\r\\n reaches the job one byte short"),
 'C19e': ("martian/syntax/refactoring/rename_input_param.go renameSelfInputInCalls", "the binding loop stops at the wildcard entry before looking at it: renaming a pipeline input leaves '* = self.<input>' with the old name and the files no longer compile"),
 'C01f': ("martian/syntax/collection_types.go ArrayType.FilterJson", "the 'changed' flag of the multi-dimensional branch is assigned per row: when the last row of a WIDE[][] value is empty or null the filtered earlier rows are dropped and the unfiltered original (extra struct members and all) is handed on"),
 'C02f': ("martian/core/pipestance.go Pipestance.RestoreForks", "iterates the (still empty) frontier instead of all nodes: after a re-attach run-time forks are not restored, a mapped call counts as complete with its first fork and its consumers start early"),
 'C03f': ("martian/core/fork.go Fork.expandForkFromObj", "the copy-on-write of the shared part is dropped in the empty-array branch: an outer element with an empty inner collection marks the part shared with later outer forks as empty, whose jobs are silently skipped"),
 'C04f': ("martian/core/node.go Node.makePrenodesForBinding", "only file / directory kinds count as file arguments: outputs of type string or map that carry paths are no longer kept alive for their consumers and are removed by strict VDR at once"),
 'C05f': ("martian/util/signal.go sigHandler.notify", "De Morgan slip: SIGHUP is never subscribed to, a hang-up kills mrp by the default disposition and _lock stays behind"),
 'C06f': ("martian/core/jobdef.go JobResources.updateFromLazyArgs", "one error variable for three keys, tested after the loop: an ill-typed __threads followed by a valid __mem_gb in _stage_defs is accepted and mrp reports success"),
 'C11f': ("martian/core/stage.go encodeJournalName", "'%' is no longer escaped in journal names: nested forks (a, b/fork_c) and (a/fork_b, c) share one journal name and one of them never sees its completion"),
 'C12f': ("martian/core/maxjobs_semaphore.go MaxJobsSemaphore.Acquire", "the wake-up is only passed on by a successful Acquire: when the oldest waiter was cancelled the next one sleeps on with a free slot"),
 'C13f': ("martian/syntax/compile_types.go StructMember.compile", "a struct whose string / map member precedes its first file member stays 'may contain paths': its files are not materialised under outs/"),
 'C14f': ("martian/core/override.go PipestanceOverrides.GetForceVolatile", "the lookup stops at the closest enclosing name that has any override entry: a resource-only entry hides the force_volatile inherited from an enclosing pipeline"),
}
matrix = collections.defaultdict(list)
mp = os.path.join(ROOT, 'matrix.jsonl')
if os.path.exists(mp):
    for l in open(mp):
        r = json.loads(l); matrix[r['mutant']].append(r)
rows = []
for mid in sorted(CHANGE):
    d = os.path.join(ROOT, mid)
    notes = open(os.path.join(d, 'notes.md')).read()
    m = re.search(r'^##[^\n]*(needed|needs)[^\n]*\n(.*?)(?=^## |\Z)', notes, re.S | re.M | re.I)
    needs = re.sub(r'\s+\n', '\n', m.group(2)).strip() if m else ''
    caught = {}
    for r in matrix.get(mid, []):
        caught.setdefault(r['check'], {})[str(r['seed'])] = {'violation_lines': r['violation_lines'], 'signatures': r['signatures'][:6]}
    site, what = CHANGE[mid]
    meta = {
        'id': mid, 'property': mid[:3], 'site': site, 'breaks': what,
        'needs_to_manifest': needs,
        'origin': 'written by a fresh sub-agent that saw only the property text and a scratch worktree of /repo (nothing from /verif)',
        'verified': {
            'how': 'tools/verify_mutant.sh <agent dir> %s in a fresh worktree of /repo (never committed to /repo)' % mid,
            'compiles': True, 'pinned_suite_passes': True,
            'demo': 'demo/run.sh <tree>: non-zero on the patched tree, 0 on the clean tree',
        },
        'checked_with': 'tools/run_on_mutant.sh %s <Cxx> <seeds> (scratch worktree + VERIF_REPO, quick tier)' % mid,
        'caught_by': caught,
    }
    json.dump(meta, open(os.path.join(d, 'meta.json'), 'w'), indent=1)
    for chk in sorted(caught):
        seeds = caught[chk]
        hit = [s for s in sorted(seeds) if seeds[s]['violation_lines'] > 0]
        sigs = sorted({x for s in seeds.values() for x in s['signatures']})
        rows.append((mid, chk, '%d/%d' % (len(hit), len(seeds)), ', '.join(sigs[:3]), what))
with open(os.path.join(ROOT, 'README.md'), 'w') as f:
    f.write('# Seeded breaking changes\n\nGenerated by tools/mkmeta.py from matrix.jsonl (tools/mutant_matrix.sh, quick tier, VERIF_SEED as listed).\n\n')
    f.write('| change | check | seeds caught | signatures (first 3) | what it breaks |\n|---|---|---|---|---|\n')
    for r in rows:
        f.write('| %s | %s | %s | `%s` | %s |\n' % r)
