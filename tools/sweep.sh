#!/bin/bash
# sweep.sh <tier> <seed>...   runs every registered check at each seed, keeps the committed evidence files,
# prints one summary line per (check, seed) plus any VIOLATION / INCONCLUSIVE lines.
TIER=$1; shift
cd /verif
mkdir -p /tmp/sweep
for s in "$@"; do
  for p in ${PROPS:-C01 C02 C03 C04 C05 C06 C07 C08 C09 C10 C11 C12 C13 C14 C15 C16 C17 C18 C19}; do
    VERIF_EVIDENCE_DIR=/tmp/sweep/ev-$TIER-$s VERIF_SEED=$s ./vcheck $p --tier $TIER > /tmp/sweep/$p-$TIER-$s.log 2>&1; rc=$?
    echo "seed=$s rc=$rc $(grep -a "^$p tier" /tmp/sweep/$p-$TIER-$s.log)"
    grep -a -A2 "^VIOLATION\|^INCONCLUSIVE" /tmp/sweep/$p-$TIER-$s.log | grep -a "VIOLATION\|INCONCLUSIVE\|signature" | head -6
  done
done
