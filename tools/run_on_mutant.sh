#!/bin/bash
# run_on_mutant.sh <seed_id> <Cxx> [seed ...]   runs the property's quick check against the seeded change
ID=$1; P=$2; shift 2
SEEDS="${@:-20260924}"
W=/tmp/mv/run-$ID-$$
mkdir -p /tmp/mv
git -C /repo worktree add -q --detach $W HEAD || exit 2
cleanup() { git -C /repo worktree remove --force $W 2>/dev/null; rm -rf $W; }
trap cleanup EXIT
git -C $W apply /verif/seeded/$ID/patch.diff || { echo "patch does not apply"; exit 2; }
cd /verif
for s in $SEEDS; do
  # evidence of mutant runs must not overwrite real evidence
  VERIF_EVIDENCE_DIR=/tmp/mv/ev-$ID VERIF_REPO=$W VERIF_SEED=$s VERIF_TIER=${TIER:-quick} ./vcheck $P > /tmp/mv/out-$ID-$P-$s.log 2>&1; rc=$?
  echo "mutant=$ID check=$P seed=$s exit=$rc $(grep -c '^VIOLATION' /tmp/mv/out-$ID-$P-$s.log) violation line(s)"
  grep -A2 '^VIOLATION' /tmp/mv/out-$ID-$P-$s.log | grep 'signature\|what' | head -4
  tail -1 /tmp/mv/out-$ID-$P-$s.log
done
# drop the mutant's build dir
B=$(ls -1dt /verif/build/*/ | head -1)
