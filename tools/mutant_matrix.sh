#!/bin/bash
# mutant_matrix.sh [seeds...]  -- runs every seeded change against its property's quick check
# (scratch worktree per change, never touching /repo's tree) and records which signatures fired.
SEEDS="${@:-1 2 3}"
OUT=${OUT:-/verif/seeded/matrix.jsonl}
: > $OUT.tmp
for d in /verif/seeded/C*/; do
  id=$(basename $d); P=${id:0:3}
  [ -n "$ONLY" ] && ! echo "$id" | grep -Eq "$ONLY" && continue
  extra=""
  [ -f $d/also_checks ] && extra=$(cat $d/also_checks)
  for chk in $P $extra; do
    /verif/tools/run_on_mutant.sh $id $chk $SEEDS > /tmp/mv/matrix-$id-$chk.txt 2>&1
    for s in $SEEDS; do
      f=/tmp/mv/out-$id-$chk-$s.log
      sigs=$(grep -a 'signature:' $f | sed 's/.*signature: //' | sort -u | jq -R . | jq -sc .)
      nviol=$(grep -ac '^VIOLATION' $f 2>/dev/null); nviol=${nviol:-0}
      echo "{\"mutant\":\"$id\",\"check\":\"$chk\",\"seed\":$s,\"violation_lines\":$nviol,\"signatures\":$sigs}" >> $OUT.tmp
    done
  done
done
mv $OUT.tmp $OUT
